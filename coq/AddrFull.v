(* Spike: complete model of modules/iauth_misc.c (ntop as repaired by D2/D20; pton with the IPv4 helper, prefix
   lengths, wild cards and allow_trailing; check_mask).  Transcribed from notes/proto_addr.py. *)
From Coq Require Import List NArith Bool Strings.Byte Lia.
Import ListNotations.
Local Open Scope N_scope.

Definition str := list byte.
Definition nb (b : byte) : N := Byte.to_N b.
Definition isch (b : byte) (n : N) : bool := nb b =? n.
Definition isspace (b : byte) : bool := ((9 <=? nb b) && (nb b <=? 13)) || (nb b =? 32).
Definition isdigit (b : byte) : bool := (48 <=? nb b) && (nb b <=? 57).
Definition hexv (b : byte) : option N :=
  if isdigit b then Some (nb b - 48) else if (97 <=? nb b) && (nb b <=? 102) then Some (nb b - 87)
  else if (65 <=? nb b) && (nb b <=? 70) then Some (nb b - 55) else None.
Definition byte_of (n : N) : byte := match Byte.of_N n with Some b => b | None => x30 end.
Definition hexdigit (n : N) : byte := byte_of (if n <? 10 then 48 + n else 87 + n).

Definition groups := list N.   (* 8 values < 65536 *)
Definition g (gs : groups) (i : nat) : N := nth i gs 0.

(* ---------- ntop ---------- *)
Fixpoint decs (fuel : nat) (n : N) (acc : str) : str :=
  match fuel with O => acc | S f => let acc' := byte_of (48 + n mod 10) :: acc in if n / 10 =? 0 then acc' else decs f (n / 10) acc' end.
Definition dec (n : N) : str := decs 12 n [].
Definition hexstr (p : N) : str :=
  (if 0x1000 <=? p then [hexdigit (p / 4096)] else []) ++
  (if 0x100 <=? p then [hexdigit ((p / 256) mod 16)] else []) ++
  (if 0x10 <=? p then [hexdigit ((p / 16) mod 16)] else []) ++ [hexdigit (p mod 16)].
Definition is_ipv4 (gs : groups) : bool :=
  (g gs 0 =? 0) && (g gs 1 =? 0) && (g gs 2 =? 0) && (g gs 3 =? 0) && (g gs 4 =? 0) && negb (g gs 6 =? 0) && ((g gs 5 =? 0) || (g gs 5 =? 65535)).
Fixpoint scan (gs : groups) (ii ms mz cz : nat) : nat * nat :=
  match gs with
  | [] => if Nat.ltb mz cz then (ii - cz, cz)%nat else (ms, mz)
  | x :: r => if x =? 0 then scan r (S ii) ms mz (S cz)
              else if Nat.ltb mz cz then scan r (S ii) (ii - cz)%nat cz 0%nat else scan r (S ii) ms mz 0%nat
  end.
Definition colon := x3a. Definition dot := x2e.
Fixpoint pr (gs : groups) (ii s z skip : nat) : str :=
  match gs with
  | [] => []
  | x :: r =>
    match skip with
    | S k => pr r (S ii) s z k
    | O => if (Nat.ltb 1 z) && (Nat.eqb ii s) then (if Nat.eqb ii 0 then [x30; colon] else []) ++ [colon] ++ pr r (S ii) s z (z - 1)
           else hexstr x ++ (if Nat.ltb ii 7 then [colon] else []) ++ pr r (S ii) s z 0
    end
  end.
Definition ntop (gs : groups) : str :=
  if is_ipv4 gs then
    dec (g gs 6 / 256) ++ [dot] ++ dec (g gs 6 mod 256) ++ [dot] ++ dec (g gs 7 / 256) ++ [dot] ++ dec (g gs 7 mod 256)
  else let (s, z) := scan gs 0 0 0 0 in pr gs 0 s z 0.

(* ---------- IPv4 helper ---------- *)
(* result: None = reject; Some (consumed, ip or None when a shift count went negative, bits if requested) *)
Definition u32 (n : N) : N := n mod 4294967296.
Definition shl (part : N) (dots : nat) : option N :=
  match dots with 0%nat => Some (u32 (part * 16777216)) | 1%nat => Some (u32 (part * 65536)) | 2%nat => Some (u32 (part * 256)) | 3%nat => Some (u32 part) | _ => None end.
Definition lor_opt (ip : option N) (x : option N) : option N := match ip, x with Some a, Some b => Some (N.lor a b) | _, _ => None end.
Definition hdis (s : str) (n : N) : bool := match s with c :: _ => isch c n | [] => false end.
Fixpoint skip_stars (s : str) : str * nat := match s with c :: r => if isch c 42 then let (a, n) := skip_stars r in (a, S n) else (s, 0%nat) | [] => ([], 0%nat) end.
Fixpoint read_dec (s : str) (acc : N) : N * str * nat :=
  match s with c :: r => if isdigit c then let '(v, rest, n) := read_dec r (u32 (acc * 10 + (nb c - 48))) in (v, rest, S n) else (acc, s, 0%nat) | [] => (acc, [], 0%nat) end.

Fixpoint ip4 (fuel : nat) (s : str) (usebits trailing : bool) (dots pos : nat) (part : N) (ip : option N) : option (nat * option N * option N) :=
  match fuel with O => None | S f =>
  match s with
  | c :: r =>
    if isch c 46 then
      if hdis r 46 then None else
      let ip' := lor_opt ip (shl part dots) in
      if hdis r 42 then
        let '(rest, n) := skip_stars r in
        match rest with _ :: _ => None | [] => Some ((pos + 1 + n)%nat, ip', if usebits then Some (N.of_nat (S dots) * 8) else None) end
      else ip4 f r usebits trailing (S dots) (S pos) 0 ip'
    else if isch c 47 then
      if negb usebits && trailing then Some (pos, lor_opt ip (shl part dots), None)
      else if negb usebits || negb (match r with d :: _ => isdigit d | [] => false end) then None
      else let '(b, _, n) := read_dec r 0 in
           if 32 <? b then None else Some ((pos + 1 + n)%nat, lor_opt ip (shl part dots), Some b)
    else if isdigit c then
      let p := part * 10 + (nb c - 48) in if 255 <? p then None else ip4 f r usebits trailing dots (S pos) p ip
    else if Nat.ltb dots 3 then None else Some (pos, lor_opt ip (shl part dots), if usebits then Some 32 else None)
  | [] => if Nat.ltb dots 3 then None else Some (pos, lor_opt ip (shl part dots), if usebits then Some 32 else None)
  end end.
Definition pton_ip4 (s : str) (usebits trailing : bool) : option (nat * option N * option N) :=
  if hdis s 46 then None else ip4 (S (length s)) s usebits trailing 0 0 0 (Some 0).

(* ---------- pton ---------- *)
Inductive pres := Unspec | Res (ret : nat) (bits : option N) (gs : groups).
Fixpoint has (s : str) (n : N) : option nat := match s with [] => None | c :: r => if isch c n then Some 0%nat else match has r n with Some k => Some (S k) | None => None end end.
Definition setg (gs : groups) (i : nat) (v : N) : groups := firstn i gs ++ [v] ++ skipn (S i) gs.
Definition zeros := repeat 0 8.
Definition fixup (gs : groups) (ii cpos : nat) : groups :=
  if Nat.ltb cpos 8 then firstn cpos gs ++ repeat 0 (8 - ii) ++ firstn (ii - cpos) (skipn cpos gs) else gs.

(* state: remaining input, pos, part, ii, cpos, ps_rest (text at part_start), ps_pos, groups *)
Fixpoint v6 (fuel : nat) (s : str) (pos : nat) (usebits trailing : bool) (part : N) (ii cpos : nat) (ps : str) (pspos : nat) (gs : groups) (bits : option N)
  : pres :=
  match fuel with O => Unspec | S f =>
  let finish (gs : groups) (ii : nat) (rest : str) (pos : nat) (bits : option N) : pres :=
    let gs' := fixup gs ii cpos in
    match rest with _ :: _ => if trailing then Res pos bits gs' else Res 0 bits gs' | [] => Res pos bits gs' end in
  if Nat.leb 8 ii then
    (* all eight groups ended with ':' (as in "1:2:3:4:5:6:7::"): a prefix length may still follow *)
    match s with
    | c :: r =>
      if usebits && isch c 47 && (match r with d :: _ => isdigit d | [] => false end) then
        let '(b, rest, n) := read_dec r 0 in
        if 128 <? b then Res 0 bits gs else finish gs ii rest (pos + 1 + n)%nat (Some b)
      else finish gs ii s pos (if usebits then Some 128 else bits)
    | [] => finish gs ii s pos (if usebits then Some 128 else bits)
    end
  else
  match s with
  | [] => let gs' := setg gs ii part in
          if Nat.eqb cpos 8 && Nat.ltb (S ii) 8 then Res 0 bits gs' else finish gs' (S ii) s pos (if usebits then Some 128 else bits)
  | c :: r =>
    match hexv c with
    | Some v => let p := part * 16 + v in if 65535 <? p then Res 0 bits gs else v6 f r (S pos) usebits trailing p ii cpos ps pspos gs bits
    | None =>
      if isch c 58 then
        if hdis r 46 then Res 0 bits gs else
        let gs' := setg gs ii part in
        if hdis r 58 then (if Nat.ltb cpos 8 then Res 0 bits gs' else v6 f r (S pos) usebits trailing 0 (S ii) (S ii) r (S pos) gs' bits)
        else v6 f r (S pos) usebits trailing 0 (S ii) cpos r (S pos) gs' bits
      else if isch c 46 then
        match pton_ip4 ps usebits trailing with
        | None | Some (O, _, _) => Res 0 bits gs
        | Some (ln, ipo, b4) =>
          if Nat.ltb 6 ii then Res 0 (match b4 with Some b => Some b | None => bits end) gs else
          match ipo with
          | None => Unspec
          | Some ipv =>
            let gs' := setg (setg gs ii (ipv / 65536)) (S ii) (ipv mod 65536) in
            let bits' := if usebits then match b4 with Some b => Some (b + 96) | None => bits end else bits in
            finish gs' (S (S ii)) (skipn ln ps) (pspos + ln)%nat bits'
          end
        end
      else if isch c 47 then
        let gs' := setg gs ii part in
        if negb usebits || negb (match r with d :: _ => isdigit d | [] => false end) then
          (if trailing then finish gs' (S ii) s pos bits else Res 0 bits gs')
        else let '(b, rest, n) := read_dec r 0 in
             if 128 <? b then Res 0 bits gs' else finish gs' (S ii) rest (pos + 1 + n)%nat (Some b)
      else if isch c 42 then
        let '(rest, n) := skip_stars s in
        match rest with
        | _ :: _ => Res 0 bits gs
        | [] => if Nat.ltb cpos 8 then Res 0 bits gs else Res (pos + n)%nat (if usebits then Some (N.of_nat ii * 16) else bits) gs
        end
      else
        let gs' := setg gs ii part in
        if Nat.eqb cpos 8 && Nat.ltb (S ii) 8 then Res 0 bits gs' else finish gs' (S ii) s pos (if usebits then Some 128 else bits)
    end
  end end.

Fixpoint skipws (s : str) : str * nat := match s with c :: r => if isspace c then let (a, n) := skipws r in (a, S n) else (s, 0%nat) | [] => ([], 0%nat) end.

Definition pton (input : str) (usebits trailing : bool) : pres :=
  let '(s, pos) := skipws input in
  let colonp := has input 58 in let dotp := has input 46 in
  let v6branch := match colonp, dotp with Some c, Some d => Nat.ltb c d | Some _, None => true | None, _ => false end in
  let tailck (pos : nat) (rest : str) (bits : option N) (gs : groups) : pres :=
    match rest with _ :: _ => if trailing then Res pos bits gs else Res 0 bits gs | [] => Res pos bits gs end in
  if v6branch then
    if hdis s 58 then
      match s with
      | _ :: c2 :: r2 => if negb (isch c2 58) || hdis r2 58 then Res 0 None zeros
                         else v6 (S (S (length input))) r2 (pos + 2)%nat usebits trailing 0 0 0 r2 (pos + 2)%nat zeros None
      | _ => Res 0 None zeros
      end
    else v6 (S (S (length input))) s pos usebits trailing 0 0 8 [] 0%nat zeros None
  else match dotp with
  | Some _ =>
    match pton_ip4 s usebits trailing with
    | None | Some (O, _, _) => if Nat.ltb 0 pos then Unspec else tailck 0%nat s None zeros
    | Some (ln, ipo, b4) =>
      match ipo with
      | None => Unspec
      | Some ipv => tailck (pos + ln)%nat (skipn ln s)
                      (if usebits then match b4 with Some b => Some (b + 96) | None => None end else None)
                      (setg (setg (setg zeros 5 65535) 6 (ipv / 65536)) 7 (ipv mod 65536))
      end
    end
  | None =>
    if hdis s 42 then let '(rest, n) := skip_stars s in tailck (pos + n)%nat rest (if usebits then Some 0 else None) zeros
    else tailck pos s None zeros
  end.

(* ---------- check_mask ---------- *)
Fixpoint cm (a m : groups) (bits : N) : bool :=
  match a, m with
  | x :: a', y :: m' => if 16 <? bits then (x =? y) && cm a' m' (bits - 16)
                        else if 0 <? bits then N.shiftr (N.lxor x y) (16 - bits) =? 0 else true
  | _, _ => true
  end.
