From Coq Require Import List NArith Lia Bool Strings.Byte.
Import ListNotations.
Local Open Scope N_scope.

Definition str := list byte.
Definition groups := list N.

(* ---------- hex ---------- *)
Definition hexdigit (n : N) : byte :=
  match Byte.of_N (if n <? 10 then 48 + n else 87 + n) with Some b => b | None => x30 end.
Definition hexval (b : byte) : option N :=
  let n := Byte.to_N b in
  if (48 <=? n) && (n <=? 57) then Some (n - 48)
  else if (97 <=? n) && (n <=? 102) then Some (n - 87)
  else if (65 <=? n) && (n <=? 70) then Some (n - 55)
  else None.
(* irc_ntop's digit emission: up to 4 digits, no leading zeros *)
Definition hexstr (p : N) : str :=
  (if 0x1000 <=? p then [hexdigit (N.shiftr p 12)] else []) ++
  (if 0x100 <=? p then [hexdigit (N.land (N.shiftr p 8) 15)] else []) ++
  (if 0x10 <=? p then [hexdigit (N.land (N.shiftr p 4) 15)] else []) ++
  [hexdigit (N.land p 15)].

(* ---------- ntop (IPv6 part, with both repairs: reset on every nonzero, runs >= 2 only) ---------- *)
Fixpoint scan (gs : groups) (ii ms mz cz : nat) : nat * nat :=
  match gs with
  | [] => if Nat.ltb mz cz then (ii - cz, cz)%nat else (ms, mz)
  | g :: r => if g =? 0 then scan r (S ii) ms mz (S cz)
              else if Nat.ltb mz cz then scan r (S ii) (ii - cz)%nat cz 0%nat
              else scan r (S ii) ms mz 0%nat
  end.

Definition colon := x3a.
(* print groups from index ii; `skip` = number of groups still to skip *)
Fixpoint pr (gs : groups) (ii s z skip : nat) : str :=
  match gs with
  | [] => []
  | g :: r =>
    match skip with
    | S k => pr r (S ii) s z k
    | O =>
      if (Nat.ltb 1 z) && (Nat.eqb ii s) then
        (if Nat.eqb ii 0 then [x30; colon] else []) ++ [colon] ++ pr r (S ii) s z (z - 1)
      else hexstr g ++ (if Nat.ltb ii 7 then [colon] else []) ++ pr r (S ii) s z 0
    end
  end.
Definition ntop6 (gs : groups) : str := let (s, z) := scan gs 0 0 0 0 in pr gs 0 s z 0.

(* ---------- pton, IPv6 branch without '.', '/', '*' (bits = NULL, allow_trailing = 0) ---------- *)
Record pst := { part : N; ii : nat; cpos : nat; acc : list N }.
Inductive res := Fail | Done (s : pst) (rest : str).

Definition is (c : byte) (b : byte) : bool := Byte.eqb c b.
Definition hd_is (r : str) (b : byte) : bool := match r with c :: _ => Byte.eqb c b | [] => false end.

Fixpoint loop (fuel : nat) (s : pst) (inp : str) : res :=
  match fuel with O => Fail | S f =>
  if Nat.leb 8 (ii s) then Done s inp else
  match inp with
  | [] =>
      let s' := {| part := 0; ii := S (ii s); cpos := cpos s; acc := acc s ++ [part s] |} in
      if Nat.eqb (cpos s) 8 && Nat.ltb (ii s') 8 then Fail else Done s' inp
  | c :: r =>
    match hexval c with
    | Some v => let p := N.lor (N.shiftl (part s) 4) v in
                if 0xffff <? p then Fail else loop f {| part := p; ii := ii s; cpos := cpos s; acc := acc s |} r
    | None =>
      if is c colon then
        if hd_is r x2e then Fail else
          let s' := {| part := 0; ii := S (ii s); cpos := cpos s; acc := acc s ++ [part s] |} in
          if hd_is r colon then
            if Nat.ltb (cpos s) 8 then Fail
            else loop f {| part := 0; ii := ii s'; cpos := ii s'; acc := acc s' |} r
          else loop f s' r
      else
        let s' := {| part := 0; ii := S (ii s); cpos := cpos s; acc := acc s ++ [part s] |} in
        if Nat.eqb (cpos s) 8 && Nat.ltb (ii s') 8 then Fail else Done s' inp
    end
  end end.

Definition finish (s : pst) : groups :=
  if Nat.ltb (cpos s) 8 then firstn (cpos s) (acc s) ++ repeat 0 (8 - ii s) ++ skipn (cpos s) (acc s)
  else acc s.

Definition pton6 (inp : str) : option groups :=
  let start :=
    if hd_is inp colon then
      if hd_is (tl inp) colon then
        if hd_is (tl (tl inp)) colon then None
        else Some ({| part := 0; ii := 0; cpos := 0; acc := [] |}, tl (tl inp))
      else None
    else Some ({| part := 0; ii := 0; cpos := 8; acc := [] |}, inp) in
  match start with None => None | Some (s, r) =>
    match loop (S (length inp)) s r with
    | Done s' [] => Some (finish s')
    | _ => None
    end end.

