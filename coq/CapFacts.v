(* D27: the 32-slot limit of the per-client service masks.  Each request records the services it awaits in 32-bit masks
   indexed by slot, so iauth_xquery_config_service refuses a service that would need a slot of index >= 32 (an error is
   logged and the entry is ignored).  Here: the slot vector never grows beyond max_slots = 32 entries, an entry beyond the
   capacity changes nothing at all, and a fresh start on 33 services configures exactly the first 32. *)
From Coq Require Import List NArith ZArith Bool Strings.Byte Strings.String Lia Permutation.
Import ListNotations.
Require Import Params AddrFull Iauth ReloadEq.
Local Open Scope list_scope.

(* ---------- one configuration entry ---------- *)
Theorem config_service_capacity ss name ty :
  (List.length ss <= max_slots)%nat -> (List.length (config_service ss name ty) <= max_slots)%nat.
Proof.
  intros H. rewrite config_service_ensure, retype_length. unfold ensure.
  destruct (find_name ss name); [exact H|].
  destruct (free_index ss <? max_slots)%nat eqn:E; [|exact H]. apply Nat.ltb_lt in E.
  destruct (has_empty ss) eqn:He; [rewrite fill_empty_length; exact H|].
  rewrite (free_index_full ss He) in E. rewrite app_length. cbn [List.length]. lia.
Qed.

Lemma cfg_fold_capacity entries : forall ss,
  (List.length ss <= max_slots)%nat -> (List.length (cfg_fold entries ss) <= max_slots)%nat.
Proof.
  unfold cfg_fold. induction entries as [|e es IH]; intros ss H; cbn [fold_left]; [exact H|].
  apply IH. apply config_service_capacity. exact H.
Qed.

(* ---------- a reload, a fresh start ---------- *)
Theorem slots_never_exceed_capacity ss entries :
  (List.length ss <= max_slots)%nat -> (List.length (services_changed ss entries) <= max_slots)%nat.
Proof.
  intros H. unfold services_changed. rewrite map_length.
  apply (cfg_fold_capacity entries (map unconf ss)). rewrite map_length. exact H.
Qed.

Theorem init_capacity c services rs t : (List.length (slots (tb (init c services rs t))) <= max_slots)%nat.
Proof. cbn [init tb slots]. apply slots_never_exceed_capacity. cbn [List.length]. lia. Qed.

(* ---------- the steps of the protocol only rewrite entries in place (reference counts; an entry may be freed) ---------- *)
Lemma bump_length : forall ss slot target d, List.length (bump ss slot target d) = List.length ss.
Proof.
  induction ss as [|o rest IH]; intros slot target d; cbn [bump]; [reflexivity|].
  destruct (slot =? target)%N; [|cbn [List.length]; rewrite IH; reflexivity].
  destruct o as [sv|]; reflexivity.
Qed.

Lemma apply_effs_length efs : forall ss, List.length (apply_effs ss efs) = List.length ss.
Proof.
  unfold apply_effs. induction efs as [|e efs IH]; intros ss; cbn [fold_left]; [reflexivity|].
  rewrite IH. apply bump_length.
Qed.

Lemma finish_length s id res : List.length (slots (tb (fst (finish s id res)))) = List.length (slots (tb s)).
Proof.
  unfold finish. destruct res as [[ro outs] efs]. destruct ro; cbn [fst tb with_slots slots]; apply apply_effs_length.
Qed.

Theorem step_length c s id argv : List.length (slots (tb (fst (step c s id argv)))) = List.length (slots (tb s)).
Proof.
  unfold step. cbv zeta.
  repeat match goal with
         | |- List.length (slots (tb (fst (finish _ _ _)))) = _ => apply finish_length
         | |- List.length (slots (tb (fst (_, _)))) = _ => reflexivity
         | |- context [match ?x with _ => _ end] => destruct x
         end.
Qed.

Theorem step_ev_capacity c s e :
  (List.length (slots (tb s)) <= max_slots)%nat -> (List.length (slots (tb (fst (step_ev c s e)))) <= max_slots)%nat.
Proof.
  intros H. destruct e as [id argv|svs rs t]; cbn [step_ev].
  - rewrite step_length. exact H.
  - cbn [fst tb slots]. apply slots_never_exceed_capacity. exact H.
Qed.

(* the state after a sequence of events *)
Definition run_st (c : cfg) (s0 : st) (evs : list ev) : st := fold_left (fun s e => fst (step_ev c s e)) evs s0.

Lemma run_st_capacity c evs : forall s,
  (List.length (slots (tb s)) <= max_slots)%nat -> (List.length (slots (tb (run_st c s evs))) <= max_slots)%nat.
Proof.
  unfold run_st. induction evs as [|e evs IH]; intros s H; cbn [fold_left]; [exact H|].
  apply IH. apply step_ev_capacity. exact H.
Qed.

(* every state reachable from a start of the daemon has at most 32 slots: a slot index always fits the 32-bit masks *)
Theorem reachable_capacity c services rs t evs :
  (List.length (slots (tb (run_st c (init c services rs t) evs))) <= max_slots)%nat.
Proof. apply run_st_capacity. apply init_capacity. Qed.

(* ---------- an entry beyond the capacity is ignored completely ---------- *)
Lemma retype_absent ss name ty : find_name ss name = false -> retype ss name ty = ss.
Proof.
  induction ss as [|[x|] r IH]; cbn [find_name retype]; intros H; [reflexivity| |rewrite (IH H); reflexivity].
  apply orb_false_iff in H as [H1 H2]. rewrite H1, (IH H2). reflexivity.
Qed.

Theorem service_beyond_capacity_is_ignored ss name ty :
  find_name ss name = false -> (max_slots <= free_index ss)%nat -> config_service ss name ty = ss.
Proof.
  intros Hf Hcap. unfold config_service. rewrite Hf.
  assert ((free_index ss <? max_slots)%nat = false) as E by (apply Nat.ltb_ge; exact Hcap).
  rewrite E. apply retype_absent. exact Hf.
Qed.

(* in particular a full vector of 32 live entries takes no new name *)
Corollary full_vector_takes_no_new_service ss name ty :
  find_name ss name = false -> has_empty ss = false -> List.length ss = max_slots -> config_service ss name ty = ss.
Proof.
  intros Hf He Hl. apply service_beyond_capacity_is_ignored; [exact Hf|]. rewrite (free_index_full ss He). lia.
Qed.

(* ---------- thirty-three services ---------- *)
(* names "Aa", "Ab", ..., "Az", "Ba", ... *)
Definition svc_name (k : N) : str := [byte_of (65 + k / 26)%N; byte_of (97 + k mod 26)%N].
Definition many (n : nat) : list (str * str) := map (fun k => (svc_name (N.of_nat k), S_ "login")) (seq 0 n).

Fixpoint memb (x : str) (l : list str) : bool := match l with [] => false | y :: r => seq_eq y x || memb x r end.
Fixpoint nodupb (l : list str) : bool := match l with [] => true | x :: r => negb (memb x r) && nodupb r end.

Lemma memb_In x l : In x l -> memb x l = true.
Proof.
  induction l as [|y r IH]; cbn [In memb]; [tauto|]. intros [E|H]; [subst y; rewrite (proj2 (seq_eq_eq x x) eq_refl); reflexivity|].
  rewrite (IH H). apply orb_true_r.
Qed.

Lemma nodupb_NoDup l : nodupb l = true -> NoDup l.
Proof.
  induction l as [|x r IH]; cbn [nodupb]; intros H; [constructor|]. apply andb_true_iff in H as [H1 H2].
  constructor; [|exact (IH H2)]. intros Hin. rewrite (memb_In x r Hin) in H1. discriminate H1.
Qed.

(* a freshly started daemon whose file names 33 distinct login services configures exactly 32 slots: the first 32 entries
   in file order; the 33rd is ignored (so the exactness statements of ReloadEq need their capacity hypothesis) *)
Example thirty_three_services :
  NoDup (map fst (many 33)) /\ List.length (spec (many 33)) = 33%nat /\
  List.length (services_changed [] (many 33)) = 32%nat /\
  view (services_changed [] (many 33)) = spec (many 32) /\
  view (services_changed [] (many 33)) <> spec (many 33).
Proof.
  split; [apply nodupb_NoDup; vm_compute; reflexivity|].
  split; [vm_compute; reflexivity|]. split; [vm_compute; reflexivity|]. split; [vm_compute; reflexivity|].
  intros H. apply (f_equal (@List.length _)) in H. vm_compute in H. discriminate H.
Qed.
