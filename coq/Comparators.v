(* The stock comparators of src/set.c are total preorders over their whole key domain, so the generic theorems of
   SetGen.v apply to each of them; the old integer comparator (wrapped difference) is not. *)
From Coq Require Import List ZArith NArith Bool Lia Permutation.
From Coq Require Import Strings.Byte.
Import ListNotations.
Require Import Splay SplayRoot SetGen.
Local Open Scope Z_scope.

(* what the generic development asks of a comparator *)
Record total_preorder {K : Type} (cmp : K -> K -> Z) : Prop := {
  tp_anti : forall a b, cmp a b > 0 <-> cmp b a < 0;
  tp_trans : forall a b c, cmp a b < 0 -> cmp b c < 0 -> cmp a c < 0;
  tp_eq_lt : forall a b c, cmp a b = 0 -> cmp b c < 0 -> cmp a c < 0;
  tp_lt_eq : forall a b c, cmp a b < 0 -> cmp b c = 0 -> cmp a c < 0 }.

(* the generic results, packaged for any total preorder *)
Section Packaged.
Variables (K : Type) (cmp : K -> K -> Z) (TP : total_preorder cmp).
Theorem tp_run_refines_sorted_map : forall ops, map (obs K) (run K cmp ops) = spec_run K cmp ops.
Proof. destruct TP. apply run_refines_sorted_map; assumption. Qed.
Theorem tp_run_inv : forall ops, Inv K cmp (fst (fst (run_from K cmp (init K) ops))).
Proof. destruct TP. apply run_inv; assumption. Qed.
Theorem tp_dispose_exactly_once : forall ops,
  let acct := disposals K (run K cmp ops) ++ chain K (fst (fst (run_from K cmp (init K) ops))) ++ released K cmp ops in
  Permutation (inserted K ops) acct /\ NoDup (map snd acct).
Proof. destruct TP. apply dispose_exactly_once; assumption. Qed.
End Packaged.

(* ================= set_compare_int: (a > b) - (a < b) on the pointed-to ints ================= *)
Definition cmp_int (a b : Z) : Z := (if a >? b then 1 else 0) - (if a <? b then 1 else 0).

Lemma cmp_int_spec a b : (a < b /\ cmp_int a b = -1) \/ (a = b /\ cmp_int a b = 0) \/ (b < a /\ cmp_int a b = 1).
Proof.
  unfold cmp_int. rewrite Z.gtb_ltb. destruct (Z.ltb_spec b a), (Z.ltb_spec a b); lia.
Qed.
Lemma cmp_int_lt a b : cmp_int a b < 0 <-> a < b. Proof. destruct (cmp_int_spec a b); lia. Qed.
Lemma cmp_int_gt a b : cmp_int a b > 0 <-> b < a. Proof. destruct (cmp_int_spec a b); lia. Qed.
Lemma cmp_int_eq a b : cmp_int a b = 0 <-> a = b. Proof. destruct (cmp_int_spec a b); lia. Qed.
Lemma cmp_int_range a b : cmp_int a b = -1 \/ cmp_int a b = 0 \/ cmp_int a b = 1.
Proof. destruct (cmp_int_spec a b); lia. Qed.

Theorem cmp_int_total_preorder : total_preorder cmp_int.
Proof.
  split; intros *; rewrite ?cmp_int_lt, ?cmp_int_gt, ?cmp_int_eq; lia.
Qed.
(* it is even a total order: equivalent keys are equal *)
Theorem cmp_int_antisym a b : cmp_int a b = 0 -> a = b.
Proof. apply cmp_int_eq. Qed.

(* the comparator as a function on C ints: the operands are never subtracted, so the result is exact on the whole range *)
Definition in32 (x : Z) : Prop := -2147483648 <= x <= 2147483647.
Corollary cmp_int_on_int32 a b : in32 a -> in32 b ->
  (cmp_int a b < 0 <-> a < b) /\ (cmp_int a b = 0 <-> a = b) /\ (cmp_int a b > 0 <-> a > b).
Proof. intros _ _. rewrite cmp_int_lt, cmp_int_eq, cmp_int_gt. lia. Qed.

(* ---------- the old definition: a - b in 32-bit two's complement ---------- *)
Definition wrap32 (x : Z) : Z := (x + 2147483648) mod 4294967296 - 2147483648.
Definition old_cmp_int (a b : Z) : Z := wrap32 (a - b).

Lemma wrap32_id x : in32 x -> wrap32 x = x.
Proof. intros H. unfold wrap32, in32 in *. rewrite Z.mod_small; lia. Qed.

(* INT_MAX "<" -2 "<" 0 but not INT_MAX "<" 0 *)
Example old_cmp_int_refuted : exists a b c, in32 a /\ in32 b /\ in32 c /\
  old_cmp_int a b < 0 /\ old_cmp_int b c < 0 /\ ~ old_cmp_int a c < 0.
Proof.
  exists 2147483647, (-2), 0. unfold in32.
  assert (old_cmp_int 2147483647 (-2) = -2147483647) as -> by (vm_compute; reflexivity).
  assert (old_cmp_int (-2) 0 = -2) as -> by (vm_compute; reflexivity).
  assert (old_cmp_int 2147483647 0 = 2147483647) as -> by (vm_compute; reflexivity).
  lia.
Qed.
(* INT_MIN is "smaller" than 0 and 0 is "smaller" than INT_MIN *)
Example old_cmp_int_refuted_anti : exists a b, in32 a /\ in32 b /\ old_cmp_int b a < 0 /\ ~ old_cmp_int a b > 0.
Proof.
  exists (-2147483648), 0. unfold in32.
  assert (old_cmp_int 0 (-2147483648) = -2147483648) as -> by (vm_compute; reflexivity).
  assert (old_cmp_int (-2147483648) 0 = -2147483648) as -> by (vm_compute; reflexivity).
  lia.
Qed.
Theorem old_cmp_int_not_total_preorder : ~ total_preorder old_cmp_int.
Proof.
  intros [_ T _ _]. destruct old_cmp_int_refuted as (a & b & c & _ & _ & _ & H1 & H2 & H3).
  apply H3. exact (T a b c H1 H2).
Qed.
(* where no wrap occurs the two agree in sign: the defect is confined to operands further apart than INT_MAX *)
Lemma old_cmp_int_agrees a b : in32 (a - b) ->
  (old_cmp_int a b < 0 <-> cmp_int a b < 0) /\ (old_cmp_int a b = 0 <-> cmp_int a b = 0).
Proof. intros H. unfold old_cmp_int. rewrite (wrap32_id _ H), cmp_int_lt, cmp_int_eq. lia. Qed.

(* ================= set_compare_voidp / set_compare_ptr: (a > b) ? 1 : (a == b) ? 0 : -1 ================= *)
(* pointers as numbers; a > b is written b <? a (N has no gtb) *)
Definition cmp_ptr (a b : N) : Z := if (b <? a)%N then 1 else if (a =? b)%N then 0 else -1.

Lemma cmp_ptr_spec a b :
  ((a < b)%N /\ cmp_ptr a b = -1) \/ (a = b /\ cmp_ptr a b = 0) \/ ((b < a)%N /\ cmp_ptr a b = 1).
Proof. unfold cmp_ptr. destruct (N.ltb_spec b a), (N.eqb_spec a b); lia. Qed.
Lemma cmp_ptr_lt a b : cmp_ptr a b < 0 <-> (a < b)%N. Proof. destruct (cmp_ptr_spec a b); lia. Qed.
Lemma cmp_ptr_gt a b : cmp_ptr a b > 0 <-> (b < a)%N. Proof. destruct (cmp_ptr_spec a b); lia. Qed.
Lemma cmp_ptr_eq a b : cmp_ptr a b = 0 <-> a = b. Proof. destruct (cmp_ptr_spec a b); lia. Qed.

Theorem cmp_ptr_total_preorder : total_preorder cmp_ptr.
Proof.
  split; intros *; rewrite ?cmp_ptr_lt, ?cmp_ptr_gt, ?cmp_ptr_eq; lia.
Qed.

(* ================= set_compare_charp: strcasecmp ================= *)
(* tolower in the C locale on the unsigned byte value *)
Definition lowerN (n : N) : N := if ((65 <=? n) && (n <=? 90))%N then (n + 32)%N else n.
Definition lc (b : byte) : N := lowerN (Byte.to_N b).

(* keys are the string contents (the bytes before the terminating NUL) *)
Fixpoint cmp_ci (a b : list byte) : Z :=
  match a, b with
  | [], [] => 0
  | [], _ :: _ => -1
  | _ :: _, [] => 1
  | x :: a', y :: b' => if (lc x <? lc y)%N then -1 else if (lc y <? lc x)%N then 1 else cmp_ci a' b'
  end.

(* lexicographic order on lists of numbers *)
Fixpoint lexN (a b : list N) : Z :=
  match a, b with
  | [], [] => 0
  | [], _ :: _ => -1
  | _ :: _, [] => 1
  | x :: a', y :: b' => if (x <? y)%N then -1 else if (y <? x)%N then 1 else lexN a' b'
  end.

Lemma cmp_ci_lex a : forall b, cmp_ci a b = lexN (map lc a) (map lc b).
Proof.
  induction a as [|x a IH]; intros [|y b]; cbn [cmp_ci map lexN]; try reflexivity.
  rewrite IH. reflexivity.
Qed.

Lemma lexN_range a : forall b, lexN a b = -1 \/ lexN a b = 0 \/ lexN a b = 1.
Proof.
  induction a as [|x a IH]; intros [|y b]; cbn [lexN]; try lia.
  destruct (x <? y)%N; [lia|]. destruct (y <? x)%N; [lia|]. apply IH.
Qed.
Lemma lexN_anti a : forall b, lexN a b > 0 <-> lexN b a < 0.
Proof.
  induction a as [|x a IH]; intros [|y b]; cbn [lexN]; try lia.
  destruct (N.ltb_spec x y), (N.ltb_spec y x); try lia. apply IH.
Qed.
Lemma lexN_eq a : forall b, lexN a b = 0 -> a = b.
Proof.
  induction a as [|x a IH]; intros [|y b]; cbn [lexN]; try lia; try reflexivity.
  destruct (N.ltb_spec x y), (N.ltb_spec y x); try lia. intros E. f_equal; [lia|apply IH; exact E].
Qed.
Lemma lexN_refl a : lexN a a = 0.
Proof. induction a as [|x a IH]; cbn [lexN]; [reflexivity|]. rewrite N.ltb_irrefl. exact IH. Qed.
Lemma lexN_trans a : forall b c, lexN a b < 0 -> lexN b c < 0 -> lexN a c < 0.
Proof.
  induction a as [|x a IH]; intros [|y b] [|z c]; cbn [lexN]; try lia.
  destruct (N.ltb_spec x y), (N.ltb_spec y x), (N.ltb_spec y z), (N.ltb_spec z y), (N.ltb_spec x z), (N.ltb_spec z x);
    try lia.
  apply IH.
Qed.

Lemma cmp_ci_range a b : cmp_ci a b = -1 \/ cmp_ci a b = 0 \/ cmp_ci a b = 1.
Proof. rewrite cmp_ci_lex. apply lexN_range. Qed.
(* equivalence for strcasecmp = equal after case folding *)
Lemma cmp_ci_eq a b : cmp_ci a b = 0 <-> map lc a = map lc b.
Proof. rewrite cmp_ci_lex. split; [apply lexN_eq|intros ->; apply lexN_refl]. Qed.

Theorem cmp_ci_total_preorder : total_preorder cmp_ci.
Proof.
  split; intros *; rewrite !cmp_ci_lex.
  - apply lexN_anti.
  - apply lexN_trans.
  - intros H. apply lexN_eq in H. rewrite H. exact (fun x => x).
  - intros H1 H2. apply lexN_eq in H2. rewrite <- H2. exact H1.
Qed.

(* a preorder, not an order: "A" and "a" are equivalent and different *)
Example cmp_ci_not_antisym : exists a b, cmp_ci a b = 0 /\ a <> b.
Proof. exists [x41], [x61]. split; [vm_compute; reflexivity|discriminate]. Qed.
(* only A..Z are folded: '@' (64) and '`' (96), '[' (91) and '{' (123) stay apart *)
Example cmp_ci_fold_bounds : cmp_ci [x40] [x60] < 0 /\ cmp_ci [x5b] [x7b] < 0 /\ cmp_ci [x5a] [x7a] = 0.
Proof. vm_compute. repeat split; intros; discriminate. Qed.

(* ================= the generic theorems for each stock comparator ================= *)
Theorem run_refines_sorted_map_int : forall ops, map (obs Z) (run Z cmp_int ops) = spec_run Z cmp_int ops.
Proof. exact (tp_run_refines_sorted_map Z cmp_int cmp_int_total_preorder). Qed.
Theorem run_refines_sorted_map_ptr : forall ops, map (obs N) (run N cmp_ptr ops) = spec_run N cmp_ptr ops.
Proof. exact (tp_run_refines_sorted_map N cmp_ptr cmp_ptr_total_preorder). Qed.
Theorem run_refines_sorted_map_ci : forall ops,
  map (obs (list byte)) (run (list byte) cmp_ci ops) = spec_run (list byte) cmp_ci ops.
Proof. exact (tp_run_refines_sorted_map (list byte) cmp_ci cmp_ci_total_preorder). Qed.

Theorem dispose_exactly_once_int : forall ops,
  let acct := disposals Z (run Z cmp_int ops) ++ chain Z (fst (fst (run_from Z cmp_int (init Z) ops))) ++ released Z cmp_int ops in
  Permutation (inserted Z ops) acct /\ NoDup (map snd acct).
Proof. exact (tp_dispose_exactly_once Z cmp_int cmp_int_total_preorder). Qed.
Theorem dispose_exactly_once_ptr : forall ops,
  let acct := disposals N (run N cmp_ptr ops) ++ chain N (fst (fst (run_from N cmp_ptr (init N) ops))) ++ released N cmp_ptr ops in
  Permutation (inserted N ops) acct /\ NoDup (map snd acct).
Proof. exact (tp_dispose_exactly_once N cmp_ptr cmp_ptr_total_preorder). Qed.
Theorem dispose_exactly_once_ci : forall ops,
  let acct := disposals (list byte) (run (list byte) cmp_ci ops)
              ++ chain (list byte) (fst (fst (run_from (list byte) cmp_ci (init (list byte)) ops)))
              ++ released (list byte) cmp_ci ops in
  Permutation (inserted (list byte) ops) acct /\ NoDup (map snd acct).
Proof. exact (tp_dispose_exactly_once (list byte) cmp_ci cmp_ci_total_preorder). Qed.

(* ---------- what the old comparator does to the container ---------- *)
(* INT_MAX, -2, 0 are inserted and never removed; with the wrapped difference the container can no longer find INT_MAX
   (it is still in the chain), and the run differs from the sorted-map specification *)
Definition old_ops : list (op Z) := [OIns Z 2147483647; OIns Z (-2); OIns Z 0; OFind Z 2147483647; OShow Z].
Example old_cmp_int_loses_key :
  map (obs Z) (run Z old_cmp_int old_ops) =
    [SIns Z; SIns Z; SIns Z; SFind Z None; SShow Z [(2147483647, 1%N); (-2, 2%N); (0, 3%N)] 3].
Proof. vm_compute. reflexivity. Qed.
Example old_cmp_int_breaks_refinement : map (obs Z) (run Z old_cmp_int old_ops) <> spec_run Z old_cmp_int old_ops.
Proof. vm_compute. discriminate. Qed.
(* the repaired comparator on the same script *)
Example cmp_int_keeps_key :
  map (obs Z) (run Z cmp_int old_ops) =
    [SIns Z; SIns Z; SIns Z; SFind Z (Some (2147483647, 1%N)); SShow Z [(-2, 2%N); (0, 3%N); (2147483647, 1%N)] 3].
Proof. vm_compute. reflexivity. Qed.

(* strcasecmp keys: "ab", "B", then "AB" replaces (and disposes) "ab"; lower bound of "b" is "B" *)
Example cmp_ci_run :
  map (obs (list byte))
      (run (list byte) cmp_ci [OIns _ [x61; x62]; OIns _ [x42]; OIns _ [x41; x42]; OLower _ [x62]; OShow _]) =
    [SIns _; SIns _; SDispose _ ([x61; x62], 1%N); SIns _; SLower _ (Some ([x42], 2%N));
     SShow _ [([x41; x42], 3%N); ([x42], 2%N)] 2].
Proof. vm_compute. reflexivity. Qed.

