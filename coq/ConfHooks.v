(* C15, hooks: the list of hooks fired by a load is exactly determined by comparing the tree before with the tree
   after: a leaf's hook iff its effective value changed, an object's hook iff its membership changed. *)
From Coq Require Import List NArith ZArith Bool Strings.Byte Lia.
Import ListNotations.
Require Import Conf ConfMerge ConfOrder ConfBase ConfIdem ConfSorted ConfWalk.
Local Open Scope N_scope.

(* ---------- the node a revert produces, before the unspecified ones are disposed of ---------- *)
Fixpoint rvt (l : lnode) : lnode :=
  match l with
  | LStr spec _ hook d _ sub p => LStr spec false hook d d sub (t2 (pv2 [] d sub p false))
  | LIna spec _ hook dh ds _ _ => LIna spec false hook dh ds dh ds
  | LList spec _ hook d _ => LList spec false hook d d
  | LObj spec pres hook ks =>
      LObj spec false hook
        (if pres then (fix go (l : list (str * lnode)) : list (str * lnode) :=
                         match l with [] => [] | (n, x) :: r => if lspec x then (n, rvt x) :: go r else go r end) ks
         else ks)
  end.
Fixpoint rvt_kids (l : list (str * lnode)) : list (str * lnode) :=
  match l with [] => [] | (n, x) :: r => if lspec x then (n, rvt x) :: rvt_kids r else rvt_kids r end.
Lemma rvt_obj spec pres hook ks : rvt (LObj spec pres hook ks) = LObj spec false hook (if pres then rvt_kids ks else ks).
Proof.
  cbn [rvt]. destruct pres; [|reflexivity]. f_equal.
  all: induction ks as [|[n x] r IH]; cbn [rvt_kids]; [reflexivity|]; rewrite IH; reflexivity.
Qed.
Lemma rvt_spec l : lspec (rvt l) = lspec l.
Proof. destruct l; reflexivity. Qed.
Lemma rvt_kind l : lkind (rvt l) = lkind l.
Proof. destruct l; reflexivity. Qed.

Lemma revert_fst : forall l path, fst (revert path l) = keep (lspec l) (rvt l).
Proof.
  apply (lnode_ind' (fun l => forall path, fst (revert path l) = keep (lspec l) (rvt l))).
  - intros spec pres hook d v sub p path. rewrite revert_str. cbn [fst rvt lspec].
    destruct (pv2_tree (hk hook path) [] d sub p false false) as [_ ->]. reflexivity.
  - intros. reflexivity.
  - intros. reflexivity.
  - intros spec pres hook ks IH path. rewrite revert_obj, rvt_obj. cbn [lspec]. destruct pres; [|reflexivity].
    rewrite (triple_eta (revert_all path ks)). cbn [fst]. f_equal. f_equal.
    induction IH as [|[n x] r H1 H2 IHr]; [reflexivity|]. cbn [revert_all rvt_kids]. cbn [snd] in H1.
    specialize (H1 (pjoin path n)). destruct (revert (pjoin path n) x) as [[y|] e1]; cbn [fst] in H1;
      rewrite (triple_eta (revert_all path r)); cbn [t1 fst]; destruct (lspec x); cbn [keep] in H1; try discriminate.
    + inversion H1; subst. f_equal. exact IHr.
    + exact IHr.
Qed.

Lemma revert_all_fst path ks : t1 (revert_all path ks) = rvt_kids ks.
Proof.
  induction ks as [|[n x] r IH]; [reflexivity|]. cbn [revert_all rvt_kids].
  pose proof (revert_fst x (pjoin path n)) as H1. destruct (revert (pjoin path n) x) as [[y|] e1]; cbn [fst] in H1;
    rewrite (triple_eta (revert_all path r)); cbn [t1 fst]; destruct (lspec x); cbn [keep] in H1; try discriminate.
  - inversion H1; subst. f_equal. exact IH.
  - exact IH.
Qed.

(* ---------- effective values ---------- *)
Definition pnorm (sub : N) (p : pv) : pv := if sub =? 0 then p else match p with PNone => PInt 0 | _ => p end.
Definition pveq (a b : pv) : bool :=
  match a, b with PNone, PNone => true | PStr x, PStr y => seq_eq x y | PInt x, PInt y => (x =? y)%Z | _, _ => false end.
Lemma pveq_iff a b : pveq a b = true <-> a = b.
Proof.
  destruct a as [|x|x], b as [|y|y]; cbn [pveq]; try (split; [discriminate|discriminate]); try (split; reflexivity).
  - rewrite seq_eq_iff. split; [intros ->; reflexivity|intros H; inversion H; reflexivity].
  - rewrite Z.eqb_eq. split; [intros ->; reflexivity|intros H; inversion H; reflexivity].
Qed.
Lemma pveq_refl a : pveq a a = true. Proof. apply pveq_iff. reflexivity. Qed.
Definition pchanged (sub : N) (p p' : pv) : bool := negb (pveq (pnorm sub p) (pnorm sub p')).
(* text None afterwards only happens when a node without default is reverted *)
Definition str_changed (spec : bool) (v : option str) (sub : N) (p : pv) (v' : option str) (p' : pv) : bool :=
  match v' with Some _ => pchanged sub p p' | None => is_some v && spec end.

Lemma pv2_events f v sub p ho :
  t3 (pv2 f (Some v) sub p ho) = if pchanged sub p (t2 (pv2 f (Some v) sub p ho)) then f else [].
Proof.
  unfold pv2, pchanged, pnorm. destruct (sub =? 0) eqn:Es.
  - cbn [t2 t3 fst snd]. destruct p as [|q|c]; cbn [pveq negb]; try reflexivity. destruct (seq_eq q v); reflexivity.
  - destruct (typed sub v) as [z ok]. destruct ok; cbn [andb].
    + destruct p as [|q|c]; cbn [negb].
      * destruct (z =? 0)%Z eqn:Ez; cbn [negb t2 t3 fst snd pveq].
        -- reflexivity.
        -- rewrite Z.eqb_sym, Ez. reflexivity.
      * cbn [t2 t3 fst snd pveq negb]. reflexivity.
      * destruct (c =? z)%Z eqn:Ez; cbn [negb t2 t3 fst snd pveq]; [rewrite Z.eqb_refl|rewrite Ez]; reflexivity.
    + cbn [t2 t3 fst snd]. rewrite pveq_refl. reflexivity.
Qed.

(* ---------- the hook list as a function of before / after ---------- *)
Definition newkid (ks' : list (str * lnode)) (m : str) (c : lnode) : lnode :=
  match lookupl m (lkind c) ks' with Some c' => c' | None => rvt c end.
Definition memdiff (ks ks' : list (str * lnode)) : bool :=
  existsb (fun mc => is_none (lookupl (fst mc) (lkind (snd mc)) ks')) ks || existsb (fun mc => is_none (lookupl (fst mc) (lkind (snd mc)) ks)) ks'.

Fixpoint hooks_cmp (path : str) (old new : lnode) {struct old} : list ev :=
  match old, new with
  | LStr spec _ hook _ v sub p, LStr _ _ _ _ v' _ p' => if hook && str_changed spec v sub p v' p' then [(0, path)] else []
  | LIna _ _ hook _ _ h s, LIna _ _ _ _ _ h' s' => if hook && (ci_diff h' h || ci_diff s' s) then [(1, path)] else []
  | LList _ _ hook _ v, LList _ _ _ _ v' => if hook && negb (leq v' v) then [(2, path)] else []
  | LObj _ _ hook ks, LObj _ _ _ ks' =>
      (fix go (l : list (str * lnode)) : list ev :=
         match l with [] => [] | (m, c) :: r => hooks_cmp (pjoin path m) c (newkid ks' m c) ++ go r end) ks
      ++ own 3 path (memdiff ks ks') hook
  | _, _ => []
  end.
Definition kids_cmp (path : str) (ks' ks : list (str * lnode)) : list ev :=
  flat_map (fun mc => hooks_cmp (pjoin path (fst mc)) (snd mc) (newkid ks' (fst mc) (snd mc))) ks.
Lemma hooks_cmp_obj path spec pres hook ks spec' pres' hook' ks' :
  hooks_cmp path (LObj spec pres hook ks) (LObj spec' pres' hook' ks') = kids_cmp path ks' ks ++ own 3 path (memdiff ks ks') hook.
Proof.
  cbn [hooks_cmp]. f_equal. unfold kids_cmp.
  induction ks as [|[m c] r IH]; [reflexivity|]. cbn [flat_map fst snd]. rewrite IH. reflexivity.
Qed.

(* ---------- nothing changed: nobody is notified ---------- *)
Lemma is_none_map {A B} (f : A -> B) o : is_none (option_map f o) = is_none o.
Proof. destruct o; reflexivity. Qed.

Lemma newkid_self ks : ksorted (map lkey ks) -> forall m c, In (m, c) ks -> newkid ks m c = c.
Proof. intros Hs m c Hin. unfold newkid. rewrite lookupl_e, (lookupe_In ks Hs m c Hin). reflexivity. Qed.

Lemma memdiff_self ks : ksorted (map lkey ks) -> memdiff ks ks = false.
Proof.
  intros Hs. unfold memdiff. rewrite orb_diag.
  rewrite (existsb_ext_in _ (fun _ => false)).
  - induction ks; [reflexivity|]. cbn [existsb]. apply IHks. cbn [map ksorted] in Hs. tauto.
  - intros [m c] Hin. cbn [fst snd]. rewrite lookupl_e, (lookupe_In ks Hs m c Hin). reflexivity.
Qed.

Theorem hooks_cmp_refl : forall l path, lsorted l -> hooks_cmp path l l = [].
Proof.
  apply (lnode_ind' (fun l => forall path, lsorted l -> hooks_cmp path l l = [])).
  - intros spec pres hook d v sub p path _. cbn [hooks_cmp]. unfold str_changed, pchanged. rewrite pveq_refl.
    destruct v; cbn [is_some negb andb]; rewrite andb_false_r; reflexivity.
  - intros spec pres hook dh ds h s path _. cbn [hooks_cmp]. rewrite !ci_diff_refl, andb_false_r. reflexivity.
  - intros spec pres hook d v path _. cbn [hooks_cmp]. rewrite leq_refl, andb_false_r. reflexivity.
  - intros spec pres hook ks IH path Hs. apply lsorted_obj in Hs. destruct Hs as [Hs1 Hs2].
    rewrite hooks_cmp_obj, memdiff_self by exact Hs1. cbn [own andb]. rewrite app_nil_r.
    unfold kids_cmp. rewrite (flat_map_ext_in _ (fun _ => [])).
    + clear. induction ks; [reflexivity|]. cbn [flat_map app]. exact IHks.
    + intros [m c] Hin. cbn [fst snd]. rewrite (newkid_self ks Hs1 m c Hin).
      rewrite Forall_forall in IH, Hs2. apply (IH (m, c) Hin). apply (Hs2 (m, c) Hin).
Qed.

(* ---------- the walk ---------- *)
Section WalkHooks.
  Variable mrg : str -> lnode -> val -> lnode * list ev.
  Variable path : str.
  Hypothesis Hk : forall p t s, lkind (fst (mrg p t s)) = kind s.

  Lemma mk_hooks ts ss :
    ksorted (map lkey ts) -> ksorted (map vkey ss) ->
    (forall m c, In (m, c) ts -> snd (revert (pjoin path m) c) = hooks_cmp (pjoin path m) c (rvt c)) ->
    (forall m c ks s', In (m, c) ts -> In (ks, s') ss -> lkind c = kind s' ->
                       snd (mrg (pjoin path m) c s') = hooks_cmp (pjoin path m) c (fst (mrg (pjoin path m) c s'))) ->
    t2 (mk_gen mrg path ts ss) = kids_cmp path (t1 (mk_gen mrg path ts ss)) ts /\
    t3 (mk_gen mrg path ts ss) = memdiff ts (t1 (mk_gen mrg path ts ss)).
  Proof.
    intros Ht Hs Hrev Hmrg.
    destruct (mk_char mrg path Hk ss ts Ht Hs) as (C1 & C2 & C3).
    pose proof (mk_sorted_keys mrg path Hk ss ts Ht Hs) as Hs'.
    set (ks' := t1 (mk_gen mrg path ts ss)) in *.
    (* what an old entry turns into *)
    assert (forall m c, In (m, c) ts ->
              lookupe m (lkind c) ks' = match lookupv m (lkind c) ss with
                                        | Some (_, s') => Some (m, fst (mrg (pjoin path m) c s'))
                                        | None => if lspec c then Some (m, rvt c) else None
                                        end) as Hold.
    { intros m c Hin. rewrite C1. unfold new_entry. rewrite (lookupe_In ts Ht m c Hin).
      destruct (lookupv m (lkind c) ss) as [[ks s']|]; [reflexivity|].
      unfold rev_entry. cbn [fst snd]. rewrite revert_fst. destruct (lspec c); reflexivity. }
    split.
    - rewrite C2. unfold kids_cmp. apply flat_map_ext_in. intros [m c] Hin. cbn [fst snd].
      unfold ev_entry, newkid. cbn [fst snd]. rewrite lookupl_e, (Hold m c Hin).
      destruct (lookupv m (lkind c) ss) as [[ks s']|] eqn:El.
      + apply lookupv_key in El as [E1 E2]. cbn [option_map snd]. apply (Hmrg m c ks s' Hin E2). apply kcmp_eq in E1. tauto.
      + rewrite (Hrev m c Hin). destruct (lspec c); reflexivity.
    - rewrite C3. unfold md_spec, memdiff. f_equal.
      + apply existsb_ext_in. intros [m c] Hin. cbn [fst snd]. rewrite lookupl_e, is_none_map, (Hold m c Hin).
        destruct (lookupv m (lkind c) ss) as [[ks s']|]; [reflexivity|]. destruct (lspec c); reflexivity.
      + apply eq_true_iff_eq. rewrite !existsb_exists. split.
        * intros ([ks s'] & Hin & Hn). cbn [fst snd] in Hn.
          pose proof (C1 ks (kind s')) as Hc. unfold new_entry in Hc. rewrite (lookupv_In ss Hs ks s' Hin) in Hc.
          destruct (lookupe ks (kind s') ts) as [mc|] eqn:El; [discriminate|].
          apply lookupe_key in Hc as [Hc1 Hc2]. exists (ks, splice s'). split; [exact Hc2|].
          cbn [fst snd]. rewrite splice_kind, lookupl_e, El. reflexivity.
        * intros ([m c] & Hin & Hn). cbn [fst snd] in Hn. rewrite lookupl_e, is_none_map in Hn.
          pose proof (lookupe_In ks' Hs' m c Hin) as Hc. rewrite C1 in Hc. unfold new_entry in Hc.
          destruct (lookupe m (lkind c) ts) as [mc|] eqn:El; [discriminate|].
          destruct (lookupv m (lkind c) ss) as [[ks s']|] eqn:Ev; [|discriminate].
          apply lookupv_key in Ev as [E1 E2]. exists (ks, s'). split; [exact E2|]. cbn [fst snd].
          rewrite <- (lookupe_eq _ _ _ _ ts E1), El. reflexivity.
  Qed.
End WalkHooks.

(* ---------- revert ---------- *)
Theorem revert_hooks : forall l path, lsorted l -> snd (revert path l) = hooks_cmp path l (rvt l).
Proof.
  apply (lnode_ind' (fun l => forall path, lsorted l -> snd (revert path l) = hooks_cmp path l (rvt l))).
  - intros spec pres hook d v sub p path _. rewrite revert_str. cbn [snd rvt hooks_cmp]. unfold str_changed.
    destruct (pv2_tree (hk hook path) [] d sub p false false) as [_ <-].
    destruct d as [dv|].
    + rewrite pv2_events. cbn [is_none]. rewrite !andb_false_r, app_nil_r. unfold hk.
      destruct hook, (pchanged sub p _); reflexivity.
    + cbn [pv2 t3 snd is_none app]. rewrite andb_true_r. destruct hook, (is_some v), spec; reflexivity.
  - intros spec pres hook dh ds h s path _. cbn [revert snd rvt hooks_cmp]. rewrite andb_comm. reflexivity.
  - intros spec pres hook d v path _. cbn [revert snd rvt hooks_cmp]. rewrite andb_comm. reflexivity.
  - intros spec pres hook ks IH path Hs. apply lsorted_obj in Hs. destruct Hs as [Hs1 Hs2].
    rewrite revert_obj, rvt_obj. destruct pres.
    + rewrite (triple_eta (revert_all path ks)). cbn [snd]. rewrite hooks_cmp_obj.
      pose proof (mk_hooks (fun p t s => merge p t s) path (fun p t s => merge_kind p t s) ks [] Hs1 I) as H.
      rewrite mk_gen_nil in H. destruct H as [H1 H2].
      * intros m c Hin. rewrite Forall_forall in IH, Hs2. apply (IH (m, c) Hin). apply (Hs2 (m, c) Hin).
      * intros m c k0 s' _ [].
      * rewrite H1, H2, revert_all_fst. reflexivity.
    + cbn [snd]. symmetry. apply (hooks_cmp_refl (LObj spec false hook ks)). apply lsorted_obj. split; assumption.
Qed.

(* ---------- merge ---------- *)
Theorem hooks_exact : forall s path t, lsorted t -> vsorted s -> snd (merge path t s) = hooks_cmp path t (fst (merge path t s)).
Proof.
  apply (val_ind' (fun s => forall path t, lsorted t -> vsorted s -> snd (merge path t s) = hooks_cmp path t (fst (merge path t s)))).
  - intros v path t _ _. destruct t as [spec pres hook d v0 sub p| | |]; try reflexivity.
    rewrite merge_str_str. cbn [fst snd hooks_cmp str_changed]. rewrite pv2_events. unfold hk.
    destruct hook, (pchanged sub p _); reflexivity.
  - intros h s path t _ _. destruct t as [|spec pres hook dh ds oh os| |]; try reflexivity.
    cbn [merge fst snd hooks_cmp]. rewrite andb_comm. reflexivity.
  - intros l path t _ _. destruct t as [| |spec pres hook d v|]; try reflexivity.
    cbn [merge fst snd hooks_cmp]. rewrite andb_comm. reflexivity.
  - intros ss IH path t Ht Hs. destruct t as [| | |spec pres hook ks]; try reflexivity.
    apply lsorted_obj in Ht. apply vsorted_obj in Hs. destruct Ht as [Ht1 Ht2], Hs as [Hs1 Hs2].
    rewrite merge_obj_fst, merge_obj_snd, hooks_cmp_obj.
    destruct (mk_hooks merge path merge_kind ks ss Ht1 Hs1) as [H1 H2].
    + intros m c Hin. apply revert_hooks. rewrite Forall_forall in Ht2. apply (Ht2 (m, c) Hin).
    + intros m c k0 s' Hin Hin' _. rewrite Forall_forall in IH, Ht2, Hs2. apply (IH (k0, s') Hin').
      * apply (Ht2 (m, c) Hin).
      * apply (Hs2 (k0, s') Hin').
    + rewrite H1, H2. reflexivity.
Qed.

(* ---------- the same, relationally: who is notified ---------- *)
Inductive notified : str -> lnode -> lnode -> ev -> Prop :=
| N_str path spec pres d v sub p spec' pres' hook' d' v' sub' p' :
    str_changed spec v sub p v' p' = true ->
    notified path (LStr spec pres true d v sub p) (LStr spec' pres' hook' d' v' sub' p') (0, path)
| N_ina path spec pres dh ds h s spec' pres' hook' dh' ds' h' s' :
    ci_diff h' h = true \/ ci_diff s' s = true ->
    notified path (LIna spec pres true dh ds h s) (LIna spec' pres' hook' dh' ds' h' s') (1, path)
| N_list path spec pres d v spec' pres' hook' d' v' :
    v' <> v ->
    notified path (LList spec pres true d v) (LList spec' pres' hook' d' v') (2, path)
| N_obj path spec pres ks spec' pres' hook' ks' :
    memdiff ks ks' = true ->
    notified path (LObj spec pres true ks) (LObj spec' pres' hook' ks') (3, path)
| N_kid path spec pres hook ks spec' pres' hook' ks' m c x :
    In (m, c) ks -> notified (pjoin path m) c (newkid ks' m c) x ->
    notified path (LObj spec pres hook ks) (LObj spec' pres' hook' ks') x.

Lemma hooks_cmp_notified : forall old path new x, In x (hooks_cmp path old new) <-> notified path old new x.
Proof.
  apply (lnode_ind' (fun old => forall path new x, In x (hooks_cmp path old new) <-> notified path old new x)).
  - intros spec pres hook d v sub p path new x. split.
    + destruct new as [spec' pres' hook' d' v' sub' p'| | |]; cbn [hooks_cmp]; try (intros []).
      destruct hook; cbn [andb]; [|intros []]. destruct (str_changed spec v sub p v' p') eqn:E; [|intros []].
      intros [<-|[]]. constructor. exact E.
    + intros H. inversion H; subst. cbn [hooks_cmp andb].
      match goal with E : str_changed _ _ _ _ _ _ = true |- _ => rewrite E end. left. reflexivity.
  - intros spec pres hook dh ds h s path new x. split.
    + destruct new as [|spec' pres' hook' dh' ds' h' s'| |]; cbn [hooks_cmp]; try (intros []).
      destruct hook; cbn [andb]; [|intros []]. destruct (ci_diff h' h || ci_diff s' s) eqn:E; [|intros []].
      intros [<-|[]]. constructor. apply orb_true_iff. exact E.
    + intros H. inversion H; subst. cbn [hooks_cmp andb].
      match goal with E : _ \/ _ |- _ => apply orb_true_iff in E; rewrite E end. left. reflexivity.
  - intros spec pres hook d v path new x. split.
    + destruct new as [| |spec' pres' hook' d' v'|]; cbn [hooks_cmp]; try (intros []).
      destruct hook; cbn [andb]; [|intros []]. destruct (leq v' v) eqn:E; cbn [negb]; [intros []|].
      intros [<-|[]]. constructor. intros ->. rewrite leq_refl in E. discriminate.
    + intros H. inversion H; subst. cbn [hooks_cmp andb].
      destruct (leq v' v) eqn:E; [apply leq_eq in E; congruence|]. left. reflexivity.
  - intros spec pres hook ks IH path new x. split.
    + destruct new as [| | |spec' pres' hook' ks']; try (cbn [hooks_cmp]; intros []).
      rewrite hooks_cmp_obj. rewrite in_app_iff. intros [H|H].
      * unfold kids_cmp in H. apply in_flat_map in H as ([m c] & Hin & Hx). cbn [fst snd] in Hx.
        rewrite Forall_forall in IH. apply (IH (m, c) Hin) in Hx. eapply N_kid; eassumption.
      * unfold own in H. destruct (memdiff ks ks') eqn:E; cbn [andb] in H; [|destruct H]. destruct hook; [|destruct H].
        destruct H as [<-|[]]. constructor. exact E.
    + intros H. inversion H; subst.
      * rewrite hooks_cmp_obj, in_app_iff. right. unfold own.
        match goal with E : memdiff _ _ = true |- _ => rewrite E end. left. reflexivity.
      * rewrite hooks_cmp_obj, in_app_iff. left. unfold kids_cmp. apply in_flat_map. exists (m, c). split; [assumption|].
        cbn [fst snd]. rewrite Forall_forall in IH. apply (IH (m, c)); assumption.
Qed.

(* the headline statement: a hook runs iff the node it is attached to changed, anywhere in the tree *)
Theorem hooks_exact_iff path t s x : lsorted t -> vsorted s ->
  (In x (snd (merge path t s)) <-> notified path t (fst (merge path t s)) x).
Proof. intros Ht Hs. rewrite hooks_exact by assumption. apply hooks_cmp_notified. Qed.

