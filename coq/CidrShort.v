(* C13, the short IPv4 CIDR form documented in modules/iauth.h ("missing trailing bits, as in 192.168/16"): a.b/n and a.b.c/n.
   The octets given are the LEADING octets of the network; the prefix length is 96 + n.  Same symbolic execution as Cidr.v. *)
From Coq Require Import List NArith Bool Strings.Byte Lia Arith.
Import ListNotations.
Require Import AddrFull AddrV4 Cidr.
Local Open Scope N_scope.

Definition short2_text (a b n : N) : str := dec a ++ [dot] ++ dec b ++ [slash] ++ dec n.
Definition short3_text (a b c n : N) : str := dec a ++ [dot] ++ dec b ++ [dot] ++ dec c ++ [slash] ++ dec n.

Theorem short_cidr4_2 a b n : a < 256 -> b < 256 -> n <= 32 ->
  pton (short2_text a b n) true false = Res (length (short2_text a b n)) (Some (96 + n)) [0; 0; 0; 0; 0; 65535; a * 256 + b; 0].
Proof.
  intros La Lb Ln. unfold short2_text.
  set (s := dec a ++ [dot] ++ dec b ++ [slash] ++ dec n).
  assert (has s 58 = None) as H58 by (apply has_none; unfold s; fa; apply dec_not58; lia).
  destruct (has_some (dec a) dot (dec b ++ [slash] ++ dec n) 46 eq_refl) as [j Hj].
  assert (skipws s = (s, 0%nat)) as Hws by (apply dec_skipws; lia).
  assert (s <> []) as Hne by (unfold s; destruct (dec_head a ltac:(lia)) as (c0 & r0 & E0 & _); rewrite E0; discriminate).
  assert (pton_ip4 s true false = Some (length s, Some (a * 16777216 + b * 65536), Some n)) as P.
  { unfold pton_ip4. unfold s at 1. rewrite dec_hdis by v4_side. unfold s at 2.
    apply ip4_octet_dot_k; [exact La|apply dec_hdis; v4_side..|change (length s < S (length s))%nat; lia|]. intros f1 Hf1.
    destruct (dec_ok b Lb) as (Eb & _ & _).
    apply (ip4_digits_k (dec b) 0 b); [exact Eb|exact Hf1|]. intros f2 Hf2.
    change ([slash] ++ dec n) with (slash :: dec n) in *. rewrite ip4_slash by (cbn [length] in Hf2; lia).
    cbn [lor_opt shl]. rewrite (ipv2 a b La Lb).
    f_equal. f_equal. f_equal. unfold s. repeat (rewrite app_length || cbn [length]). lia. }
  rewrite (pton_dotted_bits s _ j n Hws H58 Hj Hne P). f_equal.
  apply v4groups; lia.
Qed.

Theorem short_cidr4_3 a b c n : a < 256 -> b < 256 -> c < 256 -> n <= 32 ->
  pton (short3_text a b c n) true false =
  Res (length (short3_text a b c n)) (Some (96 + n)) [0; 0; 0; 0; 0; 65535; a * 256 + b; c * 256].
Proof.
  intros La Lb Lc Ln. unfold short3_text.
  set (s := dec a ++ [dot] ++ dec b ++ [dot] ++ dec c ++ [slash] ++ dec n).
  assert (has s 58 = None) as H58 by (apply has_none; unfold s; fa; apply dec_not58; lia).
  destruct (has_some (dec a) dot (dec b ++ [dot] ++ dec c ++ [slash] ++ dec n) 46 eq_refl) as [j Hj].
  assert (skipws s = (s, 0%nat)) as Hws by (apply dec_skipws; lia).
  assert (s <> []) as Hne by (unfold s; destruct (dec_head a ltac:(lia)) as (c0 & r0 & E0 & _); rewrite E0; discriminate).
  assert (pton_ip4 s true false = Some (length s, Some (a * 16777216 + b * 65536 + c * 256), Some n)) as P.
  { unfold pton_ip4. unfold s at 1. rewrite dec_hdis by v4_side. unfold s at 2.
    apply ip4_octet_dot_k; [exact La|apply dec_hdis; v4_side..|change (length s < S (length s))%nat; lia|]. intros f1 Hf1.
    apply ip4_octet_dot_k; [exact Lb|apply dec_hdis; v4_side..|exact Hf1|]. intros f2 Hf2.
    destruct (dec_ok c Lc) as (Ec & _ & _).
    apply (ip4_digits_k (dec c) 0 c); [exact Ec|exact Hf2|]. intros f3 Hf3.
    change ([slash] ++ dec n) with (slash :: dec n) in *. rewrite ip4_slash by (cbn [length] in Hf3; lia).
    cbn [lor_opt shl]. rewrite (ipv3 a b c La Lb Lc).
    f_equal. f_equal. f_equal. unfold s. repeat (rewrite app_length || cbn [length]). lia. }
  rewrite (pton_dotted_bits s _ j n Hws H58 Hj Hne P). f_equal.
  apply v4groups; lia.
Qed.

(* the header's own example *)
Example header_example : pton (short2_text 192 168 16) true false = Res 10%nat (Some 112) [0; 0; 0; 0; 0; 65535; 49320; 0].
Proof. vm_compute. reflexivity. Qed.
