(* The set container (src/set.c) over an arbitrary key type and an arbitrary comparator that is a total
   preorder: operations, abstract specification (sorted association list), refinement for every operation,
   for every operation sequence, and the disposal ledger.  No bound on sizes; stdlib only. *)
From Coq Require Import List ZArith NArith Bool Lia Permutation.
Import ListNotations.
Require Import Splay SplayRoot.
Local Open Scope Z_scope.

(* ---------- scripted runs: the fold used by the extracted model, and its recursive reading ---------- *)
Section Fold.
Variables (S O X : Type) (stepf : S -> O -> S * list X).
Definition frun (st : S) (ops : list O) : S * list X :=
  fold_left (fun acc o => let '(st, outs) := acc in let '(st', o') := stepf st o in (st', outs ++ o')) ops (st, []).
Fixpoint rrun (st : S) (ops : list O) : S * list X :=
  match ops with
  | [] => (st, [])
  | o :: r => let '(st', o1) := stepf st o in let '(st'', os) := rrun st' r in (st'', o1 ++ os)
  end.
Lemma frun_acc ops : forall st acc,
  fold_left (fun acc o => let '(st, outs) := acc in let '(st', o') := stepf st o in (st', outs ++ o')) ops (st, acc)
  = (fst (rrun st ops), acc ++ snd (rrun st ops)).
Proof.
  induction ops as [|o r IH]; intros st acc; cbn [fold_left rrun fst snd].
  - rewrite app_nil_r. reflexivity.
  - destruct (stepf st o) as [st' o1]. rewrite IH. destruct (rrun st' r) as [st'' os]. cbn [fst snd].
    rewrite app_assoc. reflexivity.
Qed.
Lemma frun_rrun st ops : frun st ops = rrun st ops.
Proof. unfold frun. rewrite frun_acc. destruct (rrun st ops). reflexivity. Qed.
End Fold.

Lemma sgn_neg c : c < 0 -> (c <? 0) = true /\ (c =? 0) = false /\ (c >? 0) = false.
Proof. intros H. repeat split; [apply Z.ltb_lt|apply Z.eqb_neq|rewrite Z.gtb_ltb; apply Z.ltb_ge]; lia. Qed.
Lemma sgn_pos c : c > 0 -> (c <? 0) = false /\ (c =? 0) = false /\ (c >? 0) = true.
Proof. intros H. repeat split; [apply Z.ltb_ge|apply Z.eqb_neq|rewrite Z.gtb_ltb; apply Z.ltb_lt]; lia. Qed.
Lemma sgn_zero c : c = 0 -> (c <? 0) = false /\ (c =? 0) = true /\ (c >? 0) = false.
Proof. intros H. subst c. repeat split. Qed.

Definition optl {A : Type} (o : option A) : list A := match o with Some x => [x] | None => [] end.
Definition is_some {A : Type} (o : option A) : bool := match o with Some _ => true | None => false end.

Lemma NoDup_app_inv {A : Type} (a b : list A) : NoDup (a ++ b) -> NoDup a /\ NoDup b /\ forall x, In x a -> ~ In x b.
Proof.
  induction a as [|y a IH]; cbn [app]; intros H.
  - split; [constructor|]. split; [exact H|]. intros x [].
  - inversion H as [|? ? Hy Hr]; subst. destruct (IH Hr) as (Ha & Hb & Hd). split; [|split; [exact Hb|]].
    + constructor; [|exact Ha]. intro Hin. apply Hy. apply in_or_app. left; exact Hin.
    + intros x [E|Hin]; [subst x; intro Hin; apply Hy; apply in_or_app; right; exact Hin|apply Hd; exact Hin].
Qed.

Section G.
Variable K : Type.
Variable cmpK : K -> K -> Z.     (* cmpK probe elem: negative / zero / positive *)

Definition el := (K * N)%type.                 (* key, unique tag *)
Definition cmpe (d e : el) : Z := cmpK (fst d) (fst e).
Notation tree := (Splay.tree el).
Notation Leaf := (Splay.Leaf el).
Notation Node := (Splay.Node el).
Notation io := (Splay.inorder el).

Record set := { root : tree; chain : list el; count : nat }.

(* identity of a stored element (the C code compares node pointers) *)
Definition same (a b : el) : bool := (cmpe a b =? 0) && (snd a =? snd b)%N.
Fixpoint ins_before (x new : el) (l : list el) : list el :=
  match l with [] => [new] | y :: r => if same x y then new :: l else y :: ins_before x new r end.
Fixpoint ins_after (x new : el) (l : list el) : list el :=
  match l with [] => [new] | y :: r => if same x y then y :: new :: r else y :: ins_after x new r end.
Fixpoint repl (x new : el) (l : list el) : list el :=
  match l with [] => [] | y :: r => if same x y then new :: r else y :: repl x new r end.
Fixpoint del (x : el) (l : list el) : list el :=
  match l with [] => [] | y :: r => if same x y then r else y :: del x r end.
Fixpoint next_of (x : el) (l : list el) : option el :=
  match l with [] => None | y :: r => if same x y then hd_error r else next_of x r end.

Definition empty : set := {| root := Leaf; chain := []; count := 0 |}.

Definition insert (s : set) (e : el) : set * list el :=
  match root s with
  | Splay.Leaf _ => ({| root := Node Leaf e Leaf; chain := [e]; count := 1 |}, [])
  | _ =>
    match splay el cmpe e (root s) with
    | (Splay.Node _ l k r, c) =>
        if c <? 0 then ({| root := Node l e (Node Leaf k r); chain := ins_before k e (chain s); count := S (count s) |}, [])
        else if c >? 0 then ({| root := Node (Node l k Leaf) e r; chain := ins_after k e (chain s); count := S (count s) |}, [])
        else ({| root := Node l e r; chain := repl k e (chain s); count := count s |}, [k])
    | (Splay.Leaf _, _) => (s, [])
    end
  end.

Definition find (s : set) (d : el) : set * option el :=
  match root s with
  | Splay.Leaf _ => (s, None)
  | _ => match splay el cmpe d (root s) with
         | (Splay.Node _ l k r as t, c) => ({| root := t; chain := chain s; count := count s |}, if c =? 0 then Some k else None)
         | (t, _) => (s, None)
         end
  end.

Definition lower (s : set) (d : el) : set * option el :=
  match root s with
  | Splay.Leaf _ => (s, None)
  | _ => match splay el cmpe d (root s) with
         | (Splay.Node _ l k r as t, c) => ({| root := t; chain := chain s; count := count s |}, if c >? 0 then next_of k (chain s) else Some k)
         | (t, _) => (s, None)
         end
  end.

Definition remove (s : set) (d : el) (no_dispose : bool) : set * bool * list el :=
  match root s with
  | Splay.Leaf _ => (s, false, [])
  | _ => match splay el cmpe d (root s) with
         | (Splay.Node _ l k r as t, c) =>
           if negb (c =? 0) then ({| root := t; chain := chain s; count := count s |}, false, [])
           else
             let nr := match l with
                       | Splay.Leaf _ => r
                       | _ => match splay el cmpe d l with (Splay.Node _ ll lk _, _) => Node ll lk r | (x, _) => x end
                       end in
             ({| root := nr; chain := del k (chain s); count := pred (count s) |}, true, if no_dispose then [] else [k])
         | (t, _) => (s, false, [])
         end
  end.

Definition clear (s : set) (no_dispose : bool) : set * list el := (empty, if no_dispose then [] else chain s).

(* ---------- scripted runs ---------- *)
Inductive op := OIns (k : K) | OFind (k : K) | OLower (k : K) | ORem (k : K) (nd : bool) | OClear (nd : bool) | OShow.
Inductive out := XIns | XFind (o : option el) | XLower (o : option el) | XRem (b : bool) | XClear | XDispose (e : el)
               | XShow (t : tree) (c : list el) (n : nat).

Definition step (st : set * N) (o : op) : (set * N) * list out :=
  let '(s, tg) := st in
  match o with
  | OIns k => let tg' := (tg + 1)%N in let '(s', d) := insert s (k, tg') in ((s', tg'), map XDispose d ++ [XIns])
  | OFind k => let '(s', r) := find s (k, 0%N) in ((s', tg), [XFind r])
  | OLower k => let '(s', r) := lower s (k, 0%N) in ((s', tg), [XLower r])
  | ORem k nd => let '(s', b, d) := remove s (k, 0%N) nd in ((s', tg), map XDispose d ++ [XRem b])
  | OClear nd => let '(s', d) := clear s nd in ((s', tg), map XDispose d ++ [XClear])
  | OShow => (st, [XShow (root s) (chain s) (count s)])
  end.
Definition init : set * N := (empty, 0%N).
Definition run_from (st : set * N) (ops : list op) : (set * N) * list out := frun _ _ _ step st ops.
Definition run (ops : list op) : list out := snd (run_from init ops).

(* ================= abstract specification: a sorted association list ================= *)
Fixpoint s_find (k : K) (l : list el) : option el :=
  match l with [] => None | x :: r => if cmpK k (fst x) =? 0 then Some x else s_find k r end.
(* insert e, replacing (and returning) the element with an equivalent key *)
Fixpoint s_insert (e : el) (l : list el) : list el * option el :=
  match l with
  | [] => ([e], None)
  | x :: r => let c := cmpK (fst e) (fst x) in
              if c <? 0 then (e :: l, None)
              else if c =? 0 then (e :: r, Some x)
              else let '(r', o) := s_insert e r in (x :: r', o)
  end.
(* first element whose key is not smaller than the probe *)
Fixpoint s_lower (k : K) (l : list el) : option el :=
  match l with [] => None | x :: r => if cmpK k (fst x) >? 0 then s_lower k r else Some x end.
Fixpoint s_remove (k : K) (l : list el) : list el * option el :=
  match l with
  | [] => ([], None)
  | x :: r => if cmpK k (fst x) =? 0 then (r, Some x) else let '(r', o) := s_remove k r in (x :: r', o)
  end.
Definition s_clear (l : list el) : list el * list el := ([], l).

(* observations without the tree shape *)
Inductive sout := SIns | SFind (o : option el) | SLower (o : option el) | SRem (b : bool) | SClear | SDispose (e : el)
                | SShow (c : list el) (n : nat).
Definition obs (x : out) : sout :=
  match x with
  | XIns => SIns | XFind o => SFind o | XLower o => SLower o | XRem b => SRem b | XClear => SClear
  | XDispose e => SDispose e | XShow _ c n => SShow c n
  end.

Definition spec_step (st : list el * N) (o : op) : (list el * N) * list sout :=
  let '(l, tg) := st in
  match o with
  | OIns k => let tg' := (tg + 1)%N in let '(l', old) := s_insert (k, tg') l in ((l', tg'), map SDispose (optl old) ++ [SIns])
  | OFind k => (st, [SFind (s_find k l)])
  | OLower k => (st, [SLower (s_lower k l)])
  | ORem k nd => let '(l', old) := s_remove k l in
                 ((l', tg), map SDispose (if nd then [] else optl old) ++ [SRem (is_some old)])
  | OClear nd => let '(l', d) := s_clear l in ((l', tg), map SDispose (if nd then [] else d) ++ [SClear])
  | OShow => (st, [SShow l (length l)])
  end.
Definition spec_init : list el * N := ([], 0%N).
Definition spec_run_from (st : list el * N) (ops : list op) : (list el * N) * list sout := frun _ _ _ spec_step st ops.
Definition spec_run (ops : list op) : list sout := snd (spec_run_from spec_init ops).

(* ---------- the disposal ledger ---------- *)
Definition disposals (outs : list out) : list el := flat_map (fun x => match x with XDispose e => [e] | _ => [] end) outs.
(* elements handed to the set by the script: the n-th insertion carries tag n *)
Fixpoint inserted_from (tg : N) (ops : list op) : list el :=
  match ops with
  | [] => []
  | OIns k :: r => (k, (tg + 1)%N) :: inserted_from (tg + 1)%N r
  | _ :: r => inserted_from tg r
  end.
(* elements that left the set with no_dispose: exactly what the same call would have disposed otherwise *)
Definition released_by (s : set) (o : op) : list el :=
  match o with
  | ORem k true => snd (remove s (k, 0%N) false)
  | OClear true => snd (clear s false)
  | _ => []
  end.
Fixpoint released_from (st : set * N) (ops : list op) : list el :=
  match ops with
  | [] => []
  | o :: r => released_by (fst st) o ++ released_from (fst (step st o)) r
  end.
Definition inserted (ops : list op) : list el := inserted_from 0%N ops.
Definition released (ops : list op) : list el := released_from init ops.

(* ================= the comparator is a total preorder ================= *)
Hypothesis anti : forall a b, cmpK a b > 0 <-> cmpK b a < 0.
Hypothesis trans : forall a b c, cmpK a b < 0 -> cmpK b c < 0 -> cmpK a c < 0.
Hypothesis eq_lt : forall a b c, cmpK a b = 0 -> cmpK b c < 0 -> cmpK a c < 0.
Hypothesis lt_eq : forall a b c, cmpK a b < 0 -> cmpK b c = 0 -> cmpK a c < 0.

Lemma cmpK_refl a : cmpK a a = 0.
Proof. pose proof (anti a a). lia. Qed.
Lemma cmpK_sym a b : cmpK a b = 0 -> cmpK b a = 0.
Proof. pose proof (anti a b). pose proof (anti b a). lia. Qed.
Lemma cmpK_eq_trans a b c : cmpK a b = 0 -> cmpK b c = 0 -> cmpK a c = 0.
Proof.
  intros H1 H2. pose proof (cmpK_sym _ _ H1) as H1'.
  destruct (Z.lt_trichotomy (cmpK a c) 0) as [H|[H|H]]; [|exact H|].
  - pose proof (eq_lt b a c H1' H). lia.
  - assert (cmpK c a < 0) as H' by (apply anti; lia). pose proof (lt_eq c a b H' H1). pose proof (anti b c). lia.
Qed.

Definition ltk (x y : el) : Prop := cmpe x y < 0.

Lemma cmpe_anti a b : cmpe a b > 0 <-> cmpe b a < 0. Proof. apply anti. Qed.
Lemma cmpe_trans a b c : cmpe a b < 0 -> cmpe b c < 0 -> cmpe a c < 0. Proof. apply trans. Qed.
Lemma ltk_trans x y z : ltk x y -> ltk y z -> ltk x z. Proof. apply trans. Qed.
Lemma ltk_gt x y : ltk x y -> cmpe y x > 0. Proof. intros H. apply cmpe_anti. exact H. Qed.
Lemma gt_ltk x y : cmpe y x > 0 -> ltk x y. Proof. intros H. apply cmpe_anti. exact H. Qed.
Lemma ltk_asym x y : ltk x y -> ltk y x -> False.
Proof. intros H1 H2. apply ltk_gt in H1. unfold ltk in H2. lia. Qed.
Lemma eq_ltk x y z : cmpe x y = 0 -> ltk y z -> ltk x z. Proof. apply eq_lt. Qed.
Lemma ltk_eq x y z : ltk x y -> cmpe y z = 0 -> ltk x z. Proof. apply lt_eq. Qed.
Lemma cmpe_sym x y : cmpe x y = 0 -> cmpe y x = 0. Proof. apply cmpK_sym. Qed.

Lemma all_lt_trans x y l : ltk x y -> Forall (ltk y) l -> Forall (ltk x) l.
Proof. intros H. apply Forall_impl. intros z Hz. exact (ltk_trans _ _ _ H Hz). Qed.
Lemma all_gt_trans x y l : ltk x y -> Forall (fun z => ltk z x) l -> Forall (fun z => ltk z y) l.
Proof. intros H. apply Forall_impl. intros z Hz. exact (ltk_trans _ _ _ Hz H). Qed.
Lemma all_lt_eq x y l : cmpe x y = 0 -> Forall (ltk y) l -> Forall (ltk x) l.
Proof. intros H. apply Forall_impl. intros z Hz. exact (eq_ltk _ _ _ H Hz). Qed.
Lemma all_gt_eq x y l : cmpe x y = 0 -> Forall (fun z => ltk z x) l -> Forall (fun z => ltk z y) l.
Proof. intros H. apply Forall_impl. intros z Hz. exact (ltk_eq _ _ _ Hz H). Qed.

(* ---------- strictly increasing lists ---------- *)
Fixpoint incr (l : list el) : Prop := match l with [] => True | x :: r => Forall (ltk x) r /\ incr r end.

Lemma incr_app a b : incr (a ++ b) <-> incr a /\ incr b /\ Forall (fun x => Forall (ltk x) b) a.
Proof.
  induction a as [|x a IH]; cbn [app incr].
  - split; [intros H; repeat split; auto|tauto].
  - rewrite Forall_app, IH. split.
    + intros ((H1 & H2) & H3 & H4 & H5). repeat split; auto.
    + intros ((H1 & H2) & H3 & H4). inversion H4; subst. repeat split; auto.
Qed.

Lemma incr_mid_inv a k b : incr (a ++ k :: b) ->
  incr a /\ incr b /\ Forall (fun x => ltk x k) a /\ Forall (ltk k) b.
Proof.
  intros H. apply incr_app in H as (Ha & (Hkb & Hb) & Hab). repeat split; auto.
  eapply Forall_impl; [|exact Hab]. intros x Hx. inversion Hx; subst. assumption.
Qed.
Lemma incr_mid a k b : incr a -> incr b -> Forall (fun x => ltk x k) a -> Forall (ltk k) b -> incr (a ++ k :: b).
Proof.
  intros Ha Hb Hak Hkb. apply incr_app. split; [exact Ha|]. split; [split; assumption|].
  eapply Forall_impl; [|exact Hak]. intros x Hx. cbv beta in Hx. constructor; [exact Hx|].
  exact (all_lt_trans _ _ _ Hx Hkb).
Qed.
Lemma incr_drop_mid a k b : incr (a ++ k :: b) -> incr (a ++ b).
Proof.
  intros H. apply incr_app in H as (Ha & (Hkb & Hb) & Hab). apply incr_app. repeat split; auto.
  eapply Forall_impl; [|exact Hab]. intros x Hx. inversion Hx; subst. assumption.
Qed.

Notation bstk := (bst el cmpe).

Lemma bst_incr t : bstk t <-> incr (io t).
Proof.
  induction t as [|l IHl k r IHr]; cbn [bst inorder]; [cbn; tauto|].
  rewrite IHl, IHr. unfold below, above. split.
  - intros (H1 & H2 & H3 & H4). apply incr_mid; auto.
    eapply Forall_impl; [|exact H3]. intros x Hx. apply gt_ltk. exact Hx.
  - intros H. apply incr_mid_inv in H as (H1 & H2 & H3 & H4). repeat split; auto.
    eapply Forall_impl; [|exact H3]. intros x Hx. apply ltk_gt. exact Hx.
Qed.

Definition Inv (s : set) : Prop := bstk (root s) /\ chain s = io (root s) /\ count s = length (chain s).

Lemma inv_empty : Inv empty. Proof. repeat split. Qed.

(* what the splay gives us: the root splits the in-order walk around the probe *)
Lemma splay_view d t : t <> Leaf -> bstk t ->
  exists l k r, splay el cmpe d t = (Node l k r, cmpe d k) /\ io l ++ k :: io r = io t /\ bstk (Node l k r) /\
                Forall (fun x => ltk x d) (io l) /\ Forall (ltk d) (io r).
Proof.
  intros Hne Hb. unfold splay.
  pose proof (sl_side el cmpe cmpe_anti cmpe_trans d (size el t) t (le_n _) Hne Hb [] [] (Forall_nil _) (Forall_nil _)) as Sd.
  pose proof (splay_inorder el cmpe d t) as I. unfold splay in I.
  unfold side_ok in Sd. destruct (sl el cmpe d t [] []) as [t' c]. cbn [fst snd] in *.
  destruct t' as [|l k r]; [contradiction|]. destruct Sd as (Hc & Hl & Hr). cbn [inorder] in I.
  assert (incr (io l ++ k :: io r)) as Hi by (rewrite I; apply bst_incr; exact Hb).
  pose proof (incr_mid_inv _ _ _ Hi) as (_ & _ & Hlk & Hkr).
  exists l, k, r. subst c. split; [reflexivity|]. split; [exact I|]. split; [apply bst_incr; exact Hi|].
  unfold below, above in Hl, Hr.
  destruct (Z.lt_trichotomy (cmpe d k) 0) as [H|[H|H]].
  - split.
    + eapply Forall_impl; [|exact (Hl H)]. intros x Hx. apply gt_ltk. exact Hx.
    + exact (all_lt_trans _ _ _ H Hkr).
  - split.
    + exact (all_gt_eq _ _ _ (cmpe_sym _ _ H) Hlk).
    + exact (all_lt_eq _ _ _ H Hkr).
  - assert (cmpe d k > 0) as H' by lia. split.
    + exact (all_gt_trans _ _ _ (gt_ltk _ _ H') Hlk).
    + exact (Hr H').
Qed.

(* ---------- the specification functions around a split point ---------- *)
Lemma lt_probe x d : ltk x d -> cmpK (fst d) (fst x) > 0. Proof. apply ltk_gt. Qed.
Lemma probe_lt d x : ltk d x -> cmpK (fst d) (fst x) < 0. Proof. intros H; exact H. Qed.

Lemma s_find_skip d a b : Forall (fun x => ltk x d) a -> s_find (fst d) (a ++ b) = s_find (fst d) b.
Proof.
  induction 1 as [|x a Hx _ IH]; cbn [app s_find]; [reflexivity|].
  destruct (sgn_pos _ (lt_probe _ _ Hx)) as (_ & E & _). rewrite E. exact IH.
Qed.
Lemma s_find_hi d b : Forall (ltk d) b -> s_find (fst d) b = None.
Proof.
  induction 1 as [|x b Hx _ IH]; cbn [s_find]; [reflexivity|].
  destruct (sgn_neg _ (probe_lt _ _ Hx)) as (_ & E & _). rewrite E. exact IH.
Qed.
Lemma s_find_split d a k b : Forall (fun x => ltk x d) a -> Forall (ltk d) b ->
  s_find (fst d) (a ++ k :: b) = if cmpe d k =? 0 then Some k else None.
Proof.
  intros Ha Hb. rewrite s_find_skip by exact Ha. cbn [s_find]. fold (cmpe d k).
  destruct (cmpe d k =? 0); [reflexivity|]. apply s_find_hi. exact Hb.
Qed.

Lemma s_lower_skip d a b : Forall (fun x => ltk x d) a -> s_lower (fst d) (a ++ b) = s_lower (fst d) b.
Proof.
  induction 1 as [|x a Hx _ IH]; cbn [app s_lower]; [reflexivity|].
  destruct (sgn_pos _ (lt_probe _ _ Hx)) as (_ & _ & E). rewrite E. exact IH.
Qed.
Lemma s_lower_hi d b : Forall (ltk d) b -> s_lower (fst d) b = hd_error b.
Proof.
  intros H. destruct H as [|x b Hx _]; cbn [s_lower hd_error]; [reflexivity|].
  destruct (sgn_neg _ (probe_lt _ _ Hx)) as (_ & _ & E). rewrite E. reflexivity.
Qed.
Lemma s_lower_split d a k b : Forall (fun x => ltk x d) a -> Forall (ltk d) b ->
  s_lower (fst d) (a ++ k :: b) = if cmpe d k >? 0 then hd_error b else Some k.
Proof.
  intros Ha Hb. rewrite s_lower_skip by exact Ha. cbn [s_lower]. fold (cmpe d k).
  destruct (cmpe d k >? 0); [|reflexivity]. apply s_lower_hi. exact Hb.
Qed.

Lemma s_insert_skip d a b : Forall (fun x => ltk x d) a ->
  s_insert d (a ++ b) = (a ++ fst (s_insert d b), snd (s_insert d b)).
Proof.
  induction 1 as [|x a Hx _ IH]; cbn [app s_insert]; [destruct (s_insert d b); reflexivity|].
  destruct (sgn_pos _ (lt_probe _ _ Hx)) as (E1 & E2 & _). rewrite E1, E2, IH. reflexivity.
Qed.
Lemma s_insert_hi d b : Forall (ltk d) b -> s_insert d b = (d :: b, None).
Proof.
  intros H. destruct H as [|x b Hx _]; cbn [s_insert]; [reflexivity|].
  destruct (sgn_neg _ (probe_lt _ _ Hx)) as (E & _ & _). rewrite E. reflexivity.
Qed.
Lemma s_insert_split d a k b : Forall (fun x => ltk x d) a -> Forall (ltk d) b ->
  s_insert d (a ++ k :: b) =
    if cmpe d k <? 0 then (a ++ d :: k :: b, None)
    else if cmpe d k >? 0 then (a ++ k :: d :: b, None)
    else (a ++ d :: b, Some k).
Proof.
  intros Ha Hb. rewrite s_insert_skip by exact Ha. cbn [s_insert]. fold (cmpe d k).
  destruct (Z.lt_trichotomy (cmpe d k) 0) as [H|[H|H]].
  - destruct (sgn_neg _ H) as (E1 & _ & _). rewrite E1. reflexivity.
  - destruct (sgn_zero _ H) as (E1 & E2 & E3). rewrite E1, E2, E3. reflexivity.
  - assert (cmpe d k > 0) as H' by lia. destruct (sgn_pos _ H') as (E1 & E2 & E3). rewrite E1, E2, E3.
    rewrite s_insert_hi by exact Hb. reflexivity.
Qed.

Lemma s_remove_skip d a b : Forall (fun x => ltk x d) a ->
  s_remove (fst d) (a ++ b) = (a ++ fst (s_remove (fst d) b), snd (s_remove (fst d) b)).
Proof.
  induction 1 as [|x a Hx _ IH]; cbn [app s_remove]; [destruct (s_remove (fst d) b); reflexivity|].
  destruct (sgn_pos _ (lt_probe _ _ Hx)) as (_ & E & _). rewrite E, IH. reflexivity.
Qed.
Lemma s_remove_hi d b : Forall (ltk d) b -> s_remove (fst d) b = (b, None).
Proof.
  induction 1 as [|x b Hx _ IH]; cbn [s_remove]; [reflexivity|].
  destruct (sgn_neg _ (probe_lt _ _ Hx)) as (_ & E & _). rewrite E, IH. reflexivity.
Qed.
Lemma s_remove_split d a k b : Forall (fun x => ltk x d) a -> Forall (ltk d) b ->
  s_remove (fst d) (a ++ k :: b) = if cmpe d k =? 0 then (a ++ b, Some k) else (a ++ k :: b, None).
Proof.
  intros Ha Hb. rewrite s_remove_skip by exact Ha. cbn [s_remove]. fold (cmpe d k).
  destruct (cmpe d k =? 0); [reflexivity|]. rewrite s_remove_hi by exact Hb. reflexivity.
Qed.

(* ---------- the threaded chain around a split point ---------- *)
Lemma same_refl x : same x x = true.
Proof. unfold same, cmpe. rewrite cmpK_refl, N.eqb_refl. reflexivity. Qed.
Lemma same_lt x k : ltk x k -> same k x = false.
Proof. intros H. unfold same. destruct (sgn_pos _ (ltk_gt _ _ H)) as (_ & E & _). rewrite E. reflexivity. Qed.

Lemma ins_before_split a k b e : Forall (fun x => ltk x k) a -> ins_before k e (a ++ k :: b) = a ++ e :: k :: b.
Proof.
  induction 1 as [|x a Hx _ IH]; cbn [app ins_before]; [rewrite same_refl; reflexivity|].
  rewrite (same_lt _ _ Hx), IH. reflexivity.
Qed.
Lemma ins_after_split a k b e : Forall (fun x => ltk x k) a -> ins_after k e (a ++ k :: b) = a ++ k :: e :: b.
Proof.
  induction 1 as [|x a Hx _ IH]; cbn [app ins_after]; [rewrite same_refl; reflexivity|].
  rewrite (same_lt _ _ Hx), IH. reflexivity.
Qed.
Lemma repl_split a k b e : Forall (fun x => ltk x k) a -> repl k e (a ++ k :: b) = a ++ e :: b.
Proof.
  induction 1 as [|x a Hx _ IH]; cbn [app repl]; [rewrite same_refl; reflexivity|].
  rewrite (same_lt _ _ Hx), IH. reflexivity.
Qed.
Lemma del_split a k b : Forall (fun x => ltk x k) a -> del k (a ++ k :: b) = a ++ b.
Proof.
  induction 1 as [|x a Hx _ IH]; cbn [app del]; [rewrite same_refl; reflexivity|].
  rewrite (same_lt _ _ Hx), IH. reflexivity.
Qed.
Lemma next_of_split a k b : Forall (fun x => ltk x k) a -> next_of k (a ++ k :: b) = hd_error b.
Proof.
  induction 1 as [|x a Hx _ IH]; cbn [app next_of]; [rewrite same_refl; reflexivity|].
  rewrite (same_lt _ _ Hx), IH. reflexivity.
Qed.

Lemma len_mid (a : list el) k b : length (a ++ k :: b) = Datatypes.S (length (a ++ b)).
Proof. rewrite !app_length. cbn [length]. lia. Qed.

(* ================= every operation refines the specification ================= *)
Theorem find_spec s d : Inv s ->
  Inv (fst (find s d)) /\ chain (fst (find s d)) = chain s /\ snd (find s d) = s_find (fst d) (chain s).
Proof.
  intros (Hb & Hc & Hn). unfold find.
  destruct (root s) as [|l0 k0 r0] eqn:Er.
  - cbn [fst snd]. split; [split; [rewrite Er; exact Hb|split; [rewrite Er; exact Hc|exact Hn]]|]. split; [reflexivity|].
    rewrite Hc. reflexivity.
  - destruct (splay_view d (Node l0 k0 r0) ltac:(discriminate) Hb) as (l & k & r & Es & Eio & Hb' & Ha & Hbb).
    rewrite Es. cbn [fst snd root chain count].
    split; [split; [exact Hb'|split; [cbn [chain root inorder]; rewrite Eio; exact Hc|exact Hn]]|].
    split; [reflexivity|].
    rewrite Hc, <- Eio. symmetry. apply s_find_split; assumption.
Qed.

Theorem lower_spec s d : Inv s ->
  Inv (fst (lower s d)) /\ chain (fst (lower s d)) = chain s /\ snd (lower s d) = s_lower (fst d) (chain s).
Proof.
  intros (Hb & Hc & Hn). unfold lower.
  destruct (root s) as [|l0 k0 r0] eqn:Er.
  - cbn [fst snd]. split; [split; [rewrite Er; exact Hb|split; [rewrite Er; exact Hc|exact Hn]]|]. split; [reflexivity|].
    rewrite Hc. reflexivity.
  - destruct (splay_view d (Node l0 k0 r0) ltac:(discriminate) Hb) as (l & k & r & Es & Eio & Hb' & Ha & Hbb).
    rewrite Es. cbn [fst snd root chain count].
    split; [split; [exact Hb'|split; [cbn [chain root inorder]; rewrite Eio; exact Hc|exact Hn]]|].
    split; [reflexivity|].
    assert (incr (io l ++ k :: io r)) as Hi by (rewrite Eio; apply bst_incr; exact Hb).
    apply incr_mid_inv in Hi as (_ & _ & Hlk & _).
    rewrite Hc, <- Eio. rewrite s_lower_split by assumption. rewrite next_of_split by exact Hlk. reflexivity.
Qed.

Theorem insert_spec s e : Inv s ->
  Inv (fst (insert s e)) /\ chain (fst (insert s e)) = fst (s_insert e (chain s)) /\
  snd (insert s e) = optl (snd (s_insert e (chain s))).
Proof.
  intros (Hb & Hc & Hn). unfold insert.
  destruct (root s) as [|l0 k0 r0] eqn:Er.
  - cbn [fst snd]. rewrite Hc. cbn. repeat split; constructor.
  - destruct (splay_view e (Node l0 k0 r0) ltac:(discriminate) Hb) as (l & k & r & Es & Eio & Hb' & Ha & Hbb).
    rewrite Es.
    assert (incr (io l ++ k :: io r)) as Hi by (rewrite Eio; apply bst_incr; exact Hb).
    pose proof (incr_mid_inv _ _ _ Hi) as (Hil & Hir & Hlk & Hkr).
    rewrite Hn, Hc, <- Eio. rewrite s_insert_split by assumption.
    destruct (Z.lt_trichotomy (cmpe e k) 0) as [H|[H|H]].
    + destruct (sgn_neg _ H) as (E1 & _ & _). rewrite E1. cbn [fst snd root chain count optl].
      rewrite ins_before_split by exact Hlk.
      split; [|split; reflexivity]. split; [|split].
      * apply bst_incr. cbn [root inorder app]. apply incr_mid; [exact Hil|split; [exact Hkr|exact Hir]|exact Ha|].
        constructor; [exact H|]. exact (all_lt_trans _ _ _ H Hkr).
      * reflexivity.
      * cbn [count chain]. rewrite !len_mid. reflexivity.
    + destruct (sgn_zero _ H) as (E1 & _ & E3). rewrite E1, E3. cbn [fst snd root chain count optl].
      rewrite repl_split by exact Hlk.
      split; [|split; reflexivity]. split; [|split].
      * apply bst_incr. cbn [root inorder]. apply incr_mid; [exact Hil|exact Hir|exact Ha|exact Hbb].
      * reflexivity.
      * cbn [count chain]. rewrite !len_mid. reflexivity.
    + assert (cmpe e k > 0) as H' by lia. destruct (sgn_pos _ H') as (E1 & _ & E3). rewrite E1, E3.
      cbn [fst snd root chain count optl].
      rewrite ins_after_split by exact Hlk.
      split; [|split; reflexivity]. split; [|split].
      * apply bst_incr. cbn [root inorder]. rewrite <- app_assoc. cbn [app]. apply incr_mid; [exact Hil|split; [exact Hbb|exact Hir]|exact Hlk|].
        constructor; [apply gt_ltk; exact H'|exact Hkr].
      * cbn [chain root inorder]. rewrite <- app_assoc. reflexivity.
      * cbn [count chain]. rewrite !len_mid. reflexivity.
Qed.

Lemma io_nil_both d (xs : list el) : Forall (fun x => ltk x d) xs -> Forall (ltk d) xs -> xs = [].
Proof.
  intros H1 H2. destruct xs as [|x xs]; [reflexivity|]. inversion H1; subst. inversion H2; subst.
  exfalso. eapply ltk_asym; eassumption.
Qed.

Theorem remove_spec s d nd : Inv s ->
  Inv (fst (fst (remove s d nd))) /\
  chain (fst (fst (remove s d nd))) = fst (s_remove (fst d) (chain s)) /\
  snd (fst (remove s d nd)) = is_some (snd (s_remove (fst d) (chain s))) /\
  snd (remove s d nd) = if nd then [] else optl (snd (s_remove (fst d) (chain s))).
Proof.
  intros (Hb & Hc & Hn). unfold remove.
  destruct (root s) as [|l0 k0 r0] eqn:Er.
  - cbn [fst snd].
    split; [split; [rewrite Er; exact Hb|split; [rewrite Er; exact Hc|exact Hn]]|].
    rewrite Hc. cbn [inorder s_remove fst snd is_some optl]. split; [reflexivity|].
    split; [reflexivity|]. destruct nd; reflexivity.
  - destruct (splay_view d (Node l0 k0 r0) ltac:(discriminate) Hb) as (l & k & r & Es & Eio & Hb' & Ha & Hbb).
    rewrite Es.
    assert (incr (io l ++ k :: io r)) as Hi by (rewrite Eio; apply bst_incr; exact Hb).
    pose proof (incr_mid_inv _ _ _ Hi) as (Hil & Hir & Hlk & Hkr).
    rewrite Hn, Hc, <- Eio. rewrite s_remove_split by assumption.
    destruct (cmpe d k =? 0) eqn:E0; cbn [negb fst snd root chain count is_some optl].
    + rewrite del_split by exact Hlk.
      assert (forall nr, io nr = io l ++ io r ->
              Inv {| root := nr; chain := io l ++ io r; count := Nat.pred (length (io l ++ k :: io r)) |}) as Hfin.
      { intros nr Enr. split; [|split].
        - apply bst_incr. cbn [root]. rewrite Enr. exact (incr_drop_mid _ _ _ Hi).
        - cbn [chain root]. symmetry. exact Enr.
        - cbn [count chain]. rewrite len_mid. reflexivity. }
      split; [|split; [reflexivity|split; [reflexivity|destruct nd; reflexivity]]].
      apply Hfin.
      destruct l as [|l1 lk0 l2] eqn:El; [reflexivity|].
      destruct Hb' as (Hbl & _).
      destruct (splay_view d (Node l1 lk0 l2) ltac:(discriminate) Hbl) as (ll & lk & lr & Es2 & Eio2 & _ & _ & Hb2).
      rewrite Es2.
      assert (io lr = []) as Elr.
      { apply (io_nil_both d); [|exact Hb2].
        rewrite <- Eio2 in Ha. apply Forall_app in Ha as (_ & Ha). inversion Ha; subst. assumption. }
      cbn [inorder]. cbn [inorder] in Eio2. rewrite <- Eio2, Elr, <- app_assoc. reflexivity.
    + split; [|split; [reflexivity|split; [reflexivity|destruct nd; reflexivity]]].
      split; [exact Hb'|split; [cbn [root chain inorder]; reflexivity|reflexivity]].
Qed.

Theorem clear_spec s nd :
  Inv (fst (clear s nd)) /\ chain (fst (clear s nd)) = fst (s_clear (chain s)) /\
  snd (clear s nd) = if nd then [] else snd (s_clear (chain s)).
Proof. unfold clear, s_clear. cbn [fst snd]. split; [exact inv_empty|]. split; reflexivity. Qed.

(* ================= every operation sequence refines the specification ================= *)
Lemma map_obs_dispose d x : map obs (map XDispose d ++ [x]) = map SDispose d ++ [obs x].
Proof. rewrite map_app, map_map. cbn [map]. f_equal. Qed.

Lemma step_refines s tg o : Inv s ->
  Inv (fst (fst (step (s, tg) o))) /\
  spec_step (chain s, tg) o = ((chain (fst (fst (step (s, tg) o))), snd (fst (step (s, tg) o))), map obs (snd (step (s, tg) o))).
Proof.
  intros HI. destruct o as [k|k|k|k nd|nd|]; cbn [step spec_step].
  - destruct (insert_spec s (k, (tg + 1)%N) HI) as (H1 & H2 & H3).
    destruct (insert s (k, (tg + 1)%N)) as [s' d]. destruct (s_insert (k, (tg + 1)%N) (chain s)) as [l' old].
    cbn [fst snd] in *. subst l' d. split; [exact H1|]. rewrite map_obs_dispose. reflexivity.
  - destruct (find_spec s (k, 0%N) HI) as (H1 & H2 & H3). destruct (find s (k, 0%N)) as [s' r].
    cbn [fst snd] in *. subst r. split; [exact H1|]. rewrite H2. reflexivity.
  - destruct (lower_spec s (k, 0%N) HI) as (H1 & H2 & H3). destruct (lower s (k, 0%N)) as [s' r].
    cbn [fst snd] in *. subst r. split; [exact H1|]. rewrite H2. reflexivity.
  - destruct (remove_spec s (k, 0%N) nd HI) as (H1 & H2 & H3 & H4). cbn [fst] in H2, H3, H4.
    destruct (remove s (k, 0%N) nd) as [[s' b] d]. destruct (s_remove k (chain s)) as [l' old].
    cbn [fst snd] in *. subst l' b d. split; [exact H1|]. rewrite map_obs_dispose. reflexivity.
  - destruct (clear_spec s nd) as (H1 & H2 & H3). destruct (clear s nd) as [s' d]. unfold s_clear in *.
    cbn [fst snd] in *. subst d. split; [exact H1|]. rewrite map_obs_dispose, H2. reflexivity.
  - cbn [fst snd map obs]. split; [exact HI|]. destruct HI as (_ & _ & Hn). rewrite Hn. reflexivity.
Qed.

Lemma rrun_refines ops : forall s tg, Inv s ->
  Inv (fst (fst (rrun _ _ _ step (s, tg) ops))) /\
  rrun _ _ _ spec_step (chain s, tg) ops =
    ((chain (fst (fst (rrun _ _ _ step (s, tg) ops))), snd (fst (rrun _ _ _ step (s, tg) ops))),
     map obs (snd (rrun _ _ _ step (s, tg) ops))).
Proof.
  induction ops as [|o r IH]; intros s tg HI; cbn [rrun].
  - cbn [fst snd map]. split; [exact HI|reflexivity].
  - destruct (step_refines s tg o HI) as (HI1 & E1). rewrite E1.
    destruct (step (s, tg) o) as [[s1 tg1] o1]. cbn [fst snd] in *.
    destruct (IH s1 tg1 HI1) as (HI2 & E2). rewrite E2.
    destruct (rrun _ _ _ step (s1, tg1) r) as [[s2 tg2] o2]. cbn [fst snd] in *.
    split; [exact HI2|]. rewrite map_app. reflexivity.
Qed.

Theorem run_inv ops : Inv (fst (fst (run_from init ops))).
Proof. unfold run_from. rewrite frun_rrun. apply rrun_refines. exact inv_empty. Qed.

Theorem run_from_refines ops :
  spec_run_from spec_init ops =
    ((chain (fst (fst (run_from init ops))), snd (fst (run_from init ops))), map obs (snd (run_from init ops))).
Proof.
  unfold spec_run_from, run_from. rewrite !frun_rrun.
  exact (proj2 (rrun_refines ops empty 0%N inv_empty)).
Qed.

Theorem run_refines_sorted_map ops : map obs (run ops) = spec_run ops.
Proof. unfold run, spec_run. rewrite run_from_refines. reflexivity. Qed.

(* the specification state really is a strictly increasing list *)
Theorem run_sorted ops : incr (chain (fst (fst (run_from init ops)))).
Proof. destruct (run_inv ops) as (Hb & Hc & _). rewrite Hc. apply bst_incr. exact Hb. Qed.

(* ================= the disposal ledger ================= *)
Lemma disposals_app a b : disposals (a ++ b) = disposals a ++ disposals b.
Proof. unfold disposals. apply flat_map_app. Qed.
Lemma disposals_log d x : (match x with XDispose _ => False | _ => True end) -> disposals (map XDispose d ++ [x]) = d.
Proof.
  intros Hx. rewrite disposals_app. unfold disposals at 2. cbn [flat_map]. destruct x; try contradiction; rewrite app_nil_r;
  (induction d as [|y d IH]; cbn; [reflexivity|f_equal; exact IH]).
Qed.

Lemma s_insert_perm e l : Permutation (e :: l) (optl (snd (s_insert e l)) ++ fst (s_insert e l)).
Proof.
  induction l as [|x r IH]; cbn [s_insert]; [reflexivity|].
  destruct (cmpK (fst e) (fst x) <? 0); [reflexivity|].
  destruct (cmpK (fst e) (fst x) =? 0); [apply perm_swap|].
  destruct (s_insert e r) as [r' o]. cbn [fst snd optl] in *.
  rewrite perm_swap. rewrite <- Permutation_middle. apply perm_skip. exact IH.
Qed.
Lemma s_remove_perm k l : Permutation l (optl (snd (s_remove k l)) ++ fst (s_remove k l)).
Proof.
  induction l as [|x r IH]; cbn [s_remove]; [reflexivity|].
  destruct (cmpK k (fst x) =? 0); [reflexivity|].
  destruct (s_remove k r) as [r' o]. cbn [fst snd optl] in *.
  rewrite <- Permutation_middle. apply perm_skip. exact IH.
Qed.

Definition ins_of (tg : N) (o : op) : list el := match o with OIns k => [(k, (tg + 1)%N)] | _ => [] end.
Definition tg_after (tg : N) (o : op) : N := match o with OIns _ => (tg + 1)%N | _ => tg end.

Lemma inserted_from_cons tg o r : inserted_from tg (o :: r) = ins_of tg o ++ inserted_from (tg_after tg o) r.
Proof. destruct o; reflexivity. Qed.

(* one operation: what comes in (the inserted element) plus what was there = disposed + still there + released *)
Lemma step_conserve s tg o : Inv s ->
  snd (fst (step (s, tg) o)) = tg_after tg o /\
  Permutation (ins_of tg o ++ chain s)
              (disposals (snd (step (s, tg) o)) ++ chain (fst (fst (step (s, tg) o))) ++ released_by s o).
Proof.
  intros HI. destruct o as [k|k|k|k nd|nd|]; cbn [step ins_of tg_after released_by].
  - destruct (insert_spec s (k, (tg + 1)%N) HI) as (_ & H2 & H3).
    destruct (insert s (k, (tg + 1)%N)) as [s' d]. cbn [fst snd] in *. split; [reflexivity|].
    rewrite disposals_log by exact I. rewrite app_nil_r, H2, H3. cbn [app]. apply s_insert_perm.
  - destruct (find_spec s (k, 0%N) HI) as (_ & H2 & _). destruct (find s (k, 0%N)) as [s' r].
    cbn [fst snd disposals flat_map app] in *. split; [reflexivity|]. rewrite app_nil_r, H2. reflexivity.
  - destruct (lower_spec s (k, 0%N) HI) as (_ & H2 & _). destruct (lower s (k, 0%N)) as [s' r].
    cbn [fst snd disposals flat_map app] in *. split; [reflexivity|]. rewrite app_nil_r, H2. reflexivity.
  - destruct (remove_spec s (k, 0%N) nd HI) as (_ & H2 & _ & H4).
    destruct (remove_spec s (k, 0%N) false HI) as (_ & _ & _ & H5).
    destruct (remove s (k, 0%N) nd) as [[s' b] d]. cbn [fst snd] in *. split; [reflexivity|].
    rewrite disposals_log by exact I. rewrite H2, H4. cbn [app].
    destruct nd.
    + rewrite H5. cbn [app]. rewrite Permutation_app_comm. apply s_remove_perm.
    + rewrite app_nil_r. apply s_remove_perm.
  - cbn [clear fst snd]. split; [reflexivity|]. rewrite disposals_log by exact I. cbn [app empty chain].
    destruct nd; cbn [app]; [reflexivity|rewrite app_nil_r; reflexivity].
  - cbn [fst snd disposals flat_map app]. split; [reflexivity|]. rewrite app_nil_r. reflexivity.
Qed.

Lemma perm_glue (c i i2 d1 c1 r1 d2 c' r2 : list el) :
  Permutation (i ++ c) (d1 ++ c1 ++ r1) -> Permutation (c1 ++ i2) (d2 ++ c' ++ r2) ->
  Permutation (c ++ i ++ i2) ((d1 ++ d2) ++ c' ++ r1 ++ r2).
Proof.
  intros H1 H2.
  transitivity ((i ++ c) ++ i2).
  { rewrite app_assoc. apply Permutation_app_tail. apply Permutation_app_comm. }
  rewrite H1. rewrite <- !app_assoc. apply Permutation_app_head.
  rewrite (Permutation_app_comm r1 i2). rewrite (app_assoc c1 i2 r1). rewrite H2.
  rewrite <- !app_assoc. do 2 apply Permutation_app_head. apply Permutation_app_comm.
Qed.

Lemma rrun_conserve ops : forall s tg, Inv s ->
  Permutation (chain s ++ inserted_from tg ops)
              (disposals (snd (rrun _ _ _ step (s, tg) ops)) ++ chain (fst (fst (rrun _ _ _ step (s, tg) ops)))
               ++ released_from (s, tg) ops).
Proof.
  induction ops as [|o r IH]; intros s tg HI.
  - cbn [rrun inserted_from released_from fst snd disposals flat_map app]. rewrite !app_nil_r. reflexivity.
  - rewrite inserted_from_cons. cbn [rrun released_from fst].
    destruct (step_conserve s tg o HI) as (Etg & Hp). pose proof (proj1 (step_refines s tg o HI)) as HI1.
    destruct (step (s, tg) o) as [[s1 tg1] o1]. cbn [fst snd] in *. subst tg1.
    specialize (IH s1 (tg_after tg o) HI1).
    destruct (rrun _ _ _ step (s1, tg_after tg o) r) as [[s2 tg2] o2]. cbn [fst snd] in *.
    rewrite disposals_app. apply (perm_glue _ _ _ _ _ _ _ _ _ Hp IH).
Qed.

Lemma inserted_from_tags ops : forall tg,
  Forall (fun t => (tg < t)%N) (map snd (inserted_from tg ops)) /\ NoDup (map snd (inserted_from tg ops)).
Proof.
  induction ops as [|o r IH]; intros tg; [split; constructor|].
  destruct o as [k| | | | |]; try exact (IH tg).
  cbn [inserted_from map snd]. destruct (IH (tg + 1)%N) as (H1 & H2). split.
  - constructor; [lia|]. eapply Forall_impl; [|exact H1]. intros t Ht. cbv beta in Ht. lia.
  - constructor; [|exact H2]. intro Hin. rewrite Forall_forall in H1. specialize (H1 _ Hin). lia.
Qed.

(* For every operation sequence: the elements handed in are, as a multiset, exactly the disposed ones, the ones still
   in the set and the ones released with no_dispose; and all of those carry distinct tags. *)
Theorem dispose_exactly_once ops :
  let acct := disposals (run ops) ++ chain (fst (fst (run_from init ops))) ++ released ops in
  Permutation (inserted ops) acct /\ NoDup (map snd acct).
Proof.
  cbv zeta. unfold run, released, inserted, run_from. rewrite frun_rrun.
  pose proof (rrun_conserve ops empty 0%N inv_empty) as Hp. cbn [chain empty app] in Hp. fold init in Hp.
  split; [exact Hp|].
  eapply Permutation_NoDup; [apply Permutation_map; exact Hp|]. apply inserted_from_tags.
Qed.

Corollary never_disposed_twice ops : NoDup (map snd (disposals (run ops))).
Proof.
  destruct (dispose_exactly_once ops) as (_ & Hn). cbv zeta in Hn. rewrite map_app in Hn.
  apply NoDup_app_inv in Hn as (Hn & _). exact Hn.
Qed.
Corollary disposed_not_in_set ops e : In e (disposals (run ops)) ->
  ~ In (snd e) (map snd (chain (fst (fst (run_from init ops))))).
Proof.
  intros Hin. destruct (dispose_exactly_once ops) as (_ & Hn). cbv zeta in Hn. rewrite !map_app in Hn.
  apply NoDup_app_inv in Hn as (_ & _ & Hd). intro Hc. apply (Hd (snd e)).
  - apply in_map. exact Hin.
  - apply in_or_app. left. exact Hc.
Qed.
(* ---------- reading the specification ---------- *)
Lemma s_find_some k l x : s_find k l = Some x -> In x l /\ cmpK k (fst x) = 0.
Proof.
  induction l as [|y r IH]; cbn [s_find]; [discriminate|].
  destruct (Z.eqb_spec (cmpK k (fst y)) 0) as [E|_].
  - intros [= <-]. split; [left; reflexivity|exact E].
  - intros H. destruct (IH H) as (Hin & E). split; [right; exact Hin|exact E].
Qed.
Lemma s_find_none k l : s_find k l = None -> Forall (fun x => cmpK k (fst x) <> 0) l.
Proof.
  induction l as [|y r IH]; cbn [s_find]; [constructor|].
  destruct (Z.eqb_spec (cmpK k (fst y)) 0) as [_|N]; [discriminate|]. intros H. constructor; [exact N|exact (IH H)].
Qed.
(* the lower bound: everything before it is smaller than the probe, it is not *)
Lemma s_lower_some k l x : s_lower k l = Some x ->
  exists a b, l = a ++ x :: b /\ Forall (fun y => cmpK k (fst y) > 0) a /\ cmpK k (fst x) <= 0.
Proof.
  induction l as [|y r IH]; cbn [s_lower]; [discriminate|].
  destruct (Z.gtb_spec (cmpK k (fst y)) 0) as [G|G].
  - intros H. destruct (IH H) as (a & b & -> & Ha & Hx). exists (y :: a), b. split; [reflexivity|].
    split; [constructor; [lia|exact Ha]|exact Hx].
  - intros [= <-]. exists [], r. split; [reflexivity|]. split; [constructor|lia].
Qed.
Lemma s_lower_none k l : s_lower k l = None -> Forall (fun y => cmpK k (fst y) > 0) l.
Proof.
  induction l as [|y r IH]; cbn [s_lower]; [constructor|].
  destruct (Z.gtb_spec (cmpK k (fst y)) 0) as [G|G]; [|discriminate]. intros H. constructor; [lia|exact (IH H)].
Qed.

(* splaying at a probe above every element brings the maximum to the root: the right subtree is empty
   (this is how remove joins the two subtrees of the removed root) *)
Lemma splay_max d t : t <> Leaf -> bstk t -> Forall (fun x => ltk x d) (io t) ->
  exists l k, fst (splay el cmpe d t) = Node l k Leaf /\ io l ++ [k] = io t.
Proof.
  intros Hne Hb Hall. destruct (splay_view d t Hne Hb) as (l & k & r & Es & Eio & _ & _ & Hr).
  assert (io r = []) as Er.
  { apply (io_nil_both d); [|exact Hr]. rewrite <- Eio in Hall. apply Forall_app in Hall as (_ & H).
    inversion H; subst. assumption. }
  assert (r = Leaf) as -> by (destruct r; [reflexivity|cbn [inorder] in Er; destruct (inorder el r1); discriminate]).
  exists l, k. rewrite Es. split; [reflexivity|exact Eio].
Qed.
End G.

(* ---------- the specification depends on the comparator only pointwise ---------- *)
Section Ext.
Variables (K : Type) (c1 c2 : K -> K -> Z).
Hypothesis Hc : forall a b, c1 a b = c2 a b.
Lemma s_find_ext k l : s_find K c1 k l = s_find K c2 k l.
Proof. induction l as [|x r IH]; cbn [s_find]; [reflexivity|]. rewrite Hc, IH. reflexivity. Qed.
Lemma s_lower_ext k l : s_lower K c1 k l = s_lower K c2 k l.
Proof. induction l as [|x r IH]; cbn [s_lower]; [reflexivity|]. rewrite Hc, IH. reflexivity. Qed.
Lemma s_insert_ext e l : s_insert K c1 e l = s_insert K c2 e l.
Proof. induction l as [|x r IH]; cbn [s_insert]; [reflexivity|]. rewrite Hc, IH. reflexivity. Qed.
Lemma s_remove_ext k l : s_remove K c1 k l = s_remove K c2 k l.
Proof. induction l as [|x r IH]; cbn [s_remove]; [reflexivity|]. rewrite Hc, IH. reflexivity. Qed.
Lemma spec_step_ext st o : spec_step K c1 st o = spec_step K c2 st o.
Proof.
  destruct st as [l tg]. destruct o; cbn [spec_step]; rewrite ?s_insert_ext, ?s_find_ext, ?s_lower_ext, ?s_remove_ext; reflexivity.
Qed.
Lemma spec_run_ext ops : spec_run K c1 ops = spec_run K c2 ops.
Proof.
  unfold spec_run, spec_run_from. rewrite !frun_rrun. f_equal. generalize (spec_init K).
  induction ops as [|o r IH]; intros st; cbn [rrun]; [reflexivity|].
  rewrite spec_step_ext. destruct (spec_step K c2 st o) as [st' o1]. rewrite IH. reflexivity.
Qed.
End Ext.

(* ---------- audit ---------- *)
