(* C19: the set container is an ordered map for every history.  ONLY statements closed by `exact`, each followed by Print Assumptions. *)
From Coq Require Import List ZArith NArith.
Require Import Splay SplayRoot SetOps SetRefine.

Theorem splay_preserves_inorder : forall (K : Type) (cmp : K -> K -> Z) (d : K) (t : Splay.tree K),
  Splay.inorder K (fst (Splay.splay K cmp d t)) = Splay.inorder K t.
Proof. exact splay_inorder. Qed.
Print Assumptions splay_preserves_inorder.

Theorem find_refines_sorted_map : forall s d, Inv s ->
  Inv (fst (find s d)) /\ chain (fst (find s d)) = chain s /\ snd (find s d) = assoc (fst d) (chain s).
Proof. exact find_spec. Qed.
Print Assumptions find_refines_sorted_map.

Theorem insert_refines_sorted_map : forall s e, Inv s ->
  Inv (fst (insert s e)) /\ chain (fst (insert s e)) = sins e (chain s) /\
  snd (insert s e) = match assoc (fst e) (chain s) with Some old => cons old nil | None => nil end.
Proof. exact insert_spec. Qed.
Print Assumptions insert_refines_sorted_map.
