(* C19: the set container is an ordered map for every history.  ONLY statements closed by `exact`, each followed by Print Assumptions.
   SetOps.run is the executable model compared with src/set.c on every run (results, iteration order, disposal log, count);
   SetGen is the same algorithm over an arbitrary comparator that is a total preorder. *)
From Coq Require Import List ZArith NArith Permutation Strings.Byte.
Require Import Splay SplayRoot SetOps SetGen Comparators SetInt.

(* for EVERY operation sequence the model used in the correspondence answers exactly like the sorted association list:
   results of find / lower bound / remove, iteration order (chain), count and disposal log *)
Theorem set_is_a_sorted_map : forall ops, map obsI (SetOps.run ops) = SetGen.spec_run Z cmp_int (map gop ops).
Proof. exact run_refines_sorted_map_SetOps. Qed.
Print Assumptions set_is_a_sorted_map.

(* an element's cleanup runs exactly once: inserted = disposed ++ still in the set ++ released without disposal (as multisets),
   and no tag occurs twice in that ledger, so nothing is disposed twice and nothing disposed is still in the set *)
Theorem cleanup_exactly_once : forall ops,
  let acct := disposalsI (SetOps.run ops) ++ SetOps.chain (fst (fst (SetOps.run_from SetOps.init ops))) ++ released_fromI SetOps.init ops in
  Permutation (inserted_fromI 0%N ops) acct /\ NoDup (map snd acct).
Proof. exact dispose_exactly_once_SetOps. Qed.
Print Assumptions cleanup_exactly_once.

(* the same two facts for every comparator that is a total preorder, any key type *)
Theorem generic_set_is_a_sorted_map : forall (K : Type) (cmp : K -> K -> Z), total_preorder cmp ->
  forall ops, map (SetGen.obs K) (SetGen.run K cmp ops) = SetGen.spec_run K cmp ops.
Proof. exact tp_run_refines_sorted_map. Qed.
Print Assumptions generic_set_is_a_sorted_map.

Theorem generic_invariant : forall (K : Type) (cmp : K -> K -> Z), total_preorder cmp ->
  forall ops, SetGen.Inv K cmp (fst (fst (SetGen.run_from K cmp (SetGen.init K) ops))).
Proof. exact tp_run_inv. Qed.
Print Assumptions generic_invariant.

(* the stock comparators are total preorders over their whole key domain *)
Theorem int_comparator_total : total_preorder cmp_int.          (* the C expression (a > b) - (a < b) on the pointed-to ints, every pair of ints *)
Proof. exact cmp_int_total_preorder. Qed.
Print Assumptions int_comparator_total.

Theorem string_comparator_total : total_preorder cmp_ci.   (* strcasecmp *)
Proof. exact cmp_ci_total_preorder. Qed.
Print Assumptions string_comparator_total.

Theorem pointer_comparator_total : total_preorder cmp_ptr.
Proof. exact cmp_ptr_total_preorder. Qed.
Print Assumptions pointer_comparator_total.

(* the comparator the pinned tree shipped with (wrap32 (a - b)) is NOT one: this is defect D7, repaired by commit 1b15131 *)
Theorem subtraction_comparator_refuted : ~ total_preorder old_cmp_int.
Proof. exact old_cmp_int_not_total_preorder. Qed.
Print Assumptions subtraction_comparator_refuted.

(* splaying never changes the in-order sequence, for any comparator whatsoever *)
Theorem splay_preserves_inorder : forall (K : Type) (cmp : K -> K -> Z) (d : K) (t : Splay.tree K),
  Splay.inorder K (fst (Splay.splay K cmp d t)) = Splay.inorder K t.
Proof. exact splay_inorder. Qed.
Print Assumptions splay_preserves_inorder.
