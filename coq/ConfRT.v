(* Spike: the string layer of C16 on the real parser model (Conf.v): a canonically quoted string reads back
   byte for byte, whatever follows it. *)
From Coq Require Import List NArith Bool Strings.Byte Lia.
Import ListNotations.
Require Import Conf.
Local Open Scope N_scope.

(* canonical quoting: escape only the double quote and the backslash *)
Definition esc (c : byte) : str := if beq c QUOTE || beq c BSL then [BSL; c] else [c].
Definition quote (s : str) : str := QUOTE :: flat_map esc s ++ [QUOTE].
Definition nonul (s : str) : Prop := Forall (fun c => beq c x00 = false) s.

Lemma beq_refl c : beq c c = true. Proof. unfold beq. apply Byte.byte_dec_lb. reflexivity. Qed.
Lemma beq_eq a b : beq a b = true -> a = b. Proof. apply Byte.byte_dec_bl. Qed.

Lemma esc_simple_special c : beq c QUOTE || beq c BSL = true -> esc_simple c = None /\ beq c x78 = false.
Proof.
  intros H. apply orb_true_iff in H as [H|H]; apply beq_eq in H; subst c; split; reflexivity.
Qed.

Lemma unq_quote s : forall rest, unq (flat_map esc s ++ QUOTE :: rest) = Some (s, rest).
Proof.
  induction s as [|c s IH]; intros rest; cbn [flat_map app unq].
  - rewrite beq_refl. reflexivity.
  - unfold esc at 1. destruct (beq c QUOTE || beq c BSL) eqn:E.
    + destruct (esc_simple_special c E) as (Hs & Hx).
      cbn [app unq]. change (beq BSL QUOTE) with false. rewrite beq_refl. cbn iota. rewrite Hx, IH, Hs. reflexivity.
    + apply orb_false_iff in E as [E1 E2]. cbn [app unq]. rewrite E1, E2, IH. reflexivity.
Qed.

Lemma cut_nul_id s : nonul s -> cut_nul s = s.
Proof. induction 1 as [|c s Hc Hs IH]; cbn [cut_nul]; [reflexivity|]. rewrite Hc, IH. reflexivity. Qed.

(* the white-space scanner stops at a quote *)
Lemma ws_quote fuel care rest : ws (S fuel) care (QUOTE :: rest) = (Some QUOTE, rest).
Proof. reflexivity. Qed.
Lemma ws_space fuel care rest : ws (S fuel) care (x20 :: rest) = ws fuel care rest.
Proof. reflexivity. Qed.

Theorem pstring_quote fuel s rest : nonul s -> pstring (S fuel) (quote s ++ rest) = Some (inr (s, rest)).
Proof.
  intros Hn. unfold pstring, quote. cbn [app]. rewrite ws_quote. rewrite beq_refl.
  rewrite <- app_assoc. cbn [app]. rewrite unq_quote, cut_nul_id by exact Hn. reflexivity.
Qed.

(* and after any run of blanks *)
Theorem pstring_blanks_quote n fuel s rest : nonul s -> pstring (S (n + fuel)) (repeat x20 n ++ quote s ++ rest) = Some (inr (s, rest)).
Proof.
  intros Hn. unfold pstring. 
  assert (forall k f, ws (S (k + f)) false (repeat x20 k ++ quote s ++ rest) = (Some QUOTE, flat_map esc s ++ [QUOTE] ++ rest)) as W.
  { induction k as [|k IH]; intros f; cbn [repeat app Nat.add].
    - unfold quote. cbn [app]. rewrite ws_quote, <- app_assoc. reflexivity.
    - rewrite ws_space. apply IH. }
  rewrite W, beq_refl. cbn [app]. rewrite unq_quote, cut_nul_id by exact Hn. reflexivity.
Qed.
