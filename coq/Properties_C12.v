(* C12: address text round-trips for every address.  ONLY statements closed by `exact`, each followed by Print Assumptions.
   All statements are about AddrFull.ntop / AddrFull.pton, the model that is compared byte for byte with
   modules/iauth_misc.c on every run, and quantify over every address: wf gs := 8 groups, each < 65536. *)
From Coq Require Import List NArith Strings.Byte.
Import ListNotations.
Require Import Params AddrFull AddrV4 AddrRoundTrip.
Require AddrRef AddrCompose.
Local Open Scope N_scope.

(* the text the daemon produces is accepted by its own parser, consumed completely, and denotes the same address
   (IPv4-compatible addresses canonicalise to IPv4-mapped: canon sets group 5 to ffff when the IPv4 form was printed) *)
Theorem text_roundtrips_through_own_parser : forall gs, wf gs ->
  pton (ntop gs) false false = Res (length (ntop gs)) None (canon gs).
Proof. exact ntop_roundtrip. Qed.
Print Assumptions text_roundtrips_through_own_parser.

(* ... and by the standard library parser, represented by the RFC 4291 reference parser AddrRef.ref_pton *)
Theorem text_roundtrips_through_reference_parser : forall gs, wf gs -> AddrRef.ref_pton (ntop gs) = Some (canon gs).
Proof. exact ntop_ref_roundtrip. Qed.
Print Assumptions text_roundtrips_through_reference_parser.

(* it never begins with ':' (which the line protocol would misread as a trailing argument) *)
Theorem text_never_begins_with_colon : forall gs, wf gs -> exists c r, ntop gs = c :: r /\ c <> colon.
Proof. exact ntop_no_leading_colon. Qed.
Print Assumptions text_never_begins_with_colon.

(* it fits the documented buffer size (IRC_NTOP_MAX is regenerated from modules/iauth.h on every run) *)
Theorem text_fits_documented_buffer : forall gs, wf gs -> (length (ntop gs) < IRC_NTOP_MAX)%nat.
Proof. exact ntop_fits. Qed.
Print Assumptions text_fits_documented_buffer.

(* parsing a printed address and printing it again is idempotent *)
Theorem parse_then_print_is_idempotent : forall gs n b gs', wf gs -> pton (ntop gs) false false = Res n b gs' ->
  ntop gs' = ntop gs /\ pton (ntop gs') false false = Res n b gs'.
Proof. exact parse_print_idem. Qed.
Print Assumptions parse_then_print_is_idempotent.

(* distinct addresses (up to the IPv4 canonicalisation) never share a text *)
Theorem text_determines_address : forall gs1 gs2, wf gs1 -> wf gs2 -> ntop gs1 = ntop gs2 -> canon gs1 = canon gs2.
Proof. exact ntop_inj. Qed.
Print Assumptions text_determines_address.

(* non-vacuity: the two addresses that used to break the round trip (D2, D20) are well-formed and round-trip *)
Example d2_d20_witnesses :
  wf [0x2001; 0; 0; 1; 0; 2; 0; 0] /\ wf [0; 1; 2; 3; 4; 5; 6; 7] /\
  pton (ntop [0x2001; 0; 0; 1; 0; 2; 0; 0]) false false = Res 15 None [0x2001; 0; 0; 1; 0; 2; 0; 0] /\
  pton (ntop [0; 1; 2; 3; 4; 5; 6; 7]) false false = Res 15 None [0; 1; 2; 3; 4; 5; 6; 7].
Proof. repeat split; try (repeat constructor; reflexivity); vm_compute; reflexivity. Qed.

(* "parsing any accepted plain address and printing it again is idempotent": whatever text the parser accepts, the printed form t'
   of the result parses again, completely, to the canonical form of the same address, and printing that gives t' once more *)
Theorem accepted_text_then_print_is_idempotent : forall input usebits trailing n b gs,
  pton input usebits trailing = Res n b gs ->
  let t' := ntop gs in
  pton t' false false = Res (length t') None (canon gs) /\ ntop (canon gs) = t' /\
  pton (ntop (canon gs)) false false = Res (length t') None (canon gs).
Proof. exact AddrCompose.accepted_text_print_idem. Qed.
Print Assumptions accepted_text_then_print_is_idempotent.
