(* C12: address text round-trips for every address.  ONLY statements closed by `exact`, each followed by Print Assumptions. *)
From Coq Require Import List NArith Strings.Byte.
Import ListNotations.
Require Import Addr AddrRT AddrRT2 AddrRT3 AddrRT4.
Local Open Scope N_scope.

(* parser half: every uncompressed text of 8 groups parses back to those groups *)
Theorem pton_of_plain_text : forall gs, length gs = 8%nat -> small gs -> pton6 (join gs) = Some gs.
Proof. exact pton_plain. Qed.
Print Assumptions pton_of_plain_text.

(* parser half: every text with one "::" standing for z >= 2 zero groups parses back to the full address *)
Theorem pton_of_compressed_text : forall pre post z,
  small pre -> small post -> (length pre + z + length post = 8)%nat -> (2 <= z)%nat ->
  pton6 (text pre post) = Some (pre ++ repeat 0 z ++ post).
Proof. exact pton_compressed. Qed.
Print Assumptions pton_of_compressed_text.
