(* Phase 3: module_close_all, unload in rounds in name order, for an arbitrary number of modules.
   On a dependency-closed set of modules with a rank function (acyclic), every round makes progress while a module is live,
   the fuel S n suffices, the trailing "remove the rest" pass removes nothing, every module gets exactly one DT, and a module's
   DT comes before the DT of each of its dependencies. *)
From Coq Require Import List Arith Lia Bool.
Import ListNotations.
Require Import ModModel ModBase.

Definition drop (m : mid) (l : list mid) : list mid := filter (fun x => negb (Nat.eqb x m)) l.
Definition rd_drop (m : mid) (ds : list mid) (rd : list (mid * list mid)) : list (mid * list mid) :=
  fold_left (fun acc d => upd d (fun l => filter (fun x => negb (Nat.eqb x m)) l) acc) ds rd.

Lemma In_drop x m l : In x (drop m l) <-> In x l /\ x <> m.
Proof.
  unfold drop. rewrite filter_In. rewrite negb_true_iff, Nat.eqb_neq. tauto.
Qed.
Lemma drop_length m l : In m l -> length (drop m l) < length l.
Proof.
  intro H. unfold drop. unfold mid in *.
  assert (LE : forall l0, length (filter (fun x => negb (Nat.eqb x m)) l0) <= length l0).
  { induction l0; simpl; auto. destruct (negb (Nat.eqb a m)); simpl; lia. }
  induction l; simpl in *. contradiction.
  destruct H as [->|H].
  - rewrite Nat.eqb_refl. simpl. specialize (LE l). lia.
  - specialize (IHl H). destruct (negb (Nat.eqb a m)); simpl; lia.
Qed.
Lemma rd_drop_In m ds : forall rd d x, In x (assoc d (rd_drop m ds rd)) <-> In x (assoc d rd) /\ (In d ds -> x <> m).
Proof.
  induction ds as [|d0 ds IH]; intros rd d x; simpl.
  - tauto.
  - unfold rd_drop in *. simpl. rewrite IH. rewrite assoc_upd. destruct (Nat.eqb d0 d) eqn:E.
    + apply Nat.eqb_eq in E. subst d0. rewrite filter_In, negb_true_iff, Nat.eqb_neq. tauto.
    + apply Nat.eqb_neq in E. tauto.
Qed.

Lemma close_round_cons order m live rd dp lg : close_round (m :: order) live rd dp lg =
  if mem m live && (match assoc m rd with [] => true | _ => false end) then
    let '(live', rd'', lg', _) := close_round order (drop m live) (rd_drop m (assoc m dp) rd) dp (DT m :: lg) in (live', rd'', lg', true)
  else close_round order live rd dp lg.
Proof. reflexivity. Qed.

Lemma filter_false {A} (l : list A) : filter (fun _ => false) l = [].
Proof. induction l; simpl; auto. Qed.

Section Close.
  Variable n : nat.
  Variable g : graph.
  Variable pres order : list mid.
  Variable dp : list (mid * list mid).
  Variable rank : mid -> nat.
  Variable lg0 : list ev.
  Hypothesis dp_g : forall x, In x pres -> assoc x dp = g x.
  Hypothesis pres_closed : forall x d, In x pres -> In d (g x) -> In d pres.
  Hypothesis rank_ok : forall x d, In x pres -> In d (g x) -> rank d < rank x.
  Hypothesis lg0_nodt : forall x, count (isDT x) lg0 = 0.
  Hypothesis order_all : forall x, In x pres -> In x order.

  Record CInv (live : list mid) (rd : list (mid * list mid)) (lg : list ev) : Prop := {
    ci_nodup : NoDup live;
    ci_incl : incl live pres;
    ci_closed : forall x d, In x live -> In d (g x) -> In d live;
    ci_rd : forall d x, In x (assoc d rd) <-> In x live /\ In d (g x);
    ci_cnt1 : forall x, In x pres -> ~ In x live -> count (isDT x) lg = 1;
    ci_cnt0 : forall x, ~ In x pres \/ In x live -> count (isDT x) lg = 0;
    ci_ord : forall x d, In x pres -> ~ In x live -> In d (g x) -> In d live \/ precedes (DT d) (DT x) lg;
    ci_log : exists l, lg = l ++ lg0 /\ Forall is_dt l }.

  Lemma CInv_remove live rd lg m : CInv live rd lg -> In m live -> assoc m rd = [] ->
    CInv (drop m live) (rd_drop m (assoc m dp) rd) (DT m :: lg).
  Proof.
    intros [H1 H2 H3 H4 H5 H6 H7 H8] Hm Hrd.
    assert (Hmp : In m pres) by (apply H2; auto).
    assert (Nodep : forall x, In x live -> ~ In m (g x)).
    { intros x Hx Hg. assert (In x (assoc m rd)) by (apply H4; auto). rewrite Hrd in H. destruct H. }
    split.
    - apply NoDup_filter; auto.
    - intros x Hx. apply In_drop in Hx. apply H2. tauto.
    - intros x d Hx Hd. apply In_drop in Hx. destruct Hx as [Hx Hne]. apply In_drop. split. eapply H3; eauto.
      intro. subst d. exact (Nodep x Hx Hd).
    - intros d x. rewrite rd_drop_In, H4, In_drop, (dp_g m Hmp). split.
      + intros [[Hx Hd] Hn]. split; auto. split; auto. intro. subst x. apply (Hn Hd). reflexivity.
      + intros [[Hx Hn] Hd]. split; auto.
    - intros x Hx Hn. rewrite count_cons. simpl. destruct (Nat.eqb m x) eqn:E.
      + apply Nat.eqb_eq in E. subst x. rewrite H6; auto.
      + apply Nat.eqb_neq in E. rewrite H5; auto. intro. apply Hn. apply In_drop. split; auto.
    - intros x Hx. rewrite count_cons. simpl. destruct (Nat.eqb m x) eqn:E.
      + apply Nat.eqb_eq in E. subst x. destruct Hx as [Hx|Hx]. contradiction. apply In_drop in Hx. destruct Hx. congruence.
      + rewrite H6; auto. destruct Hx as [Hx|Hx]; auto. apply In_drop in Hx. tauto.
    - intros x d Hx Hn Hd. destruct (Nat.eq_dec x m) as [->|Hne].
      + left. apply In_drop. split. eapply H3; eauto. intro. subst d. exact (Nodep m Hm Hd).
      + assert (Hnl : ~ In x live). { intro. apply Hn. apply In_drop. auto. }
        destruct (Nat.eq_dec d m) as [->|Hdm].
        * right. apply precedes_head. apply In_DT. rewrite H5; auto.
        * destruct (H7 x d Hx Hnl Hd) as [Hl|Hp]. left. apply In_drop. auto. right. apply precedes_cons; auto.
    - destruct H8 as (l & -> & Hl). exists (DT m :: l). split; auto. constructor; simpl; auto.
  Qed.

  Lemma close_round_ok : forall ord live rd lg, CInv live rd lg ->
    let '(live', rd', lg', prog) := close_round ord live rd dp lg in
    CInv live' rd' lg' /\ length live' <= length live /\ (prog = true -> length live' < length live) /\
    (prog = false -> live' = live /\ forall m, In m ord -> In m live -> assoc m rd <> []).
  Proof.
    induction ord as [|m r IH]; intros live rd lg HI.
    - simpl. split; auto. split; auto. split. discriminate. intros _. split; auto.
    - rewrite close_round_cons. destruct (mem m live && match assoc m rd with [] => true | _ => false end) eqn:C.
      + apply andb_true_iff in C. destruct C as [C1 C2]. apply mem_In in C1.
        assert (Hrd : assoc m rd = []) by (destruct (assoc m rd); auto; discriminate).
        assert (HI' := CInv_remove live rd lg m HI C1 Hrd).
        specialize (IH _ _ _ HI').
        destruct (close_round r (drop m live) (rd_drop m (assoc m dp) rd) dp (DT m :: lg)) as [[[live' rd'] lg'] prog].
        destruct IH as (A & B & _ & _). pose proof (drop_length m live C1).
        split; auto. split. lia. split. intros _. lia. discriminate.
      + specialize (IH _ _ _ HI). destruct (close_round r live rd dp lg) as [[[live' rd'] lg'] prog].
        destruct IH as (A & B & C3 & D). split; auto. split; auto. split; auto.
        intro Hp. destruct (D Hp) as [-> D2]. split; auto. intros m0 [<-|Hm0] Hl; auto.
        apply andb_false_iff in C. destruct C as [C|C]. apply mem_nIn in C. contradiction.
        intro Hz. rewrite Hz in C. discriminate.
  Qed.

  Lemma stuck_empty live rd lg : CInv live rd lg -> (forall m, In m order -> In m live -> assoc m rd <> []) -> live = [].
  Proof.
    intros HI Hs. destruct live as [|a l] eqn:El; auto. exfalso. rewrite <- El in *.
    destruct (max_rank rank live) as (m & Hm & Hmax). rewrite El; discriminate.
    assert (Hmp : In m pres) by (apply (ci_incl _ _ _ HI); auto).
    apply (Hs m (order_all m Hmp) Hm).
    destruct (assoc m rd) as [|x t] eqn:Ea; auto. exfalso.
    assert (Hx : In x (assoc m rd)) by (rewrite Ea; left; auto).
    apply (ci_rd _ _ _ HI) in Hx. destruct Hx as [Hx Hg].
    assert (rank m < rank x). { apply rank_ok; auto. apply (ci_incl _ _ _ HI); auto. }
    specialize (Hmax x Hx). lia.
  Qed.

  Lemma close_all_ok : forall fuel live rd lg, CInv live rd lg -> length live < fuel ->
    exists rd', CInv [] rd' (close_all fuel order live rd dp lg).
  Proof.
    induction fuel as [|f IH]; intros live rd lg HI Hf. lia.
    simpl. pose proof (close_round_ok order live rd lg HI) as R.
    destruct (close_round order live rd dp lg) as [[[live' rd'] lg'] prog].
    destruct R as (A & B & C & D). destruct prog.
    - apply IH; auto. specialize (C eq_refl). lia.
    - destruct (D eq_refl) as [-> D2]. assert (live = []) by (apply (stuck_empty live rd lg HI D2)). subst live.
      simpl. rewrite filter_false. simpl. exists rd'. auto.
  Qed.

  (* Phase 3, summary *)
  Theorem close_phase : forall rd, NoDup pres -> length pres <= n ->
    (forall d x, In x (assoc d rd) <-> In x pres /\ In d (g x)) ->
    exists l, close_all (S n) order pres rd dp lg0 = l ++ lg0 /\ Forall is_dt l /\
      (forall x, In x pres -> count (isDT x) (l ++ lg0) = 1) /\
      (forall x, ~ In x pres -> count (isDT x) (l ++ lg0) = 0) /\
      (forall x d, In x pres -> In d (g x) -> precedes (DT d) (DT x) (l ++ lg0)).
  Proof.
    intros rd Hn Hl Hrd.
    assert (HI : CInv pres rd lg0).
    { split; auto. apply incl_refl. intros; contradiction. intros; contradiction. exists []; auto. }
    destruct (close_all_ok (S n) pres rd lg0 HI ltac:(lia)) as [rd' [H1 H2 H3 H4 H5 H6 H7 H8]].
    destruct H8 as (l & E & Hl'). exists l. rewrite <- E. split; auto. split; auto.
    split. intros x Hx. apply H5; auto.
    split. intros x Hx. apply H6; auto.
    intros x d Hx Hd. destruct (H7 x d Hx ltac:(auto) Hd) as [[]|]; auto.
  Qed.
End Close.
