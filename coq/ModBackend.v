(* module_is_backend(): a module may declare itself, in its constructor, a "backend of the core".  module_close_all (src/module.c),
   after the repair:
     loop 1: rounds in name order over the ORDINARY modules whose rdepends list is empty, until a round destroys nothing;
     loop 2: (THE REPAIR) the same rounds over everything that is left (the backends and what they depend on);
     then the leftovers in name order (only with inconsistent lists).
   The original code lacked loop 2: backends, and the modules they keep alive, were destroyed in plain name order.
   close_all_b fixed : fixed = true is the repaired code, fixed = false the original.  Loading (with module_antidepends, repaired) and the
   post-init walk are those of ModAnti.run2 true.
   Results: run3_no_backend (no backend: run3 = run2 true), unfixed_destroys_a_backends_dependency_first (the defect, by evaluation),
   run3_meets_monitor (repaired code, any number of modules: exactly-once, PI / DT order along every combined edge, abort iff cycle,
   and what the flag is for: every module that no backend depends upon, transitively, is destroyed before every module that a backend
   depends upon, in particular before every backend). *)
From Coq Require Import List Arith Lia Bool Relations.
Import ListNotations.
Require Import ModModel ModBase ModLoad ModDfs ModClose ModUnbounded ModAnti.

(* ---------- the model ---------- *)
(* one round of loop 1: ModModel.close_round that also skips the backends *)
Fixpoint close_round_b (bk : mid -> bool) (order : list mid) (live : list mid) (rd : list (mid * list mid)) (dp : list (mid * list mid))
  (lg : list ev) : list mid * list (mid * list mid) * list ev * bool :=
  match order with
  | [] => (live, rd, lg, false)
  | m :: r =>
    if negb (bk m) && (mem m live && (match assoc m rd with [] => true | _ => false end)) then
      let rd' := fold_left (fun acc d => upd d (fun l => filter (fun x => negb (Nat.eqb x m)) l) acc) (assoc m dp) rd in
      let '(live', rd'', lg', _) := close_round_b bk r (filter (fun x => negb (Nat.eqb x m)) live) rd' dp (DT m :: lg) in
      (live', rd'', lg', true)
    else close_round_b bk r live rd dp lg
  end.

(* module_close_all: loop 1 until a round makes no progress; then, if fixed, ModModel.close_all (= loop 2, then the leftovers);
   if not fixed, the leftovers at once.  One fuel for both loops (S n suffices, see close_all_b_ok). *)
Fixpoint close_all_b (fixed : bool) (fuel : nat) (bk : mid -> bool) (order live : list mid) (rd dp : list (mid * list mid))
  (lg : list ev) : list ev :=
  match fuel with O => lg | S f =>
  let '(live', rd', lg', prog) := close_round_b bk order live rd dp lg in
  if prog then close_all_b fixed f bk order live' rd' dp lg'
  else if fixed then close_all (S f) order live' rd' dp lg'
  else fold_left (fun l m => DT m :: l) (filter (fun m => mem m live') order) lg'
  end.

(* whole run: loading and post-init of ModAnti.run2 true, then close_all_b *)
Definition run3 (fixed : bool) (n : nat) (g a : graph) (bk : mid -> bool) (listing : list mid) : option (list ev) :=
  let s0 := {| present := []; deps := []; rdeps := []; log := [] |} in
  let s := fold_left (fun st m => load2 true (S n) g a m st) listing s0 in
  let order := sort (present s) in
  let dp := fun m => assoc m (deps s) in
  let r := fold_left (fun acc m => match acc with
                                   | Some (c, lg) => match colour m c with White => dfs (S n) dp m c lg | _ => Some (c, lg) end
                                   | None => None end) order (Some ([], log s)) in
  match r with
  | None => None
  | Some (_, lg) => Some (rev (close_all_b fixed (S n) bk order (present s) (rdeps s) (deps s) lg))
  end.

Lemma run3_eq fixed n g a bk listing : run3 fixed n g a bk listing =
  let s := load_all2 true (S n) g a listing s0 in
  let order := sort (present s) in
  let dp := fun m => assoc m (deps s) in
  match dfs_all dp (S n) order (Some ([], log s)) with
  | None => None
  | Some (_, lg) => Some (rev (close_all_b fixed (S n) bk order (present s) (rdeps s) (deps s) lg))
  end.
Proof. reflexivity. Qed.

Lemma close_round_b_cons bk order m live rd dp lg : close_round_b bk (m :: order) live rd dp lg =
  if negb (bk m) && (mem m live && (match assoc m rd with [] => true | _ => false end)) then
    let '(live', rd'', lg', _) := close_round_b bk order (drop m live) (rd_drop m (assoc m dp) rd) dp (DT m :: lg) in (live', rd'', lg', true)
  else close_round_b bk order live rd dp lg.
Proof. reflexivity. Qed.

Lemma close_all_b_S fixed f bk order live rd dp lg : close_all_b fixed (S f) bk order live rd dp lg =
  let '(live', rd', lg', prog) := close_round_b bk order live rd dp lg in
  if prog then close_all_b fixed f bk order live' rd' dp lg'
  else if fixed then close_all (S f) order live' rd' dp lg'
  else fold_left (fun l m => DT m :: l) (filter (fun m => mem m live') order) lg'.
Proof. reflexivity. Qed.

(* ---------- 1. without backends the extended model is ModAnti's ---------- *)
Lemma close_round_b_none : forall order live rd dp lg, close_round_b (fun _ => false) order live rd dp lg = close_round order live rd dp lg.
Proof.
  induction order as [|m r IH]; intros live rd dp lg. reflexivity.
  rewrite close_round_b_cons, close_round_cons. cbn [negb andb]. rewrite !IH. reflexivity.
Qed.

(* a round without progress changes nothing *)
Lemma close_round_noprog : forall order live rd dp lg live' rd' lg',
  close_round order live rd dp lg = (live', rd', lg', false) -> live' = live /\ rd' = rd /\ lg' = lg.
Proof.
  induction order as [|m r IH]; intros live rd dp lg live' rd' lg' E.
  - cbn [close_round] in E. inversion E. auto.
  - rewrite close_round_cons in E.
    destruct (mem m live && match assoc m rd with [] => true | _ => false end).
    + destruct (close_round r (drop m live) (rd_drop m (assoc m dp) rd) dp (DT m :: lg)) as [[[x1 x2] x3] x4]. inversion E.
    + eapply IH; eauto.
Qed.

Lemma close_all_b_none fixed : forall fuel order live rd dp lg,
  close_all_b fixed fuel (fun _ => false) order live rd dp lg = close_all fuel order live rd dp lg.
Proof.
  induction fuel as [|f IH]; intros order live rd dp lg. reflexivity.
  rewrite close_all_b_S, close_round_b_none. cbn [close_all].
  destruct (close_round order live rd dp lg) as [[[live' rd'] lg'] prog] eqn:E. destruct prog.
  - apply IH.
  - destruct fixed; [|reflexivity].
    destruct (close_round_noprog _ _ _ _ _ _ _ _ E) as (-> & -> & ->). cbn [close_all]. rewrite E. reflexivity.
Qed.

Theorem run3_no_backend : forall fixed n g a listing, run3 fixed n g a (fun _ => false) listing = run2 true n g a listing.
Proof.
  intros fixed n g a listing. rewrite run3_eq, run2_eq. cbv zeta.
  destruct (dfs_all (fun m => assoc m (deps (load_all2 true (S n) g a listing s0))) (S n)
              (sort (present (load_all2 true (S n) g a listing s0))) (Some ([], log (load_all2 true (S n) g a listing s0)))) as [[c lg]|]; auto.
  rewrite close_all_b_none. reflexivity.
Qed.

(* ---------- 2. the original code destroys a module before the backend that depends on it ---------- *)
(* the witness observed on the daemon: backend 1 depends on module 0; only 1 is listed *)
Definition witb_g : graph := fun m => match m with 1 => [0] | _ => [] end.
Definition witb_a : graph := fun _ => [].
Definition witb_bk : mid -> bool := fun m => Nat.eqb m 1.


Lemma witness_b_unfixed : run3 false 2 witb_g witb_a witb_bk [1] = Some [CB 1; CB 0; CE 0; CE 1; PI 0; PI 1; DT 0; DT 1].
Proof. vm_compute. reflexivity. Qed.
Lemma witness_b_fixed : run3 true 2 witb_g witb_a witb_bk [1] = Some [CB 1; CB 0; CE 0; CE 1; PI 0; PI 1; DT 1; DT 0].
Proof. vm_compute. reflexivity. Qed.

Theorem unfixed_destroys_a_backends_dependency_first : exists n g a bk listing lg,
  wfg2 n g a /\ (forall m, In m listing -> m < n) /\ run3 false n g a bk listing = Some lg /\
  exists b d, bk b = true /\ In d (g b) /\ precedes (DT d) (DT b) lg /\ count (isDT b) lg = 1 /\ count (isDT d) lg = 1 /\
              before (index (isDT d) lg 0) (index (isDT b) lg 0) = true.
Proof.
  exists 2, witb_g, witb_a, witb_bk, [1], [CB 1; CB 0; CE 0; CE 1; PI 0; PI 1; DT 0; DT 1].
  split. { split; intros m d; destruct m as [|[|m]]; simpl; intuition lia. }
  split. { intros m H. simpl in H. intuition lia. }
  split. exact witness_b_unfixed.
  exists 1, 0. split. reflexivity. split. simpl; auto.
  split. exists [CB 1; CB 0; CE 0; CE 1; PI 0; PI 1], [], []. reflexivity.
  split. reflexivity. split; reflexivity.
Qed.
(* the repaired code on the same input: the backend first, then its dependency *)
Theorem fixed_destroys_the_backend_first : exists lg, run3 true 2 witb_g witb_a witb_bk [1] = Some lg /\ precedes (DT 1) (DT 0) lg.
Proof.
  eexists. split. exact witness_b_fixed. exists [CB 1; CB 0; CE 0; CE 1; PI 0; PI 1], [], []. reflexivity.
Qed.

(* ---------- 3. the repaired code: the unload phase ---------- *)
Section CloseB.
  Variable n : nat.
  Variable g : graph.
  Variable pres order : list mid.
  Variable dp : list (mid * list mid).
  Variable rank : mid -> nat.
  Variable lg0 : list ev.
  Variable bk : mid -> bool.
  Hypothesis dp_g : forall x, In x pres -> assoc x dp = g x.
  Hypothesis pres_closed : forall x d, In x pres -> In d (g x) -> In d pres.
  Hypothesis rank_ok : forall x d, In x pres -> In d (g x) -> rank d < rank x.
  Hypothesis lg0_nodt : forall x, count (isDT x) lg0 = 0.
  Hypothesis order_all : forall x, In x pres -> In x order.

  Notation CI := (CInv g pres lg0).
  (* loop 1 never destroys a backend *)
  Definition BL (live : list mid) : Prop := forall b, In b pres -> bk b = true -> In b live.

  Lemma BL_drop live m : BL live -> bk m = false -> BL (drop m live).
  Proof.
    intros HB Hm b Hb Hk. apply In_drop. split. auto. intro. subst b. congruence.
  Qed.

  (* one round of loop 1 keeps the invariant of ModClose (which speaks of an arbitrary intermediate state) *)
  Lemma close_round_b_ok : forall ord live rd lg, CI live rd lg -> BL live ->
    let '(live', rd', lg', prog) := close_round_b bk ord live rd dp lg in
    CI live' rd' lg' /\ BL live' /\ length live' <= length live /\ (prog = true -> length live' < length live) /\
    (prog = false -> live' = live /\ rd' = rd /\ lg' = lg /\
                     forall m, In m ord -> In m live -> bk m = true \/ assoc m rd <> []).
  Proof.
    induction ord as [|m r IH]; intros live rd lg HI HB.
    - cbn [close_round_b]. split; auto. split; auto. split; auto. split. discriminate. intros _. split; [reflexivity|]. split; [reflexivity|]. split; [reflexivity|]. intros m Hm. destruct Hm.
    - rewrite close_round_b_cons.
      destruct (negb (bk m) && (mem m live && match assoc m rd with [] => true | _ => false end)) eqn:C.
      + apply andb_true_iff in C. destruct C as [C0 C]. apply andb_true_iff in C. destruct C as [C1 C2].
        apply negb_true_iff in C0. apply mem_In in C1.
        assert (Hrd : assoc m rd = []) by (destruct (assoc m rd); auto; discriminate).
        assert (HI' := CInv_remove g pres dp lg0 dp_g live rd lg m HI C1 Hrd).
        assert (HB' := BL_drop live m HB C0).
        specialize (IH _ _ _ HI' HB').
        destruct (close_round_b bk r (drop m live) (rd_drop m (assoc m dp) rd) dp (DT m :: lg)) as [[[live' rd'] lg'] prog].
        destruct IH as (A & A' & B & _ & _). pose proof (drop_length m live C1) as DL.
        split; auto. split; auto. split. lia. split. intros _. lia. discriminate.
      + specialize (IH _ _ _ HI HB). destruct (close_round_b bk r live rd dp lg) as [[[live' rd'] lg'] prog].
        destruct IH as (A & A' & B & C3 & D). split; auto. split; auto. split; auto. split; auto.
        intro Hp. destruct (D Hp) as (-> & -> & -> & D2). repeat (split; auto).
        intros m0 [<-|Hm0] Hl; auto.
        apply andb_false_iff in C. destruct C as [C|C].
        * left. apply negb_false_iff in C. auto.
        * apply andb_false_iff in C. destruct C as [C|C]. apply mem_nIn in C. contradiction.
          right. intro Hz. rewrite Hz in C. discriminate.
  Qed.

  (* when loop 1 stops, every module still alive is (transitively) depended upon by a backend still alive *)
  Lemma stuck_backend live rd lg : CI live rd lg ->
    (forall m, In m order -> In m live -> bk m = true \/ assoc m rd <> []) ->
    forall x, In x live -> exists b, In b live /\ bk b = true /\ star g b x.
  Proof.
    intros HI Hs x0 Hx0.
    destruct (max_rank rank live) as (mx & Hmx & Hmax). { intro E. rewrite E in Hx0. destruct Hx0. }
    assert (K : forall k x, In x live -> rank mx - rank x < k -> exists b, In b live /\ bk b = true /\ star g b x).
    { induction k as [|k IHk]; intros x Hx Hk. lia.
      assert (Hxp : In x pres) by (apply (ci_incl _ _ _ _ _ _ HI); auto).
      destruct (Hs x (order_all x Hxp) Hx) as [Hb|Hr].
      - exists x. split; auto. split; auto. apply star_refl.
      - destruct (assoc x rd) as [|y t] eqn:Ea. congruence.
        assert (Hy : In y (assoc x rd)) by (rewrite Ea; left; auto).
        apply (ci_rd _ _ _ _ _ _ HI) in Hy. destruct Hy as [Hy Hg].
        assert (Hyp : In y pres) by (apply (ci_incl _ _ _ _ _ _ HI); auto).
        assert (R1 : rank x < rank y) by (apply rank_ok; auto).
        pose proof (Hmax y Hy) as R2.
        destruct (IHk y Hy ltac:(lia)) as (b & B1 & B2 & B3).
        exists b. split; auto. split; auto. eapply star_snoc; eauto. }
    apply (K (S (rank mx - rank x0))); auto.
  Qed.

  (* the same invariant, with the log measured from an intermediate log *)
  Lemma CInv_rebase live rd lg : CI live rd lg -> CInv g pres lg live rd lg.
  Proof.
    intros [H1 H2 H3 H4 H5 H6 H7 H8]. split; auto. exists []. split; auto.
  Qed.

  Definition no_backend_above (x : mid) : Prop := forall b, In b pres -> bk b = true -> ~ star g b x.
  Definition backend_above (y : mid) : Prop := exists b, In b pres /\ bk b = true /\ star g b y.

  Lemma close_all_b_ok : forall fuel live rd lg, CI live rd lg -> BL live -> length live < fuel ->
    exists live1 rd1 lg1 rd' l,
      CI live1 rd1 lg1 /\ BL live1 /\
      (forall x, In x live1 -> exists b, In b live1 /\ bk b = true /\ star g b x) /\
      close_all_b true fuel bk order live rd dp lg = l ++ lg1 /\
      CI [] rd' (l ++ lg1).
  Proof.
    induction fuel as [|f IH]; intros live rd lg HI HB Hf. lia.
    rewrite close_all_b_S. pose proof (close_round_b_ok order live rd lg HI HB) as R.
    destruct (close_round_b bk order live rd dp lg) as [[[live' rd'] lg'] prog].
    destruct R as (A & A' & B & C & D). destruct prog.
    - apply IH; auto. specialize (C eq_refl). lia.
    - destruct (D eq_refl) as (-> & -> & -> & D2).
      destruct (close_all_ok g pres order dp rank lg dp_g rank_ok order_all (S f) live rd lg (CInv_rebase _ _ _ HI) Hf)
        as [rd2 F].
      destruct (close_all_ok g pres order dp rank lg0 dp_g rank_ok order_all (S f) live rd lg HI Hf) as [rd3 F'].
      destruct (ci_log _ _ _ _ _ _ F) as (l & El & Hl).
      exists live, rd, lg, rd3, l. split; auto. split; auto.
      split. apply (stuck_backend live rd lg HI D2).
      split; auto. rewrite <- El. exact F'.
  Qed.

  (* unload phase, summary: ModClose.close_phase for the two loops, plus what loop 1 is for *)
  Theorem close_phase_b : forall rd, NoDup pres -> length pres <= n ->
    (forall d x, In x (assoc d rd) <-> In x pres /\ In d (g x)) ->
    exists l, close_all_b true (S n) bk order pres rd dp lg0 = l ++ lg0 /\ Forall is_dt l /\
      (forall x, In x pres -> count (isDT x) (l ++ lg0) = 1) /\
      (forall x, ~ In x pres -> count (isDT x) (l ++ lg0) = 0) /\
      (forall x d, In x pres -> In d (g x) -> precedes (DT d) (DT x) (l ++ lg0)) /\
      (forall x y, In x pres -> In y pres -> no_backend_above x -> backend_above y -> precedes (DT y) (DT x) (l ++ lg0)).
  Proof.
    intros rd Hn Hl Hrd.
    assert (HI : CI pres rd lg0).
    { split; auto. apply incl_refl. intros; contradiction. intros; contradiction. exists []; auto. }
    assert (HB : BL pres) by (intros b Hb _; auto).
    destruct (close_all_b_ok (S n) pres rd lg0 HI HB ltac:(lia)) as (live1 & rd1 & lg1 & rd' & l2 & I1 & B1 & S1 & E & F).
    rewrite E. destruct F as [H1 H2 H3 H4 H5 H6 H7 H8].
    destruct H8 as (l & El & Hl'). exists l. rewrite <- El. split; auto. split; auto.
    split. intros x Hx. apply H5; auto.
    split. intros x Hx. apply H6; auto.
    split. intros x d Hx Hd. destruct (H7 x d Hx ltac:(auto) Hd) as [[]|]; auto.
    intros x y Hx Hy Nx [b (Hb & Kb & Sb)].
    assert (Lx : ~ In x live1).
    { intro Hc. destruct (S1 x Hc) as (b' & Q1 & Q2 & Q3). apply (Nx b'); auto. apply (ci_incl _ _ _ _ _ _ I1); auto. }
    assert (Ly : In y live1).
    { apply (star_closed g (fun z => In z live1) (ci_closed _ _ _ _ _ _ I1) b y Sb). apply B1; auto. }
    apply precedes_cross.
    - assert (C1 : count (isDT y) (l2 ++ lg1) = 1) by (apply H5; auto).
      assert (C0 : count (isDT y) lg1 = 0) by (apply (ci_cnt0 _ _ _ _ _ _ I1); auto).
      rewrite count_app in C1. apply In_DT. lia.
    - apply In_DT. rewrite (ci_cnt1 _ _ _ _ _ _ I1); auto.
  Qed.
End CloseB.

(* ---------- 4. the repaired code: the whole run ---------- *)
(* b reaches x through the combined dependency relation among the modules of P *)
Definition reaches (P : mid -> Prop) (g a : graph) : mid -> mid -> Prop :=
  clos_refl_trans mid (fun m d => P m /\ P d /\ cdep g a m d).

(* what the flag is for.  x, y in P (the loaded modules); if no backend depends, even transitively, on x, and some backend depends,
   transitively or is, y, then x is destroyed before y.  (With y := b a backend: every module that no backend needs is destroyed before
   every backend.)  The per-backend variant "b does not reach x -> DT x before DT b" is false: see per_backend_variant_is_false. *)
Definition backends_last (bk : mid -> bool) (P : mid -> Prop) (g a : graph) (lg : list ev) : Prop :=
  forall x y, P x -> P y ->
    (forall b, P b -> bk b = true -> ~ reaches P g a b x) ->
    (exists b, P b /\ bk b = true /\ reaches P g a b y) ->
    precedes (DT x) (DT y) lg.

Definition monitor3' (g a : graph) (bk : mid -> bool) (listing : list mid) (r : option (list ev)) : Prop :=
  match r with
  | None => cyclic2 g a listing
  | Some lg => ~ cyclic2 g a listing /\ ok_log2 g a listing lg /\ backends_last bk (loaded g a listing) g a lg
  end.

Theorem run3_meets_monitor : forall n g a bk listing, wfg2 n g a -> (forall m, In m listing -> m < n) ->
  match run3 true n g a bk listing with
  | None => cyclic2 g a listing
  | Some lg => ~ cyclic2 g a listing /\ ok_log2 g a listing lg /\ backends_last bk (loaded g a listing) g a lg
  end.
Proof.
  intros n g a bk listing [Hg Ha] Hl. rewrite run3_eq. cbv zeta.
  pose proof (load_phase2 n g a Hg Ha listing Hl) as LP. cbv zeta in LP.
  set (s := load_all2 true (S n) g a listing s0) in *. clearbody s.
  destruct LP as (F1 & F2 & F3 & F4 & F5 & F6 & F7 & F9).
  set (dp := fun m => assoc m (deps s)).
  set (Q := fun x => In x (present s)).
  assert (dp_lt : forall m d, In d (dp m) -> d < n). { intros m d H. apply F7 in H. destruct H as (_ & H & _). auto. }
  assert (Q_closed : forall m d, Q m -> In d (dp m) -> Q d). { unfold Q. intros m d _ Hd. apply F7 in Hd. tauto. }
  assert (Ho : forall x, In x (sort (present s)) -> x < n /\ Q x).
  { intros x Hx. apply (proj1 (In_sort x (present s))) in Hx. split; [auto|exact Hx]. }
  assert (H0 : forall x, count (isPI x) (log s) = 0). { intro x. zc is_ctor. }
  assert (dp_ldep : forall x d, In d (dp x) -> ldep g a listing x d).
  { intros x d H. apply F7 in H. destruct H as (A & B & C). split. apply F2; auto. split; auto. apply F2; auto. }
  assert (ldep_dp : forall x d, ldep g a listing x d -> In x (present s) /\ In d (present s) /\ In d (dp x)).
  { intros x d (A & B & C). apply F2 in A. apply F2 in B. split; auto. split; auto. apply F7. auto. }
  pose proof (postinit_phase n dp Q dp_lt Q_closed (sort (present s)) (log s) Ho H0) as PP.
  destruct (dfs_all dp (S n) (sort (present s)) (Some ([], log s))) as [[c lg]|].
  - (* success *)
    destruct PP as ((l2 & -> & Hl2) & PI1 & PI2 & PI3 & (rank & Hrank)).
    assert (PIp : forall x, In x (present s) -> count (isPI x) (l2 ++ log s) = 1).
    { intros x Hx. apply PI1. apply (proj2 (In_sort x (present s))); auto. }
    assert (rank_ok : forall x d, In x (present s) -> In d (dp x) -> rank d < rank x).
    { intros x d Hx Hd. apply (Hrank x d (PIp x Hx)). auto. }
    assert (Hdt0 : forall x, count (isDT x) (l2 ++ log s) = 0).
    { intro x. rewrite count_app. replace (count (isDT x) l2) with 0 by (symmetry; zc is_pi). zc is_ctor. }
    assert (RD : forall d x, In x (assoc d (rdeps s)) <-> In x (present s) /\ In d (dp x)).
    { intros d x. rewrite F9. unfold dp. split. intro H. split; auto. apply F7 in H. tauto. tauto. }
    destruct (close_phase_b n dp (present s) (sort (present s)) (deps s) rank (l2 ++ log s) bk (fun x _ => eq_refl)
                (fun x d Hx Hd => Q_closed x d Hx Hd) rank_ok Hdt0 (fun x Hx => proj2 (In_sort x (present s)) Hx)
                (rdeps s) F1 (nodup_lt_length n _ F1 F3) RD)
      as (l3 & -> & Hl3 & DT1 & DT0 & DTo & DTb).
    assert (NoCyc : ~ cyclic2 g a listing).
    { intros [x Hx].
      assert (T : forall y z, clos_trans mid (ldep g a listing) y z -> rank z < rank y).
      { intros y z H. induction H as [y z H|y z w H1 IH1 H2 IH2]. destruct (ldep_dp y z H) as (A & B & C). apply rank_ok; auto. lia. }
      specialize (T x x Hx). lia. }
    split; auto.
    assert (Cz1 : forall x, count (isCB x) l2 = 0) by (intro x; zc is_pi).
    assert (Cz2 : forall x, count (isCE x) l2 = 0) by (intro x; zc is_pi).
    assert (Cz3 : forall x, count (isCB x) l3 = 0) by (intro x; zc is_dt).
    assert (Cz4 : forall x, count (isCE x) l3 = 0) by (intro x; zc is_dt).
    assert (Cz5 : forall x, count (isPI x) l3 = 0) by (intro x; zc is_dt).
    split; [split; [|split]|].
    + intros m Hm. apply F2 in Hm. destruct (F4 m Hm) as (A1 & A2 & A3).
      split. rewrite count_rev, !count_app, Cz3, Cz1. auto.
      split. rewrite count_rev, !count_app, Cz4, Cz2. auto.
      split. rewrite count_rev, count_app, Cz5. rewrite PIp; auto.
      split. rewrite count_rev. apply DT1; auto.
      split. apply precedes_rev. apply precedes_app_l. apply precedes_app_l. auto.
      intros d Hd Hc. apply F2 in Hd. assert (Hdp : In d (dp m)) by (apply F7; auto).
      split. apply precedes_rev. apply precedes_app_l. apply PI3; auto. apply (proj2 (In_sort m (present s))); auto.
      apply precedes_rev. apply DTo; auto.
    + intros m Hm. assert (Hn : ~ In m (present s)) by (intro; apply Hm; apply F2; auto). destruct (F5 m Hn) as [B1 B2].
      split. rewrite count_rev, !count_app, Cz3, Cz1. auto.
      split. rewrite count_rev, !count_app, Cz4, Cz2. auto.
      split. rewrite count_rev, count_app, Cz5. destruct (PI2 m) as [P1 P2]. destruct (count (isPI m) (l2 ++ log s)) eqn:C; auto.
        exfalso. apply Hn. apply P2. lia.
      rewrite count_rev. apply DT0; auto.
    + exists (rev (log s)), (rev l2), (rev l3). split. rewrite !rev_app_distr, app_assoc. reflexivity.
      split. apply Forall_rev; auto. split; apply Forall_rev; auto.
    + (* backends_last *)
      assert (star_reaches : forall b x, star dp b x -> reaches (loaded g a listing) g a b x).
      { intros b x St. induction St as [x|x y z Hxy St IH]. apply rt_refl.
        eapply rt_trans; [|exact IH]. apply rt_step. exact (dp_ldep x y Hxy). }
      assert (reaches_star : forall b x, reaches (loaded g a listing) g a b x -> star dp b x).
      { intros b x R. induction R as [x y H|x|x y z R1 IH1 R2 IH2].
        - destruct (ldep_dp x y H) as (_ & _ & C). eapply star_step; eauto. apply star_refl.
        - apply star_refl.
        - eapply star_trans; eauto. }
      intros x y Hx Hy Nx [b (Hb & Kb & Rb)]. apply F2 in Hx. apply F2 in Hy.
      apply precedes_rev. apply DTb; auto.
      * intros b' Hb' Kb' St. apply (Nx b'); auto. apply F2; auto.
      * exists b. split. apply F2; auto. split; auto.
  - (* start-up aborted *)
    destruct PP as [x [Qx Px]]. exists x. eapply plus_clos; eauto.
Qed.

Corollary run3_meets_monitor3 : forall n g a bk listing, wfg2 n g a -> (forall m, In m listing -> m < n) ->
  monitor3' g a bk listing (run3 true n g a bk listing).
Proof. intros. unfold monitor3'. apply run3_meets_monitor; auto. Qed.

(* in the form asked for: a loaded ordinary module that no loaded backend depends upon, even transitively, is destroyed before
   every loaded backend *)
Corollary run3_unneeded_ordinary_before_every_backend : forall n g a bk listing lg,
  wfg2 n g a -> (forall m, In m listing -> m < n) -> run3 true n g a bk listing = Some lg ->
  forall x b, loaded g a listing x -> bk x = false -> loaded g a listing b -> bk b = true ->
    (forall b', loaded g a listing b' -> bk b' = true -> ~ reaches (loaded g a listing) g a b' x) ->
    precedes (DT x) (DT b) lg.
Proof.
  intros n g a bk listing lg Hwf Hl E x b Hx _ Hb Kb Nx.
  pose proof (run3_meets_monitor n g a bk listing Hwf Hl) as M. rewrite E in M. destruct M as (_ & _ & M).
  apply M; auto. exists b. split; auto. split; auto. apply rt_refl.
Qed.

(* the backends themselves, and what they depend upon, are destroyed in dependency order (this is ok_log2, restated) *)
Corollary run3_unload_respects_all_dependencies : forall n g a bk listing lg,
  wfg2 n g a -> (forall m, In m listing -> m < n) -> run3 true n g a bk listing = Some lg ->
  (forall m, loaded g a listing m ->
     count (isCB m) lg = 1 /\ count (isCE m) lg = 1 /\ count (isPI m) lg = 1 /\ count (isDT m) lg = 1) /\
  (forall m d, loaded g a listing m -> loaded g a listing d -> cdep g a m d ->
     precedes (DT m) (DT d) lg /\ precedes (PI d) (PI m) lg).
Proof.
  intros n g a bk listing lg Hwf Hl E. pose proof (run3_meets_monitor n g a bk listing Hwf Hl) as M. rewrite E in M.
  destruct M as [_ [[A _] _]]. split.
  - intros m Hm. destruct (A m Hm) as (? & ? & ? & ? & _). auto.
  - intros m d Hm Hd Hc. destruct (A m Hm) as (_ & _ & _ & _ & _ & B). destruct (B d Hd Hc). auto.
Qed.

Theorem run3_aborts_iff_cycle : forall n g a bk listing, wfg2 n g a -> (forall m, In m listing -> m < n) ->
  (run3 true n g a bk listing = None <-> cyclic2 g a listing).
Proof.
  intros n g a bk listing Hwf Hl. pose proof (run3_meets_monitor n g a bk listing Hwf Hl) as M.
  destruct (run3 true n g a bk listing) as [lg|].
  - destruct M as [M _]. split. discriminate. intro C. contradiction.
  - split; auto.
Qed.

(* ---------- remarks by evaluation ---------- *)
(* the per-backend variant of backends_last is false: backends 0 and 2, ordinary module 1, 2 depends on 1.  Backend 0 does not
   reach 1, yet 0 is destroyed before 1, because 1 is kept alive by the OTHER backend. *)
Example per_backend_variant_is_false :
  let g : graph := fun m => match m with 2 => [1] | _ => [] end in let bk := fun m => negb (Nat.eqb m 1) in
  run3 true 3 g (fun _ => []) bk [0; 2] = Some [CB 0; CE 0; CB 2; CB 1; CE 1; CE 2; PI 0; PI 1; PI 2; DT 0; DT 2; DT 1].
Proof. vm_compute. reflexivity. Qed.
(* the same with module_antidepends, as seen on the daemon: ordinary module 0 declares itself a back end for 2; 1 and 2 are backends
   of the core; 1 does not reach 0 but is destroyed before it *)
Example per_backend_variant_is_false' :
  let a : graph := fun m => match m with 0 => [2] | _ => [] end in let bk := fun m => negb (Nat.eqb m 0) in
  run3 true 3 (fun _ => []) a bk [0; 1] = Some [CB 0; CB 2; CE 2; CE 0; CB 1; CE 1; PI 0; PI 1; PI 2; DT 1; DT 2; DT 0].
Proof. vm_compute. reflexivity. Qed.
(* an ordinary module that no backend needs goes before all backends, whatever its name: 0 and 1 are backends, 2 is ordinary *)
Example ordinary_first :
  run3 true 3 (fun _ => []) (fun _ => []) (fun m => m <? 2) [0; 1; 2] = Some [CB 0; CE 0; CB 1; CE 1; CB 2; CE 2; PI 0; PI 1; PI 2; DT 2; DT 0; DT 1].
Proof. vm_compute. reflexivity. Qed.

