(* Module loader model (src/module.c with the repaired module_dfs): recursive load with the "already present" short cut, rdepends lists,
   depth-first post-init with in-progress / done marks, unload in rounds in name order; the C20 monitor as a Gallina function;
   enumeration of all digraphs on n modules for the bounded theorems. *)
From Coq Require Import List Arith Lia Bool.
Import ListNotations.

Definition mid := nat.
Definition graph := mid -> list mid.          (* declared dependencies, in declaration order *)

Inductive ev := CB (m : mid) | CE (m : mid) | PI (m : mid) | DT (m : mid).

Record mst := { present : list mid;           (* modules in the table (inserted before ctor runs) *)
                deps : list (mid * list mid); (* recorded depends, per module *)
                rdeps : list (mid * list mid);
                log : list ev }.              (* newest first *)

Definition mem (m : mid) (l : list mid) : bool := existsb (Nat.eqb m) l.
Fixpoint assoc (m : mid) (l : list (mid * list mid)) : list mid :=
  match l with [] => [] | (k, v) :: r => if Nat.eqb k m then v else assoc m r end.
Fixpoint upd (m : mid) (f : list mid -> list mid) (l : list (mid * list mid)) : list (mid * list mid) :=
  match l with [] => [(m, f [])] | (k, v) :: r => if Nat.eqb k m then (k, f v) :: r else (k, v) :: upd m f r end.

(* module_load: ctor of m runs module_depends for each dep in order *)
Fixpoint load (fuel : nat) (g : graph) (m : mid) (s : mst) : mst :=
  match fuel with O => s | S f =>
  if mem m (present s) then s else
  let s1 := {| present := m :: present s; deps := deps s; rdeps := rdeps s; log := CB m :: log s |} in
  let s2 := fold_left (fun st d =>
              let st' := if mem d (present st) then st else load f g d st in
              {| present := present st'; deps := upd m (fun l => l ++ [d]) (deps st');
                 rdeps := upd d (fun l => l ++ [m]) (rdeps st'); log := log st' |}) (g m) s1 in
  {| present := present s2; deps := deps s2; rdeps := rdeps s2; log := CE m :: log s2 |}
  end.

(* module_dfs as repaired: visited: 0 = no, in-progress, done *)
Inductive col := White | Grey | Black.
Definition colour (m : mid) (c : list (mid * col)) : col :=
  match find (fun p => Nat.eqb (fst p) m) c with Some (_, x) => x | None => White end.

(* returns None on a detected loop *)
Fixpoint dfs (fuel : nat) (dp : mid -> list mid) (m : mid) (c : list (mid * col)) (lg : list ev) : option (list (mid * col) * list ev) :=
  match fuel with O => None | S f =>
  match colour m c with
  | Black => Some (c, lg)
  | _ =>
    let c1 := (m, Grey) :: c in
    let step := fix step (ds : list mid) (c : list (mid * col)) (lg : list ev) : option (list (mid * col) * list ev) :=
      match ds with
      | [] => Some (c, lg)
      | d :: r => match colour d c with
                  | Grey => None
                  | _ => match dfs f dp d c lg with Some (c', lg') => step r c' lg' | None => None end
                  end
      end in
    match step (dp m) c1 lg with
    | Some (c2, lg2) => Some ((m, Black) :: c2, PI m :: lg2)
    | None => None
    end
  end end.

Fixpoint insert_sorted (m : mid) (l : list mid) : list mid :=
  match l with [] => [m] | x :: r => if m <=? x then m :: l else x :: insert_sorted m r end.
Definition sort (l : list mid) := fold_right insert_sorted [] l.

(* module_close_all: rounds in name order *)
Fixpoint close_round (order : list mid) (live : list mid) (rd : list (mid * list mid)) (dp : list (mid * list mid)) (lg : list ev)
  : list mid * list (mid * list mid) * list ev * bool :=
  match order with
  | [] => (live, rd, lg, false)
  | m :: r =>
    if mem m live && (match assoc m rd with [] => true | _ => false end) then
      let rd' := fold_left (fun acc d => upd d (fun l => filter (fun x => negb (Nat.eqb x m)) l) acc) (assoc m dp) rd in
      let '(live', rd'', lg', _) := close_round r (filter (fun x => negb (Nat.eqb x m)) live) rd' dp (DT m :: lg) in
      (live', rd'', lg', true)
    else close_round r live rd dp lg
  end.
Fixpoint close_all (fuel : nat) (order live : list mid) (rd dp : list (mid * list mid)) (lg : list ev) : list ev :=
  match fuel with O => lg | S f =>
  let '(live', rd', lg', prog) := close_round order live rd dp lg in
  if prog then close_all f order live' rd' dp lg' else fold_left (fun l m => DT m :: l) (filter (fun m => mem m live') order) lg'
  end.

(* whole run: Some log (oldest first) on success, None if start-up aborts *)
Definition run (n : nat) (g : graph) (listing : list mid) : option (list ev) :=
  let s0 := {| present := []; deps := []; rdeps := []; log := [] |} in
  let s := fold_left (fun st m => load (S n) g m st) listing s0 in
  let order := sort (present s) in
  let dp := fun m => assoc m (deps s) in
  let r := fold_left (fun acc m => match acc with
                                   | Some (c, lg) => match colour m c with White => dfs (S n) dp m c lg | _ => Some (c, lg) end
                                   | None => None end) order (Some ([], log s)) in
  match r with
  | None => None
  | Some (_, lg) => Some (rev (close_all (S n) order (present s) (rdeps s) (deps s) lg))
  end.

(* ---- the C20 monitor ---- *)
Fixpoint index (e : ev -> bool) (l : list ev) (i : nat) : option nat :=
  match l with [] => None | x :: r => if e x then Some i else index e r (S i) end.
Definition count (e : ev -> bool) (l : list ev) : nat := length (filter e l).
Definition isCB m e := match e with CB x => Nat.eqb x m | _ => false end.
Definition isCE m e := match e with CE x => Nat.eqb x m | _ => false end.
Definition isPI m e := match e with PI x => Nat.eqb x m | _ => false end.
Definition isDT m e := match e with DT x => Nat.eqb x m | _ => false end.
Definition before (a b : option nat) : bool := match a, b with Some x, Some y => x <? y | _, _ => false end.

Fixpoint reach (fuel : nat) (g : graph) (todo seen : list mid) : list mid :=
  match fuel with O => seen | S f =>
  match todo with [] => seen | m :: r => if mem m seen then reach f g r seen else reach f g (g m ++ r) (m :: seen) end end.

Fixpoint cyc_from (fuel : nat) (g : graph) (path : list mid) (m : mid) : bool :=
  match fuel with O => true | S f => if mem m path then true else existsb (cyc_from f g (m :: path)) (g m) end.

Definition monitor (n : nat) (g : graph) (listing : list mid) : bool :=
  let R := reach (n * n + n + 2) g listing [] in
  let cyclic := existsb (cyc_from (S n) g []) R in
  match run n g listing with
  | None => cyclic
  | Some lg =>
      negb cyclic &&
      forallb (fun m => (count (isCB m) lg =? 1) && (count (isCE m) lg =? 1) && (count (isPI m) lg =? 1) && (count (isDT m) lg =? 1) &&
                        forallb (fun d => before (index (isCE d) lg 0) (index (isCE m) lg 0) &&
                                          before (index (isPI d) lg 0) (index (isPI m) lg 0) &&
                                          before (index (isDT m) lg 0) (index (isDT d) lg 0)) (g m)) R &&
      forallb (fun m => mem m R || (count (isCB m) lg =? 0)) (seq 0 n)
  end.

(* enumerate all graphs on n nodes without self loops: adjacency given by a bit list *)
Fixpoint bits (k : nat) : list (list bool) := match k with O => [[]] | S k' => flat_map (fun l => [true :: l; false :: l]) (bits k') end.
Definition pairs (n : nat) : list (mid * mid) := flat_map (fun a => flat_map (fun b => if Nat.eqb a b then [] else [(a, b)]) (seq 0 n)) (seq 0 n).
Definition graph_of (n : nat) (bs : list bool) : graph :=
  fun m => map snd (filter (fun p => Nat.eqb (fst p) m) (map snd (filter fst (combine bs (pairs n))))).

Definition listings (n : nat) : list (list mid) := [[0]; rev (seq 0 n); seq 0 n; [n - 1; 0]].
Definition all_ok (n : nat) : bool :=
  forallb (fun bs => forallb (monitor n (graph_of n bs)) (listings n)) (bits (n * (n - 1))).

