(* C04: replies affect only the instance they were asked about.
   - a reply line whose tag does not name a live instance that awaits this service is a no-op on the STATE
     (hence on every later behaviour), and can be erased from any history;
   - live instances carry pairwise distinct serials, all <= the counter, so the tag of a departed instance
     never matches a newcomer;
   - the serial is never read except to be copied into query lines (`wser` lemmas), and a step touches the table
     only at the request it is addressed to (`handle`, `step_handle`).  Local.v builds on the last two. *)
From Coq Require Import List NArith ZArith Bool Strings.Byte Strings.String Lia.
Import ListNotations.
Require Import Iauth Mon01.
Local Open Scope string_scope.
Local Open Scope list_scope.
Local Open Scope Z_scope.

(* ---------- which instance (and which awaited slot of it) a reply tag names ---------- *)
Definition reply_target (s : st) (svcn tag : str) : option (req * N * stype) :=
  match parse_tag tag with
  | None => None
  | Some (tid, tser) =>
    match lookup tid (reqs s) with
    | Some r => if (ser r =? tser)%N
                then match find_slot (slots (tb s)) 0 svcn (refm r) with Some (slot, t) => Some (r, slot, t) | None => None end
                else None
    | None => None
    end
  end.

Lemma with_slots_nil s : with_slots s [] = tb s.
Proof. unfold with_slots, apply_effs. cbn [fold_left]. destruct (tb s); reflexivity. Qed.

Lemma st_eta s : {| reqs := reqs s; next := next s; tb := tb s; tmo := tmo s |} = s.
Proof. destruct s; reflexivity. Qed.

Lemma is_x_dispatch ch : ch = x58 \/ ch = x78 -> beq ch x43 = false /\ beq ch x58 || beq ch x78 = true.
Proof. intros [-> | ->]; split; reflexivity. Qed.

(* any argument vector whose command letter is X or x: fewer than four words are ignored, words after the fourth are not looked at *)
Theorem stray_reply_gen c s id argv :
  cmdchar argv = x58 \/ cmdchar argv = x78 ->
  match arg 1 argv, arg 2 argv, arg 3 argv with
  | Some svcn, Some tag, Some _ => reply_target s svcn tag = None
  | _, _, _ => True
  end ->
  step c s id argv = (s, []).
Proof.
  intros Hc Ht. unfold step. cbv zeta. destruct (is_x_dispatch _ Hc) as [E1 E2]. rewrite E1, E2.
  destruct (negb (with_xq c)); [reflexivity|].
  destruct (arg 1 argv) as [svcn|]; [|reflexivity]. destruct (arg 2 argv) as [tg|]; [|reflexivity].
  destruct (arg 3 argv) as [tx|]; [|reflexivity].
  unfold reply_target in Ht.
  destruct (parse_tag tg) as [[tid tser]|]; [|reflexivity].
  destruct (lookup tid (reqs s)) as [r|] eqn:El; [|reflexivity].
  destruct (ser r =? tser)%N; [|reflexivity].
  destruct (find_slot (slots (tb s)) 0 svcn (refm r)) as [[slot t]|] eqn:Ef; [discriminate|].
  unfold reply. rewrite Ef. unfold finish.
  rewrite put_same by (rewrite (lookup_cid _ _ _ El); exact El).
  rewrite with_slots_nil, st_eta. reflexivity.
Qed.

Theorem stray_reply_noop c s id ch svcn tag tx :
  ch = x58 \/ ch = x78 -> reply_target s svcn tag = None ->
  step c s id ([ch] :: svcn :: tag :: tx :: nil) = (s, []).
Proof. intros Hc Ht. apply stray_reply_gen; [exact Hc|exact Ht]. Qed.

Theorem stray_reply_noop_more c s id ch w svcn tag tx more :
  ch = x58 \/ ch = x78 -> reply_target s svcn tag = None ->
  step c s id ((ch :: w) :: svcn :: tag :: tx :: more) = (s, []).
Proof. intros Hc Ht. apply stray_reply_gen; [exact Hc|exact Ht]. Qed.

Theorem short_reply_ignored c s id ch w rest :
  ch = x58 \/ ch = x78 -> (List.length rest < 3)%nat -> step c s id ((ch :: w) :: rest) = (s, []).
Proof.
  intros Hc Hl. apply stray_reply_gen; [exact Hc|].
  destruct rest as [|a [|b [|d rest]]]; cbn [arg nth_error]; try exact I. cbn [List.length] in Hl. lia.
Qed.

(* ---------- erasing a stray reply from a history ---------- *)
Definition stray (s : st) (e : ev) : Prop :=
  match e with
  | Ev id argv =>
      (cmdchar argv = x58 \/ cmdchar argv = x78) /\
      match arg 1 argv, arg 2 argv, arg 3 argv with
      | Some svcn, Some tag, Some _ => reply_target s svcn tag = None
      | _, _, _ => True
      end
  | Reload _ _ _ => False
  end.

Lemma run_out_acc c evs : forall s acc,
  snd (fold_left (fun acc e => let '(s, outs) := acc in let '(s', o) := step_ev c s e in (s', outs ++ [o])) evs (s, acc))
  = acc ++ run_out c s evs.
Proof.
  unfold run_out. induction evs as [|e evs IH]; intros s acc; cbn [fold_left]; [cbn [snd]; rewrite app_nil_r; reflexivity|].
  destruct (step_ev c s e) as [s' o]. rewrite IH. rewrite (IH s' ([] ++ [o])). rewrite <- !app_assoc. reflexivity.
Qed.

Lemma run_out_cons c s e evs : run_out c s (e :: evs) = snd (step_ev c s e) :: run_out c (fst (step_ev c s e)) evs.
Proof.
  unfold run_out at 1. cbn [fold_left]. destruct (step_ev c s e) as [s' o]. rewrite run_out_acc. reflexivity.
Qed.

Corollary stray_reply_erasable c s e evs : stray s e -> run_out c s (e :: evs) = [] :: run_out c s evs.
Proof.
  intros H. rewrite run_out_cons. destruct e as [id argv|svs rs t]; [|contradiction].
  destruct H as [Hc Ht]. cbn [step_ev]. rewrite (stray_reply_gen c s id argv Hc Ht). reflexivity.
Qed.

(* ====================================================================================================== *)
(* ---------- the serial of a request is never read, only copied into the tag of its query lines ---------- *)
Definition wser (n : N) (r : req) : req :=
  {| cid := cid r; ser := n; addr := addr r; port := port r; raddr := raddr r;
     f_host := f_host r; f_ident := f_ident r; f_nick := f_nick r; f_user := f_user r; f_pass := f_pass r; f_empty := f_empty r; f_tout := f_tout r; f_sdone := f_sdone r;
     holds := holds r; soft := soft r; host := host r; cliu := cliu r; authu := authu r; nick := nick r; real := real r; acct := acct r;
     hh := hh r; ho := ho r; sent := sent r; refm := refm r; more := more r; okm := okm r; pw := pw r; timer := timer r |}.
Definition oser (n : N) (o : out) : out := match o with OX nm id _ pl => OX nm id n pl | _ => o end.

Lemma wser_id r : wser (ser r) r = r.
Proof. destruct r; reflexivity. Qed.
Lemma wser_wser n m r : wser n (wser m r) = wser n r.
Proof. reflexivity. Qed.
Lemma oser_oser n m o : oser n (oser m o) = oser n o.
Proof. destruct o; reflexivity. Qed.

Ltac wproj := cbn [wser cid ser addr port raddr f_host f_ident f_nick f_user f_pass f_empty f_tout f_sdone holds soft host cliu authu nick real acct hh ho sent refm more okm pw timer].

Lemma query_lines_wser n nm t r : query_lines nm t (wser n r) = map (oser n) (query_lines nm t r).
Proof.
  unfold query_lines. rewrite map_app. f_equal; [destruct t; reflexivity|].
  change (pw (wser n r)) with (pw r). destruct (nonempty (pw r)); [|reflexivity]. destruct t; reflexivity.
Qed.

Lemma qpass_wser n ss : forall slot ispw r outs efs,
  qpass ss slot ispw (wser n r) (map (oser n) outs) efs =
  let '(r', o, e) := qpass ss slot ispw r outs efs in (wser n r', map (oser n) o, e).
Proof.
  induction ss as [|[sv|] rest IH]; intros slot ispw r outs efs; cbn [qpass]; [reflexivity| |apply IH].
  change (skip_query (s_type sv) slot ispw (wser n r)) with (skip_query (s_type sv) slot ispw r).
  destruct (negb (s_conf sv) || skip_query (s_type sv) slot ispw r); [apply IH|].
  change (queried (wser n r) slot) with (wser n (queried r slot)).
  rewrite query_lines_wser, <- map_app. apply IH.
Qed.

Lemma cont_wser n ss : forall slot t r outs efs,
  cont ss slot t (wser n r) (map (oser n) outs) efs =
  let '(r', o, e) := cont ss slot t r outs efs in (wser n r', map (oser n) o, e).
Proof.
  induction ss as [|[sv|] rest IH]; intros slot t r outs efs; cbn [cont]; [reflexivity| |apply IH].
  change (more (wser n r)) with (more r).
  destruct (N.testbit (more r) slot && s_conf sv); [|apply IH].
  change (continued (wser n r) slot) with (wser n (continued r slot)).
  change [xline (s_name sv) (wser n r) (S_ "MORE " ++ t)] with (map (oser n) [xline (s_name sv) r (S_ "MORE " ++ t)]).
  rewrite <- map_app. apply IH.
Qed.

Lemma xreply_ok_wser n ss : forall slot nm r, xreply_ok ss slot nm (wser n r) = xreply_ok ss slot nm r.
Proof.
  induction ss as [|[sv|] rest IH]; intros slot nm r; cbn [xreply_ok]; [reflexivity| |apply IH].
  destruct (s_conf sv && ci_eq nm (s_name sv)); [reflexivity|apply IH].
Qed.

Lemma rule_matches_wser n ss ru r : rule_matches ss ru (wser n r) = rule_matches ss ru r.
Proof. unfold rule_matches. destruct (r_xok ru); [rewrite xreply_ok_wser|]; reflexivity. Qed.

Lemma classify_wser n ss rs r : classify ss rs (wser n r) = classify ss rs r.
Proof.
  induction rs as [|ru rest IH]; cbn [classify]; [reflexivity|].
  rewrite rule_matches_wser. destruct (rule_matches ss ru r); [reflexivity|exact IH].
Qed.

Lemma classify_oser n ss rs r : map (oser n) (fst (classify ss rs r)) = fst (classify ss rs r).
Proof.
  induction rs as [|ru rest IH]; cbn [classify]; [reflexivity|].
  destruct (rule_matches ss ru r); [|exact IH]. cbn [fst].
  match goal with |- context [if ?b then _ else _] => destruct b end; reflexivity.
Qed.

Lemma gate_wser n c tb r :
  gate c tb (wser n r) = let '(ro, g) := gate c tb r in (option_map (wser n) ro, map (oser n) g).
Proof.
  unfold gate. rewrite classify_wser.
  change (holds (wser n r)) with (holds r). change (complete c (wser n r)) with (complete c r).
  change (soft (wser n r)) with (soft r). change (f_tout (wser n r)) with (f_tout r).
  change (f_sdone (wser n r)) with (f_sdone r). change (acct (wser n r)) with (acct r).
  destruct ((holds r =? 0) && complete c r); [|reflexivity].
  destruct ((soft r =? 0) || f_tout r).
  - pose proof (classify_oser n (slots tb) (rules tb) r) as Ho.
    destruct (classify (slots tb) (rules tb) r) as [extra k]. cbn [fst] in Ho. cbn [option_map].
    rewrite map_app, Ho. destruct (acct r); reflexivity.
  - destruct (negb (f_sdone r)); reflexivity.
Qed.

(* the local helper `fin` of reply *)
Lemma fin_wser n c tb r1 (pre : list out) (e : list eff) :
  (let '(r', g) := gate c tb (wser n r1) in (r', map (oser n) pre ++ g, e)) =
  (let '(ro, o, e') := (let '(r', g) := gate c tb r1 in (r', pre ++ g, e)) in (option_map (wser n) ro, map (oser n) o, e')).
Proof. rewrite gate_wser. destruct (gate c tb r1) as [r' g]. rewrite map_app. reflexivity. Qed.

Lemma reply_wser n c tb r svcn text :
  reply c tb (wser n r) svcn text =
  let '(ro, o, e) := reply c tb r svcn text in (option_map (wser n) ro, map (oser n) o, e).
Proof.
  unfold reply. change (refm (wser n r)) with (refm r).
  destruct (find_slot (slots tb) 0 svcn (refm r)) as [[slot t]|]; [|reflexivity].
  cbv beta zeta.
  change (hh (wser n r)) with (hh r). change (ho (wser n r)) with (ho r). change (acct (wser n r)) with (acct r).
  destruct text as [tx|].
  - destruct (seq_eq tx (S_ "OK")); [exact (fin_wser n c tb (release r slot false true None (holds r)) [] _)|].
    destruct (prefix (S_ "OK ") tx).
    + destruct (negb (nonempty (upto sp (skipn 3 tx))) || is_drone t); [exact (fin_wser n c tb (release r slot false true None (holds r)) [] _)|].
      destruct (hh r || ho r).
      * exact (fin_wser n c tb (release r slot false true (Some (firstn acct_len (upto sp (skipn 3 tx)))) _) [oc x4d r (S_ " :+x")] _).
      * exact (fin_wser n c tb (release r slot false true (Some (firstn acct_len (upto sp (skipn 3 tx)))) _) [] _).
    + destruct (prefix (S_ "NO ") tx); [reflexivity|].
      destruct (prefix (S_ "AGAIN ") tx); [exact (fin_wser n c tb (release r slot false false None (holds r)) [oc x43 r (S_ " :" ++ skipn 6 tx)] _)|].
      destruct (prefix (S_ "MORE ") tx); [|reflexivity].
      exact (fin_wser n c tb (release r slot true false None (holds r)) [oc x43 r (S_ " :" ++ skipn 5 tx)] _).
  - destruct (is_drone t).
    + exact (fin_wser n c tb (release r slot false false None (holds r)) [] _).
    + exact (fin_wser n c tb (release r slot false false None (holds r)) [oc x43 r (S_ " :" ++ unlinked_text)] _).
Qed.

Lemma password_wser n tb r t :
  password tb (wser n r) t = let '(r', o, e) := password tb r t in (wser n r', map (oser n) o, e).
Proof.
  unfold password. change (more (wser n r)) with (more r). change (pw (wser n r)) with (pw r).
  destruct ((more r =? 0)%N || negb (nonempty (pw r))); [|exact (cont_wser n (slots tb) 0%N t r [] [])].
  destruct (negb (starts t x2b || starts t x2d)); [reflexivity|].
  destruct (modes _ _ _ _ _ _ _) as [[[[[rest0 sx] cx] sb] cb]|]; [|reflexivity].
  cbv zeta.
  destruct (negb (has sp (skipsp rest0))); [reflexivity|].
  exact (qpass_wser n (slots tb) 0%N true (with_pw r _ _ _ _) [] []).
Qed.

Lemma after_wser n c tb r ispw :
  after c tb (wser n r) ispw = let '(ro, o, e) := after c tb r ispw in (option_map (wser n) ro, map (oser n) o, e).
Proof.
  unfold after. pose proof (qpass_wser n (slots tb) 0%N ispw r [] []) as Q. cbn [map] in Q. rewrite Q.
  destruct (qpass (slots tb) 0%N ispw r [] []) as [[r1 o] efs].
  rewrite gate_wser. destruct (gate c tb r1) as [r2 g]. rewrite map_app. reflexivity.
Qed.

(* ====================================================================================================== *)
(* ---------- `step` = table plumbing around a function of the addressed request alone ---------- *)
Inductive hres :=
| HSame (outs : list out)                                   (* the state is left as it is *)
| HFin (res : option req * list out * list eff)             (* `finish` with this result *)
| HGone.                                                    (* the request is withdrawn (D, T) *)

Definition handle (c : cfg) (tb : tabs) (r : req) (argv : list str) : hres :=
  let ch := cmdchar argv in
  let aft (r1 : req) := HFin (if with_xq c then after c tb r1 false else let '(r2, g) := gate c tb r1 in (r2, g, [])) in
  if beq ch x44 || beq ch x54 then HGone
  else if beq ch x21 then
    if timer r && match arg 1 argv with Some a => seq_eq a (S_ "timeout") | None => false end then
      let '(r2, g) := gate c tb (timed_out r) in HFin (r2, g, [])
    else HSame []
  else if beq ch x4e then
    match arg 1 argv with
    | Some h => if nonempty (host r) then HSame [] else
                aft (set_flags (with_fields r (firstn hostlen h) (cliu r) (authu r) (nick r) (real r) (f_empty r)) true (f_ident r) (f_nick r) (f_user r) (f_pass r))
    | None => HSame []
    end
  else if beq ch x64 then aft (set_flags r true (f_ident r) (f_nick r) (f_user r) (f_pass r))
  else if beq ch x75 then
    match arg 1 argv with
    | Some u => aft (set_flags (with_fields r (host r) (cliu r) (firstn userlen u) (nick r) (real r) (f_empty r)) (f_host r) true (f_nick r) (f_user r) (f_pass r))
    | None => if nonempty (cliu r) then aft (set_flags r (f_host r) true (f_nick r) (f_user r) (f_pass r))
              else aft (with_fields r (host r) (cliu r) (authu r) (nick r) (real r) true)
    end
  else if beq ch x6e then
    match arg 1 argv with
    | Some n => aft (set_flags (with_fields r (host r) (cliu r) (authu r) (firstn nicklen n) (real r) (f_empty r)) (f_host r) (f_ident r) true (f_user r) (f_pass r))
    | None => HSame []
    end
  else if beq ch x55 then
    match arg 1 argv, arg 2 argv with
    | Some u, Some re =>
      let r1 := with_fields r (host r) (firstn userlen u) (authu r) (nick r) (firstn reallen re) (f_empty r) in
      aft (set_flags r1 (f_host r) (f_ident r || f_empty r) (f_nick r) true (f_pass r))
    | _, _ => HSame [ORaw (S_ "> :ircd sent garbage: <id> U without realname")]
    end
  else if beq ch x48 then
    (if with_xq c then aft (set_flags r true true true true (f_pass r)) else aft (set_flags r true (f_ident r) (f_nick r) (f_user r) (f_pass r)))
  else if beq ch x50 then
    match arg 1 argv with
    | Some t =>
      let r0 := set_flags r (f_host r) (f_ident r) (f_nick r) (f_user r) true in
      if with_xq c then
        let '(r1, o, efs) := password tb r0 t in
        let '(r2, g) := gate c tb r1 in HFin (r2, o ++ g, efs)
      else let '(r2, g) := gate c tb r0 in HFin (r2, g, [])
    | None => HSame []
    end
  else HSame [].

Definition apply_h (s : st) (id : Z) (h : hres) : st * list out :=
  match h with
  | HSame o => (s, o)
  | HFin res => finish s id res
  | HGone => ({| reqs := remove id (reqs s); next := next s; tb := tb s; tmo := tmo s |}, [])
  end.

Definition announce (s : st) (id : Z) (argv : list str) : st * list out :=
  match arg 1 argv, arg 2 argv, arg 3 argv, arg 4 argv with
  | Some a, Some p, Some _, Some _ =>
      let sn := ((next s + 1) mod 4294967296)%N in
      let '(g, txt) := announce_addr a in
      ({| reqs := put (fresh id sn txt g (port_of p) (tmo s)) (reqs s); next := sn; tb := tb s; tmo := tmo s |}, [])
  | _, _, _, _ => (s, [])
  end.

(* the reply path, once the tag has been resolved to the live request r *)
Definition xreply (c : cfg) (s : st) (r : req) (svcn : str) (text : option str) : st * list out :=
  finish s (cid r) (reply c (tb s) r svcn text).

Definition xstep (c : cfg) (s : st) (argv : list str) : st * list out :=
  if negb (with_xq c) then (s, []) else
  match arg 1 argv, arg 2 argv, arg 3 argv with
  | Some svcn, Some tg, Some tx =>
    match parse_tag tg with
    | None => (s, [])
    | Some (tid, tser) =>
      match lookup tid (reqs s) with
      | Some r => if (ser r =? tser)%N then xreply c s r svcn (if beq (cmdchar argv) x58 then Some tx else None) else (s, [])
      | None => (s, [])
      end
    end
  | _, _, _ => (s, [])
  end.

Theorem step_eq c s id argv :
  step c s id argv =
  if beq (cmdchar argv) x43 then announce s id argv
  else if beq (cmdchar argv) x58 || beq (cmdchar argv) x78 then xstep c s argv
  else match lookup id (reqs s) with
       | None => (s, [])
       | Some r => apply_h s id (handle c (tb s) r argv)
       end.
Proof.
  unfold step, announce, xstep, xreply, handle. cbv zeta.
  destruct (beq (cmdchar argv) x43); [reflexivity|].
  destruct (beq (cmdchar argv) x58 || beq (cmdchar argv) x78).
  { destruct (negb (with_xq c)); [reflexivity|].
    destruct (arg 1 argv); [|reflexivity]. destruct (arg 2 argv) as [tg|]; [|reflexivity]. destruct (arg 3 argv); [|reflexivity].
    destruct (parse_tag tg) as [[tid tser]|]; [|reflexivity].
    destruct (lookup tid (reqs s)) as [r|] eqn:El; [|reflexivity].
    rewrite (lookup_cid _ _ _ El). reflexivity. }
  destruct (lookup id (reqs s)) as [r|]; [|reflexivity].
  destruct (beq (cmdchar argv) x44 || beq (cmdchar argv) x54); [reflexivity|].
  destruct (beq (cmdchar argv) x21).
  { match goal with |- context [if ?b then _ else _] => destruct b end; [|reflexivity].
    destruct (gate c (tb s) (timed_out r)); reflexivity. }
  destruct (beq (cmdchar argv) x4e).
  { destruct (arg 1 argv); [|reflexivity]. destruct (nonempty (host r)); reflexivity. }
  destruct (beq (cmdchar argv) x64); [reflexivity|].
  destruct (beq (cmdchar argv) x75).
  { destruct (arg 1 argv); [reflexivity|]. destruct (nonempty (cliu r)); reflexivity. }
  destruct (beq (cmdchar argv) x6e).
  { destruct (arg 1 argv); reflexivity. }
  destruct (beq (cmdchar argv) x55).
  { destruct (arg 1 argv); [|reflexivity]. destruct (arg 2 argv); reflexivity. }
  destruct (beq (cmdchar argv) x48).
  { destruct (with_xq c); reflexivity. }
  destruct (beq (cmdchar argv) x50); [|reflexivity].
  destruct (arg 1 argv) as [t|]; [|reflexivity].
  destruct (with_xq c).
  - destruct (password (tb s) _ t) as [[r1 o] efs]. destruct (gate c (tb s) r1); reflexivity.
  - destruct (gate c (tb s) _); reflexivity.
Qed.

(* ---------- the serial passes through `handle` untouched ---------- *)
Definition hmap (n : N) (h : hres) : hres :=
  match h with
  | HSame o => HSame (map (oser n) o)
  | HFin (ro, o, e) => HFin (option_map (wser n) ro, map (oser n) o, e)
  | HGone => HGone
  end.

Lemma gate3_wser n c tb r (e : list eff) :
  (let '(r2, g) := gate c tb (wser n r) in HFin (r2, g, e)) = hmap n (let '(r2, g) := gate c tb r in HFin (r2, g, e)).
Proof. rewrite gate_wser. destruct (gate c tb r); reflexivity. Qed.

Lemma aft_wser n c tb r1 :
  HFin (if with_xq c then after c tb (wser n r1) false else let '(r2, g) := gate c tb (wser n r1) in (r2, g, [])) =
  hmap n (HFin (if with_xq c then after c tb r1 false else let '(r2, g) := gate c tb r1 in (r2, g, []))).
Proof.
  destruct (with_xq c).
  - rewrite after_wser. destruct (after c tb r1 false) as [[ro o] e]. reflexivity.
  - rewrite gate_wser. destruct (gate c tb r1); reflexivity.
Qed.

Ltac aftw := match goal with |- _ = hmap ?n (HFin (if _ then after ?c ?tb ?r1 false else _)) => exact (aft_wser n c tb r1) end.

Theorem handle_wser n c tb r argv : handle c tb (wser n r) argv = hmap n (handle c tb r argv).
Proof.
  unfold handle. cbv zeta.
  change (timer (wser n r)) with (timer r). change (host (wser n r)) with (host r). change (cliu (wser n r)) with (cliu r).
  destruct (beq (cmdchar argv) x44 || beq (cmdchar argv) x54); [reflexivity|].
  destruct (beq (cmdchar argv) x21).
  { match goal with |- context [if ?b then _ else _] => destruct b end; [|reflexivity].
    exact (gate3_wser n c tb (timed_out r) []). }
  destruct (beq (cmdchar argv) x4e).
  { destruct (arg 1 argv); [|reflexivity]. destruct (nonempty (host r)); [reflexivity|]. aftw. }
  destruct (beq (cmdchar argv) x64); [aftw|].
  destruct (beq (cmdchar argv) x75).
  { destruct (arg 1 argv); [aftw|]. destruct (nonempty (cliu r)); aftw. }
  destruct (beq (cmdchar argv) x6e).
  { destruct (arg 1 argv); [aftw|reflexivity]. }
  destruct (beq (cmdchar argv) x55).
  { destruct (arg 1 argv); [|reflexivity]. destruct (arg 2 argv); [aftw|reflexivity]. }
  destruct (beq (cmdchar argv) x48).
  { destruct (with_xq c) eqn:Ex.
    - pose proof (aft_wser n c tb (set_flags r true true true true (f_pass r))) as A. rewrite Ex in A. exact A.
    - pose proof (aft_wser n c tb (set_flags r true (f_ident r) (f_nick r) (f_user r) (f_pass r))) as A. rewrite Ex in A. exact A. }
  destruct (beq (cmdchar argv) x50); [|reflexivity].
  destruct (arg 1 argv) as [t|]; [|reflexivity].
  destruct (with_xq c).
  - change (set_flags (wser n r) (f_host (wser n r)) (f_ident (wser n r)) (f_nick (wser n r)) (f_user (wser n r)) true)
      with (wser n (set_flags r (f_host r) (f_ident r) (f_nick r) (f_user r) true)).
    rewrite password_wser. destruct (password tb _ t) as [[r1 o] efs].
    rewrite gate_wser. destruct (gate c tb r1) as [r2 g]. cbn [hmap]. rewrite map_app. reflexivity.
  - exact (gate3_wser n c tb (set_flags r (f_host r) (f_ident r) (f_nick r) (f_user r) true) []).
Qed.

(* ---------- whatever `handle` / `reply` emit is about the request's own id, and the id is kept ---------- *)
Definition about (id : Z) (o : out) : Prop :=
  match o with OX _ i _ _ => i = id | OC _ i _ _ _ => i = id | ORaw _ => True end.

Lemma neutral_about id o : neutral id o -> about id o.
Proof. destruct o; cbn; tauto. Qed.

Lemma shape_about id sd res outs : Shape id sd res outs ->
  Forall (about id) outs /\ match res with Some r' => cid r' = id | None => True end.
Proof.
  intros (pre & last & -> & Hpre & Hl). split.
  - apply Forall_app. split; [eapply Forall_impl; [|exact Hpre]; apply neutral_about|].
    destruct Hl as [(_ & k & a & p & rest & -> & _)|[(r' & _ & _ & _ & _ & a & p & rest & ->)|(r' & _ & _ & _ & ->)]]; repeat constructor.
  - destruct Hl as [(-> & _)|[(r' & -> & Hc & _)|(r' & -> & Hc & _)]]; [exact I|exact Hc|exact Hc].
Qed.

Definition res_ok (r : req) (res : option req * list out * list eff) : Prop :=
  Forall (about (cid r)) (snd (fst res)) /\ match fst (fst res) with Some r' => cid r' = cid r | None => True end.
Definition hshape (r : req) (h : hres) : Prop :=
  match h with HSame o => Forall (about (cid r)) o | HFin res => res_ok r res | HGone => True end.

Lemma reply_about c tb r svcn text : res_ok r (reply c tb r svcn text).
Proof. exact (shape_about _ _ _ _ (reply_shape c tb r svcn text)). Qed.

Theorem handle_about c tb r argv : hshape r (handle c tb r argv).
Proof.
  assert (forall r1 (e : list eff), cid r1 = cid r -> hshape r (let '(r2, g) := gate c tb r1 in HFin (r2, g, e))) as Gt.
  { intros r1 e H1. pose proof (shape_about _ _ _ _ (gate_shape c tb r1)) as G. rewrite H1 in G.
    destruct (gate c tb r1) as [r2 g]. exact G. }
  assert (forall r1, cid r1 = cid r ->
            hshape r (HFin (if with_xq c then after c tb r1 false else let '(r2, g) := gate c tb r1 in (r2, g, [])))) as Aft.
  { intros r1 H1. destruct (with_xq c).
    - pose proof (shape_about _ _ _ _ (after_shape c tb r1 false)) as A. rewrite H1 in A. exact A.
    - pose proof (shape_about _ _ _ _ (gate_shape c tb r1)) as G. rewrite H1 in G. destruct (gate c tb r1) as [r2 g]. exact G. }
  unfold handle. cbv zeta.
  destruct (beq (cmdchar argv) x44 || beq (cmdchar argv) x54); [exact I|].
  destruct (beq (cmdchar argv) x21).
  { match goal with |- context [if ?b then _ else _] => destruct b end; [|constructor]. apply Gt; reflexivity. }
  destruct (beq (cmdchar argv) x4e).
  { destruct (arg 1 argv); [|constructor]. destruct (nonempty (host r)); [constructor|]. apply Aft; reflexivity. }
  destruct (beq (cmdchar argv) x64); [apply Aft; reflexivity|].
  destruct (beq (cmdchar argv) x75).
  { destruct (arg 1 argv); [apply Aft; reflexivity|]. destruct (nonempty (cliu r)); apply Aft; reflexivity. }
  destruct (beq (cmdchar argv) x6e).
  { destruct (arg 1 argv); [apply Aft; reflexivity|constructor]. }
  destruct (beq (cmdchar argv) x55).
  { destruct (arg 1 argv); [|repeat constructor]. destruct (arg 2 argv); [apply Aft; reflexivity|repeat constructor]. }
  destruct (beq (cmdchar argv) x48).
  { destruct (with_xq c) eqn:Ex.
    - pose proof (Aft (set_flags r true true true true (f_pass r)) eq_refl) as A. rewrite ?Ex in A. exact A.
    - pose proof (Aft (set_flags r true (f_ident r) (f_nick r) (f_user r) (f_pass r)) eq_refl) as A. rewrite ?Ex in A. exact A. }
  destruct (beq (cmdchar argv) x50); [|constructor].
  destruct (arg 1 argv) as [t|]; [|constructor].
  destruct (with_xq c); [|apply Gt; reflexivity].
  set (r0 := set_flags r (f_host r) (f_ident r) (f_nick r) (f_user r) true).
  pose proof (password_facts tb r0 t) as (P1 & P2 & P3).
  destruct (password tb r0 t) as [[r1 o] efs]. cbn [fst snd] in *.
  pose proof (shape_about _ _ _ _ (gate_after c tb r0 r1 o P1 P2 P3)) as G.
  destruct (gate c tb r1) as [r2 g]. exact G.
Qed.

Lemma handle_keeps_ser c tb r argv : match handle c tb r argv with HFin (Some r', _, _) => ser r' = ser r | _ => True end.
Proof.
  pose proof (handle_wser (ser r) c tb r argv) as H. rewrite wser_id in H.
  destruct (handle c tb r argv) as [o|[[[r'|] o] e]|]; try exact I.
  apply (f_equal (fun h => match h with HFin (Some x, _, _) => ser x | _ => 0%N end)) in H. exact H.
Qed.

Lemma reply_keeps_ser c tb r svcn text : match fst (fst (reply c tb r svcn text)) with Some r' => ser r' = ser r | None => True end.
Proof.
  pose proof (reply_wser (ser r) c tb r svcn text) as H. rewrite wser_id in H.
  destruct (reply c tb r svcn text) as [[[r'|] o] e]; [|exact I].
  apply (f_equal (fun h => match h with (Some x, _, _) => ser x | _ => 0%N end)) in H. exact H.
Qed.

(* every query line of a step carries the serial of the request it is about *)
Definition tagged (n : N) (o : out) : Prop := match o with OX _ _ sr _ => sr = n | _ => True end.
Lemma map_oser_tagged n outs : outs = map (oser n) outs -> Forall (tagged n) outs.
Proof.
  induction outs as [|o t IH]; intros H; [constructor|]. cbn [map] in H. injection H as H1 H2.
  constructor; [|apply IH; exact H2]. destruct o; cbn in *; [injection H1 as ->; reflexivity|exact I|exact I].
Qed.

Lemma handle_tags c tb r argv :
  match handle c tb r argv with HSame o => Forall (tagged (ser r)) o | HFin (_, o, _) => Forall (tagged (ser r)) o | HGone => True end.
Proof.
  pose proof (handle_wser (ser r) c tb r argv) as H. rewrite wser_id in H.
  destruct (handle c tb r argv) as [o|[[ro o] e]|]; [| |exact I]; apply map_oser_tagged; cbn [hmap] in H; congruence.
Qed.
Lemma reply_tags c tb r svcn text : Forall (tagged (ser r)) (snd (fst (reply c tb r svcn text))).
Proof.
  pose proof (reply_wser (ser r) c tb r svcn text) as H. rewrite wser_id in H.
  destruct (reply c tb r svcn text) as [[ro o] e]. apply map_oser_tagged. cbn [fst snd]. congruence.
Qed.

(* ====================================================================================================== *)
(* ---------- live instances have pairwise distinct serials, none above the counter ---------- *)
Definition SerInv (s : st) : Prop :=
  NoDup (map ser (reqs s)) /\ Forall (fun r => (0 < ser r <= next s)%N) (reqs s).

Lemma forall_put (P : req -> Prop) r l : P r -> Forall P l -> Forall P (put r l).
Proof.
  intros Hr. induction 1 as [|x t Hx Ht IH]; cbn [put]; [constructor; [assumption|constructor]|].
  destruct (cid x =? cid r); constructor; assumption.
Qed.
Lemma forall_remove (P : req -> Prop) id l : Forall P l -> Forall P (remove id l).
Proof. induction 1 as [|x t Hx Ht IH]; cbn [remove]; [constructor|]. destruct (cid x =? id); [exact Ht|constructor; assumption]. Qed.
Lemma lookup_forall (P : req -> Prop) id l r : Forall P l -> lookup id l = Some r -> P r.
Proof. induction 1 as [|x t Hx Ht IH]; cbn [lookup]; [discriminate|]. destruct (cid x =? id); [intros E; inversion E; subst; exact Hx|exact IH]. Qed.

Lemma in_map_remove {A} (f : req -> A) j l y : In y (map f (remove j l)) -> In y (map f l).
Proof. induction l as [|x t IH]; cbn [remove map In]; [tauto|]. destruct (cid x =? j); cbn [map In]; [tauto|]. intros [H|H]; [left; exact H|right; apply IH; exact H]. Qed.
Lemma nodup_map_remove {A} (f : req -> A) j l : NoDup (map f l) -> NoDup (map f (remove j l)).
Proof.
  induction l as [|x t IH]; cbn [remove map]; intros ND; [constructor|]. inversion ND; subst.
  destruct (cid x =? j); [assumption|]. cbn [map]. constructor; [intro H; apply in_map_remove in H; contradiction|apply IH; assumption].
Qed.
Lemma in_ser_put r l y : In y (map ser (put r l)) -> y = ser r \/ In y (map ser l).
Proof.
  induction l as [|x t IH]; cbn [put map In]; [intros [H|[]]; left; symmetry; exact H|].
  destruct (cid x =? cid r); cbn [map In]; [intros [H|H]; [left; symmetry; exact H|tauto]|].
  intros [H|H]; [tauto|]. apply IH in H. tauto.
Qed.
Lemma nodup_ser_put_new r l : NoDup (map ser l) -> ~ In (ser r) (map ser l) -> NoDup (map ser (put r l)).
Proof.
  induction l as [|x t IH]; cbn [put map]; intros ND Hn; [constructor; [intros []|constructor]|].
  inversion ND as [|? ? Hx Ht]; subst. cbn [In] in Hn.
  destruct (cid x =? cid r); cbn [map].
  - constructor; [tauto|exact Ht].
  - constructor; [|apply IH; [exact Ht|tauto]]. intros H. apply in_ser_put in H as [H|H]; [apply Hn; left; exact H|contradiction].
Qed.
Lemma map_ser_put_same r' r l : lookup (cid r') l = Some r -> ser r' = ser r -> map ser (put r' l) = map ser l.
Proof.
  intros Hl Hs. revert Hl. induction l as [|x t IH]; cbn [put lookup map]; [discriminate|].
  destruct (cid x =? cid r'); cbn [map]; [intros E; inversion E; subst; rewrite Hs; reflexivity|].
  intros E. rewrite IH by exact E. reflexivity.
Qed.

Lemma finish_next s id res : next (fst (finish s id res)) = next s.
Proof. destruct res as [[[r|] o] e]; reflexivity. Qed.
Lemma apply_h_next s id h : next (fst (apply_h s id h)) = next s.
Proof. destruct h; cbn [apply_h]; [reflexivity|apply finish_next|reflexivity]. Qed.

Lemma serinv_finish s id r res o e :
  SerInv s -> lookup id (reqs s) = Some r ->
  match res with Some r' => cid r' = id /\ ser r' = ser r | None => True end ->
  SerInv (fst (finish s id (res, o, e))).
Proof.
  intros [ND B] Hl Hr. unfold finish, SerInv. destruct res as [r'|]; cbn [fst reqs next].
  - destruct Hr as [Hc Hs]. rewrite <- Hc in Hl. split.
    + rewrite (map_ser_put_same r' r _ Hl Hs). exact ND.
    + apply forall_put; [|exact B]. rewrite Hs. exact (lookup_forall _ _ _ _ B Hl).
  - split; [apply nodup_map_remove; exact ND|apply forall_remove; exact B].
Qed.

Definition ev_announces (e : ev) : bool := match e with Ev _ argv => announces argv | Reload _ _ _ => false end.

Lemma xstep_next c s argv : next (fst (xstep c s argv)) = next s.
Proof.
  unfold xstep, xreply. destruct (negb (with_xq c)); [reflexivity|].
  destruct (arg 1 argv); [|reflexivity]. destruct (arg 2 argv) as [tg|]; [|reflexivity]. destruct (arg 3 argv); [|reflexivity].
  destruct (parse_tag tg) as [[tid tser]|]; [|reflexivity]. destruct (lookup tid (reqs s)); [|reflexivity].
  destruct (ser r =? tser)%N; [apply finish_next|reflexivity].
Qed.

Theorem step_next c s id argv :
  next (fst (step c s id argv)) = if announces argv then ((next s + 1) mod 4294967296)%N else next s.
Proof.
  rewrite step_eq. unfold announces.
  destruct (beq (cmdchar argv) x43); cbn [andb].
  { unfold announce. destruct (arg 1 argv) as [a|], (arg 2 argv), (arg 3 argv), (arg 4 argv); try reflexivity.
    destruct (announce_addr a); reflexivity. }
  destruct (beq (cmdchar argv) x58 || beq (cmdchar argv) x78); [apply xstep_next|].
  destruct (lookup id (reqs s)); [apply apply_h_next|reflexivity].
Qed.

Theorem serinv_step c s id argv :
  (announces argv = true -> (next s < 4294967295)%N) -> SerInv s -> SerInv (fst (step c s id argv)).
Proof.
  intros Hb HS. rewrite step_eq. unfold announces in Hb.
  destruct (beq (cmdchar argv) x43); cbn [andb] in Hb.
  { unfold announce. destruct (arg 1 argv) as [a|], (arg 2 argv), (arg 3 argv), (arg 4 argv); try exact HS.
    specialize (Hb eq_refl). destruct (announce_addr a) as [g txt]. cbn [fst]. destruct HS as [ND B].
    rewrite N.mod_small by lia. unfold SerInv. cbn [reqs next]. split.
    - apply nodup_ser_put_new; [exact ND|]. cbn [fresh ser]. intros Hi. apply in_map_iff in Hi as (x & Hx & Hin).
      rewrite Forall_forall in B. specialize (B x Hin). lia.
    - apply forall_put; [cbn [fresh ser]; lia|]. eapply Forall_impl; [|exact B]. cbn beta. intros x Hx. lia. }
  destruct (beq (cmdchar argv) x58 || beq (cmdchar argv) x78).
  { unfold xstep, xreply. destruct (negb (with_xq c)); [exact HS|].
    destruct (arg 1 argv) as [svcn|]; [|exact HS]. destruct (arg 2 argv) as [tg|]; [|exact HS]. destruct (arg 3 argv) as [tx|]; [|exact HS].
    destruct (parse_tag tg) as [[tid tser]|]; [|exact HS]. destruct (lookup tid (reqs s)) as [r|] eqn:El; [|exact HS].
    destruct (ser r =? tser)%N; [|exact HS].
    pose proof (reply_keeps_ser c (tb s) r svcn (if beq (cmdchar argv) x58 then Some tx else None)) as K.
    pose proof (reply_about c (tb s) r svcn (if beq (cmdchar argv) x58 then Some tx else None)) as [_ A].
    destruct (reply c (tb s) r svcn _) as [[res o] e]. cbn [fst snd] in *.
    rewrite (lookup_cid _ _ _ El) in *. eapply serinv_finish; [exact HS|exact El|]. destruct res; [split; assumption|exact I]. }
  destruct (lookup id (reqs s)) as [r|] eqn:El; [|exact HS].
  pose proof (handle_keeps_ser c (tb s) r argv) as K. pose proof (handle_about c (tb s) r argv) as A.
  destruct (handle c (tb s) r argv) as [o|[[res o] e]|]; cbn [apply_h fst].
  - exact HS.
  - destruct A as [_ A]. cbn [fst] in A. rewrite (lookup_cid _ _ _ El) in A.
    eapply serinv_finish; [exact HS|exact El|]. destruct res; [split; assumption|exact I].
  - destruct HS as [ND B]. split; cbn [reqs next]; [apply nodup_map_remove; exact ND|apply forall_remove; exact B].
Qed.

Theorem serinv_step_ev c s e :
  (ev_announces e = true -> (next s < 4294967295)%N) -> SerInv s -> SerInv (fst (step_ev c s e)).
Proof.
  destruct e as [id argv|svs rs t]; cbn [step_ev ev_announces]; [apply serinv_step|].
  (* a reload makes the pending requests forget the refilled slots: serials untouched *)
  intros _ [ND B]. unfold SerInv. cbn [fst reqs next]. split.
  - rewrite map_map. rewrite (map_ext (fun r => ser (forget _ r)) ser) by reflexivity. exact ND.
  - apply Forall_forall. intros r' Hr. apply in_map_iff in Hr as (r & <- & Hr). exact (proj1 (Forall_forall _ _) B r Hr).
Qed.

Lemma step_ev_next c s e :
  next (fst (step_ev c s e)) = if ev_announces e then ((next s + 1) mod 4294967296)%N else next s.
Proof. destruct e as [id argv|svs rs t]; cbn [step_ev ev_announces]; [apply step_next|reflexivity]. Qed.

Definition n_announces (evs : list ev) : nat := List.length (filter ev_announces evs).

Lemma run_serinv c evs : forall s,
  SerInv s -> (next s + N.of_nat (n_announces evs) < 4294967296)%N ->
  SerInv (fold_left (fun s e => fst (step_ev c s e)) evs s) /\
  next (fold_left (fun s e => fst (step_ev c s e)) evs s) = (next s + N.of_nat (n_announces evs))%N.
Proof.
  unfold n_announces. induction evs as [|e evs IH]; intros s HS Hb; cbn [fold_left filter].
  - cbn [List.length]. split; [exact HS|lia].
  - cbn [filter] in Hb. pose proof (step_ev_next c s e) as Hn. pose proof (serinv_step_ev c s e) as Hs.
    destruct (ev_announces e); cbn [List.length] in Hb |- *.
    + rewrite N.mod_small in Hn by lia.
      destruct (IH (fst (step_ev c s e))) as [I1 I2]; [apply Hs; [intros _; lia|exact HS]|rewrite Hn; lia|].
      split; [exact I1|rewrite I2, Hn; lia].
    + destruct (IH (fst (step_ev c s e))) as [I1 I2]; [apply Hs; [discriminate|exact HS]|rewrite Hn; exact Hb|].
      split; [exact I1|rewrite I2, Hn; reflexivity].
Qed.

(* in every state reached from an empty table and a zero counter by a history with fewer than 2^32 announcements *)
Theorem serial_fresh c s0 evs :
  reqs s0 = [] -> next s0 = 0%N -> (N.of_nat (n_announces evs) < 4294967296)%N ->
  SerInv (fold_left (fun s e => fst (step_ev c s e)) evs s0) /\
  next (fold_left (fun s e => fst (step_ev c s e)) evs s0) = N.of_nat (n_announces evs).
Proof.
  intros H0 Hn Hb. destruct (run_serinv c evs s0) as [A B].
  - unfold SerInv. rewrite H0. split; constructor.
  - rewrite Hn. exact Hb.
  - split; [exact A|rewrite B, Hn; reflexivity].
Qed.

Lemma lookup_in_list j l r : lookup j l = Some r -> In r l.
Proof. induction l as [|x t IH]; cbn [lookup]; [discriminate|]. destruct (cid x =? j); [intros E; inversion E; left; reflexivity|intros E; right; apply IH; exact E]. Qed.

(* every routing tag sent by a step carries the serial of a live request, hence a value in 1..next *)
Theorem tags_bounded c s id argv :
  SerInv s -> Forall (fun o => match o with OX _ _ sr _ => (0 < sr <= next s)%N | _ => True end) (snd (step c s id argv)).
Proof.
  intros [ND B].
  assert (forall r o, In r (reqs s) -> Forall (tagged (ser r)) o ->
            Forall (fun o => match o with OX _ _ sr _ => (0 < sr <= next s)%N | _ => True end) o) as T.
  { intros r o Hin Ht. rewrite Forall_forall in B. specialize (B r Hin). eapply Forall_impl; [|exact Ht].
    intros [nm i sr pl|k i a p rs|t]; cbn; [intros ->; exact B|trivial|trivial]. }
  pose proof (fun j r => lookup_in_list j (reqs s) r) as Lin.
  rewrite step_eq.
  destruct (beq (cmdchar argv) x43).
  { unfold announce. destruct (arg 1 argv) as [a|], (arg 2 argv), (arg 3 argv), (arg 4 argv); try constructor. destruct (announce_addr a); constructor. }
  destruct (beq (cmdchar argv) x58 || beq (cmdchar argv) x78).
  { unfold xstep, xreply. destruct (negb (with_xq c)); [constructor|].
    destruct (arg 1 argv) as [svcn|]; [|constructor]. destruct (arg 2 argv) as [tg|]; [|constructor]. destruct (arg 3 argv) as [tx|]; [|constructor].
    destruct (parse_tag tg) as [[tid tser]|]; [|constructor]. destruct (lookup tid (reqs s)) as [r|] eqn:El; [|constructor].
    destruct (ser r =? tser)%N; [|constructor].
    pose proof (reply_tags c (tb s) r svcn (if beq (cmdchar argv) x58 then Some tx else None)) as K.
    destruct (reply c (tb s) r svcn _) as [[res o] e]. cbn [fst snd] in K. unfold finish.
    destruct res; cbn [snd]; exact (T r o (Lin _ _ El) K). }
  destruct (lookup id (reqs s)) as [r|] eqn:El; [|constructor].
  pose proof (handle_tags c (tb s) r argv) as K.
  destruct (handle c (tb s) r argv) as [o|[[res o] e]|]; cbn [apply_h snd]; [exact (T r o (Lin _ _ El) K)| |constructor].
  unfold finish. destruct res; cbn [snd]; exact (T r o (Lin _ _ El) K).
Qed.

(* a newcomer's serial is above the counter, hence above every tag sent so far and every live or departed instance *)
Theorem newcomer_serial c s id argv r' :
  announces argv = true -> (next s < 4294967295)%N ->
  lookup id (reqs (fst (step c s id argv))) = Some r' -> ser r' = (next s + 1)%N.
Proof.
  intros Ha Hb. rewrite step_eq. unfold announces in Ha. destruct (beq (cmdchar argv) x43); [|discriminate]. cbn [andb] in Ha.
  unfold announce. destruct (arg 1 argv) as [a|], (arg 2 argv), (arg 3 argv), (arg 4 argv); try discriminate.
  destruct (announce_addr a) as [g txt]. cbn [fst reqs]. rewrite lookup_put. cbn [fresh cid]. rewrite Z.eqb_refl.
  intros E. inversion E. cbn [ser]. apply N.mod_small. lia.
Qed.

