(* C07: concurrent clients do not interfere.  For histories WITHOUT reloads, over static tables whose services are all
   configured, the lines about one client (with the serial inside routing tags erased) depend only on that
   client's own events: interleaving other clients' events in any way changes nothing (`interleave_invariant`).
   Route: (1) outputs and request updates do not depend on reference counts (`*_er`), and with all services configured
   the slot vector is constant up to reference counts (`bump_er`); (2) a step touches the table only at the id it is
   addressed to and emits lines about that id only (`astep_frame`); (3) the serial is never read (Stray.v, `*_wser`);
   (4) hence the full run, projected on client c, equals the run of c's events alone (`solo_run`). *)
From Coq Require Import List NArith ZArith Bool Strings.Byte Strings.String Lia.
Import ListNotations.
Require Import Iauth Mon01 Stray TagRT.
Local Open Scope string_scope.
Local Open Scope list_scope.
Local Open Scope Z_scope.

(* ====================================================================================================== *)
(* ---------- nothing but the slot vector's names, types and configured flags is ever read ---------- *)
Definition er (o : option svc) : option (str * stype * bool) :=
  match o with Some s => Some (s_name s, s_type s, s_conf s) | None => None end.
Definition teqv (t1 t2 : tabs) : Prop := map er (slots t1) = map er (slots t2) /\ rules t1 = rules t2.

Lemma teqv_refl t : teqv t t.
Proof. split; reflexivity. Qed.
Lemma teqv_sym t1 t2 : teqv t1 t2 -> teqv t2 t1.
Proof. intros [A B]; split; symmetry; assumption. Qed.
Lemma teqv_trans t1 t2 t3 : teqv t1 t2 -> teqv t2 t3 -> teqv t1 t3.
Proof. intros [A B] [C D]; split; etransitivity; eassumption. Qed.

(* common opening of the inductions below: both vectors have the same shape *)
Lemma er_cons_inv a b (l1 l2 : list (option (str * stype * bool))) : er a :: l1 = er b :: l2 ->
  match a, b with
  | Some x, Some y => s_name x = s_name y /\ s_type x = s_type y /\ s_conf x = s_conf y
  | None, None => True
  | _, _ => False
  end /\ l1 = l2.
Proof.
  intros H. injection H as Ha Ht. split; [|exact Ht].
  destruct a as [x|], b as [y|]; cbn [er] in Ha; try discriminate Ha; [|exact I]. injection Ha as H1 H2 H3. auto.
Qed.

Lemma qpass_er ss1 : forall ss2, map er ss1 = map er ss2 ->
  forall slot ispw r outs efs, qpass ss1 slot ispw r outs efs = qpass ss2 slot ispw r outs efs.
Proof.
  induction ss1 as [|a ss1 IH]; intros [|b ss2] H; cbn [map] in H; try discriminate H;
    [|apply er_cons_inv in H as [Ha Ht]; destruct a as [sa|], b as [sb|]; try contradiction; [destruct Ha as (Hn & Hty & Hc)|]]; intros slot ispw r outs efs; cbn [qpass]; [reflexivity| |apply IH; exact Ht].
  rewrite Hn, Hty, Hc. destruct (negb (s_conf sb) || skip_query (s_type sb) slot ispw r); apply IH; exact Ht.
Qed.

Lemma cont_er ss1 : forall ss2, map er ss1 = map er ss2 ->
  forall slot t r outs efs, cont ss1 slot t r outs efs = cont ss2 slot t r outs efs.
Proof.
  induction ss1 as [|a ss1 IH]; intros [|b ss2] H; cbn [map] in H; try discriminate H;
    [|apply er_cons_inv in H as [Ha Ht]; destruct a as [sa|], b as [sb|]; try contradiction; [destruct Ha as (Hn & Hty & Hc)|]]; intros slot t r outs efs; cbn [cont]; [reflexivity| |apply IH; exact Ht].
  rewrite Hn, Hc. destruct (N.testbit (more r) slot && s_conf sb); apply IH; exact Ht.
Qed.

Lemma find_slot_er ss1 : forall ss2, map er ss1 = map er ss2 ->
  forall slot nm mask, find_slot ss1 slot nm mask = find_slot ss2 slot nm mask.
Proof.
  induction ss1 as [|a ss1 IH]; intros [|b ss2] H; cbn [map] in H; try discriminate H;
    [|apply er_cons_inv in H as [Ha Ht]; destruct a as [sa|], b as [sb|]; try contradiction; [destruct Ha as (Hn & Hty & Hc)|]]; intros slot nm mask; cbn [find_slot]; [reflexivity| |apply IH; exact Ht].
  rewrite Hn, Hty. destruct (N.testbit mask slot && seq_eq (s_name sb) nm); [reflexivity|apply IH; exact Ht].
Qed.

Lemma xreply_ok_er ss1 : forall ss2, map er ss1 = map er ss2 ->
  forall slot nm r, xreply_ok ss1 slot nm r = xreply_ok ss2 slot nm r.
Proof.
  induction ss1 as [|a ss1 IH]; intros [|b ss2] H; cbn [map] in H; try discriminate H;
    [|apply er_cons_inv in H as [Ha Ht]; destruct a as [sa|], b as [sb|]; try contradiction; [destruct Ha as (Hn & Hty & Hc)|]]; intros slot nm r; cbn [xreply_ok]; [reflexivity| |apply IH; exact Ht].
  rewrite Hn, Hc. destruct (s_conf sb && ci_eq nm (s_name sb)); [reflexivity|apply IH; exact Ht].
Qed.

Lemma classify_er ss1 ss2 rs r : map er ss1 = map er ss2 -> classify ss1 rs r = classify ss2 rs r.
Proof.
  intros H. induction rs as [|ru rest IH]; cbn [classify]; [reflexivity|].
  assert (rule_matches ss1 ru r = rule_matches ss2 ru r) as ->.
  { unfold rule_matches. destruct (r_xok ru); [rewrite (xreply_ok_er ss1 ss2 H)|]; reflexivity. }
  destruct (rule_matches ss2 ru r); [reflexivity|exact IH].
Qed.

Lemma gate_er c t1 t2 r : teqv t1 t2 -> gate c t1 r = gate c t2 r.
Proof. intros [A B]. unfold gate. rewrite (classify_er _ _ (rules t1) r A), B. reflexivity. Qed.

Lemma reply_er c t1 t2 r svcn text : teqv t1 t2 -> reply c t1 r svcn text = reply c t2 r svcn text.
Proof.
  intros E. unfold reply. rewrite (find_slot_er _ _ (proj1 E)).
  destruct (find_slot (slots t2) 0 svcn (refm r)) as [[slot t]|]; [|reflexivity].
  cbv beta zeta. destruct text as [tx|]; repeat rewrite (gate_er c t1 t2 _ E); reflexivity.
Qed.

Lemma password_er t1 t2 r t : teqv t1 t2 -> password t1 r t = password t2 r t.
Proof.
  intros [A B]. unfold password.
  destruct ((more r =? 0)%N || negb (nonempty (pw r))); [|apply cont_er; exact A].
  destruct (negb (starts t x2b || starts t x2d)); [reflexivity|].
  destruct (modes _ _ _ _ _ _ _) as [[[[[rest0 sx] cx] sb] cb]|]; [|reflexivity].
  cbv zeta. destruct (negb (has sp (skipsp rest0))); [reflexivity|]. apply qpass_er; exact A.
Qed.

Lemma after_er c t1 t2 r ispw : teqv t1 t2 -> after c t1 r ispw = after c t2 r ispw.
Proof.
  intros E. unfold after. rewrite (qpass_er _ _ (proj1 E)).
  destruct (qpass (slots t2) 0 ispw r [] []) as [[r1 o] efs]. rewrite (gate_er c t1 t2 _ E). reflexivity.
Qed.

Theorem handle_er c t1 t2 r argv : teqv t1 t2 -> handle c t1 r argv = handle c t2 r argv.
Proof.
  intros E. unfold handle. cbv zeta.
  assert (forall r1, HFin (if with_xq c then after c t1 r1 false else let '(r2, g) := gate c t1 r1 in (r2, g, [])) =
                     HFin (if with_xq c then after c t2 r1 false else let '(r2, g) := gate c t2 r1 in (r2, g, []))) as Aft.
  { intros r1. rewrite (after_er c t1 t2 _ _ E), (gate_er c t1 t2 _ E). reflexivity. }
  destruct (beq (cmdchar argv) x44 || beq (cmdchar argv) x54); [reflexivity|].
  destruct (beq (cmdchar argv) x21).
  { rewrite (gate_er c t1 t2 _ E). reflexivity. }
  destruct (beq (cmdchar argv) x4e).
  { destruct (arg 1 argv); [|reflexivity]. rewrite Aft. reflexivity. }
  destruct (beq (cmdchar argv) x64); [apply Aft|].
  destruct (beq (cmdchar argv) x75).
  { destruct (arg 1 argv); [apply Aft|]. rewrite !Aft. reflexivity. }
  destruct (beq (cmdchar argv) x6e).
  { destruct (arg 1 argv); [apply Aft|reflexivity]. }
  destruct (beq (cmdchar argv) x55).
  { destruct (arg 1 argv); [|reflexivity]. destruct (arg 2 argv); [apply Aft|reflexivity]. }
  destruct (beq (cmdchar argv) x48).
  { destruct (with_xq c) eqn:Ex.
    - pose proof (Aft (set_flags r true true true true (f_pass r))) as A. rewrite ?Ex in A. exact A.
    - pose proof (Aft (set_flags r true (f_ident r) (f_nick r) (f_user r) (f_pass r))) as A. rewrite ?Ex in A. exact A. }
  destruct (beq (cmdchar argv) x50); [|reflexivity].
  destruct (arg 1 argv) as [t|]; [|reflexivity].
  rewrite (password_er t1 t2 _ t E). destruct (with_xq c).
  - destruct (password t2 _ t) as [[r1 o] efs]. rewrite (gate_er c t1 t2 _ E). reflexivity.
  - rewrite (gate_er c t1 t2 _ E). reflexivity.
Qed.

(* ---------- with every service configured, reference-count effects leave the vector unchanged up to the counts ---------- *)
Definition conf_ok (o : option svc) : Prop := match o with Some s => s_conf s = true | None => True end.
Definition AllConf (ss : list (option svc)) : Prop := Forall conf_ok ss.

Lemma allconf_er ss1 : forall ss2, map er ss1 = map er ss2 -> AllConf ss1 -> AllConf ss2.
Proof.
  induction ss1 as [|a ss1 IH]; intros [|b ss2] H; cbn [map] in H; try discriminate H;
    [|apply er_cons_inv in H as [Ha Ht]; destruct a as [sa|], b as [sb|]; try contradiction; [destruct Ha as (Hn & Hty & Hc)|]]; intros HA; [constructor| |]; inversion HA as [|? ? Hx Hr]; subst; constructor; try (apply IH; assumption).
  - cbn [conf_ok] in *. congruence.
  - exact I.
Qed.

Lemma bump_er ss : forall slot target d, AllConf ss -> map er (bump ss slot target d) = map er ss.
Proof.
  induction ss as [|o rest IH]; intros slot target d HA; cbn [bump]; [reflexivity|].
  inversion HA as [|? ? Ho Hr]; subst.
  destruct (slot =? target)%N; [|cbn [map]; rewrite IH by exact Hr; reflexivity].
  destruct o as [s|]; [|reflexivity]. cbn [conf_ok] in Ho. rewrite Ho. cbn [negb]. rewrite andb_false_r. cbn [andb map er s_name s_type s_conf].
  rewrite Ho. reflexivity.
Qed.

Lemma apply_effs_er efs : forall ss, AllConf ss -> map er (apply_effs ss efs) = map er ss.
Proof.
  unfold apply_effs. induction efs as [|e efs IH]; intros ss HA; cbn [fold_left]; [reflexivity|].
  rewrite IH; [apply bump_er; exact HA|]. eapply allconf_er; [symmetry; apply bump_er; exact HA|exact HA].
Qed.

Lemma with_slots_er s efs : AllConf (slots (tb s)) -> teqv (with_slots s efs) (tb s).
Proof. intros HA. split; [apply apply_effs_er; exact HA|reflexivity]. Qed.

(* ====================================================================================================== *)
(* ---------- abstract events: a reply is addressed to the CURRENT instance of a client ---------- *)
Inductive aev :=
| ALine (id : Z) (argv : list str)                              (* any line that is not X / x (an X / x line here is ignored) *)
| AReply (id : Z) (unlinked : bool) (svcn text : str).          (* a reply (x when unlinked, else X) to the live instance of id *)

Definition is_x (argv : list str) : bool := beq (cmdchar argv) x58 || beq (cmdchar argv) x78.
Definition aid (a : aev) : Z := match a with ALine id _ => id | AReply id _ _ _ => id end.
Definition abelongs (c : Z) (a : aev) : bool := aid a =? c.

Definition astep (cf : cfg) (s : st) (a : aev) : st * list out :=
  match a with
  | ALine id argv => if is_x argv then (s, []) else step cf s id argv
  | AReply id u svcn text =>
      if negb (with_xq cf) then (s, []) else
      match lookup id (reqs s) with
      | Some r => xreply cf s r svcn (if u then None else Some text)
      | None => (s, [])
      end
  end.

Lemma astep_eq cf s a :
  astep cf s a =
  match a with
  | ALine id argv =>
      if is_x argv then (s, []) else
      if beq (cmdchar argv) x43 then announce s id argv else
      match lookup id (reqs s) with None => (s, []) | Some r => apply_h s id (handle cf (tb s) r argv) end
  | AReply id u svcn text =>
      if negb (with_xq cf) then (s, []) else
      match lookup id (reqs s) with Some r => xreply cf s r svcn (if u then None else Some text) | None => (s, []) end
  end.
Proof.
  destruct a as [id argv|id u svcn text]; [|reflexivity]. cbn [astep]. unfold is_x.
  destruct (beq (cmdchar argv) x58 || beq (cmdchar argv) x78) eqn:Ex; [reflexivity|].
  rewrite step_eq, Ex. reflexivity.
Qed.

(* ---------- a step touches the table at one id only, and speaks about that id only ---------- *)
Record Frame (j : Z) (s s' : st) (o : list out) : Prop := {
  fr_nd : NoDupIds (reqs s) -> NoDupIds (reqs s');
  fr_lk : forall c, c <> j -> lookup c (reqs s') = lookup c (reqs s);
  fr_tb : AllConf (slots (tb s)) -> teqv (tb s') (tb s);      (* the slot vector is constant up to reference counts *)
  fr_tmo : tmo s' = tmo s;
  fr_out : Forall (about j) o }.

Lemma frame_same j s o : Forall (about j) o -> Frame j s s o.
Proof. intros H. constructor; auto. intros _. apply teqv_refl. Qed.

Lemma frame_finish j s r res : cid r = j -> res_ok r res -> Frame j s (fst (finish s j res)) (snd (finish s j res)).
Proof.
  intros Hj [Ho Hr]. destruct res as [[[r'|] o] e]; cbn [fst snd] in *; unfold finish; cbn [fst snd]; rewrite Hj in *.
  - constructor; cbn [reqs tb tmo].
    + apply nodup_put.
    + intros c Hc. rewrite lookup_put, Hr. destruct (j =? c) eqn:E; [apply Z.eqb_eq in E; congruence|reflexivity].
    + apply with_slots_er.
    + reflexivity.
    + exact Ho.
  - constructor; cbn [reqs tb tmo].
    + apply nodup_remove.
    + intros c Hc. apply lookup_remove_neq; exact Hc.
    + apply with_slots_er.
    + reflexivity.
    + exact Ho.
Qed.

Lemma frame_apply_h j s r h : cid r = j -> hshape r h -> Frame j s (fst (apply_h s j h)) (snd (apply_h s j h)).
Proof.
  intros Hj Hh. destruct h as [o|res|]; cbn [apply_h hshape] in *.
  - cbn [fst snd]. apply frame_same. rewrite <- Hj. exact Hh.
  - apply (frame_finish j s r); assumption.
  - cbn [fst snd]. constructor; cbn [reqs tb tmo].
    + apply nodup_remove.
    + intros c Hc. apply lookup_remove_neq; exact Hc.
    + intros _. apply teqv_refl.
    + reflexivity.
    + constructor.
Qed.

Lemma frame_announce s id argv : Frame id s (fst (announce s id argv)) (snd (announce s id argv)).
Proof.
  unfold announce. destruct (arg 1 argv) as [a|], (arg 2 argv), (arg 3 argv), (arg 4 argv); try (apply frame_same; constructor).
  destruct (announce_addr a) as [g txt]. cbn [fst snd]. constructor; cbn [reqs tb tmo].
  - apply nodup_put.
  - intros c Hc. rewrite lookup_put. cbn [fresh cid]. destruct (id =? c) eqn:E; [apply Z.eqb_eq in E; congruence|reflexivity].
  - intros _. apply teqv_refl.
  - reflexivity.
  - constructor.
Qed.

Theorem astep_frame cf s a : Frame (aid a) s (fst (astep cf s a)) (snd (astep cf s a)).
Proof.
  rewrite astep_eq. destruct a as [id argv|id u svcn text]; cbn [aid].
  - destruct (is_x argv); [apply frame_same; constructor|].
    destruct (beq (cmdchar argv) x43); [apply frame_announce|].
    destruct (lookup id (reqs s)) as [r|] eqn:El; [|apply frame_same; constructor].
    apply (frame_apply_h id s r); [exact (lookup_cid _ _ _ El)|apply handle_about].
  - destruct (negb (with_xq cf)); [apply frame_same; constructor|].
    destruct (lookup id (reqs s)) as [r|] eqn:El; [|apply frame_same; constructor].
    unfold xreply. rewrite (lookup_cid _ _ _ El). apply (frame_finish id s r); [exact (lookup_cid _ _ _ El)|apply reply_about].
Qed.

(* ---------- projection of the output on one client, with the serials erased ---------- *)
Definition names (c : Z) (o : out) : bool :=
  match o with OX _ id _ _ => id =? c | OC _ id _ _ _ => id =? c | ORaw _ => false end.
Definition proj (c : Z) (outs : list out) : list out := filter (names c) outs.
Definition eser (o : out) : out := oser 0 o.

Lemma proj_about c j o : j <> c -> Forall (about j) o -> proj c o = [].
Proof.
  intros Hn. induction 1 as [|x t Hx Ht IH]; [reflexivity|]. cbn [proj filter]. fold (proj c t). rewrite IH.
  destruct x as [nm i sr pl|k i a p rs|tx]; cbn [about names] in *; [subst i|subst i|reflexivity];
    (destruct (j =? c) eqn:E; [apply Z.eqb_eq in E; contradiction|reflexivity]).
Qed.
Lemma proj_app c a b : proj c (a ++ b) = proj c a ++ proj c b.
Proof. apply filter_app. Qed.
Lemma names_oser c n o : names c (oser n o) = names c o.
Proof. destruct o; reflexivity. Qed.
Lemma proj_map_oser c n l : proj c (map (oser n) l) = map (oser n) (proj c l).
Proof.
  induction l as [|x t IH]; [reflexivity|]. cbn [map proj filter]. fold (proj c t). fold (proj c (map (oser n) t)).
  rewrite names_oser, IH. destruct (names c x); reflexivity.
Qed.
Lemma proj_eser c l : map eser (proj c l) = proj c (map eser l).
Proof. symmetry. exact (proj_map_oser c 0%N l). Qed.
Lemma eser_oser n l : map eser (map (oser n) l) = map eser l.
Proof. rewrite map_map. apply map_ext. intros o. apply oser_oser. Qed.

(* ---------- the simulation between the full run and the run of c's events alone ---------- *)
Definition lk (c : Z) (s : st) : option req := option_map (wser 0) (lookup c (reqs s)).   (* c's request, serial erased *)

Record Sim (c : Z) (S T : st) : Prop := {
  sim_ndS : NoDupIds (reqs S);
  sim_ndT : NoDupIds (reqs T);
  sim_lk : lk c S = lk c T;
  sim_tb : teqv (tb S) (tb T);
  sim_conf : AllConf (slots (tb S));
  sim_tmo : tmo S = tmo T }.

Lemma sim_refl c s : NoDupIds (reqs s) -> AllConf (slots (tb s)) -> Sim c s s.
Proof. intros. constructor; auto. apply teqv_refl. Qed.

(* an event of another client: c's request and c's lines are untouched *)
Theorem sim_foreign cf c S T a :
  abelongs c a = false -> Sim c S T -> Sim c (fst (astep cf S a)) T /\ proj c (snd (astep cf S a)) = [].
Proof.
  unfold abelongs. intros Hb HS. apply Z.eqb_neq in Hb. destruct HS as [n1 n2 l t cf0 tm].
  destruct (astep_frame cf S a) as [f1 f2 f3 f4 f5]. split.
  - constructor.
    + apply f1; exact n1.
    + exact n2.
    + unfold lk in *. rewrite f2 by congruence. exact l.
    + eapply teqv_trans; [apply f3; exact cf0|exact t].
    + eapply allconf_er; [symmetry; exact (proj1 (f3 cf0))|exact cf0].
    + congruence.
  - eapply proj_about; [exact Hb|exact f5].
Qed.

Lemma wser0_eq rS rT : wser 0 rS = wser 0 rT -> rT = wser (ser rT) rS.
Proof.
  intros H. rewrite <- (wser_id rT) at 1. change (wser (ser rT) rT) with (wser (ser rT) (wser 0 rT)). rewrite <- H. reflexivity.
Qed.

Lemma finish_pair c S T n ro o e :
  NoDupIds (reqs S) -> NoDupIds (reqs T) -> match ro with Some r' => cid r' = c | None => True end ->
  lk c (fst (finish S c (ro, o, e))) = lk c (fst (finish T c (option_map (wser n) ro, map (oser n) o, e))) /\
  map eser (snd (finish S c (ro, o, e))) = map eser (snd (finish T c (option_map (wser n) ro, map (oser n) o, e))).
Proof.
  intros n1 n2 Hc. unfold finish, lk. destruct ro as [r'|]; cbn [option_map fst snd reqs].
  - rewrite !lookup_put. cbn [wser cid]. rewrite Hc, Z.eqb_refl. split; [reflexivity|symmetry; apply eser_oser].
  - rewrite !lookup_remove_eq by assumption. split; [reflexivity|symmetry; apply eser_oser].
Qed.

Lemma apply_h_pair c S T n h :
  NoDupIds (reqs S) -> NoDupIds (reqs T) -> lk c S = lk c T ->
  match h with HFin (Some r', _, _) => cid r' = c | _ => True end ->
  lk c (fst (apply_h S c h)) = lk c (fst (apply_h T c (hmap n h))) /\
  map eser (snd (apply_h S c h)) = map eser (snd (apply_h T c (hmap n h))).
Proof.
  intros n1 n2 Hl Hc. destruct h as [o|[[ro o] e]|]; cbn [hmap apply_h].
  - cbn [fst snd]. split; [exact Hl|symmetry; apply eser_oser].
  - apply finish_pair; assumption.
  - cbn [fst snd]. unfold lk. cbn [reqs]. rewrite !lookup_remove_eq by assumption. split; reflexivity.
Qed.

Lemma lk_cases c S T : lk c S = lk c T ->
  (lookup c (reqs S) = None /\ lookup c (reqs T) = None) \/
  (exists rS rT, lookup c (reqs S) = Some rS /\ lookup c (reqs T) = Some rT /\ rT = wser (ser rT) rS).
Proof.
  unfold lk. destruct (lookup c (reqs S)) as [rS|], (lookup c (reqs T)) as [rT|]; cbn [option_map]; intros H; try discriminate H.
  - right. exists rS, rT. repeat split. apply wser0_eq.
    exact (f_equal (fun o => match o with Some x => x | None => wser 0 rS end) H).
  - left. split; reflexivity.
Qed.

(* an event of c itself: both runs do the same thing to c's request and say the same, up to the serial *)
Lemma own_core cf c S T a :
  aid a = c -> Sim c S T ->
  lk c (fst (astep cf S a)) = lk c (fst (astep cf T a)) /\ map eser (snd (astep cf S a)) = map eser (snd (astep cf T a)).
Proof.
  intros Ha [n1 n2 l t cf0 tm]. rewrite !astep_eq. destruct a as [id argv|id u svcn text]; cbn [aid] in Ha; subst id.
  - destruct (is_x argv); [split; [exact l|reflexivity]|].
    destruct (beq (cmdchar argv) x43).
    { unfold announce. destruct (arg 1 argv) as [a|], (arg 2 argv), (arg 3 argv), (arg 4 argv); try (split; [exact l|reflexivity]).
      destruct (announce_addr a) as [g txt]. cbn [fst snd]. unfold lk. cbn [reqs]. rewrite !lookup_put. cbn [fresh cid].
      rewrite Z.eqb_refl, tm. split; reflexivity. }
    destruct (lk_cases c S T l) as [[E1 E2]|(rS & rT & E1 & E2 & Er)]; rewrite E1, E2; [split; [exact l|reflexivity]|].
    rewrite <- (handle_er cf (tb S) (tb T) rT argv t). rewrite Er, handle_wser.
    apply apply_h_pair; try assumption.
    pose proof (handle_about cf (tb S) rS argv) as A.
    destruct (handle cf (tb S) rS argv) as [o|[[[r'|] o] e]|]; try exact I.
    destruct A as [_ A]. cbn [fst] in A. rewrite A. exact (lookup_cid _ _ _ E1).
  - destruct (negb (with_xq cf)); [split; [exact l|reflexivity]|].
    destruct (lk_cases c S T l) as [[E1 E2]|(rS & rT & E1 & E2 & Er)]; rewrite E1, E2; [split; [exact l|reflexivity]|].
    unfold xreply. rewrite (lookup_cid _ _ _ E1), (lookup_cid _ _ _ E2).
    rewrite <- (reply_er cf (tb S) (tb T) rT svcn _ t). rewrite Er, reply_wser.
    pose proof (reply_about cf (tb S) rS svcn (if u then None else Some text)) as [_ A].
    destruct (reply cf (tb S) rS svcn (if u then None else Some text)) as [[ro o] e]. cbn [fst] in A.
    apply finish_pair; try assumption. destruct ro; [rewrite A; exact (lookup_cid _ _ _ E1)|exact I].
Qed.

Theorem sim_own cf c S T a :
  abelongs c a = true -> Sim c S T ->
  Sim c (fst (astep cf S a)) (fst (astep cf T a)) /\ map eser (snd (astep cf S a)) = map eser (snd (astep cf T a)).
Proof.
  unfold abelongs. intros Hb HS. apply Z.eqb_eq in Hb. destruct (own_core cf c S T a Hb HS) as [L O]. split; [|exact O].
  destruct HS as [n1 n2 l t cf0 tm].
  assert (AllConf (slots (tb T))) as cfT by (eapply allconf_er; [exact (proj1 t)|exact cf0]).
  destruct (astep_frame cf S a) as [f1 f2 f3 f4 f5]. destruct (astep_frame cf T a) as [g1 g2 g3 g4 g5].
  constructor.
  - apply f1; exact n1.
  - apply g1; exact n2.
  - exact L.
  - eapply teqv_trans; [apply f3; exact cf0|]. eapply teqv_trans; [exact t|]. apply teqv_sym. apply g3; exact cfT.
  - eapply allconf_er; [symmetry; exact (proj1 (f3 cf0))|exact cf0].
  - congruence.
Qed.

(* ---------- runs of abstract histories (no reloads: the tables are static) ---------- *)
Fixpoint arun (cf : cfg) (s : st) (h : list aev) : list (list out) :=
  match h with [] => [] | a :: h' => snd (astep cf s a) :: arun cf (fst (astep cf s a)) h' end.
Definition aouts (cf : cfg) (s : st) (h : list aev) : list out := List.concat (arun cf s h).

(* the lines about c in the full run are those of the run of c's own events alone *)
Theorem solo_run cf c h : forall S T, Sim c S T ->
  map eser (proj c (aouts cf S h)) = map eser (proj c (aouts cf T (filter (abelongs c) h))).
Proof.
  unfold aouts. induction h as [|a h IH]; intros S T HS; [reflexivity|].
  cbn [filter arun List.concat]. rewrite proj_app, map_app.
  destruct (abelongs c a) eqn:Hb.
  - destruct (sim_own cf c S T a Hb HS) as [HS' Ho].
    cbn [arun List.concat]. rewrite proj_app, map_app. rewrite (IH _ _ HS'). f_equal.
    rewrite !proj_eser, Ho. reflexivity.
  - destruct (sim_foreign cf c S T a Hb HS) as [HS' Ho]. rewrite Ho. cbn [map app]. apply IH. exact HS'.
Qed.

(* C07: two histories that contain the same events of client c, in the same order, interleaved in any way with any
   events of other clients, produce the same lines about c (up to the serial inside routing tags) *)
Theorem interleave_invariant cf c s0 h1 h2 :
  NoDupIds (reqs s0) -> AllConf (slots (tb s0)) ->
  filter (abelongs c) h1 = filter (abelongs c) h2 ->
  map eser (proj c (aouts cf s0 h1)) = map eser (proj c (aouts cf s0 h2)).
Proof.
  intros ND AC Hf. rewrite (solo_run cf c h1 s0 s0), (solo_run cf c h2 s0 s0) by (apply sim_refl; assumption).
  rewrite Hf. reflexivity.
Qed.

Corollary interleave_invariant_init cf c s0 h1 h2 :
  reqs s0 = [] -> AllConf (slots (tb s0)) ->
  filter (abelongs c) h1 = filter (abelongs c) h2 ->
  map eser (proj c (aouts cf s0 h1)) = map eser (proj c (aouts cf s0 h2)).
Proof. intros H0. apply interleave_invariant. unfold NoDupIds. rewrite H0. constructor. Qed.

(* ====================================================================================================== *)
(* ---------- concrete lines against abstract events ---------- *)
(* the abstract event a concrete line amounts to in state s (None: the line is ignored) *)
Definition abstract (s : st) (id : Z) (argv : list str) : option aev :=
  if beq (cmdchar argv) x43 then Some (ALine id argv)
  else if is_x argv then
    match arg 1 argv, arg 2 argv, arg 3 argv with
    | Some svcn, Some tg, Some tx =>
      match parse_tag tg with
      | None => None
      | Some (tid, tser) =>
        match lookup tid (reqs s) with
        | Some r => if (ser r =? tser)%N then Some (AReply tid (negb (beq (cmdchar argv) x58)) svcn tx) else None
        | None => None
        end
      end
    | _, _, _ => None
    end
  else Some (ALine id argv).

Lemma c_not_x ch : beq ch x43 = true -> beq ch x58 || beq ch x78 = false.
Proof. intros H. unfold beq in H. apply Byte.byte_dec_bl in H. subst ch. reflexivity. Qed.

Theorem step_abstract cf s id argv :
  step cf s id argv = match abstract s id argv with Some a => astep cf s a | None => (s, []) end.
Proof.
  unfold abstract. destruct (beq (cmdchar argv) x43) eqn:EC.
  { cbn [astep]. unfold is_x. rewrite (c_not_x _ EC). reflexivity. }
  destruct (is_x argv) eqn:EX; [|cbn [astep]; rewrite EX; reflexivity].
  rewrite step_eq, EC. unfold is_x in EX. rewrite EX. unfold xstep.
  destruct (arg 1 argv) as [svcn|]; [|destruct (negb (with_xq cf)); reflexivity].
  destruct (arg 2 argv) as [tg|]; [|destruct (negb (with_xq cf)); reflexivity].
  destruct (arg 3 argv) as [tx|]; [|destruct (negb (with_xq cf)); reflexivity].
  destruct (parse_tag tg) as [[tid tser]|]; [|destruct (negb (with_xq cf)); reflexivity].
  destruct (lookup tid (reqs s)) as [r|] eqn:El; [|destruct (negb (with_xq cf)); reflexivity].
  destruct (ser r =? tser)%N; [|destruct (negb (with_xq cf)); reflexivity].
  cbn [astep]. rewrite El. destruct (beq (cmdchar argv) x58); reflexivity.
Qed.

(* a concrete line belongs to client c: by its routing tag if it is a reply, else by its id *)
Definition belongs (c : Z) (e : Z * list str) : bool :=
  let '(id, argv) := e in
  if beq (cmdchar argv) x43 then id =? c
  else if is_x argv then
    match arg 2 argv with
    | Some tg => match parse_tag tg with Some (tid, _) => tid =? c | None => false end
    | None => false
    end
  else id =? c.

Lemma abstract_belongs c s id argv a : abstract s id argv = Some a -> abelongs c a = belongs c (id, argv).
Proof.
  unfold abstract, belongs, abelongs. destruct (beq (cmdchar argv) x43); [intros E; inversion E; reflexivity|].
  destruct (is_x argv); [|intros E; inversion E; reflexivity].
  destruct (arg 1 argv); [|discriminate]. destruct (arg 2 argv) as [tg|]; [|discriminate]. destruct (arg 3 argv); [|discriminate].
  destruct (parse_tag tg) as [[tid tser]|]; [|discriminate]. destruct (lookup tid (reqs s)) as [r|]; [|discriminate].
  destruct (ser r =? tser)%N; [|discriminate]. intros E; inversion E; reflexivity.
Qed.

(* locality of one concrete step: a line that does not belong to c leaves c's request alone and says nothing about c *)
Theorem step_local cf s id argv c :
  belongs c (id, argv) = false ->
  lookup c (reqs (fst (step cf s id argv))) = lookup c (reqs s) /\ proj c (snd (step cf s id argv)) = [].
Proof.
  intros Hb. rewrite step_abstract. destruct (abstract s id argv) as [a|] eqn:Ea; [|split; reflexivity].
  rewrite <- (abstract_belongs c s id argv a Ea) in Hb. unfold abelongs in Hb. apply Z.eqb_neq in Hb.
  destruct (astep_frame cf s a) as [f1 f2 f3 f4 f5]. split; [apply f2; congruence|eapply proj_about; eassumption].
Qed.

(* an X / x line whose tag does not parse belongs to nobody *)
Lemma unparsable_belongs_nobody c id argv tg :
  is_x argv = true -> arg 2 argv = Some tg -> parse_tag tg = None -> belongs c (id, argv) = false.
Proof.
  intros Hx Ha Hp. unfold belongs. destruct (beq (cmdchar argv) x43) eqn:EC.
  - unfold is_x in Hx. rewrite (c_not_x _ EC) in Hx. discriminate.
  - rewrite Hx, Ha, Hp. reflexivity.
Qed.

(* the abstract history a concrete history amounts to, from state s *)
Fixpoint abs_hist (cf : cfg) (s : st) (evs : list (Z * list str)) : list aev :=
  match evs with
  | [] => []
  | (id, argv) :: r =>
    match abstract s id argv with
    | Some a => a :: abs_hist cf (fst (astep cf s a)) r
    | None => abs_hist cf s r
    end
  end.

Lemma trace_abs cf evs : forall s, List.concat (map snd (trace cf s evs)) = aouts cf s (abs_hist cf s evs).
Proof.
  unfold aouts. induction evs as [|[id argv] evs IH]; intros s; [reflexivity|].
  cbn [trace map List.concat abs_hist fst snd]. rewrite step_abstract.
  destruct (abstract s id argv) as [a|]; cbn [arun List.concat fst snd app]; rewrite IH; reflexivity.
Qed.

(* C07 on concrete histories (Mon01.trace: lists of (id, argv) lines, no reloads) *)
Corollary interleave_invariant_concrete cf c s0 evs1 evs2 :
  NoDupIds (reqs s0) -> AllConf (slots (tb s0)) ->
  filter (abelongs c) (abs_hist cf s0 evs1) = filter (abelongs c) (abs_hist cf s0 evs2) ->
  map eser (proj c (List.concat (map snd (trace cf s0 evs1)))) = map eser (proj c (List.concat (map snd (trace cf s0 evs2)))).
Proof. intros ND AC Hf. rewrite !trace_abs. apply interleave_invariant; assumption. Qed.

(* ---------- every abstract event is realised by a concrete line (needs the tag printing / parsing round trip) ---------- *)
Definition tag_of (r : req) : str := hexZ32 (cid r) ++ [x5f] ++ hex (ser r).
Definition concrete (s : st) (a : aev) : Z * list str :=
  match a with
  | ALine id argv => if is_x argv then (id, [[x78]]) else (id, argv)
  | AReply id u svcn text =>
      match lookup id (reqs s) with
      | Some r => (id, [[if u then x78 else x58]; svcn; tag_of r; text])
      | None => (id, [[x78]])
      end
  end.

(* ids are C ints and serials are 32-bit counters *)
Definition SerB (s : st) : Prop := Forall (fun r => (ser r < 4294967296)%N) (reqs s).
Definition id_ok (a : aev) : Prop := match a with AReply id _ _ _ => -2147483648 <= id < 2147483648 | ALine _ _ => True end.

Lemma finish_serb s id r res o e :
  SerB s -> lookup id (reqs s) = Some r -> match res with Some r' => ser r' = ser r | None => True end ->
  SerB (fst (finish s id (res, o, e))).
Proof.
  unfold SerB, finish. intros B El Hr. destruct res as [r'|]; cbn [fst reqs].
  - apply forall_put; [|exact B]. rewrite Hr. exact (lookup_forall _ _ _ _ B El).
  - apply forall_remove; exact B.
Qed.

Theorem astep_serb cf s a : SerB s -> SerB (fst (astep cf s a)).
Proof.
  intros B. rewrite astep_eq. destruct a as [id argv|id u svcn text].
  - destruct (is_x argv); [exact B|]. destruct (beq (cmdchar argv) x43).
    { unfold announce. destruct (arg 1 argv) as [a|], (arg 2 argv), (arg 3 argv), (arg 4 argv); try exact B.
      destruct (announce_addr a) as [g txt]. unfold SerB. cbn [fst reqs]. apply forall_put; [|exact B].
      cbn [fresh ser]. apply N.mod_lt. discriminate. }
    destruct (lookup id (reqs s)) as [r|] eqn:El; [|exact B].
    pose proof (handle_keeps_ser cf (tb s) r argv) as K.
    destruct (handle cf (tb s) r argv) as [o|[[res o] e]|]; cbn [apply_h fst].
    + exact B.
    + eapply finish_serb; [exact B|exact El|]. destruct res; [exact K|exact I].
    + unfold SerB. cbn [reqs]. apply forall_remove; exact B.
  - destruct (negb (with_xq cf)); [exact B|]. destruct (lookup id (reqs s)) as [r|] eqn:El; [|exact B].
    unfold xreply. rewrite (lookup_cid _ _ _ El).
    pose proof (reply_keeps_ser cf (tb s) r svcn (if u then None else Some text)) as K.
    destruct (reply cf (tb s) r svcn _) as [[res o] e]. cbn [fst] in K.
    eapply finish_serb; [exact B|exact El|]. destruct res; [exact K|exact I].
Qed.

Theorem astep_concrete cf s a :
  SerB s -> id_ok a -> astep cf s a = step cf s (fst (concrete s a)) (snd (concrete s a)).
Proof.
  intros B Hid. destruct a as [id argv|id u svcn text]; cbn [concrete astep].
  - destruct (is_x argv); cbn [fst snd]; [|reflexivity].
    symmetry. apply (short_reply_ignored cf s id x78 [] []); [right; reflexivity|cbn; lia].
  - cbn [id_ok] in Hid. destruct (lookup id (reqs s)) as [r|] eqn:El; cbn [fst snd].
    2:{ destruct (negb (with_xq cf)); symmetry; apply (short_reply_ignored cf s id x78 [] []); try (right; reflexivity); cbn; lia. }
    rewrite step_abstract.
    assert (abstract s id [[if u then x78 else x58]; svcn; tag_of r; text] = Some (AReply id u svcn text)) as ->.
    { unfold abstract, is_x. cbn [cmdchar arg nth_error].
      assert (beq (if u then x78 else x58) x43 = false) as -> by (destruct u; reflexivity).
      assert (beq (if u then x78 else x58) x58 || beq (if u then x78 else x58) x78 = true) as -> by (destruct u; reflexivity).
      unfold tag_of. pose proof (lookup_cid _ _ _ El) as Hc.
      rewrite tag_roundtrip; [|rewrite Hc; exact Hid|exact (lookup_forall _ _ _ _ B El)].
      rewrite Hc, El, N.eqb_refl. destruct u; reflexivity. }
    cbn [astep]. rewrite El. reflexivity.
Qed.

(* ---------- every initial state qualifies: before the first reload no slot is unconfigured ---------- *)
Definition zref (o : option svc) : Prop := match o with Some s => s_refs s = 0 | None => True end.

Lemma retype_zref ss nm ty : Forall zref ss -> Forall zref (retype ss nm ty).
Proof.
  induction 1 as [|o t Ho Ht IH]; cbn [retype]; [constructor|].
  destruct o as [s|]; [|constructor; assumption].
  destruct (seq_eq (s_name s) nm); constructor; try assumption. destruct ty; exact Ho.
Qed.
Lemma fill_empty_zref ss n : zref (Some n) -> Forall zref ss -> Forall zref (fill_empty ss n).
Proof. intros Hn. induction 1 as [|o t Ho Ht IH]; cbn [fill_empty]; [constructor|]. destruct o; constructor; assumption. Qed.
Lemma config_service_zref ss nm ty : Forall zref ss -> Forall zref (config_service ss nm ty).
Proof.
  intros H. unfold config_service. apply retype_zref. destruct (find_name ss nm); [exact H|].
  destruct (free_index ss <? max_slots)%nat; [|exact H].
  destruct (has_empty ss); [apply fill_empty_zref; [reflexivity|exact H]|].
  apply Forall_app. split; [exact H|repeat constructor].
Qed.
Lemma unref_conf_ok ss : Forall zref ss -> AllConf (map unref ss).
Proof.
  induction 1 as [|o t Ho Ht IH]; cbn [map]; [constructor|]. constructor; [|exact IH].
  destruct o as [s|]; [|exact I]. cbn [zref] in Ho. cbn [unref]. rewrite Ho. cbn [Z.ltb Z.compare orb].
  destruct (s_conf s) eqn:E; [exact E|exact I].
Qed.

Theorem init_allconf cf services rs t : AllConf (slots (tb (init cf services rs t))).
Proof.
  unfold init, services_changed. cbn [tb slots map]. apply unref_conf_ok.
  assert (forall ss, Forall zref ss -> Forall zref (fold_left (fun acc e => config_service acc (fst e) (snd e)) services ss)) as G.
  { induction services as [|e es IH]; intros ss H; cbn [fold_left]; [exact H|]. apply IH. apply config_service_zref. exact H. }
  apply G. constructor.
Qed.

Corollary interleave_invariant_from_init cf c services rs t h1 h2 :
  filter (abelongs c) h1 = filter (abelongs c) h2 ->
  map eser (proj c (aouts cf (init cf services rs t) h1)) = map eser (proj c (aouts cf (init cf services rs t) h2)).
Proof. apply interleave_invariant; [constructor|apply init_allconf]. Qed.

