(* the server's withdrawal of a client (D: disconnected, T: registered on its own) is silent and final *)
From Coq Require Import List NArith ZArith Bool Strings.Byte.
Import ListNotations.
Require Import Params Iauth Mon01.

Lemma lookup_notin id l : ~ In id (map cid l) -> lookup id l = None.
Proof.
  induction l as [|y t IH]; intros Hn; cbn [lookup]; [reflexivity|].
  destruct (cid y =? id)%Z eqn:E2.
  - apply Z.eqb_eq in E2. exfalso. apply Hn. cbn [map]. left. exact E2.
  - apply IH. intros H. apply Hn. cbn [map]. right. exact H.
Qed.

Lemma lookup_remove_same id l : NoDupIds l -> lookup id (remove id l) = None.
Proof.
  unfold NoDupIds. induction l as [|x t IH]; intros ND; cbn [remove lookup map] in *; [reflexivity|].
  inversion ND as [|a b Hn ND']; subst.
  destruct (cid x =? id)%Z eqn:E.
  - apply Z.eqb_eq in E. subst id. apply lookup_notin. exact Hn.
  - cbn [lookup]. rewrite E. apply IH. exact ND'.
Qed.

(* a D or T line (that is not an announcement or a reply) prints nothing at all, in every state, and afterwards the id is not in
   the table: whatever was pending for that client - queries, holds, a timer - is dropped without a word *)
Theorem withdrawal_is_silent_and_final c s id argv :
  withdraws argv = true -> NoDupIds (reqs s) ->
  snd (step c s id argv) = [] /\ lookup id (reqs (fst (step c s id argv))) = None.
Proof.
  unfold withdraws. intros W ND.
  apply andb_prop in W. destruct W as [W W3]. apply andb_prop in W. destruct W as [W1 W2].
  apply negb_true_iff in W1. apply negb_true_iff in W2.
  unfold step. cbv zeta. rewrite W1, W2.
  destruct (lookup id (reqs s)) as [r|] eqn:El.
  - rewrite W3. cbn [fst snd reqs]. split; [reflexivity|apply lookup_remove_same; exact ND].
  - cbn [fst snd]. split; [reflexivity|exact El].
Qed.
