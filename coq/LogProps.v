(* C18: theorems about the routing model LogModel.v (src/log.c). *)
From Coq Require Import List NArith Bool Arith Strings.Byte Strings.String Lia.
Import ListNotations.
From IA Require Import LogModel.
Local Open Scope list_scope.
Local Notation length := Datatypes.length.

Notation "$ s" := (S_ s%string) (at level 1, only parsing).

(* ================================================================== *)
(* Bytes and strings                                                   *)
(* ================================================================== *)
Lemma beq_eq a b : beq a b = true <-> a = b.
Proof. unfold beq; split; [apply Byte.byte_dec_bl | apply Byte.byte_dec_lb]. Qed.

Lemma beq_refl a : beq a a = true.
Proof. apply beq_eq; reflexivity. Qed.

Lemma beq_neq a b : beq a b = false <-> a <> b.
Proof.
  split.
  - intros H E. apply beq_eq in E. congruence.
  - intros H. destruct (beq a b) eqn:E; [apply beq_eq in E; contradiction | reflexivity].
Qed.

Lemma str_eqb_eq a : forall b, str_eqb a b = true <-> a = b.
Proof.
  induction a as [|x a IH]; intros [|y b]; simpl; split; intros H; try discriminate; try reflexivity.
  - apply andb_prop in H as [H1 H2]. apply beq_eq in H1. apply IH in H2. congruence.
  - injection H as -> ->. rewrite beq_refl. simpl. apply IH. reflexivity.
Qed.

Lemma str_eqb_refl a : str_eqb a a = true.
Proof. apply str_eqb_eq; reflexivity. Qed.

(* a byte that does not occur in a string *)
Definition lacks (c : byte) (s : str) : Prop := ~ In c s.
Definition lacksb (c : byte) (s : str) : bool := forallb (fun b => negb (beq b c)) s.

Lemma lacksb_lacks c s : lacksb c s = true <-> lacks c s.
Proof.
  unfold lacks, lacksb. induction s as [|x s IH]; simpl.
  - split; [intros _ [] | reflexivity].
  - rewrite andb_true_iff, IH, negb_true_iff, beq_neq. split.
    + intros [H1 H2] [E|E]; [congruence | contradiction].
    + intros H. split; [intros E; apply H; left; congruence | intros E; apply H; right; assumption].
Qed.

Lemma lacks_cons c x s : lacks c (x :: s) <-> x <> c /\ lacks c s.
Proof. unfold lacks; simpl; split; [intros H; split; intros E; apply H; auto | intros [H1 H2] [E|E]; auto]. Qed.

Lemma lacks_app c a b : lacks c (a ++ b) <-> lacks c a /\ lacks c b.
Proof.
  unfold lacks; rewrite in_app_iff; split; [intros H; split; intros E; apply H; auto | intros [H1 H2] [E|E]; auto].
Qed.

(* ---------- split_at = strchr + cut ---------- *)
Lemma split_at_app c a r : lacks c a -> split_at c (a ++ c :: r) = Some (a, r).
Proof.
  induction a as [|x a IH]; simpl; intros H.
  - rewrite beq_refl. reflexivity.
  - apply lacks_cons in H as [H1 H2]. apply beq_neq in H1. rewrite H1, (IH H2). reflexivity.
Qed.

Lemma split_at_none c a : lacks c a <-> split_at c a = None.
Proof.
  induction a as [|x a IH]; simpl.
  - split; [reflexivity | intros _ []].
  - rewrite lacks_cons. destruct (beq x c) eqn:E.
    + apply beq_eq in E. split; [intros [H _]; contradiction | discriminate].
    + apply beq_neq in E. destruct (split_at c a) as [[u v]|].
      * split; [intros [_ H]; apply IH in H; discriminate | discriminate].
      * split; [reflexivity | intros _; split; [assumption | apply IH; reflexivity]].
Qed.

Lemma split_at_some c s a r : split_at c s = Some (a, r) -> s = a ++ c :: r /\ lacks c a.
Proof.
  revert a r. induction s as [|x s IH]; simpl; intros a r H; [discriminate|].
  destruct (beq x c) eqn:E.
  - apply beq_eq in E. injection H as <- <-. subst. split; [reflexivity | intros []].
  - destruct (split_at c s) as [[u v]|]; [|discriminate]. injection H as <- <-.
    destruct (IH u v eq_refl) as [-> L]. split; [reflexivity|].
    apply lacks_cons. split; [apply beq_neq; assumption | assumption].
Qed.

Lemma app_split_unique c a1 : forall a2 r1 r2,
  lacks c a1 -> lacks c a2 -> a1 ++ c :: r1 = a2 ++ c :: r2 -> a1 = a2 /\ r1 = r2.
Proof.
  induction a1 as [|x a1 IH]; intros [|y a2] r1 r2 L1 L2 H; simpl in H.
  - injection H as ->. auto.
  - injection H as -> _. apply lacks_cons in L2 as [L2 _]. congruence.
  - injection H as -> _. apply lacks_cons in L1 as [L1 _]. congruence.
  - injection H as -> H. apply lacks_cons in L1 as [_ L1]. apply lacks_cons in L2 as [_ L2].
    destruct (IH a2 r1 r2 L1 L2 H) as [-> ->]. auto.
Qed.

(* ---------- tolower ---------- *)
Lemma lower_low c : (nb c < 65)%N -> lower c = c.
Proof.
  intros H. unfold lower. destruct (65 <=? nb c)%N eqn:E; [apply N.leb_le in E; lia | reflexivity].
Qed.

Lemma lower_range c : lower c = c \/ (97 <= nb (lower c) <= 122)%N.
Proof.
  unfold lower. destruct ((65 <=? nb c)%N && (nb c <=? 90)%N) eqn:E; [|left; reflexivity].
  apply andb_prop in E as [E1 E2]. apply N.leb_le in E1, E2.
  destruct (Byte.of_N (nb c + 32)) as [d|] eqn:F; [|left; reflexivity].
  apply Byte.to_of_N in F. right. unfold nb in *. rewrite F. lia.
Qed.

Lemma lower_idem c : lower (lower c) = lower c.
Proof.
  destruct (lower_range c) as [E|R]; [congruence|].
  unfold lower at 1. destruct (nb (lower c) <=? 90)%N eqn:E.
  - apply N.leb_le in E. lia.
  - rewrite andb_false_r. reflexivity.
Qed.

(* bytes below 'A' (all the punctuation the parser looks for) are invisible to tolower *)
Lemma beq_lower_low c k : (nb k < 65)%N -> beq (lower c) k = beq c k.
Proof.
  intros Hk. destruct (lower_range c) as [E|R]; [rewrite E; reflexivity|].
  destruct (beq (lower c) k) eqn:E1.
  - apply beq_eq in E1. subst k. lia.
  - destruct (beq c k) eqn:E2; [|reflexivity]. apply beq_eq in E2. subst k.
    rewrite (lower_low c Hk), beq_refl in E1. discriminate.
Qed.

Lemma map_lower_idem s : map lower (map lower s) = map lower s.
Proof. rewrite map_map. apply map_ext. intros; apply lower_idem. Qed.

Lemma ci_eq_lower_l a b : ci_eq (map lower a) b = ci_eq a b.
Proof. unfold ci_eq. rewrite map_lower_idem. reflexivity. Qed.

Lemma ci_eq_refl a : ci_eq a a = true.
Proof. apply str_eqb_refl. Qed.

Lemma ci_eq_iff a b : ci_eq a b = true <-> map lower a = map lower b.
Proof. apply str_eqb_eq. Qed.

(* the default type "*" can only be spelt "*" *)
Lemma ci_eq_star f : ci_eq f [STAR] = true <-> f = [STAR].
Proof.
  split; [|intros ->; reflexivity].
  unfold ci_eq. change (map lower [STAR]) with [STAR].
  destruct f as [|c [|d t]]; simpl; try discriminate.
  - rewrite andb_true_r. rewrite beq_lower_low by (vm_compute; reflexivity).
    intros H; apply beq_eq in H. congruence.
  - rewrite andb_false_r. discriminate.
Qed.

(* ================================================================== *)
(* The bitset operations                                               *)
(* ================================================================== *)
Lemma bset_length i : forall fl, length (bset i fl) = length fl.
Proof. induction i; intros [|b fl]; simpl; auto. Qed.

Lemma bset_nth : forall fl i s, s < length fl -> nth s (bset i fl) false = nth s fl false || (s =? i).
Proof.
  induction fl as [|b fl IH]; intros i s H; simpl in H; [lia|].
  destruct i, s; simpl.
  - rewrite orb_true_r; reflexivity.
  - rewrite orb_false_r; reflexivity.
  - rewrite orb_false_r; reflexivity.
  - apply IH. lia.
Qed.

Lemma bset_all_length l : forall fl, length (bset_all l fl) = length fl.
Proof.
  unfold bset_all. induction l as [|i l IH]; intros fl; simpl; [reflexivity|].
  rewrite IH. apply bset_length.
Qed.

Lemma bset_all_nth l : forall fl s, s < length fl ->
  nth s (bset_all l fl) false = nth s fl false || existsb (Nat.eqb s) l.
Proof.
  unfold bset_all. induction l as [|i l IH]; intros fl s H; simpl.
  - rewrite orb_false_r; reflexivity.
  - rewrite IH by (rewrite bset_length; assumption). rewrite bset_nth by assumption.
    rewrite orb_assoc. reflexivity.
Qed.

(* membership test of one item: the mathematical range *)
Definition in_op (op v s : nat) : bool :=
  match op with
  | 0 => s =? v
  | 1 => v <=? s
  | 2 => v <? s
  | 3 => s <=? v
  | _ => s <? v
  end.

Ltac below6 v := destruct v as [|[|[|[|[|[|v]]]]]]; try (exfalso; lia).

Lemma ex_above v s : v < 6 -> s < 6 -> existsb (Nat.eqb s) (seq (S v) (6 - S v)) = (v <? s).
Proof. intros Hv Hs. below6 v; below6 s; reflexivity. Qed.

Lemma ex_below v s : v < 6 -> s < 6 -> existsb (Nat.eqb s) (rev (seq 0 v)) = (s <? v).
Proof. intros Hv Hs. below6 v; below6 s; reflexivity. Qed.

Lemma apply_op_length op v fl : length (apply_op op v fl) = length fl.
Proof.
  destruct op as [|[|[|[|op]]]]; unfold apply_op; rewrite ?bset_all_length, ?bset_length; reflexivity.
Qed.

Lemma apply_op_nth op v fl s : v < 6 -> s < 6 -> length fl = 6 ->
  nth s (apply_op op v fl) false = nth s fl false || in_op op v s.
Proof.
  intros Hv Hs Hl. assert (Hs' : s < length fl) by lia.
  destruct op as [|[|[|[|op]]]]; unfold apply_op, in_op, nsev;
    rewrite ?bset_all_nth by (rewrite ?bset_length; assumption);
    rewrite ?bset_nth by assumption;
    rewrite ?ex_above, ?ex_below by assumption;
    try reflexivity; rewrite <- orb_assoc; f_equal; below6 v; below6 s; reflexivity.
Qed.

(* ================================================================== *)
(* The loop: the fuel is never exhausted                               *)
(* ================================================================== *)
Lemma sev_loop_step f s fl : s <> [] ->
  sev_loop (S f) s fl =
  (let '(item, rest) := match split_at COMMA s with Some (a, r) => (a, Some r) | None => (s, None) end in
   let '(op, w) := parse_op item in
   match sev_lookup w with
   | None => None
   | Some v => match rest with None => Some (apply_op op v fl) | Some r => sev_loop f r (apply_op op v fl) end
   end).
Proof. destruct s; [contradiction | reflexivity]. Qed.

Lemma sev_loop_fuel : forall f1 f2 s fl, length s < f1 -> length s < f2 -> sev_loop f1 s fl = sev_loop f2 s fl.
Proof.
  induction f1 as [|f1 IH]; intros [|f2] s fl H1 H2; try lia.
  destruct s as [|c s]; [reflexivity|].
  rewrite !sev_loop_step by discriminate.
  destruct (split_at COMMA (c :: s)) as [[a r]|] eqn:E; [|reflexivity].
  destruct (parse_op a) as [op w]. destruct (sev_lookup w) as [v|]; [|reflexivity].
  apply split_at_some in E as [E _]. apply (f_equal (@length _)) in E. rewrite app_length in E. simpl in E.
  apply IH; simpl in *; lia.
Qed.

(* ================================================================== *)
(* 1. Severity expressions as the documentation means them             *)
(* ================================================================== *)
Inductive rel := REq | RGe | RGt | RLe | RLt.
(* (relation, severity, explicit): [explicit] only matters for REq: "=info" instead of "info" *)
Definition item := (rel * nat * bool)%type.
Inductive sexp := SStar | SItems (l : list item).

Definition rel_prefix (r : rel) (explicit : bool) : str :=
  match r with
  | REq => if explicit then $"=" else []
  | RGe => $">="
  | RGt => $">"
  | RLe => $"<="
  | RLt => $"<"
  end.
Definition render_item (it : item) : str := let '(r, v, ex) := it in rel_prefix r ex ++ sevname v.
Fixpoint render_items (l : list item) : str :=
  match l with
  | [] => []
  | it :: r => render_item it ++ match r with [] => [] | _ :: _ => COMMA :: render_items r end
  end.
Definition render_sexp (e : sexp) : str :=
  match e with SStar => $"*" | SItems l => render_items l end.

Definition in_rel (r : rel) (v s : nat) : bool :=
  match r with
  | REq => s =? v
  | RGe => v <=? s
  | RGt => v <? s
  | RLe => s <=? v
  | RLt => s <? v
  end.
Definition in_item (it : item) (s : nat) : bool := let '(r, v, _) := it in in_rel r v s.
(* the set of severities an expression stands for: the union of its items *)
Definition denote (e : sexp) (s : nat) : bool :=
  match e with SStar => true | SItems l => existsb (fun it => in_item it s) l end.

Definition wf_item (it : item) : Prop := let '(_, v, _) := it in v < 6.
Definition wf (e : sexp) : Prop := match e with SStar => True | SItems l => Forall wf_item l end.
Definition no_dot (s : str) : Prop := lacks DOT s.

Definition opnum (r : rel) : nat := match r with REq => 0 | RGe => 1 | RGt => 2 | RLe => 3 | RLt => 4 end.

Lemma in_op_rel r v s : in_op (opnum r) v s = in_rel r v s.
Proof. destruct r; reflexivity. Qed.

Ltac item_cases it H :=
  destruct it as [[r v] ex]; simpl in H; below6 v; destruct r, ex.

Lemma item_no_comma it : wf_item it -> lacks COMMA (render_item it).
Proof. intros H. apply lacksb_lacks. item_cases it H; vm_compute; reflexivity. Qed.

Lemma item_nonempty it : wf_item it -> render_item it <> [].
Proof. intros H. item_cases it H; vm_compute; discriminate. Qed.

Lemma item_head it : wf_item it -> match render_item it with c :: _ => beq c STAR | [] => true end = false.
Proof. intros H. item_cases it H; vm_compute; reflexivity. Qed.

Lemma item_parse it : wf_item it ->
  parse_op (render_item it) = (opnum (fst (fst it)), sevname (snd (fst it)))
  /\ sev_lookup (sevname (snd (fst it))) = Some (snd (fst it)).
Proof. intros H. item_cases it H; vm_compute; split; reflexivity. Qed.

Lemma sev_loop_items : forall l f fl, Forall wf_item l -> length fl = 6 -> length (render_items l) < f ->
  exists fl', sev_loop f (render_items l) fl = Some fl' /\ length fl' = 6 /\
              forall s, s < 6 -> nth s fl' false = nth s fl false || existsb (fun it => in_item it s) l.
Proof.
  induction l as [|it l IH]; intros f fl W Hl Hf.
  - destruct f; [simpl in Hf; lia|]. exists fl. simpl. repeat split; auto.
    intros; rewrite orb_false_r; reflexivity.
  - inversion W as [|? ? Wi Wl]; subst.
    destruct f as [|f]; [lia|].
    destruct (item_parse it Wi) as [P1 P2].
    assert (Hit : forall s, s < 6 ->
              nth s (apply_op (opnum (fst (fst it))) (snd (fst it)) fl) false = nth s fl false || in_item it s).
    { intros s Hs. destruct it as [[r v] ex]. simpl in *. rewrite apply_op_nth by assumption.
      rewrite in_op_rel. reflexivity. }
    destruct l as [|it2 l].
    + (* last item: strchr finds no comma, sep = NULL *)
      simpl render_items in *. rewrite app_nil_r in *.
      rewrite sev_loop_step by (apply item_nonempty; assumption).
      rewrite (proj1 (split_at_none COMMA _) (item_no_comma it Wi)).
      cbv beta iota zeta. rewrite P1, P2. eexists. split; [reflexivity|]. split; [rewrite apply_op_length; assumption|].
      intros s Hs. simpl. rewrite orb_false_r. apply Hit; assumption.
    + (* more items follow *)
      change (render_items (it :: it2 :: l)) with (render_item it ++ COMMA :: render_items (it2 :: l)) in *.
      rewrite sev_loop_step
        by (intros E; apply (item_nonempty it Wi); destruct (render_item it); [reflexivity | discriminate]).
      rewrite split_at_app by (apply item_no_comma; assumption).
      cbv beta iota zeta. rewrite P1, P2.
      rewrite app_length in Hf.
      change (length (COMMA :: render_items (it2 :: l))) with (S (length (render_items (it2 :: l)))) in Hf.
      destruct (IH f (apply_op (opnum (fst (fst it))) (snd (fst it)) fl) Wl) as (fl' & E & L & N).
      * rewrite apply_op_length; assumption.
      * lia.
      * exists fl'. split; [exact E|]. split; [exact L|].
        intros s Hs. rewrite (N s Hs), (Hit s Hs).
        change (existsb (fun i => in_item i s) (it :: it2 :: l))
          with (in_item it s || existsb (fun i => in_item i s) (it2 :: l)).
        rewrite orb_assoc. reflexivity.
Qed.

Lemma list6 (l : list bool) : length l = 6 -> l = map (fun s => nth s l false) (seq 0 6).
Proof.
  destruct l as [|a [|b [|c [|d [|e [|f [|g l]]]]]]]; simpl; intros H; try discriminate. reflexivity.
Qed.

Lemma render_items_not_star l : Forall wf_item l -> str_eqb (render_items l) [STAR] = false.
Proof.
  intros W. destruct l as [|it l]; [reflexivity|].
  inversion W as [|? ? Wi _]; subst. pose proof (item_head it Wi) as Hc.
  simpl render_items. destruct (render_item it) as [|c t]; [discriminate|].
  simpl. rewrite Hc. reflexivity.
Qed.

Theorem sevset_denote : forall fac e, no_dot fac -> wf e ->
  parse_sevset (fac ++ $"." ++ render_sexp e) = Some (fac, map (denote e) [0;1;2;3;4;5]).
Proof.
  intros fac e Hf We. unfold parse_sevset.
  change ($"." ++ render_sexp e) with (DOT :: render_sexp e).
  rewrite split_at_app by assumption.
  destruct e as [|l].
  - reflexivity.
  - simpl render_sexp. simpl in We. rewrite render_items_not_star by assumption.
    destruct (sev_loop_items l (S (length (render_items l))) (repeat false nsev) We eq_refl (Nat.lt_succ_diag_r _))
      as (fl' & E & L & N).
    rewrite E. f_equal. f_equal. rewrite (list6 fl' L). apply map_ext_in.
    intros s Hs. apply (in_seq 6 0) in Hs. rewrite N by lia.
    assert (Z : nth s (repeat false nsev) false = false) by (below6 s; reflexivity).
    rewrite Z. reflexivity.
Qed.

(* Reading the flags back: for sev < 6 the sev-th flag is the membership in the denoted set. *)
Lemma nth_denote e s : s < 6 -> nth s (map (denote e) [0;1;2;3;4;5]) false = denote e s.
Proof. intros H. below6 s; reflexivity. Qed.

(* ---------- severity names (and only they: the operators are not letters) are case-insensitive ---------- *)
Lemma split_at_lower c s : (nb c < 65)%N ->
  split_at c (map lower s) =
  match split_at c s with Some (a, r) => Some (map lower a, map lower r) | None => None end.
Proof.
  intros Hc. induction s as [|x s IH]; simpl; [reflexivity|].
  rewrite beq_lower_low by assumption. destruct (beq x c); [reflexivity|].
  rewrite IH. destruct (split_at c s) as [[a r]|]; reflexivity.
Qed.

Lemma parse_op_lower s : parse_op (map lower s) = (fst (parse_op s), map lower (snd (parse_op s))).
Proof.
  assert (G : (nb GT < 65)%N) by (vm_compute; reflexivity).
  assert (L : (nb LT < 65)%N) by (vm_compute; reflexivity).
  assert (E : (nb EQ < 65)%N) by (vm_compute; reflexivity).
  destruct s as [|c [|d t]]; simpl; [reflexivity| |];
    rewrite ?beq_lower_low by assumption;
    destruct (beq c GT); try reflexivity; try (destruct (beq d EQ); reflexivity);
    destruct (beq c LT); try reflexivity; try (destruct (beq d EQ); reflexivity);
    destruct (beq c EQ); reflexivity.
Qed.

Lemma find_name_lower w names : forall i, find_name (map lower w) names i = find_name w names i.
Proof. induction names as [|n r IH]; intros i; simpl; [reflexivity|]. rewrite ci_eq_lower_l, IH. reflexivity. Qed.

Lemma sev_loop_lower : forall f s fl, sev_loop f (map lower s) fl = sev_loop f s fl.
Proof.
  induction f as [|f IH]; intros s fl; [reflexivity|].
  destruct s as [|c s]; [reflexivity|].
  change (map lower (c :: s)) with (lower c :: map lower s) at 1.
  rewrite !sev_loop_step by discriminate.
  change (lower c :: map lower s) with (map lower (c :: s)).
  rewrite split_at_lower by (vm_compute; reflexivity).
  destruct (split_at COMMA (c :: s)) as [[a r]|];
    rewrite parse_op_lower; destruct (parse_op _) as [op w]; simpl fst; simpl snd;
    unfold sev_lookup; rewrite find_name_lower; destruct (find_name w sev_names 0); try reflexivity.
  apply IH.
Qed.

Lemma str_eqb_star_lower s : str_eqb (map lower s) [STAR] = str_eqb s [STAR].
Proof.
  destruct s as [|c [|d t]]; simpl; try reflexivity.
  - rewrite beq_lower_low by (vm_compute; reflexivity). reflexivity.
  - rewrite !andb_false_r. reflexivity.
Qed.

Theorem parse_sevset_case_insensitive : forall fac s, no_dot fac ->
  parse_sevset (fac ++ $"." ++ s) = parse_sevset (fac ++ $"." ++ map lower s).
Proof.
  intros fac s Hf. unfold parse_sevset.
  change ($"." ++ s) with (DOT :: s). change ($"." ++ map lower s) with (DOT :: map lower s).
  rewrite !split_at_app by assumption.
  rewrite str_eqb_star_lower, map_length, sev_loop_lower. reflexivity.
Qed.

(* every spelling (any mix of upper and lower case) of a documented expression *)
Corollary sevset_denote_any_case : forall fac e s, no_dot fac -> wf e -> map lower s = render_sexp e ->
  parse_sevset (fac ++ $"." ++ s) = Some (fac, map (denote e) [0;1;2;3;4;5]).
Proof.
  intros fac e s Hf We Hs. rewrite parse_sevset_case_insensitive by assumption.
  rewrite Hs. apply sevset_denote; assumption.
Qed.

(* ================================================================== *)
(* 2. An entry that does not parse is ignored as a whole               *)
(* ================================================================== *)
Theorem bad_entry_ignored : forall name ds pre post fac sev,
  parse_sevset name = None ->
  route (pre ++ (name, ds) :: post) fac sev = route (pre ++ post) fac sev.
Proof.
  intros name ds pre post fac sev H. unfold route, logs_of.
  rewrite !flat_map_app. simpl flat_map. unfold attach at 2 5. simpl fst. rewrite H. reflexivity.
Qed.

Definition parses (e : entry) : bool := match parse_sevset (fst e) with Some _ => true | None => false end.

Theorem bad_entries_ignored : forall sec fac sev, route (filter parses sec) fac sev = route sec fac sev.
Proof.
  intros sec fac sev. unfold route, logs_of.
  assert (G : forall f, flat_map (attach f sev) (filter parses sec) = flat_map (attach f sev) sec).
  { intros f. induction sec as [|e sec IH]; [reflexivity|]. simpl. unfold parses at 1.
    destruct (parse_sevset (fst e)) as [p|] eqn:P.
    - simpl. rewrite IH. reflexivity.
    - rewrite IH. assert (Z : attach f sev e = []) by (unfold attach; rewrite P; reflexivity).
      rewrite Z. reflexivity. }
  rewrite !G. reflexivity.
Qed.

(* unknown syntax: no dot, unknown word, doubled operator, "*" inside a list, empty item, ... *)
Example bad_syntax :
  map parse_sevset [$"bogus"; $"fa.bogus"; $"fa.>>info"; $"fa.info,*"; $"fa.*,info"; $"fa.,info";
                    $"fa.info,,error"; $"fa.=>info"; $"fa.info,bogus"; $"fa.>"; $"fa.infos"; $"fa.* ";
                    $"verbose_timestamp"]
  = repeat None 13.
Proof. vm_compute. reflexivity. Qed.

(* Oddities of the C parser that are NOT errors (kept faithfully):
   nothing after the dot: the empty set;  a trailing comma is dropped silently. *)
Example odd_but_accepted :
  map parse_sevset [$"fa."; $"fa.info,"; $".info"; $"a.b.info"]
  = [Some ($"fa", [false;false;false;false;false;false]);
     Some ($"fa", [false;false;true;false;false;false]);
     Some ([], [false;false;true;false;false;false]);
     None].
Proof. vm_compute. reflexivity. Qed.

(* ================================================================== *)
(* 3. Exactly when                                                     *)
(* ================================================================== *)
Theorem route_iff : forall sec fac sev d,
  In d (route sec fac sev) <->
  exists name ds f flags,
    In (name, ds) sec /\ parse_sevset name = Some (f, flags) /\
    (ci_eq f fac = true \/ f = $"*") /\ nth sev flags false = true /\ In d ds.
Proof.
  intros sec fac sev d. unfold route, logs_of. rewrite in_app_iff, !in_flat_map. split.
  - intros [[[name ds] [Hin Hd]] | [[name ds] [Hin Hd]]]; unfold attach in Hd; simpl in Hd;
      destruct (parse_sevset name) as [[f fl]|] eqn:P; try contradiction;
      destruct (ci_eq f _) eqn:C; simpl in Hd; try contradiction;
      destruct (nth sev fl false) eqn:N; try contradiction;
      exists name, ds, f, fl; repeat split; auto.
    right. apply ci_eq_star. assumption.
  - intros (name & ds & f & fl & Hin & P & [C|C] & N & Hd).
    + left. exists (name, ds). split; [assumption|]. unfold attach. simpl. rewrite P, C, N. assumption.
    + right. exists (name, ds). split; [assumption|]. unfold attach. simpl. rewrite P, N. subst f. assumption.
Qed.

(* The same in the vocabulary of the documentation: when every entry of the section is
   "<facility>.<severity expression>" the routing is given by the denoted sets. *)
Definition doc_entry := (str * sexp * list str)%type.
Definition render_entry (e : doc_entry) : entry := let '(f, x, ds) := e in (f ++ $"." ++ render_sexp x, ds).
Definition wf_doc (e : doc_entry) : Prop := let '(f, x, _) := e in no_dot f /\ wf x.

Theorem route_documented : forall dsec fac sev d, Forall wf_doc dsec -> sev < 6 ->
  (In d (route (map render_entry dsec) fac sev) <->
   exists f x ds, In (f, x, ds) dsec /\ (ci_eq f fac = true \/ f = $"*") /\ denote x sev = true /\ In d ds).
Proof.
  intros dsec fac sev d W Hs. rewrite route_iff. rewrite Forall_forall in W. split.
  - intros (name & ds & f & fl & Hin & P & C & N & Hd).
    apply in_map_iff in Hin as [[[g x] ds'] [E Hin]]. unfold render_entry in E. injection E as <- <-.
    destruct (W _ Hin) as [Wg Wx]. assert (Q := sevset_denote g x Wg Wx).
    change (parse_sevset (g ++ x2e :: render_sexp x) = Some (g, map (denote x) [0;1;2;3;4;5])) in Q.
    rewrite Q in P. assert (Ef : g = f) by congruence.
    assert (Efl : map (denote x) [0;1;2;3;4;5] = fl) by congruence. subst f fl.
    rewrite nth_denote in N by assumption. exists g, x, ds'. auto.
  - intros (f & x & ds & Hin & C & D & Hd). destruct (W _ Hin) as [Wf Wx].
    exists (f ++ $"." ++ render_sexp x), ds, f, (map (denote x) [0;1;2;3;4;5]).
    split; [apply in_map_iff; exists (f, x, ds); auto|].
    split; [apply sevset_denote; assumption|]. rewrite nth_denote by assumption. auto.
Qed.

(* ================================================================== *)
(* 4. After a reload the routing is that of the new section only       *)
(* ================================================================== *)
(* the only routing state is what rescan produces; it does not look at the previous state *)
Definition reload (st : list entry) (sec : list entry) : list entry := rescan sec.
Definition after_reloads (st0 : list entry) (secs : list (list entry)) : list entry := fold_left reload secs st0.

Lemma last_nonempty {A} (a : A) l d1 d2 : last (a :: l) d1 = last (a :: l) d2.
Proof. revert a. induction l as [|b l IH]; intros a; [reflexivity|]. apply (IH b). Qed.

Lemma after_reloads_last : forall secs st0, after_reloads st0 secs = last secs st0.
Proof.
  unfold after_reloads. induction secs as [|sec secs IH]; intros st0; [reflexivity|].
  simpl fold_left. unfold reload at 2, rescan. rewrite IH.
  destruct secs as [|s2 secs]; [reflexivity|]. exact (last_nonempty s2 secs sec st0).
Qed.

Theorem route_depends_on_current_section_only : forall st0 secs sec fac sev,
  route (after_reloads st0 (secs ++ [sec])) fac sev = route sec fac sev.
Proof. intros. rewrite after_reloads_last, last_last. reflexivity. Qed.

(* ================================================================== *)
(* 5. Every line is complete and attributed                            *)
(* ================================================================== *)
Definition no_lf (s : str) : Prop := lacks LF s.

Lemma sevname_no_lf sev : lacks LF (sevname sev).
Proof.
  apply lacksb_lacks. unfold sevname.
  do 6 (destruct sev as [|sev]; [vm_compute; reflexivity|]). destruct sev; reflexivity.
Qed.

Lemma sevname_no_paren sev : lacks x29 (sevname sev).
Proof.
  apply lacksb_lacks. unfold sevname.
  do 6 (destruct sev as [|sev]; [vm_compute; reflexivity|]). destruct sev; reflexivity.
Qed.

Lemma sevname_inj a b : a < 6 -> b < 6 -> sevname a = sevname b -> a = b.
Proof. intros Ha Hb. below6 a; below6 b; vm_compute; intros H; try reflexivity; discriminate H. Qed.

Lemma line_of_eq fac sev msg : line_of fac sev msg = x28 :: fac ++ x3a :: sevname sev ++ x29 :: x20 :: msg.
Proof. reflexivity. Qed.

(* the line is one line; it is "(" facility ":" severity-name ") " message, with a real severity name *)
Theorem line_complete : forall fac sev msg, sev < 6 -> no_lf fac -> no_lf msg ->
  no_lf (line_of fac sev msg)
  /\ line_of fac sev msg = $"(" ++ fac ++ $":" ++ nth sev sev_names [] ++ $") " ++ msg
  /\ In (nth sev sev_names []) sev_names.
Proof.
  intros fac sev msg Hs Hf Hm. split; [|split].
  - unfold no_lf. rewrite line_of_eq.
    apply lacks_cons; split; [discriminate|]. apply lacks_app; split; [assumption|].
    apply lacks_cons; split; [discriminate|]. apply lacks_app; split; [apply sevname_no_lf|].
    apply lacks_cons; split; [discriminate|]. apply lacks_cons; split; [discriminate|]. assumption.
  - reflexivity.
  - apply nth_In. exact Hs.
Qed.

(* attribution: the facility, the severity and the message can be read back from the line *)
Theorem line_attributed : forall fac1 sev1 msg1 fac2 sev2 msg2,
  lacks x3a fac1 -> lacks x3a fac2 -> sev1 < 6 -> sev2 < 6 ->
  line_of fac1 sev1 msg1 = line_of fac2 sev2 msg2 -> fac1 = fac2 /\ sev1 = sev2 /\ msg1 = msg2.
Proof.
  intros fac1 sev1 msg1 fac2 sev2 msg2 H1 H2 S1 S2 E. rewrite !line_of_eq in E. injection E as E.
  apply app_split_unique in E as [-> E]; try assumption.
  apply app_split_unique in E as [E1 E2]; try apply sevname_no_paren.
  apply sevname_inj in E1; try assumption. injection E2 as ->. auto.
Qed.

(* ================================================================== *)
(* 6. Non-vacuity                                                      *)
(* ================================================================== *)
Definition ex_sec : list entry :=
  [ ($"*.info,error", [$"file:all"]);
    ($"bogus", [$"file:never1"]);
    ($"core.>=warning", [$"file:core"; $"file:core2"]);
    ($"core.>>warning", [$"file:never2"]);
    ($"fa.*", [$"file:fa"]);
    ($"FA.=Debug", [$"file:fa-debug"]);
    ($"fb.<=command", [$"file:fb"]);
    ($"fb.info,bogus", [$"file:never3"]) ].

Example ex_parse :
  map (fun e => parse_sevset (fst e)) ex_sec =
  [ Some ($"*",    [false;false;true ;false;true ;false]);
    None;
    Some ($"core", [false;false;false;true ;true ;true ]);
    None;
    Some ($"fa",   [true ;true ;true ;true ;true ;true ]);
    Some ($"FA",   [true ;false;false;false;false;false]);
    Some ($"fb",   [true ;true ;false;false;false;false]);
    None ].
Proof. vm_compute. reflexivity. Qed.

Example ex_route_core_warning : route ex_sec $"core" 3 = [$"file:core"; $"file:core2"].
Proof. vm_compute. reflexivity. Qed.
Example ex_route_core_error : route ex_sec $"core" 4 = [$"file:core"; $"file:core2"; $"file:all"].
Proof. vm_compute. reflexivity. Qed.
Example ex_route_core_info : route ex_sec $"core" 2 = [$"file:all"].
Proof. vm_compute. reflexivity. Qed.
Example ex_route_core_debug : route ex_sec $"core" 0 = [].
Proof. vm_compute. reflexivity. Qed.
Example ex_route_fa_debug : route ex_sec $"fa" 0 = [$"file:fa"; $"file:fa-debug"].
Proof. vm_compute. reflexivity. Qed.
Example ex_route_fa_info : route ex_sec $"fa" 2 = [$"file:fa"; $"file:all"].
Proof. vm_compute. reflexivity. Qed.
Example ex_route_fb_command : route ex_sec $"fb" 1 = [$"file:fb"].
Proof. vm_compute. reflexivity. Qed.
Example ex_route_fb_info : route ex_sec $"fb" 2 = [$"file:all"].
Proof. vm_compute. reflexivity. Qed.
Example ex_route_unknown_fac : route ex_sec $"zz" 4 = [$"file:all"].
Proof. vm_compute. reflexivity. Qed.
(* the default type itself: both halves of log_vmessage read the same table *)
Example ex_route_star : route ex_sec $"*" 2 = [$"file:all"; $"file:all"].
Proof. vm_compute. reflexivity. Qed.

Example ex_reload :
  route (after_reloads [] [ex_sec; [($"core.debug", [$"file:new"])]]) $"core" 4 = []
  /\ route (after_reloads [] [ex_sec; [($"core.debug", [$"file:new"])]]) $"core" 0 = [$"file:new"].
Proof. vm_compute. split; reflexivity. Qed.

Example ex_line : line_of $"core" 3 $"hello" = $"(core:warning) hello".
Proof. vm_compute. reflexivity. Qed.

Example ex_denote :
  render_sexp (SItems [(RGe, 3, false); (REq, 0, true); (RLt, 2, false)]) = $">=warning,=debug,<info"
  /\ map (denote (SItems [(RGe, 3, false); (REq, 0, true); (RLt, 2, false)])) [0;1;2;3;4;5]
     = [true; true; false; true; true; true].
Proof. vm_compute. split; reflexivity. Qed.

Example ex_any_case : parse_sevset $"Core.>=WARNING,=Debug" = Some ($"Core", [true;false;false;true;true;true]).
Proof. vm_compute. reflexivity. Qed.
