(* C15: reload is deterministic.  ONLY statements closed by `exact`, each followed by Print Assumptions.
   (value part of the merge so far; theorems on the full live-tree model are being added) *)
From Coq Require Import List.
Require Import Merge2 Merge3.

(* merging the same file tree twice gives the same live tree as merging it once, for every live tree and every file tree *)
Theorem second_identical_load_changes_nothing : forall s t, merge (merge t s) s = merge t s.
Proof. exact merge_idem. Qed.
Print Assumptions second_identical_load_changes_nothing.
