(* C15: reload is deterministic - last good file plus defaults.  ONLY statements closed by `exact`, each followed by Print Assumptions.
   ConfMerge.merge / exec are the live-tree model compared with src/config.c on every run (dump and hook log).
   lsorted / vsorted: child lists sorted by (case-folded name, kind); lwf, lplain: invariants of every reachable state (inv_run). *)
From Coq Require Import List NArith Bool Strings.Byte Strings.String.
Import ListNotations.
Require Import Conf ConfMerge ConfOrder ConfBase ConfIdem ConfSorted ConfWalk ConfHooks ConfValues ConfHistory ConfCommute ConfInv ConfParseSorted ConfProps.
Local Open Scope list_scope.

(* everything at once, for ANY load in ANY state a script of registrations, loads and hook attachments can reach:
   the new tree carries the file's values (agrees), the hook log is exactly the comparison of the tree before and after,
   loading the same content again changes nothing and notifies nobody, and - when every typed text parses - the result is what the
   same load gives on the tree that registration alone would have built (forget): no leftover of earlier files survives *)
Theorem every_reachable_load : forall cs data tree,
  parse data = inr tree ->
  let root := LObj true true false (run cs) in
  let root' := fst (merge [] root (VObj tree)) in
  let e := snd (merge [] root (VObj tree)) in
  fst (exec (run cs) (CLoad data)) = kidsof root' /\
  agrees (VObj tree) root' /\
  e = hooks_cmp [] root root' /\
  merge [] root' (VObj tree) = (root', []) /\
  (lparsable root' -> leqv root' (fst (merge [] (forget root) (VObj tree)))).
Proof. exact reachable_load. Qed.
Print Assumptions every_reachable_load.

(* loading the same content twice changes nothing and fires no hook: every live tree, every file tree, no side condition *)
Theorem second_identical_load_changes_nothing : forall path t s, let '(t1, e1) := merge path t s in merge path t1 s = (t1, []).
Proof. exact load_idem_strong. Qed.
Print Assumptions second_identical_load_changes_nothing.

(* a hook runs exactly when the node's own effective value (leaf) or membership (object) changed, here or below *)
Theorem hooks_run_exactly_on_change : forall path t s x, lsorted t -> vsorted s ->
  (In x (snd (merge path t s)) <-> notified path t (fst (merge path t s)) x).
Proof. exact hooks_exact_iff. Qed.
Print Assumptions hooks_run_exactly_on_change.

(* each setting equals the file's value, or is back at its default / gone when the file omits it *)
Theorem values_are_the_files_or_defaults : forall path spec pres hook ks ss,
  lsorted (LObj spec pres hook ks) -> vsorted (VObj ss) -> lwf (LObj spec pres hook ks) ->
  exists ks' e, merge path (LObj spec pres hook ks) (VObj ss) = (LObj spec true hook ks', e) /\
    (forall n s', In (n, s') ss -> exists c, lookupl n (kind s') ks' = Some c /\ agrees s' c) /\
    (forall n k, lookup n k ss = None ->
       match lookupl n k ks' with
       | None => match lookupl n k ks with Some c => lspec c = false | None => True end
       | Some c' => dflt_state c' /\ exists c, lookupl n k ks = Some c /\ lspec c = true
       end).
Proof. exact load_values. Qed.
Print Assumptions values_are_the_files_or_defaults.

(* registering before or after the load gives the same tree (names up to case; side conditions reg_ok: not re-registered with a
   different default, typed text parses) *)
Theorem registration_point_does_not_matter : forall st r tree,
  inv st -> vsorted_kids tree -> reg_ok st r tree -> kids_eqv0 (reg_then_load st r tree) (load_then_reg st r tree).
Proof. exact register_commutes_with_load. Qed.
Print Assumptions registration_point_does_not_matter.

(* C14's clause on the model: a load that reports an error leaves the state alone and prints no HOOK line *)
Theorem failed_load_changes_nothing : forall st data e,
  parse data = inl e ->
  fst (exec st (CLoad data)) = st /\
  snd (exec st (CLoad data)) = [S_ "LOAD ERR"%string] ++ flat_map (fun nv => dumpl 0 (fst nv) (snd nv)) st ++ [S_ "END"%string] /\
  Forall (fun l => is_hookline l = false) (snd (exec st (CLoad data))).
Proof. exact failed_load_unchanged. Qed.
Print Assumptions failed_load_changes_nothing.
