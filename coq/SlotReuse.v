(* D30, REPAIRED: a slot that a reload gives to another service says nothing about its new occupant.

   The per-client masks (sent = asked at least once, more = wants a continuation, okm = answered OK, refm = still owes an answer) are
   indexed by SLOT.  A slot released by one reload (its service dropped from the file and awaited by nobody) and given to another
   service by a later reload used to carry the bits of the old occupant over to the new one: the new service was "already asked"
   (so never queried: C06) and had "answered OK" (so an xreply_ok rule about it was satisfied: C11).  Now `step_ev` on a reload maps
   `forget (refilled old new 0)` over the pending requests.  This file says what that does:

   1. refilled_spec                        which slots are refilled: empty before, occupied after
   2. forget_clears                        forget clears exactly those bits of sent / more / okm, and leaves refm alone
   3. reload_forgets_refilled_slots        after a reload no pending request has a sent / more / okm bit at a refilled slot
   4. new_occupant_is_eligible_again       C06: the new occupant is queried as soon as its data are known ("asked before" is gone)
   5. xreply_ok_of_new_occupant_is_false   C11: an xreply_ok criterion naming the new occupant is false right after the reload
   and a refilled slot is never one a request still awaits: conditionally (refilled_not_awaited: provided awaited slots are occupied)
   and for every reachable state (reachable_refilled_slot_is_not_awaited, by the reference-count invariant RefInv.RefInv). *)
From Coq Require Import List NArith ZArith Bool Strings.Byte Strings.String Lia.
Import ListNotations.
Require Import Params Iauth ReloadEq.
Require QueryWhen RefInv.
Local Open Scope list_scope.

(* ---------- 1. the refilled slots ---------- *)
Theorem refilled_spec old new i :
  In i (refilled old new 0) <->
  exists k, i = N.of_nat k /\ nth_error old k = Some None /\ exists s, nth_error new k = Some (Some s).
Proof.
  rewrite refilled_in. split; intros (k & E & H); exists k; (split; [|exact H]); rewrite E; reflexivity.
Qed.

(* ---------- 2. what forget does to the masks ---------- *)
Theorem forget_clears idx r :
  (forall i, In i idx ->
     N.testbit (sent (forget idx r)) i = false /\ N.testbit (more (forget idx r)) i = false /\ N.testbit (okm (forget idx r)) i = false) /\
  (forall i, ~ In i idx ->
     N.testbit (sent (forget idx r)) i = N.testbit (sent r) i /\ N.testbit (more (forget idx r)) i = N.testbit (more r) i /\
     N.testbit (okm (forget idx r)) i = N.testbit (okm r) i) /\
  refm (forget idx r) = refm r.
Proof.
  split; [|split; [|reflexivity]]; intros i Hi; unfold forget; cbn [sent more okm].
  - repeat split; apply clear_all_in; exact Hi.
  - repeat split; apply clear_all_notin; exact Hi.
Qed.

(* forget never touches a slot the request still awaits, if awaited slots are occupied
   (they are: a slot with a positive reference count is never released) *)
Theorem refilled_not_awaited old new r :
  (forall k, N.testbit (refm r) (N.of_nat k) = true -> exists s, nth_error old k = Some (Some s)) ->
  forall i, In i (refilled old new 0) -> N.testbit (refm r) i = false.
Proof.
  intros H i Hi. apply refilled_spec in Hi as (k & -> & Ho & _).
  destruct (N.testbit (refm r) (N.of_nat k)) eqn:E; [|reflexivity].
  destruct (H k E) as (s & Hs). rewrite Hs in Ho. discriminate.
Qed.

(* in every state reached from start-up the condition holds (RefInv: a slot awaited by a pending request is occupied and has a positive
   reference count, so no reload releases it), hence: the slots a reload refills are awaited by no pending request *)
Theorem reachable_refilled_slot_is_not_awaited c services rs0 t0 evs svs r i :
  let s := fold_left (fun s e => fst (step_ev c s e)) evs (init c services rs0 t0) in
  In r (reqs s) -> In i (refilled (slots (tb s)) (services_changed (slots (tb s)) svs) 0) -> N.testbit (refm r) i = false.
Proof.
  intros s Hr Hi. exact (RefInv.refilled_slot_is_not_awaited s _ r i (RefInv.run_refinv_init c services rs0 t0 evs) Hr Hi).
Qed.

(* ---------- 3. a reload: the pending requests forget every refilled slot ---------- *)
Theorem reload_forgets_refilled_slots c s svs rs t :
  let s' := fst (step_ev c s (Reload svs rs t)) in
  forall r' k sv, In r' (reqs s') ->
    nth_error (slots (tb s)) k = Some None ->            (* slot k was empty before the reload *)
    nth_error (slots (tb s')) k = Some (Some sv) ->      (* and holds a service after it *)
    N.testbit (sent r') (N.of_nat k) = false /\ N.testbit (more r') (N.of_nat k) = false /\ N.testbit (okm r') (N.of_nat k) = false.
Proof.
  cbn [step_ev fst reqs tb slots]. intros r' k sv Hr Ho Hn.
  apply in_map_iff in Hr as (r & <- & _).
  apply (proj1 (forget_clears _ r)). apply refilled_spec. exists k. split; [reflexivity|]. split; [exact Ho|]. exists sv. exact Hn.
Qed.

(* the other bits, and everything else about the request, are as before the reload *)
Theorem reload_keeps_the_other_slots c s svs rs t :
  let s' := fst (step_ev c s (Reload svs rs t)) in
  forall id r', lookup id (reqs s') = Some r' ->
    exists r, lookup id (reqs s) = Some r /\
      r' = forget (refilled (slots (tb s)) (slots (tb s')) 0) r /\
      forall i, ~ In i (refilled (slots (tb s)) (slots (tb s')) 0) ->
        N.testbit (sent r') i = N.testbit (sent r) i /\ N.testbit (more r') i = N.testbit (more r) i /\ N.testbit (okm r') i = N.testbit (okm r) i.
Proof.
  cbn [step_ev fst reqs tb slots]. intros id r' Hl. rewrite lookup_map_forget in Hl.
  destruct (lookup id (reqs s)) as [r|]; [|discriminate]. cbn [option_map] in Hl. inversion Hl; subst r'.
  exists r. split; [reflexivity|]. split; [reflexivity|]. intros i Hi. apply (proj1 (proj2 (forget_clears _ r))). exact Hi.
Qed.

(* ---------- 4. C06: the new occupant of a refilled slot is asked like any other service ---------- *)
Theorem new_occupant_is_eligible_again c s svs rs t :
  let s' := fst (step_ev c s (Reload svs rs t)) in
  forall r' k sv is_pw, In r' (reqs s') ->
    nth_error (slots (tb s)) k = Some None -> nth_error (slots (tb s')) k = Some (Some sv) ->
    (skip_query (s_type sv) (N.of_nat k) is_pw r' = false <->
     prereq_ok (s_type sv) r' = true /\ (is_loginish (s_type sv) = true -> nonempty (pw r') = true)).
Proof.
  intros s' r' k sv is_pw Hr Ho Hn.
  destruct (reload_forgets_refilled_slots c s svs rs t r' k sv Hr Ho Hn) as (Hs & _ & _).
  rewrite QueryWhen.skip_query_meaning. split.
  - intros (H1 & H2 & _). split; assumption.
  - intros (H1 & H2). split; [exact H1|]. split; [exact H2|]. left. exact Hs.
Qed.

(* ---------- 5. C11: the OK of the former occupant does not count for the new one ---------- *)
(* xreply_ok reads the okm bit of the first configured slot whose service name matches case-insensitively *)
Lemma xreply_ok_first n r : forall ss slot k sv,
  nth_error ss k = Some (Some sv) -> s_conf sv = true -> ci_eq n (s_name sv) = true ->
  (forall j sv', (j < k)%nat -> nth_error ss j = Some (Some sv') -> s_conf sv' && ci_eq n (s_name sv') = false) ->
  xreply_ok ss slot n r = N.testbit (okm r) (slot + N.of_nat k).
Proof.
  induction ss as [|o rest IH]; intros slot k sv Hk Hc Hn Hfirst; [destruct k; discriminate|].
  destruct k as [|k].
  - cbn [nth_error] in Hk. inversion Hk; subst o. cbn [xreply_ok]. rewrite Hc, Hn. cbn [andb]. f_equal. cbn [N.of_nat]. lia.
  - cbn [nth_error] in Hk.
    assert (xreply_ok rest (slot + 1) n r = N.testbit (okm r) (slot + N.of_nat (S k))) as E.
    { rewrite (IH (slot + 1)%N k sv Hk Hc Hn); [f_equal; lia|].
      intros j sv' Hj Hj'. apply (Hfirst (S j) sv'); [lia|exact Hj']. }
    destruct o as [s0|]; cbn [xreply_ok]; [|exact E].
    rewrite (Hfirst O s0); [exact E|lia|reflexivity].
Qed.

Theorem xreply_ok_of_new_occupant_is_false c s svs rs t :
  let s' := fst (step_ev c s (Reload svs rs t)) in
  forall r' k sv n, In r' (reqs s') ->
    nth_error (slots (tb s)) k = Some None -> nth_error (slots (tb s')) k = Some (Some sv) ->    (* slot k is refilled, by sv *)
    s_conf sv = true -> ci_eq n (s_name sv) = true ->                                            (* sv is configured and named n *)
    (forall j sv', (j < k)%nat -> nth_error (slots (tb s')) j = Some (Some sv') ->               (* and is the first such slot *)
                   s_conf sv' && ci_eq n (s_name sv') = false) ->
    xreply_ok (slots (tb s')) 0 n r' = false.
Proof.
  intros s' r' k sv n Hr Ho Hn Hc Hci Hfirst.
  rewrite (xreply_ok_first n r' (slots (tb s')) 0%N k sv Hn Hc Hci Hfirst). cbn [N.add].
  exact (proj2 (proj2 (reload_forgets_refilled_slots c s svs rs t r' k sv Hr Ho Hn))).
Qed.

(* so a class rule that requires an OK from that service does not match right after the reload *)
Corollary rule_requiring_new_occupant_does_not_match c s svs rs t :
  let s' := fst (step_ev c s (Reload svs rs t)) in
  forall r' k sv n ru, In r' (reqs s') ->
    nth_error (slots (tb s)) k = Some None -> nth_error (slots (tb s')) k = Some (Some sv) ->
    s_conf sv = true -> ci_eq n (s_name sv) = true ->
    (forall j sv', (j < k)%nat -> nth_error (slots (tb s')) j = Some (Some sv') -> s_conf sv' && ci_eq n (s_name sv') = false) ->
    r_xok ru = Some n -> rule_matches (slots (tb s')) ru r' = false.
Proof.
  intros s' r' k sv n ru Hr Ho Hn Hc Hci Hfirst Hx. subst s'. unfold rule_matches. rewrite Hx.
  rewrite (xreply_ok_of_new_occupant_is_false c s svs rs t r' k sv n Hr Ho Hn Hc Hci Hfirst). apply andb_false_r.
Qed.

