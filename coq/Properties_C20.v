(* C20 (partial: dlopen and symbol lookup are not modelled).  ONLY statements closed by `exact`, each followed by Print Assumptions.
   ModModel.run n g listing is the loader model compared with src/module.c (real daemon + stub modules) on every run. *)
From Coq Require Import List Arith Bool.
Import ListNotations.
Require Import ModModel ModBase ModUnbounded ModAllN ModProps.
Require ModAnti ModBackend.

(* For ANY number of modules, any dependency graph g (wfg: dependencies name modules < n) and any listing order:
   - if start-up aborts (run = None) there is a genuine cycle among the reachable modules;
   - otherwise there is none, and in the event log every reachable module has exactly one constructor begin, constructor end,
     post-init and destructor, CB before CE, and for every declared dependency m -> d: CE d before CE m, PI d before PI m
     (also when d is reachable along two paths), DT m before DT d; unreachable modules are never touched; all constructors come
     before all post-inits before all destructors. *)
Theorem load_and_unload_respect_dependencies : forall n g listing, wfg n g -> (forall m, In m listing -> m < n) ->
  monitor' g listing (run n g listing).
Proof. exact run_meets_monitor. Qed.
Print Assumptions load_and_unload_respect_dependencies.

(* the executable monitor (the one the driver evaluates on every graph of the correspondence run) accepts every run, for every n *)
Theorem executable_monitor_accepts_every_run : forall n g,
  wfg n g -> (forall m, NoDup (g m)) -> forall listing, (forall m, In m listing -> m < n) -> length listing <= n + 2 -> monitor n g listing = true.
Proof. exact run_monitor_true. Qed.
Print Assumptions executable_monitor_accepts_every_run.

(* the exhaustive statement over all digraphs without self loops, for every n (the bounded instance for n = 4 is evaluated inside
   Coq by vm_compute in ModProps.v and agrees) *)
Theorem every_graph_every_size : forall n, all_ok n = true.
Proof. exact all_ok_every_n. Qed.
Print Assumptions every_graph_every_size.

Theorem dependency_order_respected_up_to_4_modules :
  forall bs, In bs (bits 12) -> forall l, In l (listings 4) -> monitor 4 (graph_of 4 bs) l = true.
Proof. exact every_graph_on_4_modules. Qed.
Print Assumptions dependency_order_respected_up_to_4_modules.

(* BACK-END DECLARATIONS (module_antidepends, README: "must be unloaded after it").  run2 fixed n g a listing extends the loader
   model: a m lists the modules m declares itself a back end for; fixed = true is module.c as repaired (D26: the reverse link is
   recorded), fixed = false the code as it was.  cdep g a m d: "m depends on d", declared by m (module_depends) or by d
   (module_antidepends).  For ANY number of modules, any pair of graphs and any listing: start-up aborts exactly on a cycle of the
   combined relation among the loaded modules; otherwise every loaded module is constructed, post-initialised and destroyed exactly
   once, and along EVERY declared edge of either kind post-init of the dependency comes first and the dependent is destroyed first.
   (Construction order is not claimed for the combined relation - and cannot be: construction_order_can_fail_with_back_ends.) *)
Theorem back_end_declarations_are_respected : forall n g a listing, ModAnti.wfg2 n g a -> (forall m, In m listing -> m < n) ->
  ModAnti.monitor2' g a listing (ModAnti.run2 true n g a listing).
Proof. exact ModAnti.run2_meets_monitor2. Qed.
Print Assumptions back_end_declarations_are_respected.

Theorem start_up_aborts_exactly_on_a_combined_cycle : forall n g a listing, ModAnti.wfg2 n g a -> (forall m, In m listing -> m < n) ->
  (ModAnti.run2 true n g a listing = None <-> ModAnti.cyclic2 g a listing).
Proof. exact ModAnti.run2_aborts_iff_cycle. Qed.
Print Assumptions start_up_aborts_exactly_on_a_combined_cycle.

(* without back-end declarations the extended model IS the model above *)
Theorem extended_model_is_conservative : forall fixed n g listing, ModAnti.run2 fixed n g (fun _ => []) listing = run n g listing.
Proof. exact ModAnti.run2_no_anti. Qed.
Print Assumptions extended_model_is_conservative.

(* D26 refuted on the model of the code as it was: a back end destroyed before the module it provides for (the daemon's own event
   order on m0 -> m2, m1 back end for m2, modules (m0, m1)) *)
Theorem unrepaired_code_destroys_a_back_end_first : exists n g a listing lg,
  ModAnti.wfg2 n g a /\ (forall m, In m listing -> m < n) /\ ModAnti.run2 false n g a listing = Some lg /\
  exists b x, In x (a b) /\ precedes (DT b) (DT x) lg /\ count (isDT b) lg = 1 /\ count (isDT x) lg = 1 /\
              before (index (isDT b) lg 0) (index (isDT x) lg 0) = true.
Proof. exact ModAnti.unfixed_destroys_back_end_first. Qed.
Print Assumptions unrepaired_code_destroys_a_back_end_first.

(* BACKENDS OF THE CORE (module_is_backend): run3 fixed n g a bk listing adds the flag bk; fixed = true is module_close_all as
   repaired (D29: a second series of rounds over what the first left), fixed = false the code as it was (backends and everything
   they depend on destroyed in name order).  For ANY number of modules, graphs, flags and listing: everything of
   back_end_declarations_are_respected still holds, and an ordinary module that no loaded backend depends on (directly or through
   other modules) is destroyed before every module that a backend is or depends on. *)
Theorem backends_are_unloaded_last_and_in_dependency_order : forall n g a bk listing, ModAnti.wfg2 n g a -> (forall m, In m listing -> m < n) ->
  match ModBackend.run3 true n g a bk listing with
  | None => ModAnti.cyclic2 g a listing
  | Some lg => ~ ModAnti.cyclic2 g a listing /\ ModAnti.ok_log2 g a listing lg /\ ModBackend.backends_last bk (ModAnti.loaded g a listing) g a lg
  end.
Proof. exact ModBackend.run3_meets_monitor. Qed.
Print Assumptions backends_are_unloaded_last_and_in_dependency_order.

Theorem model_with_backends_is_conservative : forall fixed n g a listing,
  ModBackend.run3 fixed n g a (fun _ => false) listing = ModAnti.run2 true n g a listing.
Proof. exact ModBackend.run3_no_backend. Qed.
Print Assumptions model_with_backends_is_conservative.

(* D29 refuted on the model of the code as it was: the module a backend depends on is destroyed before the backend *)
Theorem unrepaired_code_destroys_a_backends_dependency_first : exists n g a bk listing lg,
  ModAnti.wfg2 n g a /\ (forall m, In m listing -> m < n) /\ ModBackend.run3 false n g a bk listing = Some lg /\
  exists b d, bk b = true /\ In d (g b) /\ precedes (DT d) (DT b) lg /\ count (isDT b) lg = 1 /\ count (isDT d) lg = 1 /\
              before (index (isDT d) lg 0) (index (isDT b) lg 0) = true.
Proof. exact ModBackend.unfixed_destroys_a_backends_dependency_first. Qed.
Print Assumptions unrepaired_code_destroys_a_backends_dependency_first.
