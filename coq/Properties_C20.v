(* C20 (partial: dlopen and symbol lookup are not modelled).  ONLY statements closed by `exact`, each followed by Print Assumptions.
   ModModel.run n g listing is the loader model compared with src/module.c (real daemon + stub modules) on every run. *)
From Coq Require Import List Arith Bool.
Import ListNotations.
Require Import ModModel ModBase ModUnbounded ModAllN ModProps.

(* For ANY number of modules, any dependency graph g (wfg: dependencies name modules < n) and any listing order:
   - if start-up aborts (run = None) there is a genuine cycle among the reachable modules;
   - otherwise there is none, and in the event log every reachable module has exactly one constructor begin, constructor end,
     post-init and destructor, CB before CE, and for every declared dependency m -> d: CE d before CE m, PI d before PI m
     (also when d is reachable along two paths), DT m before DT d; unreachable modules are never touched; all constructors come
     before all post-inits before all destructors. *)
Theorem load_and_unload_respect_dependencies : forall n g listing, wfg n g -> (forall m, In m listing -> m < n) ->
  monitor' g listing (run n g listing).
Proof. exact run_meets_monitor. Qed.
Print Assumptions load_and_unload_respect_dependencies.

(* the executable monitor (the one the driver evaluates on every graph of the correspondence run) accepts every run, for every n *)
Theorem executable_monitor_accepts_every_run : forall n g,
  wfg n g -> (forall m, NoDup (g m)) -> forall listing, (forall m, In m listing -> m < n) -> length listing <= n + 2 -> monitor n g listing = true.
Proof. exact run_monitor_true. Qed.
Print Assumptions executable_monitor_accepts_every_run.

(* the exhaustive statement over all digraphs without self loops, for every n (the bounded instance for n = 4 is evaluated inside
   Coq by vm_compute in ModProps.v and agrees) *)
Theorem every_graph_every_size : forall n, all_ok n = true.
Proof. exact all_ok_every_n. Qed.
Print Assumptions every_graph_every_size.

Theorem dependency_order_respected_up_to_4_modules :
  forall bs, In bs (bits 12) -> forall l, In l (listings 4) -> monitor 4 (graph_of 4 bs) l = true.
Proof. exact every_graph_on_4_modules. Qed.
Print Assumptions dependency_order_respected_up_to_4_modules.
