(* C20 (partial: dlopen and symbol lookup are not modelled).  ONLY statements closed by `exact`, each followed by Print Assumptions. *)
From Coq Require Import List Arith Bool.
Import ListNotations.
Require Import ModModel ModProps.

(* BOUNDED (the bound is in the statement): for every digraph without self loops on 4 modules (4096 graphs) and four listing orders,
   the model's run satisfies the C20 monitor: constructed once, dependencies fully constructed first, post-init once and after the
   dependencies', destructor before the dependencies'; a cyclic graph aborts start-up.  Evaluated inside Coq by vm_compute. *)
Theorem dependency_order_respected_up_to_4_modules :
  forall bs, In bs (bits 12) -> forall l, In l (listings 4) -> monitor 4 (graph_of 4 bs) l = true.
Proof. exact every_graph_on_4_modules. Qed.
Print Assumptions dependency_order_respected_up_to_4_modules.
