From Coq Require Import List ZArith Lia Bool.
Import ListNotations.
Require Import Splay.
Local Open Scope Z_scope.

Section R.
Variable K : Type.
Variable cmp : K -> K -> Z.
Hypothesis cmp_anti : forall a b, cmp a b > 0 <-> cmp b a < 0.
Hypothesis cmp_trans : forall a b c, cmp a b < 0 -> cmp b c < 0 -> cmp a c < 0.

Notation tree := (tree K).
Notation inorder := (inorder K).

Definition below (d : K) (xs : list K) : Prop := Forall (fun x => cmp d x > 0) xs.   (* every x < d *)
Definition above (d : K) (xs : list K) : Prop := Forall (fun x => cmp d x < 0) xs.   (* every x > d *)

Fixpoint bst (t : tree) : Prop :=
  match t with
  | Leaf _ => True
  | Node _ l k r => bst l /\ bst r /\ below k (inorder l) /\ above k (inorder r)
  end.

Lemma above_trans d k xs : cmp d k < 0 -> above k xs -> above d xs.
Proof. intros H. unfold above. apply Forall_impl. intros x Hx. eapply cmp_trans; eauto. Qed.
Lemma below_trans d k xs : cmp d k > 0 -> below k xs -> below d xs.
Proof.
  intros H. unfold below. apply Forall_impl. intros x Hx.
  apply cmp_anti. apply cmp_anti in H. apply cmp_anti in Hx. eapply cmp_trans; eauto.
Qed.

Definition side_ok (d : K) (p : tree * Z) : Prop :=
  match fst p with
  | Leaf _ => False
  | Node _ l k r => snd p = cmp d k /\ (cmp d k < 0 -> below d (inorder l)) /\ (cmp d k > 0 -> above d (inorder r))
  end.

Lemma finish_side d L R l k r :
  below d (inL K (rev L)) -> above d (inR K R) ->
  (cmp d k < 0 -> below d (inorder l)) -> (cmp d k > 0 -> above d (inorder r)) ->
  side_ok d (finish K L R l k r, cmp d k).
Proof.
  intros HL HR Hl Hr. unfold side_ok, finish; cbn [fst snd]. split; [reflexivity|]. split.
  - intros Hn. rewrite inorder_asmL. unfold below in *. rewrite Forall_app. split; [exact HL|apply Hl; exact Hn].
  - intros Hp. rewrite inorder_asmR, rev_involutive. unfold above in *. rewrite Forall_app. split; [apply Hr; exact Hp|exact HR].
Qed.

Lemma above_inR_cons d k t R : above d (k :: inorder t) -> above d (inR K R) -> above d (inR K ((k, t) :: R)).
Proof. intros A B. unfold inR; simpl. fold (inR K R). unfold above in *. inversion A; subst. constructor; [assumption|]. rewrite Forall_app. split; assumption. Qed.
Lemma below_inL_snoc d l k L : below d (inL K (rev L)) -> below d (inorder l ++ [k]) -> below d (inL K (rev ((l, k) :: L))).
Proof. intros A B. simpl. rewrite inL_snoc. unfold below in *. rewrite Forall_app. split; assumption. Qed.

Lemma below_nil d : below d []. Proof. constructor. Qed.
Lemma above_nil d : above d []. Proof. constructor. Qed.

Theorem sl_side d : forall n t, (size K t <= n)%nat -> t <> Leaf K -> bst t -> forall L R,
  below d (inL K (rev L)) -> above d (inR K R) -> side_ok d (sl K cmp d t L R).
Proof.
  induction n as [|n IH]; intros t Hs Hne Hb L R HL HR; destruct t as [|l k r]; try contradiction; simpl in Hs; [lia|].
  destruct Hb as (Hbl & Hbr & Hlk & Hkr).
  cbn [sl]. destruct (Z.eqb_spec (cmp d k) 0) as [E0|N0].
  { apply finish_side; auto; intros; lia. }
  destruct (Z.ltb_spec (cmp d k) 0) as [Hlt|Hge].
  - destruct l as [|ll lk lr].
    { apply finish_side; auto; [intros; apply below_nil|intros; lia]. }
    destruct Hbl as (Hbll & Hblr & Hllk & Hlkr).
    simpl in Hlk. unfold below in Hlk. rewrite Forall_app in Hlk. destruct Hlk as [Hlk1 Hlk2]. inversion Hlk2 as [|? ? Hk_lk Hlk3]; subst.
    destruct (Z.ltb_spec (cmp d lk) 0) as [Hlt2|Hge2].
    + (* rotate right *)
      assert (above d (lk :: inorder (Node K lr k r))) as Hab.
      { constructor; [exact Hlt2|]. simpl. unfold above. rewrite Forall_app. split.
        - apply (above_trans d lk); assumption.
        - constructor; [exact Hlt|]. apply (above_trans d k); assumption. }
      destruct ll as [|a b c].
      * apply finish_side; auto; [intros; apply below_nil|intros; lia].
      * apply IH; [simpl in *; lia|discriminate|exact Hbll|exact HL|].
        apply above_inR_cons; assumption.
    + (* link right, descend into l *)
      apply IH; [simpl in *; lia|discriminate|repeat split; assumption|exact HL|].
      apply above_inR_cons; [|exact HR]. constructor; [exact Hlt|]. apply (above_trans d k); assumption.
  - assert (cmp d k > 0) as Hgt by lia.
    destruct r as [|rl rk rr].
    { apply finish_side; auto; [intros; lia|intros; apply above_nil]. }
    destruct Hbr as (Hbrl & Hbrr & Hrlk & Hrkr).
    assert (above k (inorder rl) /\ cmp k rk < 0 /\ above k (inorder rr)) as (Hk1 & Hk2 & Hk3).
    { simpl in Hkr. unfold above in Hkr. rewrite Forall_app in Hkr. destruct Hkr as [A B]. inversion B; subst. repeat split; assumption. }
    destruct (Z.gtb_spec (cmp d rk) 0) as [Hgt2'|Hle2]; [assert (cmp d rk > 0) as Hgt2 by lia|].
    + assert (below d (inorder (Node K l k rl) ++ [rk])) as Hbe.
      { unfold below. rewrite Forall_app. split; [|constructor; [exact Hgt2|constructor]]. simpl. rewrite Forall_app. split.
        - apply (below_trans d k); assumption.
        - constructor; [exact Hgt|]. apply (below_trans d rk); assumption. }
      destruct rr as [|a b c].
      * apply finish_side; auto; [intros; lia|intros; apply above_nil].
      * apply IH; [simpl in *; lia|discriminate|exact Hbrr| |exact HR].
        apply below_inL_snoc; assumption.
    + apply IH; [simpl in *; lia|discriminate|repeat split; assumption| |exact HR].
      apply below_inL_snoc; [exact HL|]. unfold below. rewrite Forall_app. split; [|constructor; [exact Hgt|constructor]].
      apply (below_trans d k); assumption.
Qed.
End R.
