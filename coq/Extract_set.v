Require Import SetOps.
Require Extraction. Require Import ExtrOcamlBasic.
Extraction "set_model.ml" run step init.
