(* C17, behavioural form: a client announced after a reload is treated, step by step, exactly as by a daemon freshly
   started on the same file -- up to the order of the query lines inside one step (they come out in slot order, and the
   slot numbering of a reloaded daemon differs from that of a fresh one) and up to the serial inside routing tags.
   Route: everything the per-request functions read of the slot vector is the list of CONFIGURED (slot, name, type)
   triples (ReloadEq.triples).  Two triple lists that carry the same (name, type) pairs under different slot numbers
   are related by TrRel; two requests are related by ReqEq when they agree on every field but the serial and the four
   slot masks, and the masks agree bit for bit THROUGH the slot correspondence (and have no bit outside the configured
   slots).  Each function of the request is shown to preserve the relation (qpass and cont through a closed form that
   does not depend on the order of the triples).
   Main results (all closed under the global context):
   - newcomer_after_reload_strong / newcomer_after_reload_is_treated_as_by_fresh_daemon: the history of the newcomer alone;
   - newcomer_after_reload_interleaved: the same with the events of any other clients interleaved on the reloaded daemon;
   - ci_distinct_needed: the added hypothesis (no two configured service names differ only by letter case) cannot be
     dropped: with services "Foo" and "foo" the class verdict depends on the slot order, hence on the daemon's past. *)
From Coq Require Import List NArith ZArith Bool Strings.Byte Strings.String Lia Permutation.
Import ListNotations.
Require Import Iauth Mon01 Stray Local ReloadEq.
Local Open Scope list_scope.
Local Open Scope N_scope.

Ltac rproj := cbn [cid ser addr port raddr f_host f_ident f_nick f_user f_pass f_empty f_tout f_sdone holds soft host cliu authu nick real acct hh ho sent refm more okm pw timer].

(* ====================================================================================================== *)
(* ---------- small generic facts ---------- *)
Lemma beq_true a b : beq a b = true <-> a = b.
Proof. unfold beq. split; [apply Byte.byte_dec_bl|intros ->; apply Byte.byte_dec_lb; reflexivity]. Qed.

Lemma ci_eq_lower a : forall b, ci_eq a b = true <-> map lower a = map lower b.
Proof.
  induction a as [|x a IH]; intros [|y b]; cbn [ci_eq map]; try (split; discriminate); [tauto|].
  rewrite andb_true_iff, IH, beq_true. split; [intros [H1 H2]; congruence|intros E; inversion E; auto].
Qed.
Lemma ci_eq_sym a b : ci_eq a b = true -> ci_eq b a = true.
Proof. rewrite !ci_eq_lower. auto. Qed.
Lemma ci_eq_trans a b c : ci_eq a b = true -> ci_eq b c = true -> ci_eq a c = true.
Proof. rewrite !ci_eq_lower. congruence. Qed.

Lemma bool_eq_iff (a b : bool) : (a = true <-> b = true) -> a = b.
Proof. destruct a, b; intros [H1 H2]; try reflexivity; [symmetry; apply H1; reflexivity|apply H2; reflexivity]. Qed.

Lemma nodup_map_inj {A B} (f : A -> B) l x y : NoDup (map f l) -> In x l -> In y l -> f x = f y -> x = y.
Proof.
  induction l as [|z l IH]; cbn [map In]; [tauto|]. intros ND Hx Hy E. inversion ND as [|? ? Hn Hr]; subst.
  destruct Hx as [Hx|Hx], Hy as [Hy|Hy]; subst.
  - reflexivity.
  - exfalso. apply Hn. rewrite E. apply in_map. exact Hy.
  - exfalso. apply Hn. rewrite <- E. apply in_map. exact Hx.
  - apply IH; assumption.
Qed.

Lemma nodup_map_filter {A B} (f : A -> B) p l : NoDup (map f l) -> NoDup (map f (filter p l)).
Proof.
  induction l as [|z l IH]; cbn [map filter]; intros ND; [constructor|]. inversion ND as [|? ? Hn Hr]; subst.
  destruct (p z); cbn [map]; [|apply IH; exact Hr]. constructor; [|apply IH; exact Hr].
  intros H. apply Hn. apply in_map_iff in H as (x & E & Hx). apply filter_In in Hx as [Hx _]. rewrite <- E. apply in_map. exact Hx.
Qed.

Lemma setbit_nz m i : (N.setbit m i =? 0) = false.
Proof.
  apply N.eqb_neq. intros E. pose proof (N.setbit_eq m i) as H. rewrite E, N.bits_0 in H. discriminate.
Qed.

Definition isnil {A} (l : list A) : bool := match l with [] => true | _ => false end.
Definition setbits (m : N) (l : list N) : N := fold_left N.setbit l m.
Definition clearbits (m : N) (l : list N) : N := fold_left N.clearbit l m.

Lemma setbits_iff l : forall m i, N.testbit (setbits m l) i = true <-> N.testbit m i = true \/ In i l.
Proof.
  induction l as [|a l IH]; intros m i; cbn [setbits fold_left In]; [tauto|]. fold (setbits (N.setbit m a) l).
  rewrite IH, N.setbit_iff. split; [intros [[H|H]|H]|intros [H|[H|H]]]; auto.
Qed.
Lemma clearbits_iff l : forall m i, N.testbit (clearbits m l) i = true <-> N.testbit m i = true /\ ~ In i l.
Proof.
  induction l as [|a l IH]; intros m i; cbn [clearbits fold_left In]; [tauto|]. fold (clearbits (N.clearbit m a) l).
  rewrite IH, N.clearbit_iff. tauto.
Qed.

(* ====================================================================================================== *)
(* ---------- configured triples ---------- *)
Definition tri := (N * str * stype)%type.
Definition tslot (x : tri) : N := fst (fst x).
Definition tname (x : tri) : str := snd (fst x).
Definition ttype (x : tri) : stype := snd x.
Definition tnt (x : tri) : str * stype := (snd (fst x), snd x).

Lemma triples_ge ss : forall slot i, In i (map tslot (triples ss slot)) -> slot <= i.
Proof.
  induction ss as [|[s|] rest IH]; intros slot i; cbn [triples]; [intros []| |].
  - destruct (s_conf s); cbn [map In tslot fst]; [intros [H|H]; [lia|]|intros H]; apply IH in H; lia.
  - intros H. apply IH in H. lia.
Qed.

Lemma triples_nodup ss : forall slot, NoDup (map tslot (triples ss slot)).
Proof.
  induction ss as [|[s|] rest IH]; intros slot; cbn [triples]; [constructor| |apply IH].
  destruct (s_conf s); cbn [map tslot fst]; [|apply IH]. constructor; [|apply IH].
  intros H. apply triples_ge in H. lia.
Qed.

Lemma triples_view ss slot : map tnt (triples ss slot) = view ss.
Proof. apply view_triples. Qed.

Lemma triples_names ss slot : map tname (triples ss slot) = map fst (view ss).
Proof. rewrite <- (triples_view ss slot), map_map. reflexivity. Qed.

(* reference-count effects that land on configured slots leave the triples alone *)
Lemma triples_bump ss : forall slot target d,
  In target (map tslot (triples ss slot)) -> triples (bump ss slot target d) slot = triples ss slot.
Proof.
  induction ss as [|o rest IH]; intros slot target d H; cbn [bump]; [reflexivity|].
  destruct (slot =? target) eqn:E.
  - apply N.eqb_eq in E. subst target. destruct o as [s|]; [|reflexivity].
    destruct (s_conf s) eqn:C.
    + cbn [negb]. rewrite andb_false_r. cbn [andb triples s_conf s_name s_type]. rewrite C. reflexivity.
    + cbn [triples] in H. rewrite C in H. apply triples_ge in H. lia.
  - apply N.eqb_neq in E. cbn [triples] in *. destruct o as [s|].
    + destruct (s_conf s); [cbn [map In tslot fst] in H; destruct H as [H|H]; [contradiction|]|]; rewrite (IH _ _ _ H); reflexivity.
    + rewrite (IH _ _ _ H). reflexivity.
Qed.

Definition EffOk (tr : list tri) (efs : list eff) : Prop := Forall (fun e => In (fst e) (map tslot tr)) efs.

Lemma triples_apply_effs efs : forall ss, EffOk (triples ss 0) efs -> triples (apply_effs ss efs) 0 = triples ss 0.
Proof.
  unfold apply_effs, EffOk. induction efs as [|e efs IH]; intros ss H; cbn [fold_left]; [reflexivity|].
  inversion H as [|? ? He Hr]; subst.
  rewrite IH; [apply triples_bump; exact He|]. rewrite triples_bump by exact He. exact Hr.
Qed.

(* ====================================================================================================== *)
(* ---------- the query pass in closed form ---------- *)
Definition upd (r : req) (sf : Z) (se rf mo ok : N) : req :=
  {| cid := cid r; ser := ser r; addr := addr r; port := port r; raddr := raddr r;
     f_host := f_host r; f_ident := f_ident r; f_nick := f_nick r; f_user := f_user r; f_pass := f_pass r; f_empty := f_empty r; f_tout := f_tout r; f_sdone := f_sdone r;
     holds := holds r; soft := sf; host := host r; cliu := cliu r; authu := authu r; nick := nick r; real := real r; acct := acct r;
     hh := hh r; ho := ho r; sent := se; refm := rf; more := mo; okm := ok; pw := pw r; timer := timer r |}.

Definition hitf (ispw : bool) (r : req) (x : tri) : bool := negb (skip_query (ttype x) (tslot x) ispw r).
Definition qs (l : list N) (r : req) : req := fold_left queried l r.

Lemma skip_query_queried t i ispw r slot : i <> slot -> skip_query t i ispw (queried r slot) = skip_query t i ispw r.
Proof.
  intros H. unfold skip_query. change (prereq_ok t (queried r slot)) with (prereq_ok t r).
  change (pw (queried r slot)) with (pw r). change (sent (queried r slot)) with (N.setbit (sent r) slot).
  rewrite N.setbit_neq by congruence. reflexivity.
Qed.

Lemma qpass_t_closed tr : forall ispw r outs efs, NoDup (map tslot tr) ->
  qpass_t tr ispw r outs efs =
  (qs (map tslot (filter (hitf ispw r) tr)) r,
   outs ++ flat_map (fun x => query_lines (tname x) (ttype x) r) (filter (hitf ispw r) tr),
   efs ++ map (fun x => (tslot x, 1%Z)) (filter (hitf ispw r) tr)).
Proof.
  induction tr as [|[[slot n] t] rest IH]; intros ispw r outs efs ND; cbn [qpass_t filter].
  - cbn [map flat_map qs fold_left]. rewrite !app_nil_r. reflexivity.
  - inversion ND as [|? ? Hn Hr]; subst. cbn [tslot fst] in Hn.
    assert (hitf ispw r (slot, n, t) = negb (skip_query t slot ispw r)) as -> by reflexivity.
    destruct (skip_query t slot ispw r) eqn:E; cbn [negb].
    + apply IH. exact Hr.
    + rewrite IH by exact Hr.
      assert (filter (hitf ispw (queried r slot)) rest = filter (hitf ispw r) rest) as ->.
      { apply filter_ext_in. intros x Hx. unfold hitf. rewrite skip_query_queried; [reflexivity|].
        intros Ex. apply Hn. rewrite <- Ex. apply in_map. exact Hx. }
      cbn [map flat_map tslot tname ttype fst snd qs fold_left]. rewrite <- !app_assoc. reflexivity.
Qed.

Lemma qs_spec l : forall r,
  qs l r = upd r (if (refm r =? 0) && negb (isnil l) then (soft r + 1)%Z else soft r) (setbits (sent r) l) (setbits (refm r) l) (more r) (okm r).
Proof.
  induction l as [|a l IH]; intros r; cbn [qs fold_left setbits isnil negb].
  - rewrite andb_false_r. destruct r; reflexivity.
  - fold (qs l (queried r a)). rewrite IH. cbn [queried refm soft sent more okm]. rewrite setbit_nz. cbn [andb].
    rewrite andb_true_r. fold (setbits (N.setbit (sent r) a) l). fold (setbits (N.setbit (refm r) a) l). reflexivity.
Qed.

(* ---------- the continuation pass in closed form ---------- *)
Definition cs (l : list N) (r : req) : req := fold_left continued l r.
Definition chit (r : req) (x : tri) : bool := N.testbit (more r) (tslot x).

Lemma cont_t_closed tr : forall t r outs efs, NoDup (map tslot tr) ->
  cont_t tr t r outs efs =
  (cs (map tslot (filter (chit r) tr)) r,
   outs ++ map (fun x => xline (tname x) r (S_ "MORE " ++ t)) (filter (chit r) tr),
   efs ++ map (fun x => (tslot x, 1%Z)) (filter (chit r) tr)).
Proof.
  induction tr as [|[[slot n] ty] rest IH]; intros t r outs efs ND; cbn [cont_t filter].
  - cbn [map cs fold_left]. rewrite !app_nil_r. reflexivity.
  - inversion ND as [|? ? Hn Hr]; subst. cbn [tslot fst] in Hn.
    assert (chit r (slot, n, ty) = N.testbit (more r) slot) as -> by reflexivity.
    destruct (N.testbit (more r) slot) eqn:E.
    + rewrite IH by exact Hr.
      assert (filter (chit (continued r slot)) rest = filter (chit r) rest) as ->.
      { apply filter_ext_in. intros x Hx. unfold chit. change (more (continued r slot)) with (N.clearbit (more r) slot).
        rewrite N.clearbit_neq; [reflexivity|]. intros Ex. apply Hn. rewrite Ex. apply in_map. exact Hx. }
      cbn [map tslot tname fst snd cs fold_left]. rewrite <- !app_assoc. reflexivity.
    + apply IH. exact Hr.
Qed.

Lemma cs_spec l : forall r,
  cs l r = upd r (if (refm r =? 0) && negb (isnil l) then (soft r + 1)%Z else soft r) (sent r) (setbits (refm r) l) (clearbits (more r) l) (okm r).
Proof.
  induction l as [|a l IH]; intros r; cbn [cs fold_left setbits clearbits isnil negb].
  - rewrite andb_false_r. destruct r; reflexivity.
  - fold (cs l (continued r a)). rewrite IH. cbn [continued refm soft sent more okm]. rewrite setbit_nz. cbn [andb].
    rewrite andb_true_r. fold (setbits (N.setbit (refm r) a) l). fold (clearbits (N.clearbit (more r) a) l). reflexivity.
Qed.

(* ====================================================================================================== *)
(* ---------- what "the same lines" means for the output of one step ---------- *)
Definition isQ (o : out) : Prop := match o with OX _ _ _ _ => True | _ => False end.
Definition nonQ (o : out) : Prop := match o with OX _ _ _ _ => False | _ => True end.

(* both outputs are  <query lines> ++ <other lines>;  the other lines are identical (and in the same order), the query
   lines are the same up to their order and the serial in the routing tag *)
Definition OutEq (o1 o2 : list out) : Prop :=
  exists q1 q2 g, o1 = q1 ++ g /\ o2 = q2 ++ g /\ Forall isQ q1 /\ Forall isQ q2 /\ Forall nonQ g /\
                  Permutation (map eser q1) (map eser q2).

Lemma outeq_perm o1 o2 : OutEq o1 o2 -> Permutation (map eser o1) (map eser o2).
Proof. intros (q1 & q2 & g & -> & -> & _ & _ & _ & P). rewrite !map_app. apply Permutation_app_tail. exact P. Qed.
Lemma outeq_nonq g : Forall nonQ g -> OutEq g g.
Proof. intros H. exists [], [], g. repeat split; try constructor. exact H. Qed.
Lemma outeq_q q1 q2 : Forall isQ q1 -> Forall isQ q2 -> Permutation (map eser q1) (map eser q2) -> OutEq q1 q2.
Proof. intros H1 H2 P. exists q1, q2, []. rewrite !app_nil_r. repeat split; try assumption. constructor. Qed.
Lemma outeq_app_tail o1 o2 g : OutEq o1 o2 -> Forall nonQ g -> OutEq (o1 ++ g) (o2 ++ g).
Proof.
  intros (q1 & q2 & g0 & -> & -> & A & B & C & P) H. exists q1, q2, (g0 ++ g). rewrite <- !app_assoc.
  repeat split; try assumption. apply Forall_app. split; assumption.
Qed.

Lemma query_lines_isq n t r : Forall isQ (query_lines n t r).
Proof. unfold query_lines. apply Forall_app. split; [destruct t|destruct (nonempty (pw r)); [destruct t|]]; repeat constructor. Qed.

Lemma classify_nonq ss rs r : Forall nonQ (fst (classify ss rs r)).
Proof.
  induction rs as [|ru rest IH]; cbn [classify]; [constructor|]. destruct (rule_matches ss ru r); [|exact IH]. cbn [fst].
  match goal with |- context [if ?b then _ else _] => destruct b end; repeat constructor.
Qed.
Lemma gate_nonq c tb r : Forall nonQ (snd (gate c tb r)).
Proof.
  unfold gate. destruct ((holds r =? 0)%Z && complete c r); [|constructor].
  destruct ((soft r =? 0)%Z || f_tout r).
  - pose proof (classify_nonq (slots tb) (rules tb) r) as H. destruct (classify (slots tb) (rules tb) r) as [extra k]. cbn [fst snd] in *.
    apply Forall_app. split; [exact H|]. destruct (acct r); repeat constructor.
  - destruct (negb (f_sdone r)); repeat constructor.
Qed.

(* ====================================================================================================== *)
(* ---------- two triple lists carrying the same services under different slot numbers ---------- *)
Definition CiU (tr : list tri) : Prop :=
  forall x y nm, In x tr -> In y tr -> ci_eq nm (tname x) = true -> ci_eq nm (tname y) = true -> x = y.

Record TrRel (tr1 tr2 : list tri) : Prop := {
  tr_s1 : NoDup (map tslot tr1);
  tr_s2 : NoDup (map tslot tr2);
  tr_n1 : NoDup (map tname tr1);
  tr_n2 : NoDup (map tname tr2);
  tr_eq : forall n t, In (n, t) (map tnt tr1) <-> In (n, t) (map tnt tr2);
  tr_c1 : CiU tr1;
  tr_c2 : CiU tr2 }.

Lemma trrel_sym tr1 tr2 : TrRel tr1 tr2 -> TrRel tr2 tr1.
Proof. intros [a b c d e f g]. constructor; auto. intros n t. symmetry. apply e. Qed.

Lemma in_tnt tr n t : In (n, t) (map tnt tr) <-> exists i, In (i, n, t) tr.
Proof.
  rewrite in_map_iff. split.
  - intros ([[i n'] t'] & E & H). cbn [tnt fst snd] in E. inversion E; subst. exists i. exact H.
  - intros (i & H). exists (i, n, t). split; [reflexivity|exact H].
Qed.

Section Rel.
Variables tr1 tr2 : list tri.
Hypothesis TR : TrRel tr1 tr2.

Definition corr (i1 i2 : N) : Prop := exists n t, In (i1, n, t) tr1 /\ In (i2, n, t) tr2.

Lemma partner12 i n t : In (i, n, t) tr1 -> exists j, In (j, n, t) tr2.
Proof. intros H. apply in_tnt. apply (tr_eq _ _ TR). apply in_tnt. exists i. exact H. Qed.
Lemma partner21 j n t : In (j, n, t) tr2 -> exists i, In (i, n, t) tr1.
Proof. intros H. apply in_tnt. apply (tr_eq _ _ TR). apply in_tnt. exists j. exact H. Qed.

Lemma corr_total1 i1 : In i1 (map tslot tr1) -> exists i2, corr i1 i2.
Proof.
  intros H. apply in_map_iff in H as ([[i n] t] & E & H). cbn [tslot fst] in E. subst i.
  destruct (partner12 _ _ _ H) as [j Hj]. exists j, n, t. auto.
Qed.
Lemma corr_total2 i2 : In i2 (map tslot tr2) -> exists i1, corr i1 i2.
Proof.
  intros H. apply in_map_iff in H as ([[i n] t] & E & H). cbn [tslot fst] in E. subst i.
  destruct (partner21 _ _ _ H) as [j Hj]. exists j, n, t. auto.
Qed.
Lemma corr_in1 i1 i2 : corr i1 i2 -> In i1 (map tslot tr1).
Proof. intros (n & t & H & _). apply (in_map tslot) in H. exact H. Qed.
Lemma corr_in2 i1 i2 : corr i1 i2 -> In i2 (map tslot tr2).
Proof. intros (n & t & _ & H). apply (in_map tslot) in H. exact H. Qed.

Lemma same_slot1 i n t n' t' : In (i, n, t) tr1 -> In (i, n', t') tr1 -> n = n' /\ t = t'.
Proof. intros H1 H2. pose proof (nodup_map_inj tslot tr1 _ _ (tr_s1 _ _ TR) H1 H2 eq_refl) as E. inversion E. auto. Qed.
Lemma same_slot2 i n t n' t' : In (i, n, t) tr2 -> In (i, n', t') tr2 -> n = n' /\ t = t'.
Proof. intros H1 H2. pose proof (nodup_map_inj tslot tr2 _ _ (tr_s2 _ _ TR) H1 H2 eq_refl) as E. inversion E. auto. Qed.
Lemma same_name1 i n t i' t' : In (i, n, t) tr1 -> In (i', n, t') tr1 -> i = i' /\ t = t'.
Proof. intros H1 H2. pose proof (nodup_map_inj tname tr1 _ _ (tr_n1 _ _ TR) H1 H2 eq_refl) as E. inversion E. auto. Qed.
Lemma same_name2 i n t i' t' : In (i, n, t) tr2 -> In (i', n, t') tr2 -> i = i' /\ t = t'.
Proof. intros H1 H2. pose proof (nodup_map_inj tname tr2 _ _ (tr_n2 _ _ TR) H1 H2 eq_refl) as E. inversion E. auto. Qed.

Lemma corr_inj i1 i2 j1 j2 : corr i1 i2 -> corr j1 j2 -> (i1 = j1 <-> i2 = j2).
Proof.
  intros (n & t & A1 & A2) (n' & t' & B1 & B2). split; intros E; subst.
  - destruct (same_slot1 _ _ _ _ _ A1 B1) as [-> ->]. destruct (same_name2 _ _ _ _ _ A2 B2) as [E _]. exact E.
  - destruct (same_slot2 _ _ _ _ _ A2 B2) as [-> ->]. destruct (same_name1 _ _ _ _ _ A1 B1) as [E _]. exact E.
Qed.

(* ---------- masks that agree through the correspondence ---------- *)
Definition supp (tr : list tri) (m : N) : Prop := forall i, N.testbit m i = true -> In i (map tslot tr).
Record MaskEq (m1 m2 : N) : Prop := {
  me_c : forall i1 i2, corr i1 i2 -> N.testbit m1 i1 = N.testbit m2 i2;
  me_1 : supp tr1 m1;
  me_2 : supp tr2 m2 }.

Lemma maskeq_0 : MaskEq 0 0.
Proof. constructor; [intros; rewrite !N.bits_0; reflexivity| |]; intros i H; rewrite N.bits_0 in H; discriminate. Qed.

Lemma maskeq_zero m1 m2 : MaskEq m1 m2 -> (m1 =? 0) = (m2 =? 0).
Proof.
  intros [C S1 S2]. destruct (m1 =? 0) eqn:E1, (m2 =? 0) eqn:E2; try reflexivity; exfalso.
  - apply N.eqb_eq in E1. apply N.eqb_neq in E2. apply E2. apply N.bits_inj_0. intros n.
    destruct (N.testbit m2 n) eqn:B; [|reflexivity]. destruct (corr_total2 n (S2 n B)) as [i Hi].
    rewrite <- (C i n Hi), E1, N.bits_0 in B. discriminate.
  - apply N.eqb_eq in E2. apply N.eqb_neq in E1. apply E1. apply N.bits_inj_0. intros n.
    destruct (N.testbit m1 n) eqn:B; [|reflexivity]. destruct (corr_total1 n (S1 n B)) as [i Hi].
    rewrite (C n i Hi), E2, N.bits_0 in B. discriminate.
Qed.

Lemma maskeq_setbit m1 m2 a b : MaskEq m1 m2 -> corr a b -> MaskEq (N.setbit m1 a) (N.setbit m2 b).
Proof.
  intros [C S1 S2] Hab. constructor.
  - intros i1 i2 Hi. apply bool_eq_iff. rewrite !N.setbit_iff, (corr_inj _ _ _ _ Hab Hi), (C _ _ Hi). tauto.
  - intros i H. apply N.setbit_iff in H as [H|H]; [subst i; exact (corr_in1 _ _ Hab)|apply S1; exact H].
  - intros i H. apply N.setbit_iff in H as [H|H]; [subst i; exact (corr_in2 _ _ Hab)|apply S2; exact H].
Qed.

Lemma maskeq_clearbit m1 m2 a b : MaskEq m1 m2 -> corr a b -> MaskEq (N.clearbit m1 a) (N.clearbit m2 b).
Proof.
  intros [C S1 S2] Hab. constructor.
  - intros i1 i2 Hi. apply bool_eq_iff. rewrite !N.clearbit_iff, (corr_inj _ _ _ _ Hab Hi), (C _ _ Hi). tauto.
  - intros i H. apply N.clearbit_iff in H as [H _]. apply S1; exact H.
  - intros i H. apply N.clearbit_iff in H as [H _]. apply S2; exact H.
Qed.

(* slot lists that agree through the correspondence *)
Definition LRel (l1 l2 : list N) : Prop :=
  (forall i1 i2, corr i1 i2 -> (In i1 l1 <-> In i2 l2)) /\ incl l1 (map tslot tr1) /\ incl l2 (map tslot tr2).

Lemma lrel_isnil l1 l2 : LRel l1 l2 -> isnil l1 = isnil l2.
Proof.
  intros (C & I1 & I2). destruct l1 as [|a l1], l2 as [|b l2]; try reflexivity; exfalso.
  - destruct (corr_total2 b (I2 b (or_introl eq_refl))) as [i Hi]. apply (C _ _ Hi). left; reflexivity.
  - destruct (corr_total1 a (I1 a (or_introl eq_refl))) as [i Hi]. apply (C _ _ Hi). left; reflexivity.
Qed.

Lemma maskeq_setbits m1 m2 l1 l2 : MaskEq m1 m2 -> LRel l1 l2 -> MaskEq (setbits m1 l1) (setbits m2 l2).
Proof.
  intros [C S1 S2] (L & I1 & I2). constructor.
  - intros i1 i2 Hi. apply bool_eq_iff. rewrite !setbits_iff, (C _ _ Hi), (L _ _ Hi). tauto.
  - intros i H. apply setbits_iff in H as [H|H]; [apply S1; exact H|apply I1; exact H].
  - intros i H. apply setbits_iff in H as [H|H]; [apply S2; exact H|apply I2; exact H].
Qed.

Lemma maskeq_clearbits m1 m2 l1 l2 : MaskEq m1 m2 -> LRel l1 l2 -> MaskEq (clearbits m1 l1) (clearbits m2 l2).
Proof.
  intros [C S1 S2] (L & I1 & I2). constructor.
  - intros i1 i2 Hi. apply bool_eq_iff. rewrite !clearbits_iff, (C _ _ Hi), (L _ _ Hi). tauto.
  - intros i H. apply clearbits_iff in H as [H _]. apply S1; exact H.
  - intros i H. apply clearbits_iff in H as [H _]. apply S2; exact H.
Qed.

(* filters that agree through the correspondence select corresponding slots and the same (name, type) pairs *)
Definition FRel (p1 p2 : tri -> bool) : Prop :=
  forall i1 i2 n t, In (i1, n, t) tr1 -> In (i2, n, t) tr2 -> p1 (i1, n, t) = p2 (i2, n, t).

Lemma filt_lrel p1 p2 : FRel p1 p2 -> LRel (map tslot (filter p1 tr1)) (map tslot (filter p2 tr2)).
Proof.
  intros F. split; [|split].
  - intros i1 i2 (n & t & A1 & A2). rewrite !in_map_iff. split.
    + intros ([[i n'] t'] & E & H). cbn [tslot fst] in E. subst i. apply filter_In in H as [H P].
      destruct (same_slot1 _ _ _ _ _ A1 H) as [<- <-]. exists (i2, n, t). split; [reflexivity|].
      apply filter_In. split; [exact A2|]. rewrite <- (F _ _ _ _ A1 A2). exact P.
    + intros ([[i n'] t'] & E & H). cbn [tslot fst] in E. subst i. apply filter_In in H as [H P].
      destruct (same_slot2 _ _ _ _ _ A2 H) as [<- <-]. exists (i1, n, t). split; [reflexivity|].
      apply filter_In. split; [exact A1|]. rewrite (F _ _ _ _ A1 A2). exact P.
  - intros i H. apply in_map_iff in H as (x & E & H). apply filter_In in H as [H _]. rewrite <- E. apply in_map. exact H.
  - intros i H. apply in_map_iff in H as (x & E & H). apply filter_In in H as [H _]. rewrite <- E. apply in_map. exact H.
Qed.

Lemma nodup_tnt tr p : NoDup (map tname tr) -> NoDup (map tnt (filter p tr)).
Proof.
  intros H. apply (NoDup_map_inv fst). rewrite map_map. change (fun x => fst (tnt x)) with tname.
  apply nodup_map_filter. exact H.
Qed.

Lemma filt_perm p1 p2 : FRel p1 p2 -> Permutation (map tnt (filter p1 tr1)) (map tnt (filter p2 tr2)).
Proof.
  intros F. apply NoDup_Permutation; [apply nodup_tnt, (tr_n1 _ _ TR)|apply nodup_tnt, (tr_n2 _ _ TR)|].
  intros [n t]. rewrite !in_tnt. split.
  - intros (i & H). apply filter_In in H as [H P]. destruct (partner12 _ _ _ H) as [j Hj]. exists j.
    apply filter_In. split; [exact Hj|]. rewrite <- (F _ _ _ _ H Hj). exact P.
  - intros (j & H). apply filter_In in H as [H P]. destruct (partner21 _ _ _ H) as [i Hi]. exists i.
    apply filter_In. split; [exact Hi|]. rewrite (F _ _ _ _ Hi H). exact P.
Qed.

(* ---------- requests that agree up to the serial and, through the correspondence, on the masks ---------- *)
Definition setm (r : req) (sr : N) (a b c d : N) : req :=
  {| cid := cid r; ser := sr; addr := addr r; port := port r; raddr := raddr r;
     f_host := f_host r; f_ident := f_ident r; f_nick := f_nick r; f_user := f_user r; f_pass := f_pass r; f_empty := f_empty r; f_tout := f_tout r; f_sdone := f_sdone r;
     holds := holds r; soft := soft r; host := host r; cliu := cliu r; authu := authu r; nick := nick r; real := real r; acct := acct r;
     hh := hh r; ho := ho r; sent := a; refm := b; more := c; okm := d; pw := pw r; timer := timer r |}.

Definition ReqEq (r1 r2 : req) : Prop :=
  exists sr a b c d, r2 = setm r1 sr a b c d /\
    MaskEq (sent r1) a /\ MaskEq (refm r1) b /\ MaskEq (more r1) c /\ MaskEq (okm r1) d.

Definition ORel (o1 o2 : option req) : Prop :=
  match o1, o2 with Some r1, Some r2 => ReqEq r1 r2 | None, None => True | _, _ => False end.

Lemma query_lines_setm n t r sr a b c d : query_lines n t (setm r sr a b c d) = map (oser sr) (query_lines n t r).
Proof.
  unfold query_lines. rewrite map_app. f_equal; [destruct t; reflexivity|].
  change (pw (setm r sr a b c d)) with (pw r). destruct (nonempty (pw r)); [|reflexivity]. destruct t; reflexivity.
Qed.

Lemma flat_map_tnt {B} (f : str -> stype -> list B) l :
  flat_map (fun x : tri => f (tname x) (ttype x)) l = flat_map (fun p => f (fst p) (snd p)) (map tnt l).
Proof. induction l as [|x l IH]; cbn [flat_map map]; [reflexivity|]. rewrite IH. reflexivity. Qed.

Lemma map_flat_map {A B C} (g : B -> C) (f : A -> list B) l : map g (flat_map f l) = flat_map (fun x => map g (f x)) l.
Proof. induction l as [|x l IH]; cbn [flat_map map]; [reflexivity|]. rewrite map_app, IH. reflexivity. Qed.

Definition Res3 (x1 x2 : req * list out * list eff) : Prop :=
  ReqEq (fst (fst x1)) (fst (fst x2)) /\ OutEq (snd (fst x1)) (snd (fst x2)) /\
  EffOk tr1 (snd x1) /\ EffOk tr2 (snd x2).

Lemma effok_filter tr p : EffOk tr (map (fun x => (tslot x, 1%Z)) (filter p tr)).
Proof.
  unfold EffOk. rewrite Forall_forall. intros e H. apply in_map_iff in H as (x & <- & H). cbn [fst].
  apply filter_In in H as [H _]. apply in_map. exact H.
Qed.

Lemma hitf_frel ispw r sr a b c d : MaskEq (sent r) a -> FRel (hitf ispw r) (hitf ispw (setm r sr a b c d)).
Proof.
  intros M i1 i2 n t H1 H2. unfold hitf, skip_query. cbn [ttype tslot fst snd].
  change (prereq_ok t (setm r sr a b c d)) with (prereq_ok t r). change (pw (setm r sr a b c d)) with (pw r).
  change (sent (setm r sr a b c d)) with a. rewrite (me_c _ _ M i1 i2); [reflexivity|]. exists n, t. auto.
Qed.

Theorem qpass_rel ispw r1 r2 : ReqEq r1 r2 -> Res3 (qpass_t tr1 ispw r1 [] []) (qpass_t tr2 ispw r2 [] []).
Proof.
  intros (sr & a & b & c & d & -> & Ma & Mb & Mc & Md).
  rewrite (qpass_t_closed tr1) by exact (tr_s1 _ _ TR). rewrite (qpass_t_closed tr2) by exact (tr_s2 _ _ TR).
  pose proof (hitf_frel ispw r1 sr a b c d Ma) as F.
  pose proof (filt_lrel _ _ F) as L. pose proof (filt_perm _ _ F) as P.
  unfold Res3. cbn [fst snd app]. split; [|split; [|split; apply effok_filter]].
  - set (l1 := map tslot (filter _ tr1)) in *. set (l2 := map tslot (filter _ tr2)) in *.
    rewrite !qs_spec. exists sr. do 4 eexists. split; [|cbn [upd sent refm more okm]; split; [|split; [|split]]].
    + unfold upd, setm. rproj. rewrite <- (maskeq_zero _ _ Mb), <- (lrel_isnil _ _ L). reflexivity.
    + apply maskeq_setbits; assumption.
    + apply maskeq_setbits; assumption.
    + exact Mc.
    + exact Md.
  - apply outeq_q; [apply Forall_flat_map, Forall_forall; intros; apply query_lines_isq..|].
    rewrite !(flat_map_tnt (fun n t => query_lines n t _)). rewrite !map_flat_map.
    eapply Permutation_trans; [apply Permutation_flat_map; exact P|].
    match goal with |- Permutation ?x ?y => replace y with x; [apply Permutation_refl|] end.
    apply flat_map_ext. intros [n t]. cbn [fst snd]. rewrite query_lines_setm, eser_oser. reflexivity.
Qed.

Lemma chit_frel r sr a b c d : MaskEq (more r) c -> FRel (chit r) (chit (setm r sr a b c d)).
Proof.
  intros M i1 i2 n t H1 H2. unfold chit. cbn [tslot fst]. change (more (setm r sr a b c d)) with c.
  apply (me_c _ _ M). exists n, t. auto.
Qed.

Theorem cont_rel tx r1 r2 : ReqEq r1 r2 -> Res3 (cont_t tr1 tx r1 [] []) (cont_t tr2 tx r2 [] []).
Proof.
  intros (sr & a & b & c & d & -> & Ma & Mb & Mc & Md).
  rewrite (cont_t_closed tr1) by exact (tr_s1 _ _ TR). rewrite (cont_t_closed tr2) by exact (tr_s2 _ _ TR).
  pose proof (chit_frel r1 sr a b c d Mc) as F.
  pose proof (filt_lrel _ _ F) as L. pose proof (filt_perm _ _ F) as P.
  unfold Res3. cbn [fst snd app]. split; [|split; [|split; apply effok_filter]].
  - set (l1 := map tslot (filter _ tr1)) in *. set (l2 := map tslot (filter _ tr2)) in *.
    rewrite !cs_spec. exists sr. do 4 eexists. split; [|cbn [upd sent refm more okm]; split; [|split; [|split]]].
    + unfold upd, setm. rproj. rewrite <- (maskeq_zero _ _ Mb), <- (lrel_isnil _ _ L). reflexivity.
    + exact Ma.
    + apply maskeq_setbits; assumption.
    + apply maskeq_clearbits; assumption.
    + exact Md.
  - apply outeq_q; [apply Forall_map, Forall_forall; intros; exact I..|].
    assert (forall r l, map eser (map (fun x : tri => xline (tname x) r (S_ "MORE " ++ tx)) l) =
                        map (fun p => OX (fst p) (cid r) 0 (S_ "MORE " ++ tx)) (map tnt l)) as Em.
    { intros r l. rewrite !map_map. apply map_ext. intros x. reflexivity. }
    rewrite !Em. apply Permutation_map. exact P.
Qed.
End Rel.

(* ====================================================================================================== *)
(* ---------- reply routing and the okm test, on triples ---------- *)
Fixpoint find_t (tr : list tri) (name : str) (mask : N) : option (N * stype) :=
  match tr with
  | [] => None
  | x :: rest => if N.testbit mask (tslot x) && seq_eq (tname x) name then Some (tslot x, ttype x) else find_t rest name mask
  end.

Lemma find_slot_t ss : forall slot name mask,
  (forall i, N.testbit mask i = true -> slot <= i -> In i (map tslot (triples ss slot))) ->
  find_slot ss slot name mask = find_t (triples ss slot) name mask.
Proof.
  induction ss as [|[s|] rest IH]; intros slot name mask H; cbn [find_slot triples]; [reflexivity| |].
  - assert (forall i, N.testbit mask i = true -> slot + 1 <= i -> In i (map tslot (triples rest (slot + 1)))) as H'.
    { intros i Hi Hle. specialize (H i Hi). cbn [triples] in H. destruct (s_conf s); [|apply H; lia].
      cbn [map In tslot fst] in H. destruct H as [H|H]; [lia|lia|exact H]. }
    destruct (s_conf s) eqn:C; cbn [find_t tslot tname ttype fst snd].
    + destruct (N.testbit mask slot && seq_eq (s_name s) name); [reflexivity|apply IH; exact H'].
    + destruct (N.testbit mask slot) eqn:B.
      * specialize (H slot B). cbn [triples] in H. rewrite C in H. assert (slot <= slot) as Hle by lia.
        apply H in Hle. apply triples_ge in Hle. lia.
      * cbn [andb]. apply IH; exact H'.
  - apply IH. intros i Hi Hle. apply H; [exact Hi|lia].
Qed.

Lemma find_t_some tr name m i t : find_t tr name m = Some (i, t) -> In (i, name, t) tr /\ N.testbit m i = true.
Proof.
  induction tr as [|[[j n] ty] rest IH]; cbn [find_t tslot tname ttype fst snd]; [discriminate|].
  destruct (N.testbit m j && seq_eq n name) eqn:E.
  - intros H. inversion H; subst. apply andb_true_iff in E as [E1 E2]. apply seq_eq_eq in E2. subst n. split; [left; reflexivity|exact E1].
  - intros H. destruct (IH H) as [A B]. split; [right; exact A|exact B].
Qed.
Lemma find_t_none tr name m : find_t tr name m = None -> forall i t, In (i, name, t) tr -> N.testbit m i = false.
Proof.
  induction tr as [|[[j n] ty] rest IH]; cbn [find_t tslot tname ttype fst snd]; [intros _ i t []|].
  destruct (N.testbit m j && seq_eq n name) eqn:E; [discriminate|]. intros H i t [Hin|Hin].
  - inversion Hin; subst. rewrite (proj2 (seq_eq_eq name name) eq_refl), andb_true_r in E. exact E.
  - exact (IH H i t Hin).
Qed.

Fixpoint xok_t (tr : list tri) (name : str) (ok : N) : bool :=
  match tr with [] => false | x :: rest => if ci_eq name (tname x) then N.testbit ok (tslot x) else xok_t rest name ok end.

Lemma xreply_ok_t ss : forall slot name r, xreply_ok ss slot name r = xok_t (triples ss slot) name (okm r).
Proof.
  induction ss as [|[s|] rest IH]; intros slot name r; cbn [xreply_ok triples]; [reflexivity| |apply IH].
  destruct (s_conf s); cbn [andb xok_t tname tslot fst snd]; [|apply IH].
  destruct (ci_eq name (s_name s)); [reflexivity|apply IH].
Qed.

Lemma xok_t_iff tr name ok : CiU tr ->
  (xok_t tr name ok = true <-> exists x, In x tr /\ ci_eq name (tname x) = true /\ N.testbit ok (tslot x) = true).
Proof.
  induction tr as [|y rest IH]; intros U; cbn [xok_t].
  - split; [discriminate|intros (x & [] & _)].
  - assert (CiU rest) as U' by (intros a b nm Ha Hb; apply U; right; assumption).
    destruct (ci_eq name (tname y)) eqn:E.
    + split; [intros H; exists y; repeat split; [left; reflexivity|exact E|exact H]|].
      intros (x & Hx & Hc & Hb). rewrite (U y x name (or_introl eq_refl) Hx E Hc). exact Hb.
    + rewrite (IH U'). split; intros (x & Hx & Hc & Hb).
      * exists x. repeat split; [right; exact Hx|exact Hc|exact Hb].
      * destruct Hx as [Hx|Hx]; [subst y; congruence|]. exists x. auto.
Qed.

Section Rel2.
Variables tr1 tr2 : list tri.
Hypothesis TR : TrRel tr1 tr2.
Notation corr := (corr tr1 tr2).
Notation MaskEq := (MaskEq tr1 tr2).
Notation ReqEq := (ReqEq tr1 tr2).
Notation ORel := (ORel tr1 tr2).

Lemma find_rel name m1 m2 : MaskEq m1 m2 ->
  match find_t tr1 name m1, find_t tr2 name m2 with
  | Some (i1, t1), Some (i2, t2) => t1 = t2 /\ corr i1 i2
  | None, None => True
  | _, _ => False
  end.
Proof.
  intros [C S1 S2].
  destruct (find_t tr1 name m1) as [[i1 t1]|] eqn:E1, (find_t tr2 name m2) as [[i2 t2]|] eqn:E2.
  - apply find_t_some in E1 as [A1 B1]. apply find_t_some in E2 as [A2 B2].
    destruct (partner12 _ _ TR _ _ _ A1) as [j Hj]. destruct (same_name2 _ _ TR _ _ _ _ _ Hj A2) as [-> ->].
    split; [reflexivity|]. exists name, t2. auto.
  - apply find_t_some in E1 as [A1 B1]. destruct (partner12 _ _ TR _ _ _ A1) as [j Hj].
    pose proof (find_t_none _ _ _ E2 _ _ Hj) as B2. rewrite <- (C i1 j) in B2 by (exists name, t1; auto). congruence.
  - apply find_t_some in E2 as [A2 B2]. destruct (partner21 _ _ TR _ _ _ A2) as [j Hj].
    pose proof (find_t_none _ _ _ E1 _ _ Hj) as B1. rewrite (C j i2) in B1 by (exists name, t2; auto). congruence.
  - exact I.
Qed.

Lemma xok_rel name ok1 ok2 : MaskEq ok1 ok2 -> xok_t tr1 name ok1 = xok_t tr2 name ok2.
Proof.
  intros [C S1 S2]. apply bool_eq_iff. rewrite (xok_t_iff _ _ _ (tr_c1 _ _ TR)), (xok_t_iff _ _ _ (tr_c2 _ _ TR)). split.
  - intros ([[i n] t] & Hx & Hc & Hb). destruct (partner12 _ _ TR _ _ _ Hx) as [j Hj]. exists (j, n, t).
    cbn [tname tslot fst snd] in *. repeat split; [exact Hj|exact Hc|]. rewrite <- (C i j) by (exists n, t; auto). exact Hb.
  - intros ([[j n] t] & Hx & Hc & Hb). destruct (partner21 _ _ TR _ _ _ Hx) as [i Hi]. exists (i, n, t).
    cbn [tname tslot fst snd] in *. repeat split; [exact Hi|exact Hc|]. rewrite (C i j) by (exists n, t; auto). exact Hb.
Qed.

(* ---------- two tables whose configured triples are tr1 and tr2 and whose rules are the same ---------- *)
Variables tb1 tb2 : tabs.
Hypothesis T1 : triples (slots tb1) 0 = tr1.
Hypothesis T2 : triples (slots tb2) 0 = tr2.
Hypothesis RU : rules tb1 = rules tb2.
Variable c : cfg.

Lemma classify_setm rs r sr a b c0 d : MaskEq (okm r) d ->
  classify (slots tb2) rs (setm r sr a b c0 d) = classify (slots tb1) rs r.
Proof.
  intros Md. induction rs as [|ru rest IH]; cbn [classify]; [reflexivity|].
  assert (rule_matches (slots tb2) ru (setm r sr a b c0 d) = rule_matches (slots tb1) ru r) as ->.
  { unfold rule_matches. change (acct (setm r sr a b c0 d)) with (acct r). change (raddr (setm r sr a b c0 d)) with (raddr r).
    change (authu (setm r sr a b c0 d)) with (authu r). change (host (setm r sr a b c0 d)) with (host r).
    destruct (r_xok ru) as [n|]; [|reflexivity]. rewrite !xreply_ok_t, T1, T2. change (okm (setm r sr a b c0 d)) with d.
    rewrite (xok_rel n _ _ Md). reflexivity. }
  destruct (rule_matches (slots tb1) ru r); [reflexivity|exact IH].
Qed.

Lemma gate_setm r sr a b c0 d : MaskEq (okm r) d ->
  gate c tb2 (setm r sr a b c0 d) = let '(ro, g) := gate c tb1 r in (option_map (fun x => setm x sr a b c0 d) ro, g).
Proof.
  intros Md. unfold gate. rewrite <- RU, (classify_setm _ _ _ _ _ _ _ Md).
  change (holds (setm r sr a b c0 d)) with (holds r). change (complete c (setm r sr a b c0 d)) with (complete c r).
  change (soft (setm r sr a b c0 d)) with (soft r). change (f_tout (setm r sr a b c0 d)) with (f_tout r).
  change (f_sdone (setm r sr a b c0 d)) with (f_sdone r). change (acct (setm r sr a b c0 d)) with (acct r).
  destruct ((holds r =? 0)%Z && complete c r); [|reflexivity].
  destruct ((soft r =? 0)%Z || f_tout r).
  - destruct (classify (slots tb1) (rules tb1) r) as [extra k]. reflexivity.
  - destruct (negb (f_sdone r)); reflexivity.
Qed.

Lemma gate_keeps_masks r : match fst (gate c tb1 r) with Some r' => sent r' = sent r /\ refm r' = refm r /\ more r' = more r /\ okm r' = okm r | None => True end.
Proof.
  unfold gate. destruct ((holds r =? 0)%Z && complete c r); [|cbn; auto].
  destruct ((soft r =? 0)%Z || f_tout r); [destruct (classify _ _ r); exact I|].
  destruct (negb (f_sdone r)); cbn; auto.
Qed.

Lemma gate_rel r1 r2 : ReqEq r1 r2 -> ORel (fst (gate c tb1 r1)) (fst (gate c tb2 r2)) /\ snd (gate c tb1 r1) = snd (gate c tb2 r2).
Proof.
  intros (sr & a & b & c0 & d & -> & Ma & Mb & Mc & Md). rewrite (gate_setm _ _ _ _ _ _ Md).
  pose proof (gate_keeps_masks r1) as K. destruct (gate c tb1 r1) as [[r'|] g]; cbn [fst snd option_map ORel] in *; [|auto].
  destruct K as (K1 & K2 & K3 & K4). split; [|reflexivity]. exists sr, a, b, c0, d. rewrite K1, K2, K3, K4. auto.
Qed.

(* results of the per-request functions *)
Definition R3o (x1 x2 : option req * list out * list eff) : Prop :=
  ORel (fst (fst x1)) (fst (fst x2)) /\ OutEq (snd (fst x1)) (snd (fst x2)) /\
  EffOk tr1 (snd x1) /\ EffOk tr2 (snd x2).

Lemma fin_rel ra rb (pre : list out) e1 e2 : ReqEq ra rb -> EffOk tr1 e1 -> EffOk tr2 e2 -> Forall nonQ pre ->
  R3o (let '(r', g) := gate c tb1 ra in (r', pre ++ g, e1)) (let '(r', g) := gate c tb2 rb in (r', pre ++ g, e2)).
Proof.
  intros H E1 E2 Hp. destruct (gate_rel _ _ H) as [A B]. pose proof (gate_nonq c tb1 ra) as Gn.
  destruct (gate c tb1 ra) as [o1 g1], (gate c tb2 rb) as [o2 g2]. cbn [fst snd] in *. subst g2.
  split; [exact A|split; [|split; [exact E1|exact E2]]]. cbn [fst snd]. apply outeq_nonq. apply Forall_app. split; assumption.
Qed.

Lemma release_rel r1 r2 s1 s2 mr ok na h : ReqEq r1 r2 -> corr s1 s2 -> ReqEq (release r1 s1 mr ok na h) (release r2 s2 mr ok na h).
Proof.
  intros (sr & a & b & c0 & d & -> & Ma & Mb & Mc & Md) Hs.
  pose proof (maskeq_clearbit _ _ TR _ _ _ _ Mb Hs) as Mb'.
  exists sr, a, (N.clearbit b s2), (if mr then N.setbit c0 s2 else c0), (if ok then N.setbit d s2 else d).
  split; [|cbn [release sent refm more okm]; split; [|split; [|split]]].
  - unfold release, setm. rproj. rewrite <- (maskeq_zero _ _ TR _ _ Mb'). reflexivity.
  - exact Ma.
  - exact Mb'.
  - destruct mr; [apply maskeq_setbit; assumption|exact Mc].
  - destruct ok; [apply maskeq_setbit; assumption|exact Md].
Qed.

Lemma supp_ge tr m (slot : N) : supp tr m -> forall i, N.testbit m i = true -> slot <= i -> In i (map tslot tr).
Proof. intros H i Hi _. exact (H i Hi). Qed.

Lemma effok1 tr i z : In i (map tslot tr) -> EffOk tr [(i, z)].
Proof. intros H. constructor; [exact H|constructor]. Qed.

Lemma r3o_same r1 r2 : ReqEq r1 r2 -> R3o (Some r1, [], []) (Some r2, [], []).
Proof. intros H. split; [exact H|split; [apply outeq_nonq; constructor|split; constructor]]. Qed.

Theorem reply_rel r1 r2 svcn text : ReqEq r1 r2 -> R3o (reply c tb1 r1 svcn text) (reply c tb2 r2 svcn text).
Proof.
  intros H. pose proof H as (sr & a & b & c0 & d & E & Ma & Mb & Mc & Md). unfold reply.
  rewrite (find_slot_t (slots tb1)), T1 by (rewrite T1; apply supp_ge; exact (me_1 _ _ _ _ Mb)).
  rewrite (find_slot_t (slots tb2)), T2 by (rewrite T2; apply supp_ge; rewrite E; exact (me_2 _ _ _ _ Mb)).
  assert (MaskEq (refm r1) (refm r2)) as Mb2 by (rewrite E; exact Mb).
  pose proof (find_rel svcn _ _ Mb2) as F.
  destruct (find_t tr1 svcn (refm r1)) as [[s1 t1]|], (find_t tr2 svcn (refm r2)) as [[s2 t2]|]; try contradiction; [|apply r3o_same; exact H].
  destruct F as [<- Hs]. cbv beta zeta.
  assert (EffOk tr1 [(s1, (-1)%Z)]) as E1 by (apply effok1; exact (corr_in1 _ _ _ _ Hs)).
  assert (EffOk tr2 [(s2, (-1)%Z)]) as E2 by (apply effok1; exact (corr_in2 _ _ _ _ Hs)).
  assert (forall k rest, oc k r2 rest = oc k r1 rest) as Oc by (intros; rewrite E; reflexivity).
  assert (holds r2 = holds r1) as Eh by (rewrite E; reflexivity).
  assert (hh r2 = hh r1) as Ehh by (rewrite E; reflexivity).
  assert (ho r2 = ho r1) as Eho by (rewrite E; reflexivity).
  assert (acct r2 = acct r1) as Eac by (rewrite E; reflexivity).
  destruct text as [tx|]; rewrite ?Oc, ?Eh, ?Ehh, ?Eho, ?Eac.
  - destruct (seq_eq tx (S_ "OK")); [apply fin_rel; [apply release_rel|..]; try assumption; repeat constructor|].
    destruct (prefix (S_ "OK ") tx).
    + destruct (negb (nonempty (upto sp (skipn 3 tx))) || is_drone t1); [apply fin_rel; [apply release_rel|..]; try assumption; repeat constructor|].
      apply fin_rel; [apply release_rel|..]; try assumption. destruct (hh r1 || ho r1); repeat constructor.
    + destruct (prefix (S_ "NO ") tx).
      { split; [exact I|split; [apply outeq_nonq; repeat constructor|split; constructor]]. }
      destruct (prefix (S_ "AGAIN ") tx); [apply fin_rel; [apply release_rel|..]; try assumption; repeat constructor|].
      destruct (prefix (S_ "MORE ") tx); [apply fin_rel; [apply release_rel|..]; try assumption; repeat constructor|].
      apply r3o_same; exact H.
  - apply fin_rel; [apply release_rel|..]; try assumption. destruct (is_drone t1); repeat constructor.
Qed.

Lemma res3_o x1 x2 : Res3 tr1 tr2 x1 x2 ->
  R3o (let '(r1, o, efs) := x1 in let '(r2, g) := gate c tb1 r1 in (r2, o ++ g, efs))
      (let '(r1, o, efs) := x2 in let '(r2, g) := gate c tb2 r1 in (r2, o ++ g, efs)).
Proof.
  destruct x1 as [[ra o1] e1], x2 as [[rb o2] e2]. intros (A & B & C & D). cbn [fst snd] in *.
  destruct (gate_rel _ _ A) as [G1 G2]. pose proof (gate_nonq c tb1 ra) as Gn.
  destruct (gate c tb1 ra) as [p1 g1], (gate c tb2 rb) as [p2 g2]. cbn [fst snd] in *. subst g2.
  split; [exact G1|split; [|split; [exact C|exact D]]]. cbn [fst snd]. apply outeq_app_tail; assumption.
Qed.

Theorem after_rel r1 r2 ispw : ReqEq r1 r2 -> R3o (after c tb1 r1 ispw) (after c tb2 r2 ispw).
Proof.
  intros H. unfold after. rewrite !qpass_triples, T1, T2. apply res3_o. apply qpass_rel; assumption.
Qed.

Lemma res3_same r1 r2 : ReqEq r1 r2 -> Res3 tr1 tr2 (r1, [], []) (r2, [], []).
Proof. intros H. split; [exact H|split; [apply outeq_nonq; constructor|split; constructor]]. Qed.

Theorem password_rel r1 r2 t : ReqEq r1 r2 -> Res3 tr1 tr2 (password tb1 r1 t) (password tb2 r2 t).
Proof.
  intros H. pose proof H as (sr & a & b & c0 & d & E & Ma & Mb & Mc & Md). unfold password.
  assert (pw r2 = pw r1) as -> by (rewrite E; reflexivity).
  assert ((more r2 =? 0) = (more r1 =? 0)) as -> by (rewrite E; symmetry; exact (maskeq_zero _ _ TR _ _ Mc)).
  destruct ((more r1 =? 0) || negb (nonempty (pw r1))).
  - destruct (negb (starts t x2b || starts t x2d)); [apply res3_same; exact H|].
    destruct (modes _ _ _ _ _ _ _) as [[[[[rest0 sx] cx] sb] cb]|]; [|apply res3_same; exact H].
    cbv zeta. destruct (negb (has sp (skipsp rest0))); [apply res3_same; exact H|].
    rewrite !qpass_triples, T1, T2. apply qpass_rel; [exact TR|]. subst r2.
    exists sr, a, b, c0, d. split; [reflexivity|auto].
  - rewrite !cont_triples, T1, T2. apply cont_rel; assumption.
Qed.

Definition HRel (h1 h2 : hres) : Prop :=
  match h1, h2 with
  | HSame o1, HSame o2 => o1 = o2 /\ Forall nonQ o1
  | HFin x1, HFin x2 => R3o x1 x2
  | HGone, HGone => True
  | _, _ => False
  end.

Lemma aft_rel r1 r2 : ReqEq r1 r2 ->
  HRel (HFin (if with_xq c then after c tb1 r1 false else let '(r2, g) := gate c tb1 r1 in (r2, g, [])))
       (HFin (if with_xq c then after c tb2 r2 false else let '(r2, g) := gate c tb2 r2 in (r2, g, []))).
Proof.
  intros H. cbn [HRel]. destruct (with_xq c); [apply after_rel; exact H|].
  exact (fin_rel r1 r2 [] [] [] H (Forall_nil _) (Forall_nil _) (Forall_nil _)).
Qed.

Lemma gate3_rel r1 r2 : ReqEq r1 r2 ->
  HRel (let '(r2, g) := gate c tb1 r1 in HFin (r2, g, [])) (let '(r2, g) := gate c tb2 r2 in HFin (r2, g, [])).
Proof.
  intros H. pose proof (fin_rel r1 r2 [] [] [] H (Forall_nil _) (Forall_nil _) (Forall_nil _)) as F.
  destruct (gate c tb1 r1), (gate c tb2 r2). exact F.
Qed.

Ltac reqsame sr a b c0 d := exists sr, a, b, c0, d; split; [reflexivity|auto].

Theorem handle_rel r1 r2 argv : ReqEq r1 r2 -> HRel (handle c tb1 r1 argv) (handle c tb2 r2 argv).
Proof.
  intros (sr & a & b & c0 & d & -> & Ma & Mb & Mc & Md). unfold handle. cbv zeta.
  change (timer (setm r1 sr a b c0 d)) with (timer r1). change (host (setm r1 sr a b c0 d)) with (host r1).
  change (cliu (setm r1 sr a b c0 d)) with (cliu r1).
  destruct (beq (cmdchar argv) x44 || beq (cmdchar argv) x54); [exact I|].
  destruct (beq (cmdchar argv) x21).
  { match goal with |- context [if ?b then _ else _] => destruct b end; [|(split; [reflexivity|repeat constructor])].
    apply gate3_rel. reqsame sr a b c0 d. }
  destruct (beq (cmdchar argv) x4e).
  { destruct (arg 1 argv); [|(split; [reflexivity|repeat constructor])]. destruct (nonempty (host r1)); [(split; [reflexivity|repeat constructor])|]. apply aft_rel. reqsame sr a b c0 d. }
  destruct (beq (cmdchar argv) x64); [apply aft_rel; reqsame sr a b c0 d|].
  destruct (beq (cmdchar argv) x75).
  { destruct (arg 1 argv); [apply aft_rel; reqsame sr a b c0 d|]. destruct (nonempty (cliu r1)); apply aft_rel; reqsame sr a b c0 d. }
  destruct (beq (cmdchar argv) x6e).
  { destruct (arg 1 argv); [apply aft_rel; reqsame sr a b c0 d|(split; [reflexivity|repeat constructor])]. }
  destruct (beq (cmdchar argv) x55).
  { destruct (arg 1 argv); [|(split; [reflexivity|repeat constructor])]. destruct (arg 2 argv); [apply aft_rel; reqsame sr a b c0 d|(split; [reflexivity|repeat constructor])]. }
  destruct (beq (cmdchar argv) x48).
  { destruct (with_xq c) eqn:Ex.
    - pose proof (aft_rel (set_flags r1 true true true true (f_pass r1)) (set_flags (setm r1 sr a b c0 d) true true true true (f_pass r1))) as A.
      rewrite Ex in A. apply A. reqsame sr a b c0 d.
    - pose proof (aft_rel (set_flags r1 true (f_ident r1) (f_nick r1) (f_user r1) (f_pass r1))
                          (set_flags (setm r1 sr a b c0 d) true (f_ident r1) (f_nick r1) (f_user r1) (f_pass r1))) as A.
      rewrite Ex in A. apply A. reqsame sr a b c0 d. }
  destruct (beq (cmdchar argv) x50); [|(split; [reflexivity|repeat constructor])].
  destruct (arg 1 argv) as [t|]; [|(split; [reflexivity|repeat constructor])].
  destruct (with_xq c).
  - assert (ReqEq (set_flags r1 (f_host r1) (f_ident r1) (f_nick r1) (f_user r1) true)
                  (set_flags (setm r1 sr a b c0 d) (f_host (setm r1 sr a b c0 d)) (f_ident (setm r1 sr a b c0 d)) (f_nick (setm r1 sr a b c0 d)) (f_user (setm r1 sr a b c0 d)) true)) as H0
      by (reqsame sr a b c0 d).
    pose proof (res3_o _ _ (password_rel _ _ t H0)) as P.
    destruct (password tb1 _ t) as [[ra o1] e1], (password tb2 _ t) as [[rb o2] e2].
    destruct (gate c tb1 ra), (gate c tb2 rb). exact P.
  - apply gate3_rel. reqsame sr a b c0 d.
Qed.
End Rel2.

(* ====================================================================================================== *)
(* ---------- the simulation between two daemons, seen from client i ---------- *)
Record SR (i : Z) (tr1 tr2 : list tri) (S T : st) : Prop := {
  sr_nd1 : NoDupIds (reqs S);
  sr_nd2 : NoDupIds (reqs T);
  sr_lk : ORel tr1 tr2 (lookup i (reqs S)) (lookup i (reqs T));
  sr_t1 : triples (slots (tb S)) 0 = tr1;
  sr_t2 : triples (slots (tb T)) 0 = tr2;
  sr_ru : rules (tb S) = rules (tb T);
  sr_tmo : tmo S = tmo T }.

Lemma reqeq_cid tr1 tr2 r1 r2 : ReqEq tr1 tr2 r1 r2 -> cid r2 = cid r1.
Proof. intros (sr & a & b & c & d & -> & _). reflexivity. Qed.

Lemma finish_rel i tr1 tr2 S T x1 x2 : TrRel tr1 tr2 -> SR i tr1 tr2 S T -> R3o tr1 tr2 x1 x2 ->
  match fst (fst x1) with Some r' => cid r' = i | None => True end ->
  SR i tr1 tr2 (fst (finish S i x1)) (fst (finish T i x2)) /\
  OutEq (snd (finish S i x1)) (snd (finish T i x2)).
Proof.
  intros TR [n1 n2 lk t1 t2 ru tm] (A & B & C & D) Hc.
  destruct x1 as [[o1 g1] e1], x2 as [[o2 g2] e2]. cbn [fst snd] in *.
  assert (triples (slots (with_slots S e1)) 0 = tr1) as W1.
  { unfold with_slots. cbn [slots]. rewrite triples_apply_effs; [exact t1|rewrite t1; exact C]. }
  assert (triples (slots (with_slots T e2)) 0 = tr2) as W2.
  { unfold with_slots. cbn [slots]. rewrite triples_apply_effs; [exact t2|rewrite t2; exact D]. }
  unfold finish. destruct o1 as [r1'|], o2 as [r2'|]; cbn [ORel] in A; try contradiction; cbn [fst snd]; (split; [|exact B]).
  - constructor; cbn [reqs tb tmo]; try assumption.
    + apply nodup_put; exact n1.
    + apply nodup_put; exact n2.
    + rewrite !lookup_put, (reqeq_cid _ _ _ _ A), Hc, Z.eqb_refl. exact A.
  - constructor; cbn [reqs tb tmo]; try assumption.
    + apply nodup_remove; exact n1.
    + apply nodup_remove; exact n2.
    + rewrite !lookup_remove_eq by assumption. exact I.
Qed.

Lemma orel_cases tr1 tr2 o1 o2 : ORel tr1 tr2 o1 o2 ->
  (o1 = None /\ o2 = None) \/ (exists r1 r2, o1 = Some r1 /\ o2 = Some r2 /\ ReqEq tr1 tr2 r1 r2).
Proof.
  destruct o1 as [r1|], o2 as [r2|]; cbn [ORel]; intros H; try contradiction; [right; exists r1, r2; auto|left; auto].
Qed.

Theorem astep_rel cf i tr1 tr2 S T a : TrRel tr1 tr2 -> aid a = i -> SR i tr1 tr2 S T ->
  SR i tr1 tr2 (fst (astep cf S a)) (fst (astep cf T a)) /\
  OutEq (snd (astep cf S a)) (snd (astep cf T a)).
Proof.
  intros TR Ha HS. pose proof HS as [n1 n2 lk t1 t2 ru tm]. rewrite !astep_eq.
  destruct a as [id argv|id u svcn text]; cbn [aid] in Ha; subst id.
  - destruct (is_x argv); [split; [exact HS|apply outeq_nonq; constructor]|].
    destruct (beq (cmdchar argv) x43).
    { unfold announce. destruct (arg 1 argv) as [a|], (arg 2 argv), (arg 3 argv), (arg 4 argv); try (split; [exact HS|apply outeq_nonq; constructor]).
      destruct (announce_addr a) as [g txt]. cbn [fst snd]. split; [|apply outeq_nonq; constructor].
      constructor; cbn [reqs tb tmo]; try assumption; [apply nodup_put; exact n1|apply nodup_put; exact n2|].
      rewrite !lookup_put. cbn [fresh cid]. rewrite Z.eqb_refl, tm. cbn [ORel].
      exists ((next T + 1) mod 4294967296), 0, 0, 0, 0. split; [reflexivity|]. cbn [fresh sent refm more okm].
      split; [|split; [|split]]; apply maskeq_0. }
    destruct (orel_cases _ _ _ _ lk) as [[E1 E2]|(r1 & r2 & E1 & E2 & Hr)]; rewrite E1, E2; [split; [exact HS|apply outeq_nonq; constructor]|].
    pose proof (handle_rel tr1 tr2 TR (tb S) (tb T) t1 t2 ru cf r1 r2 argv Hr) as HR.
    pose proof (handle_about cf (tb S) r1 argv) as Ab.
    destruct (handle cf (tb S) r1 argv) as [o1|x1|], (handle cf (tb T) r2 argv) as [o2|x2|]; cbn [HRel] in HR; try contradiction; cbn [apply_h].
    + destruct HR as [<- Hq]. cbn [fst snd]. split; [exact HS|apply outeq_nonq; exact Hq].
    + apply finish_rel; try assumption. destruct Ab as [_ Ab]. destruct (fst (fst x1)); [|exact I].
      rewrite Ab. exact (lookup_cid _ _ _ E1).
    + cbn [fst snd]. split; [|apply outeq_nonq; constructor].
      constructor; cbn [reqs tb tmo]; try assumption; [apply nodup_remove; exact n1|apply nodup_remove; exact n2|].
      rewrite !lookup_remove_eq by assumption. exact I.
  - destruct (negb (with_xq cf)); [split; [exact HS|apply outeq_nonq; constructor]|].
    destruct (orel_cases _ _ _ _ lk) as [[E1 E2]|(r1 & r2 & E1 & E2 & Hr)]; rewrite E1, E2; [split; [exact HS|apply outeq_nonq; constructor]|].
    unfold xreply. rewrite (lookup_cid _ _ _ E1), (lookup_cid _ _ _ E2).
    apply finish_rel; try assumption.
    + apply (reply_rel tr1 tr2 TR (tb S) (tb T) t1 t2 ru cf); exact Hr.
    + pose proof (reply_about cf (tb S) r1 svcn (if u then None else Some text)) as [_ Ab].
      destruct (fst (fst (reply cf (tb S) r1 svcn _))); [|exact I]. rewrite Ab. exact (lookup_cid _ _ _ E1).
Qed.

Theorem arun_rel cf i tr1 tr2 h : TrRel tr1 tr2 -> Forall (fun a => aid a = i) h -> forall S T, SR i tr1 tr2 S T ->
  Forall2 OutEq (arun cf S h) (arun cf T h).
Proof.
  intros TR. induction 1 as [|a h Ha Hh IH]; intros S T HS; cbn [arun]; [constructor|].
  destruct (astep_rel cf i tr1 tr2 S T a TR Ha HS) as [HS' P]. constructor; [exact P|apply IH; exact HS'].
Qed.

(* ====================================================================================================== *)
(* ---------- a reloaded daemon and a fresh daemon on the same file ---------- *)
Definition CiDistinct (l : list str) : Prop := forall a b, In a l -> In b l -> ci_eq a b = true -> a = b.

Lemma spec_nodup entries : NoDup (map fst entries) -> NoDup (map fst (spec entries)).
Proof.
  induction entries as [|[n ty] r IH]; cbn [spec map fst]; intros ND; [constructor|]. inversion ND as [|? ? Hn Hr]; subst.
  destruct (type_of_name ty) as [t|]; [|apply IH; exact Hr]. cbn [map fst]. constructor; [|apply IH; exact Hr].
  intros H. apply Hn. apply in_map_iff in H as ([m t'] & E & H). cbn [fst] in E. subst m. exact (spec_names _ _ _ H).
Qed.

Lemma view_names ss entries x : (List.length ss + List.length entries <= max_slots)%nat ->
  NoDup (map fst entries) -> In x (triples (services_changed ss entries) 0) -> In (tname x) (map fst entries).
Proof.
  intros Cap ND H. apply (in_map tnt) in H. rewrite triples_view in H.
  apply (Permutation_in _ (reload_view ss entries Cap ND)) in H. exact (spec_names _ _ _ H).
Qed.

Lemma ciu_reload ss entries : (List.length ss + List.length entries <= max_slots)%nat ->
  NoDup (map fst entries) -> CiDistinct (map fst entries) -> CiU (triples (services_changed ss entries) 0).
Proof.
  intros Cap ND CD x y nm Hx Hy Cx Cy.
  assert (tname x = tname y) as E.
  { apply CD; [exact (view_names _ _ _ Cap ND Hx)|exact (view_names _ _ _ Cap ND Hy)|]. eapply ci_eq_trans; [apply ci_eq_sym; exact Cx|exact Cy]. }
  apply (nodup_map_inj tname (triples (services_changed ss entries) 0)); try assumption.
  rewrite triples_names. apply (Permutation_NoDup (Permutation_sym (Permutation_map fst (reload_view ss entries Cap ND)))).
  apply spec_nodup. exact ND.
Qed.

(* the capacity hypothesis (D27): the old vector has room for the file's entries, each of which may need one more slot;
   it covers the fresh daemon as well, whose vector starts empty *)
Theorem trrel_reload ss entries : (List.length ss + List.length entries <= max_slots)%nat ->
  NoDup (map fst entries) -> CiDistinct (map fst entries) ->
  TrRel (triples (services_changed ss entries) 0) (triples (services_changed [] entries) 0).
Proof.
  intros Cap ND CD.
  assert (List.length (@nil (option svc)) + List.length entries <= max_slots)%nat as Cap0 by (cbn [List.length]; lia).
  assert (forall ss', (List.length ss' + List.length entries <= max_slots)%nat -> NoDup (map tname (triples (services_changed ss' entries) 0))) as Nn.
  { intros ss' Cap'. rewrite triples_names. apply (Permutation_NoDup (Permutation_sym (Permutation_map fst (reload_view ss' entries Cap' ND)))).
    apply spec_nodup. exact ND. }
  constructor; try apply triples_nodup; try (apply Nn; assumption); try (apply ciu_reload; assumption).
  intros n t. rewrite !triples_view. split; apply Permutation_in; [|apply Permutation_sym]; apply reload_equiv_fresh; assumption.
Qed.

(* names of the services the file leaves CONFIGURED (entries with a known type) *)
Lemma view_names_spec ss entries x : (List.length ss + List.length entries <= max_slots)%nat ->
  NoDup (map fst entries) -> In x (triples (services_changed ss entries) 0) -> In (tname x) (map fst (spec entries)).
Proof.
  intros Cap ND H. apply (in_map tnt) in H. rewrite triples_view in H.
  apply (Permutation_in _ (reload_view ss entries Cap ND)) in H. apply (in_map fst) in H. exact H.
Qed.

Lemma cidistinct_spec entries : CiDistinct (map fst entries) -> CiDistinct (map fst (spec entries)).
Proof.
  intros CD a b Ha Hb. apply CD.
  - apply in_map_iff in Ha as ([n t] & <- & H). exact (spec_names _ _ _ H).
  - apply in_map_iff in Hb as ([n t] & <- & H). exact (spec_names _ _ _ H).
Qed.

Theorem trrel_reload_spec ss entries : (List.length ss + List.length entries <= max_slots)%nat ->
  NoDup (map fst entries) -> CiDistinct (map fst (spec entries)) ->
  TrRel (triples (services_changed ss entries) 0) (triples (services_changed [] entries) 0).
Proof.
  intros Cap ND CD.
  assert (List.length (@nil (option svc)) + List.length entries <= max_slots)%nat as Cap0 by (cbn [List.length]; lia).
  assert (forall ss', (List.length ss' + List.length entries <= max_slots)%nat -> NoDup (map tname (triples (services_changed ss' entries) 0))) as Nn.
  { intros ss' Cap'. rewrite triples_names. apply (Permutation_NoDup (Permutation_sym (Permutation_map fst (reload_view ss' entries Cap' ND)))).
    apply spec_nodup. exact ND. }
  assert (forall ss', (List.length ss' + List.length entries <= max_slots)%nat -> CiU (triples (services_changed ss' entries) 0)) as Cu.
  { intros ss' Cap' x y nm Hx Hy Cx Cy.
    assert (tname x = tname y) as E.
    { apply CD; [exact (view_names_spec _ _ _ Cap' ND Hx)|exact (view_names_spec _ _ _ Cap' ND Hy)|]. eapply ci_eq_trans; [apply ci_eq_sym; exact Cx|exact Cy]. }
    exact (nodup_map_inj tname _ _ _ (Nn ss' Cap') Hx Hy E). }
  constructor; try apply triples_nodup; try (apply Nn; assumption); try (apply Cu; assumption).
  intros n t. rewrite !triples_view. split; apply Permutation_in; [|apply Permutation_sym]; apply reload_equiv_fresh; assumption.
Qed.

(* C17, behavioural: the whole conversation of a client announced after the reload.  Step by step, the reloaded daemon
   and the fresh daemon emit  <query lines> ++ <other lines>  with identical other lines (challenges, +x, U line,
   verdict with class, "d" soft-done, ...) and the same query lines up to their order and the serial in the tag.
   Capacity (D27): the slot vector of s has room for the entries of the file (slots of index >= 32 are refused).
   Hypotheses beyond those of the reload theorems:
   - CiDistinct: no two CONFIGURED service names of the file differ only by letter case (needed: see `ci_distinct_needed`);
   - NoDupIds (reqs s): the request table of the reloaded daemon holds one request per id (Mon01: every reachable state);
   - lookup i (reqs s) = None: client i is not known before the reload (it is a newcomer). *)
Theorem newcomer_after_reload_strong : forall c s svs rs t i h,
  (List.length (slots (tb s)) + List.length svs <= max_slots)%nat ->
  NoDup (map fst svs) -> CiDistinct (map fst (spec svs)) ->
  NoDupIds (reqs s) -> lookup i (reqs s) = None -> Forall (fun a => aid a = i) h ->
  let s1 := fst (step_ev c s (Reload svs rs t)) in
  let s0 := init c svs rs t in
  Forall2 OutEq (arun c s1 h) (arun c s0 h).
Proof.
  intros c s svs rs t i h Cap ND CD NI Hl Hh s1 s0.
  apply (arun_rel c i (triples (services_changed (slots (tb s)) svs) 0) (triples (services_changed [] svs) 0) h);
    [apply trrel_reload_spec; assumption|exact Hh|].
  subst s1 s0. cbn [step_ev fst init]. constructor; cbn [reqs tb slots rules tmo]; try reflexivity.
  - unfold NoDupIds. rewrite map_cid_forget. exact NI.
  - constructor.
  - rewrite (lookup_map_forget_none _ _ _ Hl). exact I.
Qed.

Theorem newcomer_after_reload_is_treated_as_by_fresh_daemon : forall c s svs rs t i h,
  (List.length (slots (tb s)) + List.length svs <= max_slots)%nat ->
  NoDup (map fst svs) -> CiDistinct (map fst svs) ->
  NoDupIds (reqs s) -> lookup i (reqs s) = None -> Forall (fun a => aid a = i) h ->
  let s1 := fst (step_ev c s (Reload svs rs t)) in
  let s0 := init c svs rs t in
  Forall2 (fun o1 o0 => Permutation (map eser o1) (map eser o0)) (arun c s1 h) (arun c s0 h).
Proof.
  intros c s svs rs t i h Cap ND CD NI Hl Hh s1 s0.
  pose proof (newcomer_after_reload_strong c s svs rs t i h Cap ND (cidistinct_spec _ CD) NI Hl Hh) as H. cbv zeta in H. fold s1 s0 in H.
  induction H as [|o1 o0 l1 l0 Ho Hl' IH]; constructor; [apply outeq_perm; exact Ho|exact IH].
Qed.

(* ---------- the same with the traffic of the OTHER clients (old and new) interleaved on the reloaded daemon ---------- *)
(* reference-count effects never change the configured triples, wherever they land (an unconfigured slot may be freed) *)
Lemma triples_bump_any ss : forall slot target d, triples (bump ss slot target d) slot = triples ss slot.
Proof.
  induction ss as [|o rest IH]; intros slot target d; cbn [bump]; [reflexivity|].
  destruct (slot =? target); [|cbn [triples]; rewrite IH; reflexivity].
  destruct o as [s|]; [|reflexivity].
  destruct (s_conf s) eqn:C; cbn [negb]; [rewrite andb_false_r; cbn [andb triples s_conf s_name s_type]; rewrite C; reflexivity|].
  match goal with |- context [if ?b then _ else _] => destruct b end; cbn [triples s_conf]; rewrite C; reflexivity.
Qed.

Lemma triples_apply_effs_any efs : forall ss, triples (apply_effs ss efs) 0 = triples ss 0.
Proof.
  unfold apply_effs. induction efs as [|e efs IH]; intros ss; cbn [fold_left]; [reflexivity|]. rewrite IH. apply triples_bump_any.
Qed.

Lemma finish_tabs s id res :
  triples (slots (tb (fst (finish s id res)))) 0 = triples (slots (tb s)) 0 /\ rules (tb (fst (finish s id res))) = rules (tb s).
Proof.
  destruct res as [[[r|] o] e]; cbn [finish fst tb with_slots slots rules]; (split; [apply triples_apply_effs_any|reflexivity]).
Qed.

Lemma astep_tabs cf s a :
  triples (slots (tb (fst (astep cf s a)))) 0 = triples (slots (tb s)) 0 /\ rules (tb (fst (astep cf s a))) = rules (tb s).
Proof.
  rewrite astep_eq. destruct a as [id argv|id u svcn text].
  - destruct (is_x argv); [split; reflexivity|]. destruct (beq (cmdchar argv) x43).
    { unfold announce. destruct (arg 1 argv) as [a|], (arg 2 argv), (arg 3 argv), (arg 4 argv); try (split; reflexivity).
      destruct (announce_addr a); split; reflexivity. }
    destruct (lookup id (reqs s)) as [r|]; [|split; reflexivity].
    destruct (handle cf (tb s) r argv) as [o|res|]; cbn [apply_h]; [split; reflexivity|apply finish_tabs|split; reflexivity].
  - destruct (negb (with_xq cf)); [split; reflexivity|]. destruct (lookup id (reqs s)) as [r|]; [|split; reflexivity].
    unfold xreply. apply finish_tabs.
Qed.

(* an event of another client: on the reloaded side it leaves i's request and the configured triples alone, and says nothing about i *)
Lemma foreign_rel cf i tr1 tr2 S T a : aid a <> i -> SR i tr1 tr2 S T ->
  SR i tr1 tr2 (fst (astep cf S a)) T /\ proj i (snd (astep cf S a)) = [].
Proof.
  intros Hn [n1 n2 lk t1 t2 ru tm]. destruct (astep_frame cf S a) as [f1 f2 f3 f4 f5]. destruct (astep_tabs cf S a) as [A B]. split.
  - constructor; try assumption; [apply f1; exact n1|rewrite f2 by congruence; exact lk|congruence|congruence|congruence].
  - eapply proj_about; [exact Hn|exact f5].
Qed.

(* the outputs of the steps of h that are events of client i, in the run of the whole of h *)
Fixpoint own (i : Z) (cf : cfg) (s : st) (h : list aev) : list (list out) :=
  match h with
  | [] => []
  | a :: h' => if abelongs i a then snd (astep cf s a) :: own i cf (fst (astep cf s a)) h' else own i cf (fst (astep cf s a)) h'
  end.

(* what the other steps say about i: nothing *)
Fixpoint others (i : Z) (cf : cfg) (s : st) (h : list aev) : list out :=
  match h with
  | [] => []
  | a :: h' => (if abelongs i a then [] else proj i (snd (astep cf s a))) ++ others i cf (fst (astep cf s a)) h'
  end.

Theorem own_rel cf i tr1 tr2 h : TrRel tr1 tr2 -> forall S T, SR i tr1 tr2 S T ->
  Forall2 OutEq (own i cf S h) (arun cf T (filter (abelongs i) h)) /\ others i cf S h = [].
Proof.
  intros TR. induction h as [|a h IH]; intros S T HS; cbn [own others filter arun]; [split; [constructor|reflexivity]|].
  destruct (abelongs i a) eqn:E; unfold abelongs in E.
  - apply Z.eqb_eq in E. destruct (astep_rel cf i tr1 tr2 S T a TR E HS) as [HS' P]. destruct (IH _ _ HS') as [I1 I2].
    cbn [arun app]. split; [constructor; assumption|exact I2].
  - apply Z.eqb_neq in E. destruct (foreign_rel cf i tr1 tr2 S T a E HS) as [HS' P]. destruct (IH _ _ HS') as [I1 I2].
    rewrite P, I2. split; [exact I1|reflexivity].
Qed.

Theorem newcomer_after_reload_interleaved : forall c s svs rs t i h,
  (List.length (slots (tb s)) + List.length svs <= max_slots)%nat ->
  NoDup (map fst svs) -> CiDistinct (map fst (spec svs)) ->
  NoDupIds (reqs s) -> lookup i (reqs s) = None ->
  let s1 := fst (step_ev c s (Reload svs rs t)) in
  let s0 := init c svs rs t in
  Forall2 OutEq (own i c s1 h) (arun c s0 (filter (abelongs i) h)) /\ others i c s1 h = [].
Proof.
  intros c s svs rs t i h Cap ND CD NI Hl s1 s0.
  apply (own_rel c i (triples (services_changed (slots (tb s)) svs) 0) (triples (services_changed [] svs) 0) h);
    [apply trrel_reload_spec; assumption|].
  subst s1 s0. cbn [step_ev fst init]. constructor; cbn [reqs tb slots rules tmo]; try reflexivity.
  - unfold NoDupIds. rewrite map_cid_forget. exact NI.
  - constructor.
  - rewrite (lookup_map_forget_none _ _ _ Hl). exact I.
Qed.

(* ====================================================================================================== *)
(* ---------- the case-distinctness hypothesis cannot be dropped ---------- *)
(* Two services "Foo" and "foo"; the old daemon already had "foo" (slot 0), so after the reload "foo" is slot 0 and
   "Foo" slot 1, whereas the fresh daemon has "Foo" at 0 and "foo" at 1.  A class rule asks for an OK from "foo";
   iauth_xreply_ok takes the FIRST configured slot whose name matches case-insensitively.  The client gets OK from
   "foo" and AGAIN from "Foo": the reloaded daemon puts it in class A, the fresh daemon in class B. *)
Module Cex.
Local Open Scope string_scope.
Definition cx : cfg := {| with_xq := true |}.
Definition svs0 : list (str * str) := [(S_ "foo", S_ "login")].
Definition svs1 : list (str * str) := [(S_ "Foo", S_ "login"); (S_ "foo", S_ "login")].
Definition mkrule (n : string) (x : option str) : rule :=
  {| r_name := S_ n; r_class := None; r_acct := None; r_addr := None; r_user := None; r_host := None; r_xok := x; r_trust := false |}.
Definition rs1 : list rule := [mkrule "A" (Some (S_ "foo")); mkrule "B" None].
Definition sold : st := init cx svs0 [] false.
Definition hist : list aev :=
  [ ALine 1 [S_ "C"; S_ "1.2.3.4"; S_ "1234"; S_ "5.6.7.8"; S_ "6667"];
    ALine 1 [S_ "P"; S_ "+x acc pass"];
    AReply 1 false (S_ "foo") (S_ "OK");
    AReply 1 false (S_ "Foo") (S_ "AGAIN later");
    ALine 1 [S_ "H"] ].
End Cex.

Theorem ci_distinct_needed :
  exists c s svs rs t i h,
    (List.length (slots (tb s)) + List.length svs <= max_slots)%nat /\
    NoDup (map fst svs) /\ NoDupIds (reqs s) /\ lookup i (reqs s) = None /\ Forall (fun a => aid a = i) h /\
    ~ Forall2 (fun o1 o0 => Permutation (map eser o1) (map eser o0))
        (arun c (fst (step_ev c s (Reload svs rs t))) h) (arun c (init c svs rs t) h).
Proof.
  exists Cex.cx, Cex.sold, Cex.svs1, Cex.rs1, false, 1%Z, Cex.hist. split; [|split; [|split; [|split; [|split]]]].
  - vm_compute. lia.
  - repeat constructor; cbn; intuition discriminate.
  - constructor.
  - reflexivity.
  - repeat constructor.
  - intros H. vm_compute in H.
    repeat match goal with H : Forall2 _ (_ :: _) (_ :: _) |- _ => inversion H; clear H; subst end.
    match goal with H : Permutation [OC _ _ _ _ (_ :: ?a :: _)] [OC _ _ _ _ (_ :: ?b :: _)] |- _ =>
      apply Permutation_length_1 in H; discriminate H end.
Qed.

