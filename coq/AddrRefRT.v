(* Round trip of the printer of the reduced model (Addr.ntop6) through the list-level RFC 4291 reference parser
   (AddrRef.ref_pton): for every list of 8 groups < 65536, ref_pton (ntop6 gs) = Some gs. *)
From Coq Require Import List NArith Lia Bool Strings.Byte Arith.
Import ListNotations.
Require Import Addr AddrRT AddrRT2 AddrRT3 AddrRT4 NtopProps.
Require AddrRef.
Local Open Scope N_scope.

(* ---------- 1. one group: hexgroup (hexstr g) = Some g, by a sweep over the 16 bits ---------- *)
Definition chkR (p : N) : bool := match AddrRef.hexgroup (hexstr p) with Some q => q =? p | None => false end.
Definition FR (a b c d : N) : bool := chkR (a * 4096 + b * 256 + c * 16 + d).
Lemma allR : all4 FR = true. Proof. vm_compute. reflexivity. Qed.

Lemma hexgroup_hexstr g : g < 65536 -> AddrRef.hexgroup (hexstr g) = Some g.
Proof.
  intros Hg. destruct (nibbles g Hg) as (a & b & c & d & La & Lb & Lc & Ld & E).
  pose proof (forallb4 FR allR a b c d (in_nib a La) (in_nib b Lb) (in_nib c Lc) (in_nib d Ld)) as H.
  unfold FR in H. rewrite <- E in H. unfold chkR in H.
  destruct (AddrRef.hexgroup (hexstr g)) as [q|]; [|discriminate]. apply N.eqb_eq in H. now subst.
Qed.

(* ---------- 2. hex strings contain neither ':' nor '.' ---------- *)
Definition hex (s : str) : Prop := Forall (fun c => ishex c = true) s.

Lemma ishex_ncolon c : ishex c = true -> Byte.eqb c colon = false.
Proof. intros H. apply beqb_neq. intros ->. discriminate H. Qed.
Lemma ishex_ndot c : ishex c = true -> Byte.eqb c AddrRef.dot = false.
Proof. intros H. apply beqb_neq. intros ->. discriminate H. Qed.

Lemma eqb_refl' (c : byte) : Byte.eqb c c = true.
Proof. apply Byte.byte_dec_lb. reflexivity. Qed.

Lemma has_dot_hex h : hex h -> AddrRef.has AddrRef.dot h = false.
Proof.
  induction h as [|c r IH]; intros H; [reflexivity|]. inversion H; subst. cbn [AddrRef.has].
  rewrite ishex_ndot by assumption. apply IH; assumption.
Qed.

Lemma has_mid c a b : AddrRef.has c (a ++ c :: b) = true.
Proof.
  induction a as [|x a IH]; cbn [app AddrRef.has]; [rewrite eqb_refl'; reflexivity|]. rewrite IH. apply orb_true_r.
Qed.

Lemma hex_hexstr g : g < 65536 -> hex (hexstr g).
Proof. exact (hexstr_hex g). Qed.

(* ---------- 3. splitting at ':' ---------- *)
Lemma split_hex h : hex h -> AddrRef.split_on colon h = [h].
Proof.
  induction h as [|c r IH]; intros H; [reflexivity|]. inversion H; subst. cbn [AddrRef.split_on].
  rewrite ishex_ncolon by assumption. rewrite IH by assumption. reflexivity.
Qed.

Lemma split_hex_app h rest : hex h -> AddrRef.split_on colon (h ++ colon :: rest) = h :: AddrRef.split_on colon rest.
Proof.
  induction h as [|c r IH]; intros H.
  - cbn [app AddrRef.split_on]. rewrite eqb_refl'. reflexivity.
  - inversion H; subst. cbn [app AddrRef.split_on]. rewrite ishex_ncolon by assumption. rewrite IH by assumption. reflexivity.
Qed.

Lemma join_cons2 g g2 r : join (g :: g2 :: r) = hexstr g ++ colon :: join (g2 :: r).
Proof. reflexivity. Qed.

Lemma split_join gs : small gs -> gs <> [] -> AddrRef.split_on colon (join gs) = map hexstr gs.
Proof.
  induction gs as [|g r IH]; intros Hs Hne; [contradiction|]. inversion Hs; subst.
  destruct r as [|g2 r2].
  - cbn [join map]. apply split_hex, hex_hexstr; assumption.
  - rewrite join_cons2. rewrite split_hex_app by (apply hex_hexstr; assumption).
    rewrite IH by (try assumption; discriminate). reflexivity.
Qed.

(* ---------- 4. the pieces ---------- *)
Lemma pieces_cons2 (p q : str) (r : list str) ql :
  AddrRef.pieces (@cons str p (@cons str q r)) ql =
  match AddrRef.hexgroup p, AddrRef.pieces (@cons str q r) ql with Some g, Some gs => Some (g :: gs) | _, _ => None end.
Proof. reflexivity. Qed.

Lemma pieces_one (p : str) ql :
  AddrRef.pieces (@cons str p (@nil str)) ql =
  if ql && AddrRef.has AddrRef.dot p then match AddrRef.quad p with Some (a, b) => Some [a; b] | None => None end
  else match AddrRef.hexgroup p with Some g => Some [g] | None => None end.
Proof. reflexivity. Qed.

Lemma pieces_hex gs ql : small gs -> AddrRef.pieces (map hexstr gs) ql = Some gs.
Proof.
  induction gs as [|g r IH]; intros Hs; [reflexivity|]. inversion Hs; subst.
  destruct r as [|g2 r2].
  - cbn [map]. rewrite pieces_one. rewrite has_dot_hex by (apply hex_hexstr; assumption). rewrite andb_false_r.
    rewrite hexgroup_hexstr by assumption. reflexivity.
  - specialize (IH ltac:(assumption)). cbn [map] in IH |- *. rewrite pieces_cons2. rewrite IH.
    rewrite hexgroup_hexstr by assumption. reflexivity.
Qed.

Lemma join_nonempty gs : small gs -> gs <> [] -> exists c t, join gs = c :: t /\ ishex c = true.
Proof.
  intros Hs Hne. destruct gs as [|g r]; [contradiction|]. inversion Hs; subst. apply join_first; assumption.
Qed.

Lemma side_join gs ql : small gs -> AddrRef.side (join gs) ql = Some gs.
Proof.
  intros Hs. destruct gs as [|g r] eqn:E; [reflexivity|]. rewrite <- E in *.
  assert (gs <> []) as Hne by (subst; discriminate).
  destruct (join_nonempty gs Hs Hne) as (c & t & Ej & _).
  unfold AddrRef.side. rewrite Ej. rewrite <- Ej.
  change AddrRef.colon with colon. rewrite split_join by assumption. apply pieces_hex; assumption.
Qed.

(* ---------- 5. the first "::" ---------- *)
Lemma find_dc_cons a b r :
  AddrRef.find_dc (a :: b :: r) =
  if Byte.eqb a colon && Byte.eqb b colon then Some ([], r)
  else match AddrRef.find_dc (b :: r) with Some (l, r') => Some (a :: l, r') | None => None end.
Proof. reflexivity. Qed.

Lemma find_dc_hex h t : hex h ->
  AddrRef.find_dc (h ++ t) = match AddrRef.find_dc t with Some (l, r) => Some (h ++ l, r) | None => None end.
Proof.
  induction h as [|a h IH]; intros H.
  - cbn [app]. destruct (AddrRef.find_dc t) as [[l r]|]; reflexivity.
  - inversion H as [|? ? Ha Hh]; subst. specialize (IH Hh). cbn [app].
    destruct (h ++ t) as [|b u] eqn:E.
    + apply app_eq_nil in E as [-> ->]. reflexivity.
    + rewrite find_dc_cons. rewrite (ishex_ncolon a Ha). cbn [andb]. rewrite IH.
      destruct (AddrRef.find_dc t) as [[l r]|]; reflexivity.
Qed.

Lemma find_dc_colon_hex c t : ishex c = true ->
  AddrRef.find_dc (colon :: c :: t) = match AddrRef.find_dc (c :: t) with Some (l, r) => Some (colon :: l, r) | None => None end.
Proof. intros H. rewrite find_dc_cons. rewrite (ishex_ncolon c H). rewrite andb_false_r. reflexivity. Qed.

Lemma find_dc_join gs : small gs -> AddrRef.find_dc (join gs) = None.
Proof.
  induction gs as [|g r IH]; intros Hs; [reflexivity|]. inversion Hs as [|? ? Hg Hr]; subst.
  destruct r as [|g2 r2].
  - cbn [join]. rewrite <- (app_nil_r (hexstr g)). rewrite find_dc_hex by (apply hex_hexstr; assumption). reflexivity.
  - rewrite join_cons2. rewrite find_dc_hex by (apply hex_hexstr; assumption).
    specialize (IH Hr). destruct (join_nonempty (g2 :: r2) Hr ltac:(discriminate)) as (c & t & Ej & Hc).
    rewrite Ej in *. rewrite find_dc_colon_hex by assumption. rewrite IH. reflexivity.
Qed.

Lemma find_dc_join_dc pre r : small pre -> pre <> [] ->
  AddrRef.find_dc (join pre ++ colon :: colon :: r) = Some (join pre, r).
Proof.
  induction pre as [|g rest IH]; intros Hs Hne; [contradiction|]. inversion Hs as [|? ? Hg Hr]; subst.
  destruct rest as [|g2 r2].
  - cbn [join]. rewrite find_dc_hex by (apply hex_hexstr; assumption). rewrite find_dc_cons. rewrite !eqb_refl'. cbn [andb].
    rewrite app_nil_r. reflexivity.
  - rewrite join_cons2. rewrite <- app_assoc. cbn [app]. rewrite find_dc_hex by (apply hex_hexstr; assumption).
    specialize (IH Hr ltac:(discriminate)). destruct (join_nonempty (g2 :: r2) Hr ltac:(discriminate)) as (c & t & Ej & Hc).
    rewrite Ej in *. cbn [app] in IH |- *. rewrite find_dc_colon_hex by assumption. rewrite IH. reflexivity.
Qed.

Lemma sepd_join pre : pre <> [] -> sepd pre = join pre ++ [colon].
Proof.
  induction pre as [|g r IH]; intros Hne; [contradiction|]. unfold sepd in *. cbn [map concat].
  destruct r as [|g2 r2].
  - cbn [map concat join]. rewrite app_nil_r. reflexivity.
  - rewrite IH by discriminate. rewrite join_cons2. rewrite <- !app_assoc. reflexivity.
Qed.

(* ---------- 6. the two shapes ---------- *)
Theorem ref_plain gs : length gs = 8%nat -> small gs -> AddrRef.ref_pton (join gs) = Some gs.
Proof.
  intros Hl Hs. unfold AddrRef.ref_pton.
  assert (AddrRef.has AddrRef.colon (join gs) = true) as ->.
  { destruct gs as [|g [|g2 r]]; try discriminate. rewrite join_cons2. apply has_mid. }
  unfold AddrRef.ref_pton6. rewrite find_dc_join by assumption.
  change AddrRef.colon with colon. rewrite split_join by (try assumption; intros ->; discriminate).
  rewrite pieces_hex by assumption. rewrite Hl. reflexivity.
Qed.

Theorem ref_compressed pre post z :
  small pre -> small post -> (length pre + z + length post = 8)%nat -> (2 <= z)%nat ->
  AddrRef.ref_pton (text pre post) = Some (pre ++ repeat 0 z ++ post).
Proof.
  intros Hpre Hpost Hl Hz. unfold AddrRef.ref_pton.
  assert (AddrRef.has AddrRef.colon (text pre post) = true) as -> by (unfold text; apply has_mid).
  unfold AddrRef.ref_pton6.
  destruct pre as [|p0 pr0] eqn:Epre.
  - unfold text. cbn [app].
    assert (AddrRef.find_dc (x30 :: colon :: colon :: join post) = Some ([x30], join post)) as -> by reflexivity.
    assert (AddrRef.side [x30] false = Some [0]) as -> by (vm_compute; reflexivity).
    rewrite side_join by assumption. cbn [length] in Hl |- *.
    assert (Nat.leb (1 + length post) 7 = true) as -> by (apply Nat.leb_le; lia).
    replace z with (S (8 - 1 - length post))%nat by lia. reflexivity.
  - rewrite <- Epre in *. assert (pre <> []) as Hne by (subst; discriminate).
    rewrite text_cons by assumption. rewrite sepd_join by assumption. rewrite <- app_assoc. cbn [app].
    rewrite find_dc_join_dc by assumption. rewrite !side_join by assumption.
    assert (Nat.leb (length pre + length post) 7 = true) as -> by (apply Nat.leb_le; lia).
    replace (8 - length pre - length post)%nat with z by lia. reflexivity.
Qed.

(* ---------- 7. the printer ---------- *)
Theorem ref_ntop6 gs : length gs = 8%nat -> small gs -> AddrRef.ref_pton (ntop6 gs) = Some gs.
Proof.
  intros Hl Hs. destruct (scan gs 0 0 0 0) as [s z] eqn:E.
  destruct (ntop6_shape gs s z Hl E) as [Hp Hc].
  destruct (le_lt_dec 2 z) as [Hz|Hz].
  - destruct (Hc Hz) as (-> & Eg & Lf & Ls).
    rewrite Eg at 3. apply ref_compressed; [apply small_firstn|apply small_skipn|rewrite Lf|]; assumption.
  - rewrite (Hp Hz). apply ref_plain; assumption.
Qed.
