(* The bounded theorems of ModProps.v (all_ok 3, all_ok 4, by evaluation) are instances of the unbounded theorem:
   all_ok n = true for EVERY n, i.e. for every digraph without self loops on n modules and the four listing orders, any n. *)
From Coq Require Import List Arith Lia Bool.
Import ListNotations.
Require Import ModModel ModBase ModUnbounded.

Lemma NoDup_app' {A} (l1 l2 : list A) : NoDup l1 -> NoDup l2 -> (forall x, In x l1 -> ~ In x l2) -> NoDup (l1 ++ l2).
Proof.
  induction l1; simpl; intros H1 H2 H; auto. inversion H1; subst. constructor.
  - rewrite in_app_iff. intros [Hx|Hx]. contradiction. apply (H a); auto.
  - apply IHl1; auto.
Qed.
Lemma NoDup_flat_map {A B} (f : A -> list B) (l : list A) :
  NoDup l -> (forall a, In a l -> NoDup (f a)) ->
  (forall a a' x, In a l -> In a' l -> In x (f a) -> In x (f a') -> a = a') -> NoDup (flat_map f l).
Proof.
  induction l; simpl; intros H1 H2 H3. constructor. inversion H1; subst. apply NoDup_app'.
  - apply H2; auto.
  - apply IHl; auto. intros; eapply H3; eauto.
  - intros x Hx Hx'. apply in_flat_map in Hx'. destruct Hx' as [a' [Ha' Hxa']].
    assert (a = a') by (eapply H3; eauto). subst. contradiction.
Qed.

Lemma In_pairs n a b : In (a, b) (pairs n) <-> a < n /\ b < n /\ a <> b.
Proof.
  unfold pairs. rewrite in_flat_map. split.
  - intros [x [Hx H]]. apply in_flat_map in H. destruct H as [y [Hy H]]. apply in_seq in Hx. apply in_seq in Hy.
    destruct (Nat.eqb x y) eqn:E. destruct H. destruct H as [H|[]]. inversion H; subst. apply Nat.eqb_neq in E. lia.
  - intros (Ha & Hb & Hab). exists a. split. apply in_seq; lia. apply in_flat_map. exists b. split. apply in_seq; lia.
    apply Nat.eqb_neq in Hab. rewrite Hab. left; auto.
Qed.
Lemma NoDup_pairs n : NoDup (pairs n).
Proof.
  unfold pairs. apply NoDup_flat_map.
  - apply seq_NoDup.
  - intros a _. apply NoDup_flat_map.
    + apply seq_NoDup.
    + intros b _. destruct (Nat.eqb a b). constructor. constructor. intros []. constructor.
    + intros b b' x _ _ H1 H2. destruct (Nat.eqb a b); [destruct H1|]. destruct (Nat.eqb a b'); [destruct H2|].
      destruct H1 as [H1|[]]. destruct H2 as [H2|[]]. congruence.
  - intros a a' x _ _ H1 H2. apply in_flat_map in H1. destruct H1 as [b [_ H1]]. apply in_flat_map in H2. destruct H2 as [b' [_ H2]].
    destruct (Nat.eqb a b); [destruct H1|]. destruct (Nat.eqb a' b'); [destruct H2|].
    destruct H1 as [H1|[]]. destruct H2 as [H2|[]]. congruence.
Qed.

Definition sel (bs : list bool) (ps : list (mid * mid)) : list (mid * mid) := map snd (filter fst (combine bs ps)).
Lemma sel_sub : forall bs ps, NoDup ps -> NoDup (sel bs ps) /\ incl (sel bs ps) ps.
Proof.
  unfold sel. induction bs as [|b bs IH]; intros ps Hn.
  - simpl. split. constructor. intros x [].
  - destruct ps as [|p ps]. simpl. split. constructor. intros x [].
    inversion Hn; subst. destruct (IH ps H2) as [A B]. simpl. destruct b; simpl.
    + split. constructor; auto. intros x [<-|Hx]. left; auto. right; auto.
    + split; auto. intros x Hx. right; auto.
Qed.

Lemma graph_of_eq n bs m : graph_of n bs m = map snd (filter (fun p => Nat.eqb (fst p) m) (sel bs (pairs n))).
Proof. reflexivity. Qed.

Lemma NoDup_row (L : list (mid * mid)) (m : mid) : NoDup L -> NoDup (map snd (filter (fun p => Nat.eqb (fst p) m) L)).
Proof.
  induction L as [|p L IH]; simpl; intro H. constructor. inversion H; subst.
  match goal with |- context [if ?c then _ else _] => destruct c eqn:E end; auto. simpl. constructor; auto.
  intro Hi. apply in_map_iff in Hi. destruct Hi as [q [Hq1 Hq2]]. apply filter_In in Hq2. destruct Hq2 as [Hq2 Hq3].
  apply Nat.eqb_eq in E. apply Nat.eqb_eq in Hq3. assert (q = p). { destruct p, q; simpl in *; subst; reflexivity. } subst. contradiction.
Qed.

Lemma graph_of_wf n bs : wfg n (graph_of n bs).
Proof.
  intros m d Hd. rewrite graph_of_eq in Hd. apply in_map_iff in Hd. destruct Hd as [[a b] [E Hp]]. simpl in E. subst b.
  apply filter_In in Hp. destruct Hp as [Hp _]. apply (proj2 (sel_sub bs (pairs n) (NoDup_pairs n))) in Hp.
  apply In_pairs in Hp. tauto.
Qed.
Lemma graph_of_nodup n bs m : NoDup (graph_of n bs m).
Proof. rewrite graph_of_eq. apply NoDup_row. apply (proj1 (sel_sub bs (pairs n) (NoDup_pairs n))). Qed.

Lemma listings_ok n l : 1 <= n -> In l (listings n) -> (forall m, In m l -> m < n) /\ length l <= n + 2.
Proof.
  intros Hn [<-|[<-|[<-|[<-|[]]]]].
  - split. intros m [<-|[]]; lia. simpl; lia.
  - split. intros m Hm. apply in_rev in Hm. apply in_seq in Hm. lia. rewrite rev_length, seq_length. lia.
  - split. intros m Hm. apply in_seq in Hm. lia. rewrite seq_length. lia.
  - split. intros m [<-|[<-|[]]]; lia. simpl; lia.
Qed.

Theorem every_graph_every_n : forall n, 1 <= n -> forall bs l, In l (listings n) -> monitor n (graph_of n bs) l = true.
Proof.
  intros n Hn bs l Hl. destruct (listings_ok n l Hn Hl) as [A B].
  apply run_monitor_true; auto. apply graph_of_wf. apply graph_of_nodup.
Qed.

Theorem all_ok_every_n : forall n, all_ok n = true.
Proof.
  intros [|n]. vm_compute; reflexivity.
  unfold all_ok. apply forallb_forall. intros bs _. apply forallb_forall. intros l Hl. apply every_graph_every_n; auto. lia.
Qed.
