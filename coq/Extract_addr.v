Require Import AddrFull AddrRef.
Require Extraction. Require Import ExtrOcamlBasic.
Extraction "addr_model.ml" AddrFull.ntop AddrFull.pton AddrFull.cm AddrRef.ref_pton.
