(* C06: queries are timely and carry the client's own data.  ONLY statements closed by `exact`, each followed by Print Assumptions. *)
From Coq Require Import List NArith ZArith Bool Strings.Byte Strings.String.
Import ListNotations.
Require Import Params Iauth IauthFacts.
Local Open Scope list_scope.

(* the lines of a query pass are exactly, in slot order, the query lines of every configured service whose
   prerequisites hold and that was not asked before (qspec), computed from the client's stored fields *)
Theorem query_pass_exact : forall ss slot is_pw r outs efs,
  snd (fst (qpass ss slot is_pw r outs efs)) = outs ++ qspec ss slot is_pw r.
Proof. exact qpass_outs. Qed.
Print Assumptions query_pass_exact.

Theorem query_payload_is_the_clients_own : forall r slot,
  nick (queried r slot) = nick r /\ username (queried r slot) = username r /\ addr (queried r slot) = addr r /\
  hostn (queried r slot) = hostn r /\ real (queried r slot) = real r /\ pw (queried r slot) = pw r /\ cid (queried r slot) = cid r /\ ser (queried r slot) = ser r.
Proof. exact queried_fields. Qed.
Print Assumptions query_payload_is_the_clients_own.

Theorem user_name_within_limit : forall r, (List.length (username r) <= USERLEN)%nat.
Proof. exact username_fits. Qed.
Print Assumptions user_name_within_limit.

(* a password lacking the '<modes> <account> <password>' shape is never forwarded and never stored *)
Theorem shapeless_password_not_forwarded : forall tb r t,
  (more r =? 0)%N || negb (nonempty (pw r)) = true -> ~ well_shaped t -> password tb r t = (r, [], []).
Proof. exact password_shape. Qed.
Print Assumptions shapeless_password_not_forwarded.
