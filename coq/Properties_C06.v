(* C06: queries are timely and carry the client's own data.  ONLY statements closed by `exact`, each followed by Print Assumptions. *)
From Coq Require Import List NArith ZArith Bool Strings.Byte Strings.String.
Import ListNotations.
Require Import Params Iauth IauthFacts.
Require QueryWhen Mon01 Stray.
Local Open Scope list_scope.

(* the lines of a query pass are exactly, in slot order, the query lines of every configured service whose
   prerequisites hold and that was not asked before (qspec), computed from the client's stored fields *)
Theorem query_pass_exact : forall ss slot is_pw r outs efs,
  snd (fst (qpass ss slot is_pw r outs efs)) = outs ++ qspec ss slot is_pw r.
Proof. exact qpass_outs. Qed.
Print Assumptions query_pass_exact.

Theorem query_payload_is_the_clients_own : forall r slot,
  nick (queried r slot) = nick r /\ username (queried r slot) = username r /\ addr (queried r slot) = addr r /\
  hostn (queried r slot) = hostn r /\ real (queried r slot) = real r /\ pw (queried r slot) = pw r /\ cid (queried r slot) = cid r /\ ser (queried r slot) = ser r.
Proof. exact queried_fields. Qed.
Print Assumptions query_payload_is_the_clients_own.

Theorem user_name_within_limit : forall r, (List.length (username r) <= USERLEN)%nat.
Proof. exact username_fits. Qed.
Print Assumptions user_name_within_limit.

(* a password lacking the '<modes> <account> <password>' shape is never forwarded and never stored *)
Theorem shapeless_password_not_forwarded : forall tb r t,
  (more r =? 0)%N || negb (nonempty (pw r)) = true -> ~ well_shaped t -> password tb r t = (r, [], []).
Proof. exact password_shape. Qed.
Print Assumptions shapeless_password_not_forwarded.

(* "exactly when the data its protocol needs is known ... not earlier and not skipped", in three layers.
   (1) what a pass writes: the query lines, computed from the client's own record r, of exactly the occupied, configured slots that
       are not skipped - evaluated on r itself, in slot order *)
Theorem pass_asks_exactly_the_eligible_services : forall ss is_pw r,
  qspec ss 0 is_pw r =
  flat_map (fun ks => query_lines (s_name (snd ks)) (s_type (snd ks)) r)
           (filter (fun ks => s_conf (snd ks) && negb (skip_query (s_type (snd ks)) (fst ks) is_pw r)) (QueryWhen.indexed ss)).
Proof. exact QueryWhen.query_lines_iff. Qed.
Print Assumptions pass_asks_exactly_the_eligible_services.

(* (2) what "not skipped" means: the data the protocol needs is known, login-type protocols have a stored (well-shaped) password,
       and the service was not asked before - except that a new password asks non-dronecheck services again *)
Theorem eligibility_is_the_documented_condition : forall t k is_pw r,
  skip_query t k is_pw r = false <->
  prereq_ok t r = true /\ (is_loginish t = true -> nonempty (pw r) = true) /\
  (N.testbit (sent r) k = false \/ (is_pw = true /\ is_drone t = false)).
Proof. exact QueryWhen.skip_query_meaning. Qed.
Print Assumptions eligibility_is_the_documented_condition.

Theorem needed_data_per_protocol : forall t r,
  prereq_ok t r = true <->
  match t with
  | Login => f_pass r = true
  | LoginIpr => f_host r = true /\ f_ident r = true /\ f_pass r = true
  | Drone | Combined => f_host r = true /\ f_ident r = true /\ f_nick r = true /\ f_user r = true
  end.
Proof. exact QueryWhen.prereq_ok_meaning. Qed.
Print Assumptions needed_data_per_protocol.

(* (3) on a whole input line about a live client (r1 = the record after the line's own update): NOT SKIPPED - an eligible configured
       service's query is among the lines of that very step; NOT EARLIER - every query line of the step belongs to such a service *)
Theorem eligible_service_is_queried_in_that_step : forall c s id argv r r1 n sv,
  with_xq c = true -> lookup id (reqs s) = Some r ->
  beq (cmdchar argv) x43 = false -> beq (cmdchar argv) x58 || beq (cmdchar argv) x78 = false ->
  Stray.handle c (tb s) r argv = Stray.HFin (QueryWhen.aft_res c (tb s) r1) ->
  nth_error (slots (tb s)) n = Some (Some sv) -> s_conf sv = true -> skip_query (s_type sv) (N.of_nat n) false r1 = false ->
  incl (query_lines (s_name sv) (s_type sv) r1) (snd (step c s id argv)).
Proof. exact QueryWhen.queried_in_that_step. Qed.
Print Assumptions eligible_service_is_queried_in_that_step.

Theorem query_only_when_data_known : forall c s id argv r r1 nm i sr pl,
  lookup id (reqs s) = Some r ->
  beq (cmdchar argv) x43 = false -> beq (cmdchar argv) x58 || beq (cmdchar argv) x78 = false ->
  Stray.handle c (tb s) r argv = Stray.HFin (QueryWhen.aft_res c (tb s) r1) ->
  In (OX nm i sr pl) (snd (step c s id argv)) ->
  with_xq c = true /\
  exists n sv, nth_error (slots (tb s)) n = Some (Some sv) /\ s_conf sv = true /\
               skip_query (s_type sv) (N.of_nat n) false r1 = false /\
               In (OX nm i sr pl) (query_lines (s_name sv) (s_type sv) r1).
Proof. exact QueryWhen.query_only_when_known. Qed.
Print Assumptions query_only_when_data_known.

(* "or the server says hurry up": after H every piece of registration data counts as known *)
Theorem hurry_up_makes_data_known : forall c s id argv r r',
  with_xq c = true -> Mon01.NoDupIds (reqs s) -> lookup id (reqs s) = Some r -> cmdchar argv = x48 ->
  lookup id (reqs (fst (step c s id argv))) = Some r' ->
  f_host r' = true /\ f_ident r' = true /\ f_nick r' = true /\ f_user r' = true.
Proof. exact QueryWhen.hurry_up_makes_data_known. Qed.
Print Assumptions hurry_up_makes_data_known.
Require D30.

(* D30, REPAIRED: the statements above are about SLOTS, and a slot is not a service once reloads release and refill it.  A reload that
   gives a previously empty slot to a service makes every pending request forget that slot (SlotReuse.reload_forgets_refilled_slots),
   so the new occupant is asked like any other service (SlotReuse.new_occupant_is_eligible_again).  D30.d30_statement: the model's run
   on the history of D30.v, whose step "5 U" now prints the CHECK query for the configured dronecheck d.svc (all of whose data are
   known) and the soft-done line - and no accept line.  Before the repair the step printed the accept line only. *)
Theorem a_service_in_a_refilled_slot_is_asked : D30.d30_statement.
Proof. exact D30.d30_repaired. Qed.
Print Assumptions a_service_in_a_refilled_slot_is_asked.
