(* C02, last clause: "a client refused by any service it was submitted to is never accepted".
   Stated on the model's own trace (Mon01.trace): after a reject line `k` for a client id, every later line that names
   that id (in particular an accept line D or R) is preceded by a new complete announcement `C` of the id, i.e. it is
   about a NEW connection instance.  The proofs go through the C01 monitor (Mon01.step_mon): a verdict line deletes the
   id from the monitor state, the monitor state and the request table agree (Rel), and the monitor accepts no line
   naming an id it does not hold. *)
From Coq Require Import List NArith ZArith Bool Strings.Byte Strings.String Lia.
Import ListNotations.
Require Import Iauth IauthFacts Mon01 Stray.
Local Open Scope string_scope.
Local Open Scope list_scope.
Local Open Scope Z_scope.

(* the state reached by a history *)
Definition run (c : cfg) (s : st) (evs : list (Z * list str)) : st :=
  fold_left (fun s e => fst (step c s (fst e) (snd e))) evs s.

Lemma run_app c e1 e2 s : run c s (e1 ++ e2) = run c (run c s e1) e2.
Proof. unfold run. apply fold_left_app. Qed.
Lemma run_cons c s id argv r : run c s ((id, argv) :: r) = run c (fst (step c s id argv)) r.
Proof. reflexivity. Qed.

(* a line that names client id: a query carrying its routing tag, or a client-directed line *)
Definition mentions (id : Z) (o : out) : Prop :=
  match o with OX _ i _ _ => i = id | OC _ i _ _ _ => i = id | ORaw _ => False end.

(* this event is a complete announcement of id *)
Definition announces_id (id : Z) (e : Z * list str) : bool := (fst e =? id) && announces (snd e).

(* ---------- monitor facts ---------- *)
(* an id the monitor does not hold is named by no accepted output, and is still not held afterwards *)
Lemma mon_outs_absent id outs : forall m m', mfind id m = None -> mon_outs m outs = Some m' ->
  mfind id m' = None /\ Forall (fun o => ~ mentions id o) outs.
Proof.
  induction outs as [|o outs IH]; intros m m' Hn H; cbn [mon_outs] in H.
  - inversion H; subst. split; [exact Hn|constructor].
  - destruct o as [n i sr pl|k i a p rs|t].
    + destruct (mfind i m) as [sd|] eqn:Ei; [|discriminate].
      destruct (IH m m' Hn H) as [A B]. split; [exact A|]. constructor; [|exact B].
      cbn [mentions]. intros ->. congruence.
    + destruct (mfind i m) as [sd|] eqn:Ei; [|discriminate].
      assert (i <> id) as Hi by (intros ->; congruence).
      assert (forall m1, mfind id m1 = None -> mon_outs m1 outs = Some m' ->
                mfind id m' = None /\ Forall (fun o => ~ mentions id o) (OC k i a p rs :: outs)) as K.
      { intros m1 H1 H2. destruct (IH m1 m' H1 H2) as [A B]. split; [exact A|]. constructor; [|exact B]. cbn [mentions]. exact Hi. }
      destruct (is_verdict k).
      * apply (K (mdel i m)); [|exact H]. rewrite mfind_mdel_other by congruence. exact Hn.
      * destruct (is_softdone k).
        -- destruct sd; [discriminate|]. apply (K (mset i true m)); [|exact H].
           unfold mset. cbn [mfind]. destruct (i =? id) eqn:E; [apply Z.eqb_eq in E; contradiction|].
           rewrite mfind_mdel_other by congruence. exact Hn.
        -- apply (K m); assumption.
    + destruct (IH m m' Hn H) as [A B]. split; [exact A|]. constructor; [|exact B]. cbn [mentions]. tauto.
Qed.

(* a verdict line for id in an accepted output list leaves the monitor without id *)
Lemma mon_outs_verdict id k a p rest outs : forall m m', NoDupM m -> mon_outs m outs = Some m' ->
  In (OC k id a p rest) outs -> is_verdict k = true -> mfind id m' = None.
Proof.
  induction outs as [|o outs IH]; intros m m' NM H Hin Hv; [destruct Hin|].
  destruct Hin as [->|Hin].
  - cbn [mon_outs] in H. destruct (mfind id m) as [sd|]; [|discriminate]. rewrite Hv in H.
    apply (mon_outs_absent id outs (mdel id m) m'); [apply mfind_mdel_same; exact NM|exact H].
  - cbn [mon_outs] in H. destruct o as [n i sr pl|k0 i a0 p0 rs|t].
    + destruct (mfind i m); [|discriminate]. apply (IH m m'); assumption.
    + destruct (mfind i m) as [sd|]; [|discriminate].
      destruct (is_verdict k0); [apply (IH (mdel i m) m'); try assumption; apply nodupm_mdel; exact NM|].
      destruct (is_softdone k0); [|apply (IH m m'); assumption].
      destruct sd; [discriminate|]. apply (IH (mset i true m) m'); try assumption. apply nodupm_mset; exact NM.
    + apply (IH m m'); assumption.
Qed.

(* the monitor state against which the outputs of a step are judged *)
Definition mon_pre (m : mstate) (id : Z) (argv : list str) : mstate :=
  if announces argv then mset id false m else if withdraws argv then mdel id m else m.

Lemma mon_step_pre m id argv outs : mon_step m id argv outs = mon_outs (mon_pre m id argv) outs.
Proof. unfold mon_step, mon_pre. destruct (announces argv); [reflexivity|]. destruct (mon_outs _ outs); reflexivity. Qed.

Lemma nodupm_pre m id argv : NoDupM m -> NoDupM (mon_pre m id argv).
Proof.
  intros NM. unfold mon_pre. destruct (announces argv); [apply nodupm_mset; exact NM|].
  destruct (withdraws argv); [apply nodupm_mdel; exact NM|exact NM].
Qed.

Lemma mfind_pre_absent m i argv id : NoDupM m -> mfind id m = None -> announces_id id (i, argv) = false ->
  mfind id (mon_pre m i argv) = None.
Proof.
  intros NM Hn Ha. unfold announces_id in Ha. cbn [fst snd] in Ha. unfold mon_pre.
  destruct (announces argv).
  - rewrite andb_true_r in Ha. apply Z.eqb_neq in Ha. unfold mset. cbn [mfind]. rewrite (proj2 (Z.eqb_neq i id)) by exact Ha.
    rewrite mfind_mdel_other by congruence. exact Hn.
  - destruct (withdraws argv); [|exact Hn].
    destruct (Z.eq_dec id i) as [->|Hne]; [apply mfind_mdel_same; exact NM|rewrite mfind_mdel_other by exact Hne; exact Hn].
Qed.

Lemma rel_absent m l id : Rel m l -> (mfind id m = None <-> lookup id l = None).
Proof. intros R. rewrite (R id). destruct (lookup id l); split; congruence. Qed.

(* a complete announcement prints nothing *)
Lemma announce_silent c s id argv : announces argv = true -> snd (step c s id argv) = [].
Proof.
  unfold announces, step. cbv zeta. intros H. apply andb_true_iff in H as [H1 H2]. rewrite H1.
  destruct (arg 1 argv) as [a|]; [|discriminate]. destruct (arg 2 argv); [|discriminate].
  destruct (arg 3 argv); [|discriminate]. destruct (arg 4 argv); [|discriminate].
  destruct (announce_addr a). reflexivity.
Qed.

(* ---------- one step, from a state the monitor is in step with ---------- *)
(* 1. a verdict line retires the instance *)
Lemma step_verdict_retires c s m i argv id k a p rest : Good m s ->
  In (OC k id a p rest) (snd (step c s i argv)) -> is_verdict k = true ->
  lookup id (reqs (fst (step c s i argv))) = None.
Proof.
  intros HG Hin Hv. destruct (step_mon c s i argv m HG) as (m' & Hm & (NM' & NL' & R')).
  rewrite mon_step_pre in Hm. destruct HG as (NM & _ & _).
  apply (rel_absent m' _ id R').
  apply (mon_outs_verdict id k a p rest _ _ m' (nodupm_pre m i argv NM) Hm Hin Hv).
Qed.

(* 2. no line about an id that is not in the table, and the id stays out of the table *)
Lemma step_absent c s m i argv id : Good m s -> lookup id (reqs s) = None -> announces_id id (i, argv) = false ->
  Forall (fun o => ~ mentions id o) (snd (step c s i argv)) /\ lookup id (reqs (fst (step c s i argv))) = None.
Proof.
  intros HG Hl Ha. destruct (step_mon c s i argv m HG) as (m' & Hm & (NM' & NL' & R')).
  rewrite mon_step_pre in Hm. destruct HG as (NM & NL & R).
  assert (mfind id (mon_pre m i argv) = None) as Hp by (apply mfind_pre_absent; [exact NM|apply (rel_absent m _ id R); exact Hl|exact Ha]).
  destruct (mon_outs_absent id _ _ m' Hp Hm) as [A B]. split; [exact B|]. apply (rel_absent m' _ id R'). exact A.
Qed.

(* ---------- reachable states ---------- *)
Lemma reachable_good c s0 evs : reqs s0 = [] -> exists m, Good m (run c s0 evs).
Proof. intros H0. destruct (run_good c evs [] s0 (good_empty s0 H0)) as (m & _ & HG). exists m. exact HG. Qed.

Theorem verdict_retires_the_instance c s0 e1 i argv id k a p rest :
  reqs s0 = [] ->
  In (OC k id a p rest) (snd (step c (run c s0 e1) i argv)) -> is_verdict k = true ->
  lookup id (reqs (run c s0 (e1 ++ [(i, argv)]))) = None.
Proof.
  intros H0 Hin Hv. rewrite run_app. cbn [run fold_left fst snd]. fold (run c s0 e1).
  destruct (reachable_good c s0 e1 H0) as (m & HG). eapply step_verdict_retires; eassumption.
Qed.

Theorem no_verdict_without_live_instance c s0 e1 i argv id :
  reqs s0 = [] -> lookup id (reqs (run c s0 e1)) = None -> announces_id id (i, argv) = false ->
  Forall (fun o => ~ mentions id o) (snd (step c (run c s0 e1) i argv)).
Proof.
  intros H0 Hl Ha. destruct (reachable_good c s0 e1 H0) as (m & HG). exact (proj1 (step_absent c _ m i argv id HG Hl Ha)).
Qed.

Theorem lookup_after_step_none c s0 e1 i argv id :
  reqs s0 = [] -> lookup id (reqs (run c s0 e1)) = None -> announces_id id (i, argv) = false ->
  lookup id (reqs (fst (step c (run c s0 e1) i argv))) = None.
Proof.
  intros H0 Hl Ha. destruct (reachable_good c s0 e1 H0) as (m & HG). exact (proj2 (step_absent c _ m i argv id HG Hl Ha)).
Qed.

(* an announcement of id itself prints nothing, so in every case an absent id is named by no line of the step *)
Corollary absent_id_is_not_named c s0 e1 i argv id :
  reqs s0 = [] -> lookup id (reqs (run c s0 e1)) = None ->
  Forall (fun o => ~ mentions id o) (snd (step c (run c s0 e1) i argv)).
Proof.
  intros H0 Hl. destruct (announces_id id (i, argv)) eqn:Ha; [|apply no_verdict_without_live_instance; assumption].
  unfold announces_id in Ha. apply andb_true_iff in Ha as [_ Ha]. cbn [snd] in Ha. rewrite (announce_silent c _ i argv Ha). constructor.
Qed.

(* ---------- histories: an absent id stays absent and unnamed until it is announced again ---------- *)
Lemma absent_until_announced c id e2 : forall s m, Good m s -> lookup id (reqs s) = None ->
  forallb (fun e => negb (announces_id id e)) e2 = true ->
  lookup id (reqs (run c s e2)) = None /\ exists m', Good m' (run c s e2).
Proof.
  induction e2 as [|[i argv] e2 IH]; intros s m HG Hl Hall; [split; [exact Hl|exists m; exact HG]|].
  cbn [forallb] in Hall. apply andb_true_iff in Hall as [Ha Hall]. apply negb_true_iff in Ha.
  rewrite run_cons. destruct (step_mon c s i argv m HG) as (m' & _ & HG').
  apply (IH _ m' HG'); [|exact Hall]. exact (proj2 (step_absent c s m i argv id HG Hl Ha)).
Qed.

(* either no event of the list announces id, or there is a first one that does *)
Lemma first_announcement id e2 :
  forallb (fun e => negb (announces_id id e)) e2 = true \/
  exists e2a argvk e2b, e2 = e2a ++ (id, argvk) :: e2b /\ announces argvk = true /\
                        forallb (fun e => negb (announces_id id e)) e2a = true.
Proof.
  induction e2 as [|[i argv] e2 IH]; [left; reflexivity|].
  destruct (announces_id id (i, argv)) eqn:Ha.
  - right. unfold announces_id in Ha. cbn [fst snd] in Ha. apply andb_true_iff in Ha as [Hi Ha]. apply Z.eqb_eq in Hi. subst i.
    exists [], argv, e2. repeat split; [exact Ha].
  - destruct IH as [IH|(e2a & argvk & e2b & -> & Hk & Hall)].
    + left. cbn [forallb]. rewrite Ha, IH. reflexivity.
    + right. exists ((i, argv) :: e2a), argvk, e2b. repeat split; [exact Hk|]. cbn [forallb]. rewrite Ha, Hall. reflexivity.
Qed.

(* split form: the heart of the clause *)
Theorem no_refusal_then_accept_in_one_instance c s0 e1 idi argvi e2 idj argvj id k a p rest :
  reqs s0 = [] ->
  In (OC k id a p rest) (snd (step c (run c s0 e1) idi argvi)) -> is_verdict k = true ->
  forallb (fun e => negb (announces_id id e)) e2 = true ->
  Forall (fun o => ~ mentions id o) (snd (step c (run c s0 (e1 ++ (idi, argvi) :: e2)) idj argvj)).
Proof.
  intros H0 Hin Hv Hall.
  apply absent_id_is_not_named; [exact H0|].
  replace (e1 ++ (idi, argvi) :: e2) with ((e1 ++ [(idi, argvi)]) ++ e2) by (rewrite <- app_assoc; reflexivity).
  rewrite run_app.
  destruct (reachable_good c s0 (e1 ++ [(idi, argvi)]) H0) as (m & HG).
  apply (absent_until_announced c id e2 _ m HG); [|exact Hall].
  eapply verdict_retires_the_instance; eassumption.
Qed.

(* the same with the reject / accept letters spelled out *)
Corollary no_accept_after_reject_in_one_instance c s0 e1 idi argvi e2 idj argvj id a p rest :
  reqs s0 = [] ->
  In (OC x6b id a p rest) (snd (step c (run c s0 e1) idi argvi)) ->
  forallb (fun e => negb (announces_id id e)) e2 = true ->
  forall k' a' p' rest', ~ In (OC k' id a' p' rest') (snd (step c (run c s0 (e1 ++ (idi, argvi) :: e2)) idj argvj)).
Proof.
  intros H0 Hin Hall k' a' p' rest' Hj.
  pose proof (no_refusal_then_accept_in_one_instance c s0 e1 idi argvi e2 idj argvj id x6b a p rest H0 Hin eq_refl Hall) as F.
  rewrite Forall_forall in F. apply (F _ Hj). reflexivity.
Qed.

(* split form with the witness: a later line about id is preceded by a new complete announcement of id *)
Theorem refused_then_named_means_reannounced c s0 e1 idi argvi e2 idj argvj id k a p rest o :
  reqs s0 = [] ->
  In (OC k id a p rest) (snd (step c (run c s0 e1) idi argvi)) -> is_verdict k = true ->
  In o (snd (step c (run c s0 (e1 ++ (idi, argvi) :: e2)) idj argvj)) -> mentions id o ->
  exists e2a argvk e2b, e2 = e2a ++ (id, argvk) :: e2b /\ announces argvk = true.
Proof.
  intros H0 Hin Hv Hj Hm.
  destruct (first_announcement id e2) as [Hall|(e2a & argvk & e2b & E & Hk & _)]; [|exists e2a, argvk, e2b; split; assumption].
  exfalso. pose proof (no_refusal_then_accept_in_one_instance c s0 e1 idi argvi e2 idj argvj id k a p rest H0 Hin Hv Hall) as F.
  rewrite Forall_forall in F. exact (F _ Hj Hm).
Qed.

(* ---------- the same on positions of the trace ---------- *)
Lemma trace_length c evs : forall s, List.length (trace c s evs) = List.length evs.
Proof. induction evs as [|[i a] evs IH]; intros s; cbn [trace List.length]; [reflexivity|rewrite IH; reflexivity]. Qed.

Lemma trace_nth c evs : forall s n i argv outs, nth_error (trace c s evs) n = Some (i, argv, outs) ->
  exists e1 e2, evs = e1 ++ (i, argv) :: e2 /\ List.length e1 = n /\ outs = snd (step c (run c s e1) i argv).
Proof.
  induction evs as [|[i0 a0] evs IH]; intros s n i argv outs H; [destruct n; discriminate|].
  destruct n as [|n]; cbn [trace nth_error] in H.
  - inversion H; subst. exists [], evs. repeat split.
  - destruct (IH _ n i argv outs H) as (e1 & e2 & -> & Hl & Ho).
    exists ((i0, a0) :: e1), e2. repeat split; [cbn [List.length]; rewrite Hl; reflexivity|]. rewrite run_cons. exact Ho.
Qed.

Lemma nth_trace c s e1 i argv e2 :
  nth_error (trace c s (e1 ++ (i, argv) :: e2)) (List.length e1) = Some (i, argv, snd (step c (run c s e1) i argv)).
Proof.
  rewrite trace_app. rewrite nth_error_app2 by (rewrite trace_length; lia).
  rewrite trace_length, Nat.sub_diag. reflexivity.
Qed.

Theorem refused_client_is_never_accepted c s0 evs ni nj idi argvi outsi idj argvj outsj id a p rest k' a' p' rest' :
  reqs s0 = [] ->
  nth_error (trace c s0 evs) ni = Some (idi, argvi, outsi) -> In (OC x6b id a p rest) outsi ->
  nth_error (trace c s0 evs) nj = Some (idj, argvj, outsj) -> (ni < nj)%nat ->
  In (OC k' id a' p' rest') outsj -> k' = x44 \/ k' = x52 ->
  exists nk argvk outsk, (ni < nk < nj)%nat /\ nth_error (trace c s0 evs) nk = Some (id, argvk, outsk) /\ announces argvk = true.
Proof.
  intros H0 Hi Hini Hj Hlt Hinj _.
  destruct (trace_nth c evs s0 ni idi argvi outsi Hi) as (e1 & r1 & E1 & L1 & O1).
  subst evs. rewrite trace_app in Hj. cbn [trace] in Hj.
  rewrite nth_error_app2 in Hj by (rewrite trace_length; lia). rewrite trace_length, L1 in Hj.
  destruct (nj - ni)%nat as [|d] eqn:Ed; [lia|]. cbn [nth_error] in Hj.
  destruct (trace_nth c r1 _ d idj argvj outsj Hj) as (e2 & e3 & E2 & L2 & O2). subst r1.
  fold (run c s0 e1) in O2. change (fst (step c (run c s0 e1) idi argvi)) with (run c (run c s0 e1) [(idi, argvi)]) in O2.
  assert (run c (run c (run c s0 e1) [(idi, argvi)]) e2 = run c s0 (e1 ++ (idi, argvi) :: e2)) as ER
    by (rewrite <- !run_app; try rewrite <- app_assoc; reflexivity).
  rewrite ER in O2. clear ER.
  subst outsi outsj.
  destruct (refused_then_named_means_reannounced c s0 e1 idi argvi e2 idj argvj id x6b a p rest _ H0 Hini eq_refl Hinj eq_refl)
    as (e2a & argvk & e2b & -> & Hk).
  exists (List.length (e1 ++ (idi, argvi) :: e2a)), argvk, (snd (step c (run c s0 (e1 ++ (idi, argvi) :: e2a)) id argvk)).
  split; [|split; [|exact Hk]].
  - rewrite app_length. cbn [List.length]. rewrite app_length in L2. cbn [List.length] in L2. lia.
  - replace (e1 ++ (idi, argvi) :: (e2a ++ (id, argvk) :: e2b) ++ (idj, argvj) :: e3)
      with ((e1 ++ (idi, argvi) :: e2a) ++ (id, argvk) :: e2b ++ (idj, argvj) :: e3)
      by (repeat (rewrite <- app_assoc; cbn [app]); reflexivity).
    apply nth_trace.
Qed.

(* ---------- 4. where the reject line comes from: a `NO <text>` reply of an awaited service ---------- *)
Theorem refusal_reply_is_a_reject_line c s id argv svcn tg tx r slot t :
  with_xq c = true -> cmdchar argv = x58 ->
  arg 1 argv = Some svcn -> arg 2 argv = Some tg -> arg 3 argv = Some tx ->
  reply_target s svcn tg = Some (r, slot, t) -> prefix (S_ "NO ") tx = true ->
  step c s id argv = ({| reqs := remove (cid r) (reqs s); next := next s; tb := tb s; tmo := tmo s |},
                      [oc x6b r (S_ " :" ++ skipn 3 tx)]).
Proof.
  intros Hx Hc A1 A2 A3 Ht Hp. unfold step. cbv zeta. rewrite Hc. change (beq x58 x43) with false. change (beq x58 x58) with true.
  cbn [orb]. rewrite Hx. cbn [negb]. rewrite A1, A2, A3.
  unfold reply_target in Ht. destruct (parse_tag tg) as [[tid tser]|]; [|discriminate].
  destruct (lookup tid (reqs s)) as [r0|] eqn:El; [|discriminate].
  destruct (ser r0 =? tser)%N; [|discriminate].
  destruct (find_slot (slots (tb s)) 0 svcn (refm r0)) as [[sl ty]|] eqn:Ef; [|discriminate].
  inversion Ht; subst r0 sl ty.
  rewrite (kill_text c (tb s) r svcn tx slot t Ef Hp). unfold finish. rewrite with_slots_nil.
  rewrite (lookup_cid _ _ _ El). reflexivity.
Qed.

(* in a reachable state the refused instance is gone from the table after that step *)
Corollary refusal_reply_retires c s0 e1 id argv svcn tg tx r slot t :
  reqs s0 = [] -> with_xq c = true -> cmdchar argv = x58 ->
  arg 1 argv = Some svcn -> arg 2 argv = Some tg -> arg 3 argv = Some tx ->
  reply_target (run c s0 e1) svcn tg = Some (r, slot, t) -> prefix (S_ "NO ") tx = true ->
  snd (step c (run c s0 e1) id argv) = [oc x6b r (S_ " :" ++ skipn 3 tx)] /\
  lookup (cid r) (reqs (run c s0 (e1 ++ [(id, argv)]))) = None.
Proof.
  intros H0 Hx Hc A1 A2 A3 Ht Hp.
  pose proof (refusal_reply_is_a_reject_line c _ id argv svcn tg tx r slot t Hx Hc A1 A2 A3 Ht Hp) as E.
  split; [rewrite E; reflexivity|].
  apply (verdict_retires_the_instance c s0 e1 id argv (cid r) x6b (addr r) (port r) (S_ " :" ++ skipn 3 tx) H0); [|reflexivity].
  rewrite E. left. reflexivity.
Qed.

(* and so a client refused by a service's NO reply is not accepted (nor named at all) until it is announced again *)
Corollary refused_by_service_never_accepted c s0 e1 id argv svcn tg tx r slot t e2 idj argvj :
  reqs s0 = [] -> with_xq c = true -> cmdchar argv = x58 ->
  arg 1 argv = Some svcn -> arg 2 argv = Some tg -> arg 3 argv = Some tx ->
  reply_target (run c s0 e1) svcn tg = Some (r, slot, t) -> prefix (S_ "NO ") tx = true ->
  forallb (fun e => negb (announces_id (cid r) e)) e2 = true ->
  Forall (fun o => ~ mentions (cid r) o) (snd (step c (run c s0 (e1 ++ (id, argv) :: e2)) idj argvj)).
Proof.
  intros H0 Hx Hc A1 A2 A3 Ht Hp Hall.
  pose proof (refusal_reply_is_a_reject_line c _ id argv svcn tg tx r slot t Hx Hc A1 A2 A3 Ht Hp) as E.
  apply (no_refusal_then_accept_in_one_instance c s0 e1 id argv e2 idj argvj (cid r) x6b (addr r) (port r) (S_ " :" ++ skipn 3 tx) H0); [|reflexivity|exact Hall].
  rewrite E. left. reflexivity.
Qed.

