(* C15, history: the result of a load does not depend on what earlier files left behind. *)
From Coq Require Import List NArith ZArith Bool Strings.Byte Lia.
Import ListNotations.
Require Import Conf ConfMerge ConfOrder ConfBase ConfIdem ConfSorted ConfWalk ConfHooks ConfValues.
Local Open Scope N_scope.

(* ---------- the tree as registration alone would have built it ---------- *)
Fixpoint forget (l : lnode) : lnode :=
  match l with
  | LStr spec _ hook d _ sub _ => LStr spec false hook d d sub (t2 (pv2 [] d sub PNone false))
  | LIna spec _ hook dh ds _ _ => LIna spec false hook dh ds dh ds
  | LList spec _ hook d _ => LList spec false hook d d
  | LObj spec _ hook ks =>
      LObj spec false hook
        ((fix go (l : list (str * lnode)) : list (str * lnode) :=
            match l with [] => [] | (n, x) :: r => if lspec x then (n, forget x) :: go r else go r end) ks)
  end.
Fixpoint forget_kids (l : list (str * lnode)) : list (str * lnode) :=
  match l with [] => [] | (n, x) :: r => if lspec x then (n, forget x) :: forget_kids r else forget_kids r end.
Lemma forget_obj spec pres hook ks : forget (LObj spec pres hook ks) = LObj spec false hook (forget_kids ks).
Proof.
  cbn [forget]. f_equal.
  all: induction ks as [|[n x] r IH]; cbn [forget_kids]; [reflexivity|]; rewrite IH; reflexivity.
Qed.
Lemma forget_spec l : lspec (forget l) = lspec l. Proof. destruct l; reflexivity. Qed.
Lemma forget_kind l : lkind (forget l) = lkind l. Proof. destruct l; reflexivity. Qed.
Lemma forget_kids_app a b : forget_kids (a ++ b) = forget_kids a ++ forget_kids b.
Proof. induction a as [|[n x] r IH]; cbn [app forget_kids]; [reflexivity|]. rewrite IH. destruct (lspec x); reflexivity. Qed.
Lemma forget_kids_keys l : sub_keys (map lkey (forget_kids l)) (map lkey l).
Proof.
  induction l as [|[n x] r IH]; cbn [forget_kids map]; [constructor|].
  destruct (lspec x); cbn [map].
  - unfold lkey at 1 3. cbn [fst snd]. rewrite forget_kind. constructor. exact IH.
  - constructor. exact IH.
Qed.

(* reverting the registration-only tree is a no-op *)
Lemma rvt_forget l : rvt (forget l) = forget l.
Proof.
  destruct l as [spec pres hook d v sub p|spec pres hook dh ds h s|spec pres hook d v|spec pres hook ks].
  - cbn [forget rvt]. f_equal.
    pose proof (pv2_idem [] d sub PNone false false (fun _ => eq_refl)) as H.
    rewrite H. reflexivity.
  - reflexivity.
  - reflexivity.
  - rewrite forget_obj, rvt_obj. reflexivity.
Qed.

(* ---------- equality up to: spelling of the names of unspecified nodes, hook flags of unspecified nodes,
              PNone ~ PInt 0 in the parsed field of typed strings ---------- *)
Fixpoint leqv (a b : lnode) {struct a} : Prop :=
  match a, b with
  | LStr spec pres hook d v sub p, LStr spec' pres' hook' d' v' sub' p' =>
      spec = spec' /\ pres = pres' /\ (spec = true -> hook = hook') /\ d = d' /\ v = v' /\ sub = sub' /\ pnorm sub p = pnorm sub p'
  | LIna spec pres hook dh ds h s, LIna spec' pres' hook' dh' ds' h' s' =>
      spec = spec' /\ pres = pres' /\ (spec = true -> hook = hook') /\ dh = dh' /\ ds = ds' /\ h = h' /\ s = s'
  | LList spec pres hook d v, LList spec' pres' hook' d' v' =>
      spec = spec' /\ pres = pres' /\ (spec = true -> hook = hook') /\ d = d' /\ v = v'
  | LObj spec pres hook ks, LObj spec' pres' hook' ks' =>
      spec = spec' /\ pres = pres' /\ (spec = true -> hook = hook') /\
      (fix all (l l' : list (str * lnode)) {struct l} : Prop :=
         match l, l' with
         | [], [] => True
         | nc :: r, nc' :: r' => (scmp (fst nc) (fst nc') = Eq /\ (lspec (snd nc) = true -> fst nc = fst nc') /\ leqv (snd nc) (snd nc')) /\ all r r'
         | _, _ => False
         end) ks ks'
  | _, _ => False
  end.
Definition kids_eqv (ks ks' : list (str * lnode)) : Prop :=
  Forall2 (fun nc nc' => scmp (fst nc) (fst nc') = Eq /\ (lspec (snd nc) = true -> fst nc = fst nc') /\ leqv (snd nc) (snd nc')) ks ks'.
Lemma leqv_obj spec pres hook ks spec' pres' hook' ks' :
  leqv (LObj spec pres hook ks) (LObj spec' pres' hook' ks') <->
  spec = spec' /\ pres = pres' /\ (spec = true -> hook = hook') /\ kids_eqv ks ks'.
Proof.
  cbn [leqv]. do 3 apply and_iff_compat_l. unfold kids_eqv.
  revert ks'. induction ks as [|nc r IH]; intros [|nc' r'].
  - split; constructor.
  - split; [intros []|intros H; inversion H].
  - split; [intros []|intros H; inversion H].
  - rewrite IH. split.
    + intros [A B]. constructor; assumption.
    + intros H. inversion H; subst. split; assumption.
Qed.

Lemma leqv_refl : forall l, leqv l l.
Proof.
  apply (lnode_ind' (fun l => leqv l l)); try (intros; cbn [leqv]; repeat split; reflexivity).
  intros spec pres hook ks IH. apply leqv_obj. repeat split.
  unfold kids_eqv. induction IH as [|nc r H1 H2 IHr]; constructor; [|exact IHr].
  repeat split; [apply scmp_refl|exact H1].
Qed.
Lemma kids_eqv_refl ks : kids_eqv ks ks.
Proof. induction ks; constructor; [|assumption]. repeat split; [apply scmp_refl|apply leqv_refl]. Qed.
Lemma kids_eqv_app a a' b b' : kids_eqv a a' -> kids_eqv b b' -> kids_eqv (a ++ b) (a' ++ b').
Proof. apply Forall2_app. Qed.
Global Opaque leqv.
Lemma leqv_str spec pres hook d v sub p spec' pres' hook' d' v' sub' p' :
  leqv (LStr spec pres hook d v sub p) (LStr spec' pres' hook' d' v' sub' p') <->
  spec = spec' /\ pres = pres' /\ (spec = true -> hook = hook') /\ d = d' /\ v = v' /\ sub = sub' /\ pnorm sub p = pnorm sub p'.
Proof. reflexivity. Qed.
Lemma leqv_ina spec pres hook dh ds h s spec' pres' hook' dh' ds' h' s' :
  leqv (LIna spec pres hook dh ds h s) (LIna spec' pres' hook' dh' ds' h' s') <->
  spec = spec' /\ pres = pres' /\ (spec = true -> hook = hook') /\ dh = dh' /\ ds = ds' /\ h = h' /\ s = s'.
Proof. reflexivity. Qed.
Lemma leqv_list spec pres hook d v spec' pres' hook' d' v' :
  leqv (LList spec pres hook d v) (LList spec' pres' hook' d' v') <->
  spec = spec' /\ pres = pres' /\ (spec = true -> hook = hook') /\ d = d' /\ v = v'.
Proof. reflexivity. Qed.

(* ---------- hypotheses ---------- *)
(* every typed string with a text has a text that parses *)
Fixpoint lparsable (l : lnode) : Prop :=
  match l with
  | LStr _ _ _ _ v sub _ => match v with Some x => sub <> 0 -> snd (typed sub x) = true | None => True end
  | LObj _ _ _ ks => (fix all (l : list (str * lnode)) : Prop := match l with [] => True | nc :: r => lparsable (snd nc) /\ all r end) ks
  | _ => True
  end.
Lemma lparsable_obj spec pres hook ks : lparsable (LObj spec pres hook ks) <-> Forall (fun nc => lparsable (snd nc)) ks.
Proof.
  cbn [lparsable]. induction ks as [|nc r IH]; [split; constructor|]. rewrite IH. split.
  - intros [A B]. constructor; assumption.
  - intros H. inversion H; subst. split; assumption.
Qed.
(* nodes that no module registered were created by a file: no defaults, plain strings, no registered descendants *)
Fixpoint lplain (l : lnode) : Prop :=
  match l with
  | LStr spec _ _ d _ sub _ => spec = false -> d = None /\ sub = 0
  | LIna spec _ _ dh ds _ _ => spec = false -> dh = None /\ ds = None
  | LList spec _ _ d _ => spec = false -> d = []
  | LObj spec _ _ ks =>
      (fix all (l : list (str * lnode)) : Prop :=
         match l with [] => True | nc :: r => (lplain (snd nc) /\ (spec = false -> lspec (snd nc) = false)) /\ all r end) ks
  end.
Lemma lplain_obj spec pres hook ks :
  lplain (LObj spec pres hook ks) <-> Forall (fun nc => lplain (snd nc) /\ (spec = false -> lspec (snd nc) = false)) ks.
Proof.
  cbn [lplain]. induction ks as [|nc r IH]; [split; constructor|]. rewrite IH. split.
  - intros [A B]. constructor; assumption.
  - intros H. inversion H; subst. split; assumption.
Qed.
Global Opaque lparsable lplain.
Lemma lparsable_str spec pres hook d v sub p :
  lparsable (LStr spec pres hook d v sub p) <-> match v with Some x => sub <> 0 -> snd (typed sub x) = true | None => True end.
Proof. reflexivity. Qed.
Lemma lplain_str spec pres hook d v sub p : lplain (LStr spec pres hook d v sub p) <-> (spec = false -> d = None /\ sub = 0).
Proof. reflexivity. Qed.
Lemma lplain_ina spec pres hook dh ds h s : lplain (LIna spec pres hook dh ds h s) <-> (spec = false -> dh = None /\ ds = None).
Proof. reflexivity. Qed.
Lemma lplain_list spec pres hook d v : lplain (LList spec pres hook d v) <-> (spec = false -> d = []).
Proof. reflexivity. Qed.

(* two parsed fields that are both consistent with a parsable text agree *)
Lemma pcons_agree sub v p q :
  pcons sub v p -> pcons sub v q -> match v with Some x => sub <> 0 -> snd (typed sub x) = true | None => True end ->
  pnorm sub p = pnorm sub q.
Proof.
  unfold pcons. destruct v as [x|].
  - destruct (sub =? 0) eqn:Es.
    + intros -> -> _. reflexivity.
    + intros Hp Hq Hok. apply N.eqb_neq in Es. specialize (Hok Es).
      destruct (typed sub x) as [z ok] eqn:Et. cbn [snd] in Hok. subst ok. rewrite (Hp z eq_refl), (Hq z eq_refl). reflexivity.
  - intros -> -> _. reflexivity.
Qed.

(* ---------- (E), (D): default-state and reverted nodes look like the registration-only tree ---------- *)
Lemma dflt_forget : forall l, dflt_state l -> lparsable l -> leqv l (forget l).
Proof.
  apply (lnode_ind' (fun l => dflt_state l -> lparsable l -> leqv l (forget l))).
  - intros spec pres hook d v sub p Hd Hp. apply dflt_state_str in Hd as (-> & -> & -> & Hc). cbn [forget]. apply leqv_str.
    repeat split. apply (pcons_agree sub d); [exact Hc|apply pv2_pcons|]. apply lparsable_str in Hp. exact Hp.
  - intros spec pres hook dh ds h s Hd _. apply dflt_state_ina in Hd as (-> & -> & -> & ->). cbn [forget]. apply leqv_ina. repeat split.
  - intros spec pres hook d v Hd _. apply dflt_state_list in Hd as (-> & -> & ->). cbn [forget]. apply leqv_list. repeat split.
  - intros spec pres hook ks IH Hd Hp. apply dflt_state_obj in Hd as (-> & -> & Hd). apply lparsable_obj in Hp.
    rewrite forget_obj. apply leqv_obj. repeat split. unfold kids_eqv.
    induction ks as [|[n x] r IHr]; cbn [forget_kids]; [constructor|].
    inversion IH as [|? ? I1 I2]; subst. inversion Hd as [|? ? D1 D2]; subst. inversion Hp as [|? ? P1 P2]; subst. cbn [snd] in *.
    assert (lspec x = true) as Hs.
    { clear - D1. destruct x; [apply dflt_state_str in D1|apply dflt_state_ina in D1|apply dflt_state_list in D1|apply dflt_state_obj in D1]; cbn [lspec]; tauto. }
    rewrite Hs. constructor; [|apply IHr; assumption].
    cbn [fst snd]. repeat split; [apply scmp_refl|apply I1; assumption].
Qed.

Lemma rvt_forget_eqv : forall l, lwf l -> lparsable (rvt l) -> leqv (rvt l) (forget l).
Proof.
  apply (lnode_ind' (fun l => lwf l -> lparsable (rvt l) -> leqv (rvt l) (forget l))).
  - intros spec pres hook d v sub p _ Hp. cbn [rvt forget] in *. apply leqv_str. repeat split.
    apply (pcons_agree sub d); [apply pv2_pcons|apply pv2_pcons|]. apply lparsable_str in Hp. exact Hp.
  - intros. cbn [rvt forget]. apply leqv_ina. repeat split.
  - intros. cbn [rvt forget]. apply leqv_list. repeat split.
  - intros spec pres hook ks IH Hw Hp. rewrite rvt_obj in *. rewrite forget_obj. apply leqv_obj. repeat split.
    apply lwf_obj in Hw. apply lparsable_obj in Hp. unfold kids_eqv. destruct pres.
    + induction ks as [|[n x] r IHr]; cbn [forget_kids rvt_kids] in *; [constructor|].
      inversion IH as [|? ? I1 I2]; subst. inversion Hw as [|? ? [W1 _] W2]; subst. cbn [snd] in *.
      destruct (lspec x); [|apply IHr; assumption].
      inversion Hp as [|? ? P1 P2]; subst. cbn [snd] in *. constructor; [|apply IHr; assumption].
      cbn [fst snd]. repeat split; [apply scmp_refl|apply I1; assumption].
    + induction ks as [|[n x] r IHr]; cbn [forget_kids] in *; [constructor|].
      inversion IH as [|? ? I1 I2]; subst. inversion Hw as [|? ? [W1 W1'] W2]; subst. inversion Hp as [|? ? P1 P2]; subst. cbn [snd] in *.
      specialize (W1' eq_refl).
      assert (lspec x = true) as Hs.
      { clear - W1'. destruct x; [apply dflt_state_str in W1'|apply dflt_state_ina in W1'|apply dflt_state_list in W1'|apply dflt_state_obj in W1']; cbn [lspec]; tauto. }
      rewrite Hs. constructor; [|apply IHr; assumption].
      cbn [fst snd]. repeat split; [apply scmp_refl|apply dflt_forget; assumption].
Qed.

Lemma rvt_kids_forget lo :
  Forall (fun nc => lwf (snd nc)) lo -> Forall (fun nc => lparsable (snd nc)) (rvt_kids lo) ->
  kids_eqv (rvt_kids lo) (rvt_kids (forget_kids lo)).
Proof.
  induction lo as [|[n x] r IH]; cbn [rvt_kids forget_kids]; intros Hw Hp; [constructor|].
  inversion Hw as [|? ? W1 W2]; subst. cbn [snd] in *.
  destruct (lspec x) eqn:Es; [|apply IH; assumption].
  inversion Hp as [|? ? P1 P2]; subst. cbn [snd] in *.
  cbn [rvt_kids]. rewrite forget_spec, Es, rvt_forget. constructor; [|apply IH; assumption].
  cbn [fst snd]. repeat split; [apply scmp_refl|apply rvt_forget_eqv; assumption].
Qed.

(* ---------- (A): a file-created node is simply overwritten ---------- *)
Lemma merge_spec_eq p t s : lkind t = kind s -> lspec (fst (merge p t s)) = lspec t.
Proof.
  destruct s as [v|h sv|l|ss], t as [spec pres hook d v0 sub pa|spec pres hook dh ds oh os|spec pres hook d v0|spec pres hook ks]; cbn [lkind kind]; try discriminate; intros _.
  - rewrite merge_str_str. reflexivity.
  - reflexivity.
  - reflexivity.
  - rewrite merge_obj_fst. reflexivity.
Qed.

Lemma rvt_kids_unspec ts : Forall (fun nc => lspec (snd nc) = false) ts -> rvt_kids ts = [].
Proof. induction 1 as [|[n x] r H1 H2 IH]; cbn [rvt_kids]; [reflexivity|]. cbn [snd] in H1. rewrite H1. exact IH. Qed.

Definition splice_kids (ss : list (str * val)) : list (str * lnode) := map (fun nv => (fst nv, splice (snd nv))) ss.

Lemma mk_unspec path ss :
  Forall (fun kf => forall p t, lplain t -> lspec t = false -> leqv (fst (merge p t (snd kf))) (splice (snd kf))) ss ->
  forall ts, Forall (fun nc => lplain (snd nc) /\ lspec (snd nc) = false) ts ->
  kids_eqv (t1 (mk_gen merge path ts ss)) (splice_kids ss).
Proof.
  induction 1 as [|[ks s'] ss' H1 H2 IH]; intros ts Ht.
  - rewrite mk_gen_nil, revert_all_fst, rvt_kids_unspec; [constructor|]. eapply Forall_impl; [|exact Ht]. intros a [_ Ha]. exact Ha.
  - cbn [snd] in H1.
    destruct (span_lt ks (kind s') ts) as [lo hi] eqn:Es.
    destruct (span_lt_spec _ _ _ _ _ Es) as (Ets & _ & _). rewrite Ets in Ht. apply Forall_app in Ht as [Ht1 Ht2].
    assert (t1 (revert_all path lo) = []) as Elo.
    { rewrite revert_all_fst. apply rvt_kids_unspec. eapply Forall_impl; [|exact Ht1]. intros a [_ Ha]. exact Ha. }
    destruct (hi_cases ks (kind s') hi) as [(kt & t' & hi' & -> & Ek)|Hne].
    + rewrite (mk_gen_cons_eq _ _ _ _ _ _ _ _ _ _ Es Ek). cbn [t1 fst]. rewrite Elo. cbn [app splice_kids map fst snd].
      inversion Ht2 as [|? ? [P1 P2] P3]; subst. cbn [snd] in *.
      apply kcmp_eq in Ek as [Ek1 Ek2].
      constructor; [|apply IH; exact P3]. cbn [fst snd]. split; [exact Ek1|]. split.
      * rewrite (merge_spec_eq _ _ _ Ek2), P2. discriminate.
      * apply H1; assumption.
    + rewrite (mk_gen_cons_ne _ _ _ _ _ _ _ _ Es Hne). cbn [t1 fst]. rewrite Elo. cbn [app splice_kids map fst snd].
      constructor; [|apply IH; exact Ht2]. cbn [fst snd]. repeat split; [apply scmp_refl|apply leqv_refl].
Qed.

Lemma orelse_none {A} (o : option A) : orelse o None = o. Proof. destruct o; reflexivity. Qed.

Theorem merge_unspec : forall s p t, lplain t -> lspec t = false -> leqv (fst (merge p t s)) (splice s).
Proof.
  apply (val_ind' (fun s => forall p t, lplain t -> lspec t = false -> leqv (fst (merge p t s)) (splice s))).
  - intros v p t Hp Hs. destruct t as [spec pres hook d v0 sub pa| | |]; try apply leqv_refl.
    cbn [lspec] in Hs. subst spec. destruct (proj1 (lplain_str _ _ _ _ _ _ _) Hp eq_refl) as [-> ->].
    rewrite merge_str_str. cbn [fst splice pv2 N.eqb t2 snd]. apply leqv_str. repeat split. discriminate.
  - intros h s p t Hp Hs. destruct t as [|spec pres hook dh ds oh os| |]; try apply leqv_refl.
    cbn [lspec] in Hs. subst spec. destruct (proj1 (lplain_ina _ _ _ _ _ _ _) Hp eq_refl) as [-> ->].
    cbn [merge fst splice]. apply leqv_ina. repeat split; try discriminate; destruct h, s; reflexivity.
  - intros l p t Hp Hs. destruct t as [| |spec pres hook d v|]; try apply leqv_refl.
    cbn [lspec] in Hs. subst spec. rewrite (proj1 (lplain_list _ _ _ _ _) Hp eq_refl).
    cbn [merge fst splice]. apply leqv_list. repeat split. discriminate.
  - intros ss IH p t Hp Hs. destruct t as [| | |spec pres hook ks]; try apply leqv_refl.
    cbn [lspec] in Hs. subst spec. apply lplain_obj in Hp.
    rewrite merge_obj_fst. cbn [splice]. apply leqv_obj. repeat split; try discriminate.
    apply (mk_unspec p ss IH). eapply Forall_impl; [|exact Hp]. intros a [A B]. split; [exact A|apply B; reflexivity].
Qed.

(* ---------- (B): the walk over a tree and over its registration-only version ---------- *)
Definition not_lt (K : key) (l : list key) : Prop := Forall (fun x => kc x K <> Lt) l.

Lemma span_lt_forget n k lo hi :
  all_lt (n, k) (map lkey lo) -> not_lt (n, k) (map lkey hi) ->
  span_lt n k (forget_kids (lo ++ hi)) = (forget_kids lo, forget_kids hi).
Proof.
  intros Hlo Hhi. rewrite forget_kids_app. apply span_lt_app.
  - eapply sub_keys_Forall; [apply forget_kids_keys|exact Hlo].
  - assert (not_lt (n, k) (map lkey (forget_kids hi))) as H by (eapply sub_keys_Forall; [apply forget_kids_keys|exact Hhi]).
    destruct (forget_kids hi) as [|e r]; [exact I|]. inversion H; subst. assumption.
Qed.

Lemma all_gt_not_lt K l : all_gt K l -> not_lt K l.
Proof. unfold all_gt, not_lt. apply Forall_impl. intros a Ha. rewrite kc_antisym, Ha. discriminate. Qed.

Lemma head_ne_forget ks k hi : all_gt (ks, k) (map lkey hi) -> head_ne ks k (forget_kids hi).
Proof.
  intros H. assert (all_gt (ks, k) (map lkey (forget_kids hi))) as H' by (eapply sub_keys_Forall; [apply forget_kids_keys|exact H]).
  destruct (forget_kids hi) as [|[kt t'] r]; [exact I|]. inversion H'; subst. cbn [head_ne].
  unfold kc, lkey in H2. cbn [fst snd] in H2. apply kcmp_lt_gt in H2. congruence.
Qed.

Lemma mk_forget path ss :
  Forall (fun kf => forall p t, lsorted t -> lwf t -> lplain t -> lspec t = true -> lparsable (fst (merge p t (snd kf))) ->
                                leqv (fst (merge p t (snd kf))) (fst (merge p (forget t) (snd kf)))) ss ->
  forall ts, lsorted_kids ts -> Forall (fun nc => lwf (snd nc)) ts -> Forall (fun nc => lplain (snd nc)) ts ->
             Forall (fun nc => lparsable (snd nc)) (t1 (mk_gen merge path ts ss)) ->
             kids_eqv (t1 (mk_gen merge path ts ss)) (t1 (mk_gen merge path (forget_kids ts) ss)).
Proof.
  induction 1 as [|[ks s'] ss' H1 H2 IH]; intros ts [Ht Ht'] Hw Hpl Hpa.
  - rewrite !mk_gen_nil, !revert_all_fst in *. apply rvt_kids_forget; assumption.
  - cbn [snd] in H1.
    destruct (span_lt ks (kind s') ts) as [lo hi] eqn:Es.
    destruct (span_lt_spec _ _ _ _ _ Es) as (Ets & Hlo & Hhi).
    subst ts. rewrite map_app in Ht. apply ksorted_app in Ht as (Hs1 & Hs2 & Hs3).
    apply Forall_app in Ht' as [Ht1' Ht2']. apply Forall_app in Hw as [Hw1 Hw2]. apply Forall_app in Hpl as [Hpl1 Hpl2].
    destruct (hi_cases ks (kind s') hi) as [(kt & t' & hi' & -> & Ek)|Hne].
    + rewrite (mk_gen_cons_eq _ _ _ _ _ _ _ _ _ _ Es Ek) in *. cbn [t1 fst] in *.
      apply Forall_app in Hpa as [Hpa1 Hpa2]. inversion Hpa2 as [|? ? Hpa3 Hpa4]; subst. cbn [snd] in Hpa3.
      cbn [map ksorted] in Hs2. destruct Hs2 as [Hs2a Hs2b].
      inversion Ht2' as [|? ? T1 T2]; subst. inversion Hw2 as [|? ? W1 W2]; subst. inversion Hpl2 as [|? ? L1 L2]; subst. cbn [snd] in *.
      assert (all_gt (ks, kind s') (map lkey hi')) as Hg by (eapply all_gt_eq'; [apply kcmp_eq_sym; exact Ek|exact Hs2a]).
      assert (span_lt ks (kind s') (forget_kids (lo ++ (kt, t') :: hi')) = (forget_kids lo, forget_kids ((kt, t') :: hi'))) as Es'.
      { apply span_lt_forget; [exact Hlo|]. cbn [map]. constructor; [exact Hhi|]. apply all_gt_not_lt. exact Hg. }
      rewrite !revert_all_fst in *.
      cbn [forget_kids] in Es'. destruct (lspec t') eqn:Esp.
      * (* a registered setting: merged on both sides *)
        assert (kcmp kt (lkind (forget t')) ks (kind s') = Eq) as Ek' by (rewrite forget_kind; exact Ek).
        rewrite (mk_gen_cons_eq _ _ _ _ _ _ _ _ _ _ Es' Ek'). cbn [t1 fst]. rewrite !revert_all_fst.
        apply kids_eqv_app; [apply rvt_kids_forget; assumption|].
        constructor.
        -- cbn [fst snd]. repeat split; [apply scmp_refl|]. apply H1; assumption.
        -- apply IH; try assumption. split; assumption.
      * (* a leftover of an earlier file: overwritten on the left, spliced on the right *)
        assert (head_ne ks (kind s') (forget_kids hi')) as Hne' by (apply head_ne_forget; exact Hg).
        rewrite (mk_gen_cons_ne _ _ _ _ _ _ _ _ Es' Hne'). cbn [t1 fst]. rewrite !revert_all_fst.
        apply kids_eqv_app; [apply rvt_kids_forget; assumption|].
        apply kcmp_eq in Ek as [Ek1 Ek2].
        constructor.
        -- cbn [fst snd]. split; [exact Ek1|]. split.
           ++ rewrite (merge_spec_eq _ _ _ Ek2), Esp. discriminate.
           ++ apply merge_unspec; assumption.
        -- apply IH; try assumption. split; assumption.
    + rewrite (mk_gen_cons_ne _ _ _ _ _ _ _ _ Es Hne) in *. cbn [t1 fst] in *.
      apply Forall_app in Hpa as [Hpa1 Hpa2]. inversion Hpa2 as [|? ? Hpa3 Hpa4]; subst.
      assert (all_gt (ks, kind s') (map lkey hi)) as Hg by (apply head_ne_gt; assumption).
      assert (span_lt ks (kind s') (forget_kids (lo ++ hi)) = (forget_kids lo, forget_kids hi)) as Es'.
      { apply span_lt_forget; [exact Hlo|]. apply all_gt_not_lt. exact Hg. }
      assert (head_ne ks (kind s') (forget_kids hi)) as Hne' by (apply head_ne_forget; exact Hg).
      rewrite (mk_gen_cons_ne _ _ _ _ _ _ _ _ Es' Hne'). cbn [t1 fst]. rewrite !revert_all_fst in *.
      apply kids_eqv_app; [apply rvt_kids_forget; assumption|].
      constructor.
      * cbn [fst snd]. repeat split; [apply scmp_refl|apply leqv_refl].
      * apply IH; try assumption. split; assumption.
Qed.

Theorem load_history_free_gen : forall s p t,
  lsorted t -> lwf t -> lplain t -> lspec t = true -> lparsable (fst (merge p t s)) ->
  leqv (fst (merge p t s)) (fst (merge p (forget t) s)).
Proof.
  apply (val_ind' (fun s => forall p t, lsorted t -> lwf t -> lplain t -> lspec t = true -> lparsable (fst (merge p t s)) ->
                                        leqv (fst (merge p t s)) (fst (merge p (forget t) s)))).
  - intros v p t _ _ _ _ Hpa. destruct t as [spec pres hook d v0 sub pa| | |]; try apply leqv_refl.
    cbn [forget]. rewrite merge_str_str in *. rewrite merge_str_str. cbn [fst] in *. apply leqv_str. repeat split.
    apply (pcons_agree sub (Some v)); [apply pv2_pcons|apply pv2_pcons|]. apply lparsable_str in Hpa. exact Hpa.
  - intros h s p t _ _ _ _ _. destruct t as [|spec pres hook dh ds oh os| |]; apply leqv_refl.
  - intros l p t _ _ _ _ _. destruct t as [| |spec pres hook d v|]; apply leqv_refl.
  - intros ss IH p t Ht Hw Hpl Hsp Hpa. destruct t as [| | |spec pres hook ks]; try apply leqv_refl.
    rewrite forget_obj. rewrite merge_obj_fst in *. rewrite merge_obj_fst.
    apply lsorted_obj in Ht. apply lwf_obj in Hw. apply lplain_obj in Hpl. apply lparsable_obj in Hpa.
    apply leqv_obj. repeat split.
    apply (mk_forget p ss IH); try assumption.
    + eapply Forall_impl; [|exact Hw]. intros a [A _]. exact A.
    + eapply Forall_impl; [|exact Hpl]. intros a [A _]. exact A.
Qed.

(* The statement asked for. *)
Theorem load_history_free path t s :
  lsorted t -> vsorted s ->
  lwf t ->                                  (* invariant: children of an object the last file omitted are in default state *)
  lplain t ->                               (* invariant: unregistered nodes are plain file-created nodes *)
  lspec t = true ->                         (* the node loaded into is registered (the root is) *)
  lparsable (fst (merge path t s)) ->       (* carve-out: after the load every typed string has a text that parses *)
  leqv (fst (merge path t s)) (fst (merge path (forget t) s)).
Proof. intros Ht _ Hw Hpl Hsp Hpa. apply load_history_free_gen; assumption. Qed.

