(* C05: verdict content is faithful to what the services said.  ONLY statements closed by `exact`, each followed by Print Assumptions. *)
From Coq Require Import List NArith ZArith Bool Strings.Byte Strings.String.
Import ListNotations.
Require Import Params Iauth IauthFacts.
Require PlusX.
Local Open Scope list_scope.

(* a refusal from an awaited service rejects the client with exactly that text, and nothing else happens in the step *)
Theorem refusal_rejects_with_that_text : forall c tb r svcn tx slot t,
  find_slot (slots tb) 0 svcn (refm r) = Some (slot, t) -> prefix (S_ "NO ") tx = true ->
  reply c tb r svcn (Some tx) = (None, [oc x6b r (S_ " :" ++ skipn 3 tx)], []).
Proof. exact kill_text. Qed.
Print Assumptions refusal_rejects_with_that_text.

(* the stored account changes only when an awaited non-drone-check service vouches a non-empty one (truncated to ACCOUNTLEN) *)
Theorem account_exactly_when_vouched : forall c tb r svcn tx slot t,
  find_slot (slots tb) 0 svcn (refm r) = Some (slot, t) ->
  match fst (fst (reply c tb r svcn (Some tx))) with
  | Some r' => acct r' = match vouches t tx with Some a => a | None => acct r end
  | None => True
  end.
Proof. exact account_only_from_login_type. Qed.
Print Assumptions account_exactly_when_vouched.

Theorem drone_check_account_ignored : forall c tb r svcn tx slot,
  find_slot (slots tb) 0 svcn (refm r) = Some (slot, Drone) ->
  match fst (fst (reply c tb r svcn (Some tx))) with Some r' => acct r' = acct r | None => True end.
Proof. exact dronecheck_never_vouches. Qed.
Print Assumptions drone_check_account_ignored.

(* the accept line is R <account> exactly when an account is stored, D otherwise, followed by the class the rules chose *)
Theorem accept_reports_account_and_class : forall c tb r outs,
  gate c tb r = (None, outs) ->
  exists extra k, outs = extra ++ [(match acct r with [] => oc x44 r k | _ => oc x52 r (sp :: acct r ++ k) end)] /\
                  extra = fst (classify (slots tb) (rules tb) r) /\
                  k = (match snd (classify (slots tb) (rules tb) r) with [] => [] | _ => sp :: snd (classify (slots tb) (rules tb) r) end).
Proof. exact accept_line_account. Qed.
Print Assumptions accept_reports_account_and_class.

(* AGAIN / MORE texts are relayed verbatim to the client the reply was routed to *)
Theorem challenges_relayed_verbatim : forall c tb r svcn tx slot t,
  find_slot (slots tb) 0 svcn (refm r) = Some (slot, t) ->
  seq_eq tx (S_ "OK") = false -> prefix (S_ "OK ") tx = false -> prefix (S_ "NO ") tx = false ->
  (prefix (S_ "AGAIN ") tx = true -> exists rest, snd (fst (reply c tb r svcn (Some tx))) = oc x43 r (S_ " :" ++ skipn 6 tx) :: rest) /\
  (prefix (S_ "AGAIN ") tx = false -> prefix (S_ "MORE ") tx = true -> exists rest, snd (fst (reply c tb r svcn (Some tx))) = oc x43 r (S_ " :" ++ skipn 5 tx) :: rest).
Proof. exact relay_verbatim. Qed.
Print Assumptions challenges_relayed_verbatim.

(* "+x is sent when such a client asked for host hiding": an M line is written by a reply iff the reply is a stamped OK from an
   awaited non-dronecheck service and the client asked for hiding (+x or +!); it is then exactly `M <id> <addr> <port> :+x` for this
   client, written first, and no other M line exists *)
Theorem plus_x_exactly_when_asked : forall c tb r svcn tx slot t,
  find_slot (slots tb) 0 svcn (refm r) = Some (slot, t) ->
  let outs := snd (fst (reply c tb r svcn (Some tx))) in
  let due := prefix (S_ "OK ") tx = true /\ nonempty (upto sp (skipn 3 tx)) = true /\ is_drone t = false /\ hh r || ho r = true in
  ((exists i a p rest, In (OC x4d i a p rest) outs) <-> due) /\
  (due -> exists rest, outs = oc x4d r (S_ " :+x") :: rest /\ PlusX.noM rest) /\
  (~ due -> PlusX.noM outs).
Proof. exact PlusX.plus_x_exactly_when_asked. Qed.
Print Assumptions plus_x_exactly_when_asked.

(* "to that client only": every client-directed line a reply produces carries the id, address text and port of the client the reply
   was matched to *)
Theorem reply_lines_name_only_that_client : forall c tb r svcn text k i a p rest,
  In (OC k i a p rest) (snd (fst (reply c tb r svcn text))) -> i = cid r /\ a = addr r /\ p = port r.
Proof. exact PlusX.reply_lines_name_only_that_client. Qed.
Print Assumptions reply_lines_name_only_that_client.
