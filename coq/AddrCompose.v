(* compositions of the parser-side and printer-side theorems: statements about ANY accepted text and about the echoed address *)
From Coq Require Import List NArith Bool Strings.Byte Lia.
Import ListNotations.
Require Import Params AddrFull AddrRT AddrRef NtopProps AddrBridge AddrV4 AddrV4Ref AddrRefRT AddrRoundTrip Iauth Wf.
Local Open Scope N_scope.

Lemma wf8_wf gs : AddrWf.Wf8 gs -> AddrRoundTrip.wf gs.
Proof. intros [H1 H2]; split; assumption. Qed.

(* "parsing any accepted plain address and printing it again is idempotent": whatever text the parser accepts (with or without
   the mask syntax enabled), the printed form t' of the result parses again, to the canonical form of the same address, and printing
   that gives t' once more *)
Theorem accepted_text_print_idem input usebits trailing n b gs :
  pton input usebits trailing = Res n b gs ->
  let t' := ntop gs in
  pton t' false false = Res (List.length t') None (canon gs) /\ ntop (canon gs) = t' /\
  pton (ntop (canon gs)) false false = Res (List.length t') None (canon gs).
Proof.
  intros HP t'. pose proof (wf8_wf gs (AddrWf.pton_groups_wf _ _ _ _ _ _ HP)) as Hw.
  pose proof (ntop_roundtrip gs Hw) as R. destruct (parse_print_idem gs _ _ _ Hw R) as [I1 I2].
  subst t'. split; [exact R|]. split; [exact I1|]. rewrite I1. exact R.
Qed.

(* the address text stored for an announced client (and echoed in every message about it) denotes exactly the address the parser
   read from the announcement, up to the IPv4-compatible -> IPv4-mapped canonicalisation *)
Theorem echoed_text_denotes_announced a :
  let '(g, txt) := announce_addr a in
  pton txt false false = Res (List.length txt) None (canon g) /\ AddrRef.ref_pton txt = Some (canon g).
Proof.
  pose proof (announce_word a) as [_ W]. unfold announce_addr in *.
  destruct (pton a false false) as [|n b gs]; cbn [fst snd] in *;
    (split; [apply ntop_roundtrip | apply ntop_ref_roundtrip]; apply wf8_wf; exact W).
Qed.
