(* C13: netmask parsing and matching are exact.  ONLY statements closed by `exact`, each followed by Print Assumptions. *)
From Coq Require Import List NArith.
Require Import AddrFull MaskSpec.
Local Open Scope N_scope.

(* the mask test succeeds exactly when the leading `bits` bits are equal (abit = bit i of the 128-bit address, MSB first) *)
Theorem mask_test_exact : forall a m bits, length a = length m -> Forall small a -> Forall small m ->
  bits <= 16 * N.of_nat (length a) ->
  cm a m bits = true <-> (forall i, i < bits -> abit a i = abit m i).
Proof. exact check_mask_spec. Qed.
Print Assumptions mask_test_exact.

(* wherever the printer's texts are concerned, the daemon's parser and the reference (standard library) parser agree *)
Require Import AddrV4 AddrRoundTrip.
Require AddrRef.
Theorem parsers_agree_on_printed_addresses : forall gs, wf gs ->
  exists gs', pton (ntop gs) false false = Res (length (ntop gs)) None gs' /\ AddrRef.ref_pton (ntop gs) = Some gs'.
Proof. exact pton_agrees_with_ref. Qed.
Print Assumptions parsers_agree_on_printed_addresses.

(* every CIDR or wildcard text yields the documented prefix length and network bits, for ALL component values *)
Require Import Cidr.
Import ListNotations.
Theorem ipv4_cidr_text : forall a b c d n, a < 256 -> b < 256 -> c < 256 -> d < 256 -> n <= 32 ->
  pton (cidr4_text a b c d n) true false =
  Res (length (cidr4_text a b c d n)) (Some (96 + n)) [0; 0; 0; 0; 0; 65535; a * 256 + b; c * 256 + d].
Proof. exact cidr4. Qed.
Print Assumptions ipv4_cidr_text.

Theorem ipv4_wildcard_text : forall a b k, a < 256 -> b < 256 ->
  pton (wild4_2_text a b k) true false = Res (length (wild4_2_text a b k)) (Some (96 + 16)) [0; 0; 0; 0; 0; 65535; a * 256 + b; 0].
Proof. exact wild4_2. Qed.
Print Assumptions ipv4_wildcard_text.

Theorem star_text : forall k, pton (repeat star (S k)) true false = Res (S k) (Some 0) zeros.
Proof. exact star_run. Qed.
Print Assumptions star_text.

Theorem ipv6_cidr_text : forall gs n, length gs = 8%nat -> Forall Cidr.small gs -> n <= 128 ->
  pton (cidr6_text gs n) true false = Res (length (cidr6_text gs n)) (Some n) gs.
Proof. exact cidr6_plain. Qed.
Print Assumptions ipv6_cidr_text.

Theorem ipv6_compressed_cidr_text : forall pre post n,
  (length pre + length post <= 7)%nat -> Forall Cidr.small pre -> Forall Cidr.small post -> n <= 128 ->
  pton (cidr6c_text pre post n) true false =
  Res (length (cidr6c_text pre post n)) (Some n) (pre ++ repeat 0 (8 - length pre - length post) ++ post).
Proof. exact cidr6_compressed. Qed.
Print Assumptions ipv6_compressed_cidr_text.

Theorem ipv6_wildcard_text : forall pre k, (1 <= length pre <= 7)%nat -> Forall Cidr.small pre ->
  pton (wild6_text pre k) true false =
  Res (length (wild6_text pre k)) (Some (16 * N.of_nat (length pre))) (pre ++ repeat 0 (8 - length pre)).
Proof. exact wild6_run. Qed.
Print Assumptions ipv6_wildcard_text.

(* the short IPv4 CIDR form documented in modules/iauth.h ("missing trailing bits, as in 192.168/16"): the octets given are the
   leading octets of the network, the prefix length is 96 + n *)
Require CidrShort.
Theorem ipv4_short_cidr_text : forall a b n, a < 256 -> b < 256 -> n <= 32 ->
  pton (CidrShort.short2_text a b n) true false =
  Res (length (CidrShort.short2_text a b n)) (Some (96 + n)) [0; 0; 0; 0; 0; 65535; a * 256 + b; 0].
Proof. exact CidrShort.short_cidr4_2. Qed.
Print Assumptions ipv4_short_cidr_text.

Theorem ipv4_short_cidr_text_3 : forall a b c n, a < 256 -> b < 256 -> c < 256 -> n <= 32 ->
  pton (CidrShort.short3_text a b c n) true false =
  Res (length (CidrShort.short3_text a b c n)) (Some (96 + n)) [0; 0; 0; 0; 0; 65535; a * 256 + b; c * 256].
Proof. exact CidrShort.short_cidr4_3. Qed.
Print Assumptions ipv4_short_cidr_text_3.
