(* C13: netmask parsing and matching are exact.  ONLY statements closed by `exact`, each followed by Print Assumptions. *)
From Coq Require Import List NArith.
Require Import AddrFull MaskSpec.
Local Open Scope N_scope.

(* the mask test succeeds exactly when the leading `bits` bits are equal (abit = bit i of the 128-bit address, MSB first) *)
Theorem mask_test_exact : forall a m bits, length a = length m -> Forall small a -> Forall small m ->
  bits <= 16 * N.of_nat (length a) ->
  cm a m bits = true <-> (forall i, i < bits -> abit a i = abit m i).
Proof. exact check_mask_spec. Qed.
Print Assumptions mask_test_exact.

(* wherever the printer's texts are concerned, the daemon's parser and the reference (standard library) parser agree *)
Require Import AddrV4 AddrRoundTrip.
Require AddrRef.
Theorem parsers_agree_on_printed_addresses : forall gs, wf gs ->
  exists gs', pton (ntop gs) false false = Res (length (ntop gs)) None gs' /\ AddrRef.ref_pton (ntop gs) = Some gs'.
Proof. exact pton_agrees_with_ref. Qed.
Print Assumptions parsers_agree_on_printed_addresses.
