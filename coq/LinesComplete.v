(* C08: every complete line of the input stream is delivered, whatever the length of the stream and however read() cuts it. *)
From Coq Require Import List NArith Bool Strings.Byte Lia.
Import ListNotations.
Require Import IA.Iauth IA.Line IA.Junk.

Definition LF : byte := x0a.

Lemma lines_of_line l rest : nolf l ->
  lines_of (l ++ LF :: rest) = (l :: fst (lines_of rest), snd (lines_of rest)).
Proof.
  induction 1 as [|c r Hc Hr IH]; cbn [app lines_of].
  - destruct (lines_of rest) as [ls rem]. reflexivity.
  - rewrite IH. rewrite Hc. reflexivity.
Qed.

(* a stream made of complete lines (no LF inside a line) splits into exactly those lines and leaves nothing pending *)
Theorem complete_lines ls : Forall nolf ls ->
  lines_of (flat_map (fun l => l ++ [LF]) ls) = (ls, []).
Proof.
  induction 1 as [|l t Hl Ht IH]; cbn [flat_map]; [reflexivity|].
  rewrite <- app_assoc. cbn [app]. rewrite lines_of_line by exact Hl. rewrite IH. reflexivity.
Qed.

(* ... and so does any way of cutting it into read() chunks: all lines are delivered by the time the last chunk has been read,
   none waits for further input (the length of the stream or of a chunk plays no role) *)
Theorem complete_lines_any_chunking ls chunks : Forall nolf ls ->
  List.concat chunks = flat_map (fun l => l ++ [LF]) ls ->
  feed_all chunks = ([], ls).
Proof.
  intros H E. rewrite chunking. unfold feed. cbn [app]. rewrite E, complete_lines by exact H. reflexivity.
Qed.

(* a trailing partial line stays pending and delays nothing *)
Theorem partial_tail_delays_nothing ls tail chunks : Forall nolf ls -> nolf tail ->
  List.concat chunks = flat_map (fun l => l ++ [LF]) ls ++ tail ->
  feed_all chunks = (tail, ls).
Proof.
  intros H Ht E. rewrite chunking. unfold feed. cbn [app]. rewrite E, lines_of_app, complete_lines by exact H.
  cbn [fst snd app]. rewrite lines_of_nolf by exact Ht. cbn [fst snd]. rewrite app_nil_r. reflexivity.
Qed.
