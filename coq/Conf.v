(* Spike: the config parser (as repaired by D9-D11) as a suffix-based Gallina function, plus the dump of a
   first load into an empty live tree.  Transcribed from notes/proto_conf.py (class P). *)
From Coq Require Import List NArith Bool Strings.Byte Strings.String Lia.
Import ListNotations.
Local Open Scope string_scope.
Local Open Scope list_scope.
Local Open Scope N_scope.

Definition str := list byte.
Definition beq (a b : byte) : bool := Byte.eqb a b.
Definition S_ (s : String.string) : str := String.list_byte_of_string s.
Definition nb (b : byte) : N := Byte.to_N b.

Definition isspace (b : byte) : bool := ((9 <=? nb b) && (nb b <=? 13)) || (nb b =? 32).
Definition isdigit (b : byte) : bool := (48 <=? nb b) && (nb b <=? 57).
Definition isalpha (b : byte) : bool := ((65 <=? nb b) && (nb b <=? 90)) || ((97 <=? nb b) && (nb b <=? 122)).
Definition istoken (b : byte) : bool := isalpha b || isdigit b || (nb b =? 45) || (nb b =? 46) || (nb b =? 95) || (nb b =? 35).
Definition hexv (b : byte) : option N :=
  if isdigit b then Some (nb b - 48) else if (97 <=? nb b) && (nb b <=? 102) then Some (nb b - 87)
  else if (65 <=? nb b) && (nb b <=? 70) then Some (nb b - 55) else None.
Definition lower (b : byte) : byte := if (65 <=? nb b) && (nb b <=? 90) then match Byte.of_N (nb b + 32) with Some c => c | None => b end else b.

Definition NL := x0a. Definition QUOTE := x22. Definition BSL := x5c. Definition SLASH := x2f. Definition STAR := x2a.

(* ---------- white space and comments ---------- *)
Fixpoint skip_block (s : str) : option str :=
  match s with
  | [] => None
  | c :: r => if beq c STAR then match r with d :: r2 => if beq d SLASH then Some r2 else skip_block r | [] => None end else skip_block r
  end.
Fixpoint skip_line (s : str) : str := match s with [] => [] | c :: r => if beq c NL then s else skip_line r end.

(* (Some c, rest after c)  or  (None, []) at end of input *)
Fixpoint ws (fuel : nat) (care : bool) (s : str) : option byte * str :=
  match fuel with O => (None, []) | S f =>
  match s with
  | [] => (None, [])
  | c :: r =>
    if beq c NL then (if care then (Some c, r) else ws f care r)
    else if isspace c then ws f care r
    else if negb (beq c SLASH) then (Some c, r)
    else match r with
         | [] => (Some c, [])
         | d :: r2 => if beq d STAR then match skip_block r2 with Some r3 => ws f care r3 | None => (None, []) end
                      else if beq d SLASH then ws f care (skip_line r2)
                      else (Some c, r)
         end
  end end.

(* ---------- strings ---------- *)
Inductive perr := EEof | EString | EComma | ESemi | EFuel | EDeep.

Definition esc_simple (n : byte) : option byte :=
  if beq n x61 then Some x07 else if beq n x62 then Some x08 else if beq n x66 then Some x0c else if beq n x6e then Some x0a
  else if beq n x72 then Some x0d else if beq n x74 then Some x09 else if beq n x76 then Some x0b else None.

(* s = text right after the opening quote; returns decoded bytes and the rest after the closing quote *)
Fixpoint unq (s : str) : option (str * str) :=
  match s with
  | [] => None
  | c :: r =>
    if beq c QUOTE then Some ([], r)
    else if beq c BSL then
      match r with
      | [] => None
      | e :: r2 =>
        if beq e x78 then
          match r2 with
          | h1 :: r3 =>
            match hexv h1 with
            | None => unq r2
            | Some v1 =>
              match r3 with
              | h2 :: r4 => match hexv h2 with
                            | Some v2 => match unq r4 with Some (o, rest) => Some ((match Byte.of_N (v1 * 16 + v2) with Some b => b | None => x00 end) :: o, rest) | None => None end
                            | None => unq r3
                            end
              | [] => None
              end
            end
          | [] => None
          end
        else match unq r2 with
             | Some (o, rest) => Some ((match esc_simple e with Some b => b | None => e end) :: o, rest)
             | None => None
             end
      end
    else match unq r with Some (o, rest) => Some (c :: o, rest) | None => None end
  end.

Fixpoint cut_nul (s : str) : str := match s with [] => [] | c :: r => if beq c x00 then [] else c :: cut_nul r end.
Fixpoint take_token (s : str) : str * str :=
  match s with [] => ([], []) | c :: r => if istoken c then let (a, b) := take_token r in (c :: a, b) else ([], s) end.

(* None = end of input; Some (inl e) = error; Some (inr (value, rest)) *)
Definition pstring (fuel : nat) (s : str) : option (perr + str * str) :=
  match ws fuel false s with
  | (None, _) => None
  | (Some c, r) =>
    if beq c QUOTE then match unq r with Some (o, rest) => Some (inr (cut_nul o, rest)) | None => Some (inl EEof) end
    else if istoken c then let (a, rest) := take_token r in Some (inr (c :: a, rest))
    else Some (inl EString)
  end.

(* ---------- scratch tree ---------- *)
Inductive val := VStr (v : str) | VIna (h : option str) (s : option str) | VList (l : list str) | VObj (kids : list (str * val)).
Definition kind (v : val) : N := match v with VStr _ => 0 | VIna _ _ => 1 | VList _ => 2 | VObj _ => 3 end.
Fixpoint scmp (a b : str) : comparison :=       (* strcasecmp on bytes *)
  match a, b with
  | [], [] => Eq | [], _ => Lt | _, [] => Gt
  | x :: a', y :: b' => match N.compare (nb (lower x)) (nb (lower y)) with Eq => scmp a' b' | c => c end
  end.
Definition kcmp (n1 : str) (k1 : N) (n2 : str) (k2 : N) : comparison :=
  match scmp n1 n2 with Eq => N.compare k1 k2 | c => c end.

(* find-or-insert a child keyed by (casefold name, kind); f gets the existing value if any *)
Fixpoint upsert (name : str) (k : N) (f : option val -> val) (kids : list (str * val)) : list (str * val) :=
  match kids with
  | [] => [(name, f None)]
  | (n, v) :: r => match kcmp name k n (kind v) with
                   | Eq => (n, f (Some v)) :: r
                   | Lt => (name, f None) :: kids
                   | Gt => (n, v) :: upsert name k f r
                   end
  end.
Fixpoint lookup (name : str) (k : N) (kids : list (str * val)) : option val :=
  match kids with [] => None | (n, v) :: r => match kcmp name k n (kind v) with Eq => Some v | _ => lookup name k r end end.

(* ---------- entries (repaired: D9, D10, D11) ---------- *)
Definition res (A : Type) := (perr + A)%type.
Definition CH (n : N) : byte := match Byte.of_N n with Some b => b | None => x00 end.
Definition is (o : option byte) (n : N) : bool := match o with Some c => nb c =? n | None => false end.

(* list items up to ')' : returns items and rest after ')' *)
Fixpoint plist (fuel : nat) (s : str) (acc : list str) : res (list str * str) :=
  match fuel with O => inl EFuel | S f =>
  match ws fuel false s with
  | (None, _) => inl EEof
  | (Some c, r) =>
    if nb c =? 41 then inr (rev acc, r)
    else match pstring fuel (c :: r) with
         | None => inl EEof
         | Some (inl e) => inl e
         | Some (inr (v, r1)) =>
           match ws fuel false r1 with
           | (None, _) => inl EEof
           | (Some c2, r2) => if nb c2 =? 41 then inr (rev (v :: acc), r2)
                              else if nb c2 =? 44 then plist f r2 (v :: acc) else inl EComma
           end
         end
  end end.

(* comma list tail after the first ',' : returns items and the rest *positioned at* the terminator *)
Fixpoint pcomma (fuel : nat) (s : str) (acc : list str) : res (list str * str) :=
  match fuel with O => inl EFuel | S f =>
  match ws fuel true s with
  | (None, _) => inl EEof
  | (Some c, r) =>
    if nb c =? 10 then inr (rev acc, c :: r)
    else match pstring fuel (c :: r) with
         | None => inl EEof
         | Some (inl e) => inl e
         | Some (inr (v, r1)) =>
           match ws fuel true r1 with
           | (None, _) => inl EEof
           | (Some c2, r2) => if (nb c2 =? 10) || (nb c2 =? 59) || (nb c2 =? 125) then inr (rev (v :: acc), c2 :: r2)
                              else if nb c2 =? 44 then pcomma f r2 (v :: acc) else inl EComma
           end
         end
  end end.

(* objects may be nested at most CONF_MAX_DEPTH deep (src/config.c) *)
Definition max_depth : nat := 64.

(* entry: returns updated kids and rest; `d` = parse->depth, the number of objects that enclose this entry
   (d = 0: the parent is the file root) *)
Fixpoint entry (fuel : nat) (d : nat) (s : str) (kids : list (str * val)) : res (list (str * val) * str) :=
  match fuel with O => inl EFuel | S f =>
  match pstring fuel s with
  | None => inr (kids, [])
  | Some (inl e) => inl e
  | Some (inr (name, r0)) =>
    let tail (kids' : list (str * val)) (r : str) : res (list (str * val) * str) :=
      match ws fuel true r with
      | (Some c, r') => if (nb c =? 125) && negb (Nat.eqb d 0) then inr (kids', c :: r')
                        else if (nb c =? 59) || (nb c =? 10) then inr (kids', r') else inl ESemi
      | (None, _) => inl ESemi
      end in
    match ws fuel false r0 with
    | (None, _) => inr (kids, [])
    | (Some c, r1) =>
      if nb c =? 40 then
        match plist fuel r1 [] with
        | inl e => inl e
        | inr (items, r2) => tail (upsert name 2 (fun _ => VList items) kids) r2
        end
      else if nb c =? 123 then
        if Nat.leb max_depth d then inl EDeep else   (* ++parse->depth > CONF_MAX_DEPTH: PARSE_TOO_DEEP, before anything of the object is read *)
        let old := match lookup name 3 kids with Some (VObj k) => k | _ => [] end in
        let fix body (fu : nat) (r : str) (ks : list (str * val)) : res (list (str * val) * str) :=
          match fu with O => inl EFuel | S fu' =>
          match ws fuel false r with
          | (None, _) => inl EEof
          | (Some c2, r2) => if nb c2 =? 125 then inr (ks, r2)
                             else match entry f (S d) (c2 :: r2) ks with
                                  | inl e => inl e
                                  | inr (ks', r3) => body fu' r3 ks'
                                  end
          end end in
        match body f r1 old with
        | inl e => inl e
        | inr (ks, r2) => tail (upsert name 3 (fun _ => VObj ks) kids) r2
        end
      else
        match pstring fuel (c :: r1) with
        | None => inl EEof
        | Some (inl e) => inl e
        | Some (inr (v, r2)) =>
          match ws fuel true r2 with
          | (None, _) => inl ESemi                 (* C re-reads the previous byte here and always ends in an error *)
          | (Some c2, r3) =>
            if (nb c2 =? 59) || (nb c2 =? 10) || (nb c2 =? 125) then tail (upsert name 0 (fun _ => VStr v) kids) (c2 :: r3)
            else if nb c2 =? 44 then
              match pcomma fuel r3 [v] with
              | inl e => inl e
              | inr (items, r4) => tail (upsert name 2 (fun _ => VList items) kids) r4
              end
            else match pstring fuel (c2 :: r3) with
                 | None => inl ESemi
                 | Some (inl e) => inl e
                 | Some (inr (sv, r4)) => tail (upsert name 1 (fun _ => VIna (Some v) (Some sv)) kids) r4
                 end
          end
        end
    end
  end end.

Fixpoint entries (fuel : nat) (s : str) (kids : list (str * val)) : res (list (str * val)) :=
  match fuel with O => inl EFuel | S f =>
  match s with
  | [] => inr kids
  | _ => match entry fuel 0 s kids with inl e => inl e | inr (k', r) => entries f r k' end
  end end.

Definition parse (data : str) : res (list (str * val)) :=
  match data with
  | [] => inl EEof (* empty file: fread of zero bytes is reported as a system error *)
  | _ => let d := cut_nul data in entries (2 * List.length d + 4) d []
  end.

(* ---------- dump of a first load into an empty live tree (everything spliced: specified 0, present 1) ---------- *)
Definition hexd (n : N) : byte := match Byte.of_N (if n <? 10 then 48 + n else 87 + n) with Some b => b | None => x30 end.
Definition q (b : str) : str :=
  QUOTE :: flat_map (fun c => if ((32 <=? nb c) && (nb c <=? 126)) && negb (beq c QUOTE) && negb (beq c BSL) then [c]
                              else [BSL; x78; hexd (nb c / 16); hexd (nb c mod 16)]) b ++ [QUOTE].
Definition qo (o : option str) : str := match o with Some b => q b | None => S_ "(null)" end.
Fixpoint indent (n : nat) : str := match n with O => [] | S k => x20 :: x20 :: indent k end.
Fixpoint joinc (l : list str) : str := match l with [] => [] | [a] => a | a :: r => a ++ [x2c] ++ joinc r end.
Fixpoint dumpv (depth : nat) (n : str) (v : val) {struct v} : list str :=
  let pre := indent depth ++ q n ++ S_ " k" ++ [hexd (kind v)] ++ S_ " s0 p1 " in
  match v with
  | VStr x => [pre ++ q x ++ S_ " sub0 -"]
  | VIna h s => [pre ++ qo h ++ [x20] ++ qo s]
  | VList l => [pre ++ [x28] ++ joinc (map q l) ++ [x29]]
  | VObj ks => [pre ++ [x7b]] ++
               (fix go (l : list (str * val)) : list str := match l with [] => [] | (n', v') :: r => dumpv (S depth) n' v' ++ go r end) ks
               ++ [indent depth ++ [x7d]]
  end.
Definition dump (depth : nat) (kids : list (str * val)) : list str := flat_map (fun nv => dumpv depth (fst nv) (snd nv)) kids.

Definition load_dump (data : str) : list str :=
  match parse data with
  | inl _ => [S_ "LOAD ERR"]
  | inr kids => S_ "LOAD OK" :: dump 0 kids
  end.

Definition show (l : list str) := map String.string_of_list_byte l.
