From Coq Require Import List Arith Lia Bool.
Import ListNotations.
Require Import Merge2.

Definition mk_gen (mrg : lnode -> fnode -> lnode) :=
  fix mk (ts : list (key * lnode)) (ss : list (key * fnode)) {struct ss} : list (key * lnode) :=
    match ss with
    | [] => revert_all ts
    | (ks, s') :: ss' =>
        let (lo, hi) := span_lt ks ts in
        revert_all lo ++
        match hi with
        | (kt, t') :: hi' => if kt =? ks then (kt, mrg t' s') :: mk hi' ss' else (ks, splice s') :: mk hi ss'
        | [] => (ks, splice s') :: mk [] ss'
        end
    end.

Lemma merge_obj t ss : merge t (FObj ss) =
  match t with LObj spec _ ks => LObj spec true (mk_gen merge ks ss) | _ => splice (FObj ss) end.
Proof. reflexivity. Qed.

(* nested induction principle *)
Section Ind.
  Variable P : fnode -> Prop.
  Hypothesis Hstr : forall v, P (FStr v).
  Hypothesis Hobj : forall ks, Forall (fun kf => P (snd kf)) ks -> P (FObj ks).
  Fixpoint fnode_ind' (f : fnode) : P f :=
    match f with
    | FStr v => Hstr v
    | FObj ks => Hobj ks ((fix go (l : list (key * fnode)) : Forall (fun kf => P (snd kf)) l :=
                             match l with [] => Forall_nil _ | kf :: r => Forall_cons kf (fnode_ind' (snd kf)) (go r) end) ks)
    end.
End Ind.

(* revert is idempotent *)
Lemma revert_idem l : forall l', revert l = Some l' -> revert l' = Some l'.
Proof.
  destruct l as [spec pres d v|spec pres ks]; simpl; intros l' H.
  - destruct spec; inversion H; subst; reflexivity.
  - destruct spec; inversion H; subst; reflexivity.
Qed.

Lemma revert_all_idem ts : revert_all (revert_all ts) = revert_all ts.
Proof.
  unfold revert_all. induction ts as [|[k t] ts IH]; simpl; [reflexivity|].
  destruct (revert t) as [t'|] eqn:E; simpl.
  - rewrite (revert_idem t t' E). simpl. f_equal. exact IH.
  - exact IH.
Qed.

Definition all_lt (k : key) (l : list (key * lnode)) : Prop := Forall (fun kl => fst kl < k) l.

Lemma span_lt_spec k ts : forall lo hi, span_lt k ts = (lo, hi) ->
  ts = lo ++ hi /\ all_lt k lo /\ match hi with (kt, _) :: _ => k <= kt | [] => True end.
Proof.
  induction ts as [|[kt t] r IH]; simpl; intros lo hi H.
  - inversion H; subst. repeat split; constructor.
  - destruct (kt <? k) eqn:E.
    + destruct (span_lt k r) as [a b] eqn:Er. inversion H; subst.
      destruct (IH a hi eq_refl) as (E1 & E2 & E3). subst r. repeat split; auto.
      constructor; [apply Nat.ltb_lt in E; exact E|exact E2].
    + inversion H; subst. repeat split; [constructor|]. apply Nat.ltb_ge in E. exact E.
Qed.

Lemma all_lt_revert k l : all_lt k l -> all_lt k (revert_all l).
Proof.
  unfold all_lt, revert_all. induction 1 as [|[kk t] r Hh Ht IH]; simpl; [constructor|].
  destruct (revert t); simpl; [constructor; assumption|assumption].
Qed.

Lemma span_lt_app k lo x rest : all_lt k lo -> span_lt k (lo ++ (k, x) :: rest) = (lo, (k, x) :: rest).
Proof.
  induction 1 as [|[kk t] r Hh Ht IH]; simpl.
  - rewrite Nat.ltb_irrefl. reflexivity.
  - simpl in Hh. apply Nat.ltb_lt in Hh. rewrite Hh, IH. reflexivity.
Qed.

Lemma splice_fix : forall s, merge (splice s) s = splice s.
Proof.
  apply fnode_ind'; [reflexivity|].
  intros ks IH. rewrite merge_obj. simpl. f_equal.
  induction ks as [|[k s'] r IHr]; simpl; [reflexivity|].
  rewrite Nat.ltb_irrefl. simpl. rewrite Nat.eqb_refl.
  inversion IH as [|? ? H1 H2]; subst. simpl in H1. rewrite H1. f_equal. apply IHr. exact H2.
Qed.

Lemma mk_idem (mrg : lnode -> fnode -> lnode) ss :
  (forall s, mrg (splice s) s = splice s) ->
  Forall (fun kf => forall t, mrg (mrg t (snd kf)) (snd kf) = mrg t (snd kf)) ss ->
  forall ts, mk_gen mrg (mk_gen mrg ts ss) ss = mk_gen mrg ts ss.
Proof.
  intros Hsp. induction 1 as [|[ks s'] ss' Hh Ht IH]; intros ts.
  - simpl. apply revert_all_idem.
  - simpl in Hh. cbn [mk_gen]. fold (mk_gen mrg).
    destruct (span_lt ks ts) as [lo hi] eqn:Es.
    destruct (span_lt_spec ks ts lo hi Es) as (_ & Hlo & Hhi).
    pose proof (all_lt_revert ks lo Hlo) as Hlo'.
    destruct hi as [|[kt t'] hi'].
    + rewrite (span_lt_app ks (revert_all lo) (splice s') (mk_gen mrg [] ss') Hlo').
      rewrite revert_all_idem, Nat.eqb_refl, Hsp, IH. reflexivity.
    + destruct (kt =? ks) eqn:Ek.
      * apply Nat.eqb_eq in Ek. subst kt.
        rewrite (span_lt_app ks (revert_all lo) (mrg t' s') (mk_gen mrg hi' ss') Hlo').
        rewrite revert_all_idem, Nat.eqb_refl, Hh, IH. reflexivity.
      * rewrite (span_lt_app ks (revert_all lo) (splice s') (mk_gen mrg ((kt, t') :: hi') ss') Hlo').
        rewrite revert_all_idem, Nat.eqb_refl, Hsp, IH. reflexivity.
Qed.

Theorem merge_idem : forall s t, merge (merge t s) s = merge t s.
Proof.
  apply (fnode_ind' (fun s => forall t, merge (merge t s) s = merge t s)).
  - intros v t. destruct t; reflexivity.
  - intros ss IH t. rewrite !merge_obj.
    destruct t as [spec pres d v|spec pres ks].
    + rewrite <- merge_obj. apply splice_fix.
    + f_equal. apply mk_idem; [apply splice_fix|exact IH].
Qed.
