(* "A timer belonging to a finished request never fires", and the bookkeeping of the `timer` field.

   The C daemon arms one request timer per announced client (when a timeout is configured) and the timer callback
   is modelled by the pseudo-command `<id> ! timeout`.
   1. `timeout_for_finished_request_is_noop`: for an id that is not in the table the timeout line changes nothing and
      prints nothing (on the tokenised level and on the raw-line level).
   2. `timer_fires_at_most_once`: the timeout event for a live request either is ignored (no armed timer, or the
      argument is not "timeout") or marks the request as timed out and disarms it; any later timeout event for the
      same request is a no-op.  `timer_never_rearmed`: no line but the announcement (C) arms a timer.
   3. `timers_exist_only_for_live_requests`: the armed timers are timers of table entries; an id that is no longer in
      the table has none. *)
From Coq Require Import List NArith ZArith Bool Strings.Byte Strings.String Lia.
Import ListNotations.
Require Import Params Iauth IauthFacts Line Junk Mon01 Stray.
Require ReloadEq.
Local Open Scope list_scope.

Definition is_timeout (argv : list str) : bool :=
  match arg 1 argv with Some a => seq_eq a (S_ "timeout") | None => false end.

(* ====================================================================================================== *)
(* 1. no request, no effect                                                                                *)
(* ====================================================================================================== *)
Lemma cmd_bang argv : cmdchar argv = x21 ->
  beq (cmdchar argv) x43 = false /\ beq (cmdchar argv) x58 || beq (cmdchar argv) x78 = false.
Proof. intros H. rewrite H. split; reflexivity. Qed.

Theorem timeout_for_finished_request_is_noop c s id argv :
  cmdchar argv = x21 -> lookup id (reqs s) = None -> step c s id argv = (s, []).
Proof.
  intros Hc Hl. destruct (cmd_bang argv Hc) as [E1 E2]. rewrite step_eq, E1, E2, Hl. reflexivity.
Qed.

(* the same for the raw input line `<id> ! ...`, through the tokenizer (any id, including -1) *)
Theorem timeout_line_for_finished_request_is_noop c s raw :
  cmdchar (argv_of raw) = x21 -> lookup (id_of raw) (reqs s) = None -> step_line c s raw = (s, []).
Proof.
  intros Hc Hl. rewrite step_line_unfold.
  destruct (line_of raw); [reflexivity|]. destruct (argv_of raw) as [|a0 rest] eqn:Ea; [reflexivity|]. cbv zeta.
  rewrite Hc, Hl.
  change (in_set x21 (S_ "DdHTu")) with false. change (in_set x21 (S_ "NPn")) with false.
  change (in_set x21 (S_ "U")) with false. change (in_set x21 (S_ "C")) with false.
  rewrite !andb_false_r. cbn [negb]. rewrite !andb_true_r.
  destruct (negb (id_of raw =? -1)%Z); [reflexivity|].
  apply timeout_for_finished_request_is_noop; assumption.
Qed.

(* a concrete line, on a state with an empty table *)
Example timeout_line_example :
  let s := init {| with_xq := true |} [] [] true in
  step_line {| with_xq := true |} s (S_ "7 ! timeout") = (s, []).
Proof. vm_compute. reflexivity. Qed.

(* ====================================================================================================== *)
(* 2. the timer fires at most once                                                                         *)
(* ====================================================================================================== *)
Lemma handle_timeout c tb r argv : cmdchar argv = x21 ->
  handle c tb r argv =
  if timer r && is_timeout argv then let '(r2, g) := gate c tb (timed_out r) in HFin (r2, g, []) else HSame [].
Proof. intros H. unfold handle, is_timeout. cbv zeta. rewrite H. reflexivity. Qed.

(* the gate touches neither the timer nor the timed-out mark *)
Lemma gate_timer c tb r :
  match fst (gate c tb r) with Some r' => cid r' = cid r /\ timer r' = timer r /\ f_tout r' = f_tout r | None => True end.
Proof.
  unfold gate. destruct ((holds r =? 0)%Z && complete c r); [|repeat split].
  destruct ((soft r =? 0)%Z || f_tout r).
  - destruct (classify (slots tb) (rules tb) r). exact I.
  - destruct (negb (f_sdone r)); cbn [fst]; repeat split.
Qed.

(* what is stored for `id` after `finish`, when ids are unique *)
Lemma finish_lookup s id res r' :
  NoDupIds (reqs s) -> match fst (fst res) with Some r2 => cid r2 = id | None => True end ->
  lookup id (reqs (fst (finish s id res))) = Some r' -> fst (fst res) = Some r'.
Proof.
  intros ND Hc. destruct res as [[ro o] e]. unfold finish. cbn [fst] in *. destruct ro as [r2|]; cbn [fst reqs].
  - rewrite lookup_put. rewrite Hc, Z.eqb_refl. intros E; exact E.
  - rewrite (lookup_remove_eq id _ ND). discriminate.
Qed.

(* an ignored timeout event: the request has no armed timer, or the word after `!` is not "timeout" *)
Theorem timeout_ignored c s id argv r :
  lookup id (reqs s) = Some r -> cmdchar argv = x21 -> timer r && is_timeout argv = false -> step c s id argv = (s, []).
Proof.
  intros Hl Hc Ht. destruct (cmd_bang argv Hc) as [E1 E2].
  rewrite step_eq, E1, E2, Hl, (handle_timeout c (tb s) r argv Hc), Ht. reflexivity.
Qed.

(* an effective timeout event: what is left in the table for this id is disarmed and marked as timed out *)
Theorem timeout_disarms c s id argv r r' :
  NoDupIds (reqs s) -> lookup id (reqs s) = Some r -> cmdchar argv = x21 -> timer r && is_timeout argv = true ->
  lookup id (reqs (fst (step c s id argv))) = Some r' -> timer r' = false /\ f_tout r' = true.
Proof.
  intros ND Hl Hc Ht Hl'. destruct (cmd_bang argv Hc) as [E1 E2].
  rewrite step_eq, E1, E2, Hl, (handle_timeout c (tb s) r argv Hc), Ht in Hl'.
  pose proof (gate_timer c (tb s) (timed_out r)) as G. destruct (gate c (tb s) (timed_out r)) as [r2 g]. cbn [fst apply_h] in *.
  apply finish_lookup in Hl'; [|exact ND|].
  - cbn [fst] in Hl'. subst r2. destruct G as (_ & G1 & G2). rewrite G1, G2. split; reflexivity.
  - cbn [fst]. destruct r2 as [r2|]; [|exact I]. destruct G as (G & _). rewrite G. exact (lookup_cid _ _ _ Hl).
Qed.

Theorem timer_fires_at_most_once c s id argv r :
  NoDupIds (reqs s) -> lookup id (reqs s) = Some r -> cmdchar argv = x21 ->
  let s' := fst (step c s id argv) in
  (* the event is ignored outright unless the request has an armed timer and the word is "timeout" ... *)
  (timer r && is_timeout argv = false -> step c s id argv = (s, [])) /\
  (* ... otherwise it fires: if the request stays in the table it is disarmed and marked ... *)
  (timer r && is_timeout argv = true ->
     (forall r', lookup id (reqs s') = Some r' -> timer r' = false /\ f_tout r' = true) /\
     (* ... and any further timeout event for this id changes nothing and prints nothing *)
     (forall argv2, cmdchar argv2 = x21 -> step c s' id argv2 = (s', []))).
Proof.
  intros ND Hl Hc s'. split; [apply (timeout_ignored c s id argv r Hl Hc)|].
  intros Ht. split; [intros r'; apply (timeout_disarms c s id argv r r' ND Hl Hc Ht)|].
  intros argv2 Hc2. destruct (lookup id (reqs s')) as [r'|] eqn:El'.
  - destruct (timeout_disarms c s id argv r r' ND Hl Hc Ht El') as [T _].
    apply (timeout_ignored c s' id argv2 r' El' Hc2). rewrite T. reflexivity.
  - apply timeout_for_finished_request_is_noop; assumption.
Qed.

(* ---------- no line but the announcement arms a timer ---------- *)
(* r' has the id of r, and an armed timer only if r had one *)
Definition tle (r' r : req) : Prop := cid r' = cid r /\ (timer r' = true -> timer r = true).
Definition res_tle (r : req) (res : option req * list out * list eff) : Prop :=
  match fst (fst res) with Some r' => tle r' r | None => True end.

Lemma tle_refl r : tle r r.
Proof. split; [reflexivity|intros H; exact H]. Qed.
Lemma tle_trans a b c : tle a b -> tle b c -> tle a c.
Proof. intros [A1 A2] [B1 B2]. split; [congruence|auto]. Qed.
(* every record update of the model except `fresh` copies the timer or clears it *)
Lemma tle_same r' r : cid r' = cid r -> timer r' = timer r -> tle r' r.
Proof. intros H1 H2. split; [exact H1|rewrite H2; intros H; exact H]. Qed.

Lemma qpass_tle ss : forall slot is_pw r outs efs, tle (fst (fst (qpass ss slot is_pw r outs efs))) r.
Proof.
  induction ss as [|[sv|] rest IH]; intros slot is_pw r outs efs; cbn [qpass]; [apply tle_refl| |apply IH].
  destruct (negb (s_conf sv) || skip_query (s_type sv) slot is_pw r); [apply IH|].
  eapply tle_trans; [apply IH|]. apply tle_same; reflexivity.
Qed.

Lemma cont_tle ss : forall slot t r outs efs, tle (fst (fst (cont ss slot t r outs efs))) r.
Proof.
  induction ss as [|[sv|] rest IH]; intros slot t r outs efs; cbn [cont]; [apply tle_refl| |apply IH].
  destruct (N.testbit (more r) slot && s_conf sv); [|apply IH].
  eapply tle_trans; [apply IH|]. apply tle_same; reflexivity.
Qed.

Lemma gate_tle c tb r : match fst (gate c tb r) with Some r' => tle r' r | None => True end.
Proof.
  pose proof (gate_timer c tb r) as G. destruct (fst (gate c tb r)) as [r'|]; [|exact I].
  destruct G as (G1 & G2 & _). apply tle_same; assumption.
Qed.

Lemma gate3_tle c tb r0 r1 (pre : list out) (e : list eff) : tle r1 r0 ->
  res_tle r0 (let '(r', g) := gate c tb r1 in (r', pre ++ g, e)).
Proof.
  intros H. pose proof (gate_tle c tb r1) as G. unfold res_tle. destruct (gate c tb r1) as [r' g]. cbn [fst] in *.
  destruct r'; [eapply tle_trans; eassumption|exact I].
Qed.

Lemma after_tle c tb r0 r1 is_pw : tle r1 r0 -> res_tle r0 (after c tb r1 is_pw).
Proof.
  intros H. unfold after. pose proof (qpass_tle (slots tb) 0%N is_pw r1 [] []) as Q.
  destruct (qpass (slots tb) 0%N is_pw r1 [] []) as [[r2 o] efs]. cbn [fst] in Q.
  apply gate3_tle. eapply tle_trans; eassumption.
Qed.

Lemma password_tle tb r t : tle (fst (fst (password tb r t))) r.
Proof.
  unfold password.
  destruct ((more r =? 0)%N || negb (nonempty (pw r))); [|apply cont_tle].
  destruct (negb (starts t x2b || starts t x2d)); [apply tle_refl|].
  destruct (modes _ _ _ _ _ _ _) as [[[[[rest0 sx] cx] sb] cb]|]; [|apply tle_refl].
  cbv zeta. destruct (negb (has sp (skipsp rest0))); [apply tle_refl|].
  eapply tle_trans; [apply qpass_tle|]. apply tle_same; reflexivity.
Qed.

Lemma reply_tle c tb r svcn text : res_tle r (reply c tb r svcn text).
Proof.
  unfold reply.
  destruct (find_slot (slots tb) 0 svcn (refm r)) as [[slot t]|]; [|exact (tle_refl r)].
  assert (forall mr ok na h, tle (release r slot mr ok na h) r) as R0 by (intros; apply tle_same; reflexivity).
  cbv beta zeta.
  destruct text as [tx|].
  - destruct (seq_eq tx (S_ "OK")); [apply gate3_tle, R0|].
    destruct (prefix (S_ "OK ") tx).
    + destruct (negb (nonempty (upto sp (skipn 3 tx))) || is_drone t); apply gate3_tle, R0.
    + destruct (prefix (S_ "NO ") tx); [exact I|].
      destruct (prefix (S_ "AGAIN ") tx); [apply gate3_tle, R0|].
      destruct (prefix (S_ "MORE ") tx); [apply gate3_tle, R0|exact (tle_refl r)].
  - apply gate3_tle, R0.
Qed.

Definition h_tle (r : req) (h : hres) : Prop := match h with HFin res => res_tle r res | _ => True end.

Lemma gate3h_tle c tb r0 r1 (e : list eff) : tle r1 r0 -> h_tle r0 (let '(r2, g) := gate c tb r1 in HFin (r2, g, e)).
Proof.
  intros H. pose proof (gate3_tle c tb r0 r1 [] e H) as G. destruct (gate c tb r1) as [r2 g]. exact G.
Qed.

Lemma handle_tle c tb r argv : h_tle r (handle c tb r argv).
Proof.
  assert (forall r1, tle r1 r ->
            h_tle r (HFin (if with_xq c then after c tb r1 false else let '(r2, g) := gate c tb r1 in (r2, g, [])))) as Aft.
  { intros r1 H1. destruct (with_xq c); [apply after_tle; exact H1|].
    pose proof (gate3_tle c tb r r1 [] [] H1) as G. destruct (gate c tb r1) as [r2 g]. exact G. }
  assert (forall r1, cid r1 = cid r -> timer r1 = timer r ->
            h_tle r (HFin (if with_xq c then after c tb r1 false else let '(r2, g) := gate c tb r1 in (r2, g, [])))) as Aft'.
  { intros r1 H1 H2. apply Aft, tle_same; assumption. }
  unfold handle. cbv zeta.
  destruct (beq (cmdchar argv) x44 || beq (cmdchar argv) x54); [exact I|].
  destruct (beq (cmdchar argv) x21).
  { match goal with |- context [if ?b then _ else _] => destruct b end; [|exact I].
    apply gate3h_tle. split; [reflexivity|discriminate]. }
  destruct (beq (cmdchar argv) x4e).
  { destruct (arg 1 argv); [|exact I]. destruct (nonempty (host r)); [exact I|]. apply Aft'; reflexivity. }
  destruct (beq (cmdchar argv) x64); [apply Aft'; reflexivity|].
  destruct (beq (cmdchar argv) x75).
  { destruct (arg 1 argv); [apply Aft'; reflexivity|]. destruct (nonempty (cliu r)); apply Aft'; reflexivity. }
  destruct (beq (cmdchar argv) x6e).
  { destruct (arg 1 argv); [apply Aft'; reflexivity|exact I]. }
  destruct (beq (cmdchar argv) x55).
  { destruct (arg 1 argv); [|exact I]. destruct (arg 2 argv); [apply Aft'; reflexivity|exact I]. }
  destruct (beq (cmdchar argv) x48).
  { destruct (with_xq c) eqn:Ex.
    - pose proof (Aft' (set_flags r true true true true (f_pass r)) eq_refl eq_refl) as A. rewrite ?Ex in A. exact A.
    - pose proof (Aft' (set_flags r true (f_ident r) (f_nick r) (f_user r) (f_pass r)) eq_refl eq_refl) as A. rewrite ?Ex in A. exact A. }
  destruct (beq (cmdchar argv) x50); [|exact I].
  destruct (arg 1 argv) as [t|]; [|exact I].
  destruct (with_xq c); [|apply gate3h_tle, tle_same; reflexivity].
  set (r0 := set_flags r (f_host r) (f_ident r) (f_nick r) (f_user r) true).
  pose proof (password_tle tb r0 t) as P. destruct (password tb r0 t) as [[r1 o] efs]. cbn [fst] in P.
  pose proof (gate3_tle c tb r r1 o efs) as G. destruct (gate c tb r1) as [r2 g]. apply G.
  eapply tle_trans; [exact P|]. apply tle_same; reflexivity.
Qed.

(* the table after `finish`: an armed timer in it was armed before *)
Lemma finish_timer s id res r0 j r' :
  NoDupIds (reqs s) -> lookup id (reqs s) = Some r0 -> res_tle r0 res ->
  lookup j (reqs (fst (finish s id res))) = Some r' -> timer r' = true ->
  exists r, lookup j (reqs s) = Some r /\ timer r = true.
Proof.
  intros ND Hl Hr Hl' Ht. destruct res as [[ro o] e]. unfold finish, res_tle in *. cbn [fst] in *.
  destruct ro as [r2|]; cbn [fst reqs] in Hl'.
  - rewrite lookup_put in Hl'. destruct Hr as [H1 H2].
    destruct (cid r2 =? j)%Z eqn:E.
    + inversion Hl'; subst r'. apply Z.eqb_eq in E. exists r0. split; [|auto].
      rewrite <- E, H1, (lookup_cid _ _ _ Hl). exact Hl.
    + exists r'. split; assumption.
  - destruct (Z.eq_dec j id) as [->|Hne].
    + rewrite (lookup_remove_eq id _ ND) in Hl'. discriminate.
    + rewrite (lookup_remove_neq j id _ Hne) in Hl'. exists r'. split; assumption.
Qed.

Theorem timer_never_rearmed c s id argv j r' :
  NoDupIds (reqs s) -> beq (cmdchar argv) x43 = false ->
  lookup j (reqs (fst (step c s id argv))) = Some r' -> timer r' = true ->
  exists r, lookup j (reqs s) = Some r /\ timer r = true.
Proof.
  intros ND Hc Hl' Ht. rewrite step_eq, Hc in Hl'.
  destruct (beq (cmdchar argv) x58 || beq (cmdchar argv) x78).
  { unfold xstep, xreply in Hl'.
    destruct (negb (with_xq c)); [exists r'; split; assumption|].
    destruct (arg 1 argv) as [svcn|]; [|exists r'; split; assumption].
    destruct (arg 2 argv) as [tg|]; [|exists r'; split; assumption].
    destruct (arg 3 argv) as [tx|]; [|exists r'; split; assumption].
    destruct (parse_tag tg) as [[tid tser]|]; [|exists r'; split; assumption].
    destruct (lookup tid (reqs s)) as [r|] eqn:El; [|exists r'; split; assumption].
    destruct (ser r =? tser)%N; [|exists r'; split; assumption].
    rewrite (lookup_cid _ _ _ El) in Hl'.
    eapply finish_timer; [exact ND|exact El|apply reply_tle|exact Hl'|exact Ht]. }
  destruct (lookup id (reqs s)) as [r|] eqn:El; [|exists r'; split; assumption].
  pose proof (handle_tle c (tb s) r argv) as H. destruct (handle c (tb s) r argv) as [o|res|]; cbn [apply_h fst] in Hl'.
  - exists r'; split; assumption.
  - eapply finish_timer; [exact ND|exact El|exact H|exact Hl'|exact Ht].
  - cbn [reqs] in Hl'. destruct (Z.eq_dec j id) as [->|Hne].
    + rewrite (lookup_remove_eq id _ ND) in Hl'. discriminate.
    + rewrite (lookup_remove_neq j id _ Hne) in Hl'. exists r'. split; assumption.
Qed.

(* reloads do not touch the timers (pending requests only forget the refilled slots: ReloadEq.forget_fields) *)
Theorem timer_never_rearmed_ev c s e j r' :
  NoDupIds (reqs s) -> match e with Ev _ argv => beq (cmdchar argv) x43 = false | Reload _ _ _ => True end ->
  lookup j (reqs (fst (step_ev c s e))) = Some r' -> timer r' = true ->
  exists r, lookup j (reqs s) = Some r /\ timer r = true.
Proof.
  destruct e as [id argv|svs rs t]; cbn [step_ev fst reqs].
  - apply timer_never_rearmed.
  - intros _ _ H1 H2. rewrite ReloadEq.lookup_map_forget in H1. destruct (lookup j (reqs s)) as [r|]; [|discriminate].
    cbn [option_map] in H1. inversion H1; subst. exists r. split; [reflexivity|exact H2].
Qed.

(* ====================================================================================================== *)
(* 3. armed timers belong to table entries                                                                 *)
(* ====================================================================================================== *)
Definition armed (s : st) : list Z := map cid (filter timer (reqs s)).

Lemma armed_incl s : incl (armed s) (map cid (reqs s)).
Proof.
  unfold armed. intros x Hx. apply in_map_iff in Hx as [r [E Hr]]. apply filter_In in Hr as [Hr _].
  apply in_map_iff. exists r. split; assumption.
Qed.

Lemma armed_in s id : In id (armed s) <-> exists r, In r (reqs s) /\ cid r = id /\ timer r = true.
Proof.
  unfold armed. rewrite in_map_iff. split.
  - intros [r [E Hr]]. apply filter_In in Hr. exists r. tauto.
  - intros [r [H1 [H2 H3]]]. exists r. split; [exact H2|apply filter_In; tauto].
Qed.

Lemma not_live_not_armed s id : lookup id (reqs s) = None -> ~ In id (armed s).
Proof. intros Hl Hin. apply armed_incl in Hin. exact (lookup_in id (reqs s) Hin Hl). Qed.

Lemma lookup_of_in l : NoDupIds l -> forall r, In r l -> lookup (cid r) l = Some r.
Proof.
  unfold NoDupIds. induction l as [|x t IH]; intros ND r Hin; [destruct Hin|].
  cbn [map] in ND. inversion ND as [|? ? Hx Ht]; subst. cbn [lookup]. destruct Hin as [->|Hin].
  - rewrite Z.eqb_refl. reflexivity.
  - destruct (cid x =? cid r)%Z eqn:E; [|apply IH; assumption].
    apply Z.eqb_eq in E. exfalso. apply Hx. rewrite E. apply in_map. exact Hin.
Qed.

(* with unique ids: the armed timers are exactly those of the live requests whose `timer` field is set *)
Lemma armed_lookup s id : NoDupIds (reqs s) -> (In id (armed s) <-> exists r, lookup id (reqs s) = Some r /\ timer r = true).
Proof.
  intros ND. rewrite armed_in. split.
  - intros [r [H1 [H2 H3]]]. exists r. split; [|exact H3]. rewrite <- H2. apply lookup_of_in; assumption.
  - intros [r [H1 H2]]. exists r. split; [eapply lookup_in_list; exact H1|]. split; [exact (lookup_cid _ _ _ H1)|exact H2].
Qed.

Theorem timers_exist_only_for_live_requests c s e :
  let s' := fst (step_ev c s e) in
  incl (armed s') (map cid (reqs s')) /\
  (* whatever the event did (verdict D / R / k, withdrawal D / T by the server): an id that is not in the table
     afterwards has no armed timer afterwards *)
  (forall id, lookup id (reqs s') = None -> ~ In id (armed s')).
Proof. intros s'. split; [apply armed_incl|intros id; apply not_live_not_armed]. Qed.

(* every step keeps the ids of the table distinct *)
Lemma step_nodup c s id argv : NoDupIds (reqs s) -> NoDupIds (reqs (fst (step c s id argv))).
Proof.
  intros ND. rewrite step_eq.
  assert (forall j res, NoDupIds (reqs (fst (finish s j res)))) as Fin.
  { intros j [[ro o] e]. unfold finish. destruct ro; cbn [fst reqs]; [apply nodup_put|apply nodup_remove]; exact ND. }
  destruct (beq (cmdchar argv) x43).
  { unfold announce. destruct (arg 1 argv) as [a|], (arg 2 argv), (arg 3 argv), (arg 4 argv); try exact ND.
    destruct (announce_addr a). cbn [fst reqs]. apply nodup_put; exact ND. }
  destruct (beq (cmdchar argv) x58 || beq (cmdchar argv) x78).
  { unfold xstep, xreply. destruct (negb (with_xq c)); [exact ND|].
    destruct (arg 1 argv); [|exact ND]. destruct (arg 2 argv) as [tg|]; [|exact ND]. destruct (arg 3 argv); [|exact ND].
    destruct (parse_tag tg) as [[tid tser]|]; [|exact ND]. destruct (lookup tid (reqs s)) as [r|]; [|exact ND].
    destruct (ser r =? tser)%N; [apply Fin|exact ND]. }
  destruct (lookup id (reqs s)) as [r|]; [|exact ND].
  destruct (handle c (tb s) r argv); cbn [apply_h]; [exact ND|apply Fin|cbn [fst reqs]; apply nodup_remove; exact ND].
Qed.

(* the set of armed timers never grows except by an announcement *)
Theorem armed_shrinks c s e :
  NoDupIds (reqs s) -> match e with Ev _ argv => beq (cmdchar argv) x43 = false | Reload _ _ _ => True end ->
  incl (armed (fst (step_ev c s e))) (armed s).
Proof.
  intros ND He id Hin.
  assert (NoDupIds (reqs (fst (step_ev c s e)))) as ND'.
  { destruct e as [i argv|svs rs t]; cbn [step_ev fst reqs]; [apply step_nodup; exact ND|].
    unfold NoDupIds. rewrite ReloadEq.map_cid_forget. exact ND. }
  apply (armed_lookup _ id ND') in Hin. destruct Hin as [r' [H1 H2]].
  apply (armed_lookup s id ND). eapply timer_never_rearmed_ev; eassumption.
Qed.

(* once the timer of a request has fired, its id is not armed again until it is announced anew *)
Corollary fired_timer_stays_disarmed c s id argv r e :
  NoDupIds (reqs s) -> lookup id (reqs s) = Some r -> cmdchar argv = x21 -> timer r && is_timeout argv = true ->
  match e with Ev _ argv2 => beq (cmdchar argv2) x43 = false | Reload _ _ _ => True end ->
  ~ In id (armed (fst (step c s id argv))) /\ ~ In id (armed (fst (step_ev c (fst (step c s id argv)) e))).
Proof.
  intros ND Hl Hc Ht He.
  assert (~ In id (armed (fst (step c s id argv)))) as N1.
  { intros Hin. apply (armed_lookup _ id (step_nodup c s id argv ND)) in Hin. destruct Hin as [r' [H1 H2]].
    destruct (timeout_disarms c s id argv r r' ND Hl Hc Ht H1) as [T _]. congruence. }
  split; [exact N1|]. intros Hin. apply N1. eapply armed_shrinks; [apply step_nodup; exact ND|exact He|exact Hin].
Qed.

(* the three facts on a concrete history of raw lines: announce client 7, its timer fires, a second timeout line *)
Example timer_history_example :
  let c := {| with_xq := true |} in
  let s0 := init c [] [] true in
  let s1 := fst (step_line c s0 (S_ "7 C 192.0.2.1 4000 192.0.2.9 6667")) in
  let s2 := fst (step_line c s1 (S_ "7 ! timeout")) in
  armed s1 = [7%Z] /\ armed s2 = [] /\ map f_tout (reqs s2) = [true] /\ step_line c s2 (S_ "7 ! timeout") = (s2, []).
Proof. vm_compute. repeat split. Qed.

