(* a reload neither adds nor removes a request: the in-use figure and the set of live ids are those before it (C10 across reloads) *)
From Coq Require Import List NArith ZArith Bool.
Import ListNotations.
Require Import Params Iauth ReloadEq.

Theorem reload_keeps_the_requests c s svs rs t :
  map cid (reqs (fst (step_ev c s (Reload svs rs t)))) = map cid (reqs s) /\
  List.length (reqs (fst (step_ev c s (Reload svs rs t)))) = List.length (reqs s) /\
  snd (step_ev c s (Reload svs rs t)) = [].
Proof.
  cbn [step_ev fst snd reqs]. split; [apply map_cid_forget|]. split; [rewrite map_length; reflexivity|reflexivity].
Qed.
