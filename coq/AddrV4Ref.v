(* The reference parser (AddrRef.ref_pton, standing in for inet_pton) reads the dotted quad printed by ntop back as the
   IPv4-mapped form of the address. *)
From Coq Require Import List NArith Bool Strings.Byte Lia Arith.
Import ListNotations.
Require Import AddrFull AddrV4.
Require AddrRef.
Local Open Scope N_scope.

(* ---------- octet sweep over 0..255 ---------- *)
Definition chko (n : N) : bool := match AddrRef.octet (dec n) with Some q => q =? n | None => false end.
Lemma chko_all_ok : forallb chko (map N.of_nat (seq 0 256)) = true.
Proof. vm_compute. reflexivity. Qed.

Lemma octet_dec n : n < 256 -> AddrRef.octet (dec n) = Some n.
Proof.
  intros Hn. pose proof chko_all_ok as H. rewrite forallb_forall in H. specialize (H n (in_256 n Hn)).
  unfold chko in H. destruct (AddrRef.octet (dec n)) as [q|]; [|discriminate].
  apply N.eqb_eq in H. subst q. reflexivity.
Qed.

(* ---------- characters ---------- *)
Lemma digit_neq x c : isdigit x = true -> isdigit c = false -> Byte.eqb x c = false.
Proof.
  intros Hx Hc. destruct (Byte.eqb x c) eqn:E; [|reflexivity].
  apply Byte.byte_dec_bl in E. subst. congruence.
Qed.

Definition nochar (c : byte) (s : str) : Prop := Forall (fun x => Byte.eqb x c = false) s.

Lemma digits_nochar c s : isdigit c = false -> Forall (fun x => isdigit x = true) s -> nochar c s.
Proof. intros Hc F. eapply Forall_impl; [|exact F]. intros x Hx. apply digit_neq; assumption. Qed.

(* ---------- splitting ---------- *)
Lemma split_on_last c s : nochar c s -> AddrRef.split_on c s = [s].
Proof. induction 1 as [|x r Hx _ IH]; [reflexivity|]. cbn [AddrRef.split_on]. rewrite Hx, IH. reflexivity. Qed.

Lemma split_on_sep c s rest : nochar c s -> AddrRef.split_on c (s ++ c :: rest) = s :: AddrRef.split_on c rest.
Proof.
  induction 1 as [|x r Hx _ IH].
  - cbn [app AddrRef.split_on]. rewrite (Byte.byte_dec_lb (x:=c) (y:=c) eq_refl). reflexivity.
  - cbn [app AddrRef.split_on]. rewrite Hx, IH. reflexivity.
Qed.

Lemma has_nochar c s : nochar c s -> AddrRef.has c s = false.
Proof. induction 1 as [|x r Hx _ IH]; [reflexivity|]. cbn [AddrRef.has]. rewrite Hx, IH. reflexivity. Qed.

Lemma nochar_app c s t : nochar c s -> nochar c t -> nochar c (s ++ t).
Proof. intros. apply Forall_app. split; assumption. Qed.

(* ---------- the dotted quad ---------- *)
Lemma quad_ref a b c d : a < 256 -> b < 256 -> c < 256 -> d < 256 ->
  AddrRef.ref_pton (dec a ++ [dot] ++ dec b ++ [dot] ++ dec c ++ [dot] ++ dec d)
  = Some [0; 0; 0; 0; 0; 65535; 256 * a + b; 256 * c + d].
Proof.
  intros La Lb Lc Ld.
  destruct (dec_ok a La) as (Ea & _ & _). destruct (dec_ok b Lb) as (Eb & _ & _).
  destruct (dec_ok c Lc) as (Ec & _ & _). destruct (dec_ok d Ld) as (Ed & _ & _).
  pose proof (eatd_digits _ _ _ Ea) as Fa. pose proof (eatd_digits _ _ _ Eb) as Fb.
  pose proof (eatd_digits _ _ _ Ec) as Fc. pose proof (eatd_digits _ _ _ Ed) as Fd.
  assert (isdigit dot = false) as Ddot by reflexivity.
  assert (isdigit colon = false) as Dcol by reflexivity.
  change (dec a ++ [dot] ++ dec b ++ [dot] ++ dec c ++ [dot] ++ dec d)
    with (dec a ++ dot :: dec b ++ dot :: dec c ++ dot :: dec d).
  unfold AddrRef.ref_pton.
  assert (AddrRef.has AddrRef.colon (dec a ++ dot :: dec b ++ dot :: dec c ++ dot :: dec d) = false) as ->.
  { apply has_nochar. change AddrRef.colon with colon.
    repeat (apply nochar_app; [apply digits_nochar; assumption|]; constructor; [reflexivity|]).
    apply digits_nochar; assumption. }
  unfold AddrRef.quad. change AddrRef.dot with dot.
  rewrite (split_on_sep dot (dec a)) by (apply digits_nochar; assumption).
  rewrite (split_on_sep dot (dec b)) by (apply digits_nochar; assumption).
  rewrite (split_on_sep dot (dec c)) by (apply digits_nochar; assumption).
  rewrite (split_on_last dot (dec d)) by (apply digits_nochar; assumption).
  rewrite (octet_dec a La), (octet_dec b Lb), (octet_dec c Lc), (octet_dec d Ld).
  replace (a * 256 + b) with (256 * a + b) by lia. replace (c * 256 + d) with (256 * c + d) by lia.
  reflexivity.
Qed.

Theorem ntop_v4_ref gs : length gs = 8%nat -> Forall (fun x => x < 65536) gs -> is_ipv4 gs = true ->
  AddrRef.ref_pton (ntop gs) = Some (canon gs).
Proof.
  intros Hl Hs Hv. destruct (ntop_v4_text gs Hl Hs Hv) as (a & b & c & d & La & Lb & Lc & Ld & -> & ->).
  apply quad_ref; assumption.
Qed.
