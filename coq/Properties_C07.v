(* C07: concurrent clients do not interfere.  ONLY statements closed by `exact`, each followed by Print Assumptions.
   Histories without reloads.  Replies are abstract events "a reply for the live instance of id" (AReply), because the serial a
   concrete tag must carry depends on the interleaving; astep_is_step ties them to concrete X/x lines. *)
From Coq Require Import List NArith ZArith Bool Strings.Byte Strings.String.
Import ListNotations.
Require Import Params Iauth Mon01 Stray TagRT Local.
Local Open Scope list_scope.

(* the lines about client c (queries bearing its tag included), with the serial erased, are the same for any two histories
   that contain the same events of c in the same order - whatever other clients do in between *)
Theorem interleaving_invariance : forall cf c services rs t h1 h2,
  filter (abelongs c) h1 = filter (abelongs c) h2 ->
  map eser (proj c (aouts cf (init cf services rs t) h1)) = map eser (proj c (aouts cf (init cf services rs t) h2)).
Proof. exact interleave_invariant_from_init. Qed.
Print Assumptions interleaving_invariance.

(* locality on concrete lines: a line that does not belong to c neither touches c's request nor emits anything naming c *)
Theorem foreign_lines_are_invisible : forall cf s id argv c,
  belongs c (id, argv) = false ->
  lookup c (reqs (fst (step cf s id argv))) = lookup c (reqs s) /\ proj c (snd (step cf s id argv)) = [].
Proof. exact step_local. Qed.
Print Assumptions foreign_lines_are_invisible.

(* every concrete step is an abstract step, and every abstract step is the concrete step on the line carrying the current tag *)
Theorem step_is_astep : forall cf s id argv,
  step cf s id argv = match abstract s id argv with Some a => astep cf s a | None => (s, []) end.
Proof. exact step_abstract. Qed.
Print Assumptions step_is_astep.

Theorem astep_is_step : forall cf s a, SerB s -> id_ok a -> astep cf s a = step cf s (fst (concrete s a)) (snd (concrete s a)).
Proof. exact astep_concrete. Qed.
Print Assumptions astep_is_step.
