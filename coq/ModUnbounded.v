(* C20 without a bound on the number of modules: the run of the loader model satisfies the monitor for every dependency graph
   over module ids below n (any n), every listing. *)
From Coq Require Import List Arith Lia Bool.
Import ListNotations.
Require Import ModModel ModBase ModLoad ModDfs ModClose.

(* well-formed graph over ids below n: every declared dependency is an id below n *)
Definition wfg (n : nat) (g : graph) : Prop := forall m d, In d (g m) -> d < n.

Lemma run_eq n g listing : run n g listing =
  let s := load_all (S n) g listing s0 in
  let order := sort (present s) in
  let dp := fun m => assoc m (deps s) in
  match dfs_all dp (S n) order (Some ([], log s)) with
  | None => None
  | Some (_, lg) => Some (rev (close_all (S n) order (present s) (rdeps s) (deps s) lg))
  end.
Proof. reflexivity. Qed.

(* ---------- the property, as a Prop ---------- *)
Definition ok_log (g : graph) (listing : list mid) (lg : list ev) : Prop :=
  (forall m, Reach g listing m ->
     count (isCB m) lg = 1 /\ count (isCE m) lg = 1 /\ count (isPI m) lg = 1 /\ count (isDT m) lg = 1 /\
     precedes (CB m) (CE m) lg /\
     forall d, In d (g m) -> precedes (CE d) (CE m) lg /\ precedes (PI d) (PI m) lg /\ precedes (DT m) (DT d) lg) /\
  (forall m, ~ Reach g listing m ->
     count (isCB m) lg = 0 /\ count (isCE m) lg = 0 /\ count (isPI m) lg = 0 /\ count (isDT m) lg = 0) /\
  (exists l1 l2 l3, lg = l1 ++ l2 ++ l3 /\ Forall is_ctor l1 /\ Forall is_pi l2 /\ Forall is_dt l3).

Definition monitor' (g : graph) (listing : list mid) (r : option (list ev)) : Prop :=
  match r with
  | None => cyclic_reach g listing
  | Some lg => ~ cyclic_reach g listing /\ ok_log g listing lg
  end.

Ltac zc K := apply (count_Forall_zero K); [assumption | let e := fresh in let He := fresh in intros e He; destruct e; simpl in *; try contradiction; reflexivity].

Theorem run_meets_monitor : forall n g listing, wfg n g -> (forall m, In m listing -> m < n) ->
  monitor' g listing (run n g listing).
Proof.
  intros n g listing Hwf Hl. rewrite run_eq. cbv zeta.
  pose proof (load_phase n g Hwf listing Hl) as LP. cbv zeta in LP.
  set (s := load_all (S n) g listing s0) in *. clearbody s.
  destruct LP as (F1 & F2 & F3 & F4 & F5 & F6 & F7 & F8 & F9 & F10).
  set (dp := fun m => assoc m (deps s)).
  set (Q := fun x => In x (present s)).
  assert (dp_sub : forall x, incl (dp x) (g x)).
  { intros x. unfold dp. destruct (mem x (present s)) eqn:E.
    - apply mem_In in E. rewrite F7 by auto. apply incl_refl.
    - apply mem_nIn in E. rewrite F8 by auto. intros y []. }
  assert (dp_pres : forall x d, In d (dp x) -> In x (present s)).
  { intros x d. unfold dp. destruct (mem x (present s)) eqn:E.
    - apply mem_In in E. auto.
    - apply mem_nIn in E. rewrite F8 by auto. intros []. }
  assert (dp_lt : forall m d, In d (dp m) -> d < n). { intros m d H. apply dp_sub in H. eapply Hwf; eauto. }
  assert (Q_closed : forall m d, Q m -> In d (dp m) -> Q d). { unfold Q. intros m d Hm Hd. apply dp_sub in Hd. apply (F10 m d Hm Hd). }
  assert (Ho : forall x, In x (sort (present s)) -> x < n /\ Q x). { intros x Hx. apply (proj1 (In_sort x (present s))) in Hx. split; [auto|exact Hx]. }
  assert (H0 : forall x, count (isPI x) (log s) = 0). { intro x. zc is_ctor. }
  pose proof (postinit_phase n dp Q dp_lt Q_closed (sort (present s)) (log s) Ho H0) as PP.
  destruct (dfs_all dp (S n) (sort (present s)) (Some ([], log s))) as [[c lg]|].
  - (* success *)
    destruct PP as ((l2 & -> & Hl2) & PI1 & PI2 & PI3 & (rank & Hrank)).
    assert (PIp : forall x, In x (present s) -> count (isPI x) (l2 ++ log s) = 1). { intros x Hx. apply PI1. apply (proj2 (In_sort x (present s))); auto. }
    assert (rank_ok : forall x d, In x (present s) -> In d (g x) -> rank d < rank x).
    { intros x d Hx Hd. apply (Hrank x d (PIp x Hx)). unfold dp. rewrite F7; auto. }
    assert (Hdt0 : forall x, count (isDT x) (l2 ++ log s) = 0). { intro x. rewrite count_app. replace (count (isDT x) l2) with 0 by (symmetry; zc is_pi). zc is_ctor. }
    destruct (close_phase n g (present s) (sort (present s)) (deps s) rank (l2 ++ log s) F7 (fun x d Hx Hd => proj1 (F10 x d Hx Hd))
                rank_ok Hdt0 (fun x Hx => proj2 (In_sort x (present s)) Hx) (rdeps s) F1 (nodup_lt_length n _ F1 F3) F9)
      as (l3 & -> & Hl3 & DT1 & DT0 & DTo).
    assert (NoCyc : ~ cyclic_reach g listing).
    { intros [x [Hr Hp]]. apply F2 in Hr.
      assert (St : forall y z, star g y z -> In y (present s) -> rank z <= rank y /\ In z (present s)).
      { induction 1; intro Hy. auto. destruct (F10 x0 y Hy H) as [Hy' _]. specialize (rank_ok x0 y Hy H). destruct (IHstar Hy'). split; auto. lia. }
      inversion Hp as [a b c0 Hab Hbc Ea Ec]; subst. destruct (F10 x b Hr Hab) as [Hb _]. specialize (rank_ok x b Hr Hab). destruct (St b x Hbc Hb). lia. }
    simpl. split; auto.
    assert (Cz1 : forall x, count (isCB x) l2 = 0) by (intro x; zc is_pi).
    assert (Cz2 : forall x, count (isCE x) l2 = 0) by (intro x; zc is_pi).
    assert (Cz3 : forall x, count (isCB x) l3 = 0) by (intro x; zc is_dt).
    assert (Cz4 : forall x, count (isCE x) l3 = 0) by (intro x; zc is_dt).
    assert (Cz5 : forall x, count (isPI x) l3 = 0) by (intro x; zc is_dt).
    split; [|split].
    + intros m Hm. apply F2 in Hm. destruct (F4 m Hm) as (A1 & A2 & A3).
      split. rewrite count_rev, !count_app, Cz3, Cz1. auto.
      split. rewrite count_rev, !count_app, Cz4, Cz2. auto.
      split. rewrite count_rev, count_app, Cz5. rewrite PIp; auto.
      split. rewrite count_rev. apply DT1; auto.
      split. apply precedes_rev. apply precedes_app_l. apply precedes_app_l. auto.
      intros d Hd. destruct (F10 m d Hm Hd) as [Hdp Hce].
      split. apply precedes_rev. apply precedes_app_l. apply precedes_app_l. destruct Hce as [Hce|Hce]; auto.
        exfalso. apply NoCyc. exists m. split; auto. apply F2; auto.
      split. apply precedes_rev. apply precedes_app_l. apply PI3. apply (proj2 (In_sort m (present s))); auto. unfold dp. rewrite F7; auto.
      apply precedes_rev. apply DTo; auto.
    + intros m Hm. assert (Hn : ~ In m (present s)) by (intro; apply Hm; apply F2; auto). destruct (F5 m Hn) as [B1 B2].
      split. rewrite count_rev, !count_app, Cz3, Cz1. auto.
      split. rewrite count_rev, !count_app, Cz4, Cz2. auto.
      split. rewrite count_rev, count_app, Cz5. destruct (PI2 m) as [P1 P2]. destruct (count (isPI m) (l2 ++ log s)) eqn:C; auto.
        exfalso. apply Hn. apply P2. lia.
      rewrite count_rev. apply DT0; auto.
    + exists (rev (log s)), (rev l2), (rev l3). split. rewrite !rev_app_distr, app_assoc. reflexivity.
      split. apply Forall_rev; auto. split; apply Forall_rev; auto.
  - (* start-up aborted: there is a cycle among the loaded modules *)
    simpl. destruct PP as [x [Qx Px]]. exists x. split. apply F2; auto. eapply plus_mono; eauto.
Qed.

(* ---------- the named properties of C20, for every number of modules ---------- *)
Section Named.
  Variable n : nat.
  Variable g : graph.
  Variable listing : list mid.
  Hypothesis Hwf : wfg n g.
  Hypothesis Hl : forall m, In m listing -> m < n.

  (* a cycle among the reachable modules aborts start-up, and nothing else does *)
  Theorem cycle_aborts : cyclic_reach g listing -> run n g listing = None.
  Proof.
    intro C. pose proof (run_meets_monitor n g listing Hwf Hl) as M. destruct (run n g listing); auto. destruct M as [M _]. contradiction.
  Qed.
  Theorem abort_only_on_cycle : run n g listing = None -> cyclic_reach g listing.
  Proof. intro E. pose proof (run_meets_monitor n g listing Hwf Hl) as M. rewrite E in M. exact M. Qed.
  Theorem no_cycle_runs : ~ cyclic_reach g listing -> exists lg, run n g listing = Some lg /\ ok_log g listing lg.
  Proof.
    intro C. pose proof (run_meets_monitor n g listing Hwf Hl) as M. destruct (run n g listing) as [lg|].
    exists lg. destruct M; auto. contradiction.
  Qed.
  (* the same with acyclicity given by a rank function *)
  Theorem acyclic_runs : acyclic g -> exists lg, run n g listing = Some lg /\ ok_log g listing lg.
  Proof. intro A. apply no_cycle_runs. apply acyclic_not_cyclic_reach; auto. Qed.

  Section Success.
    Variable lg : list ev.
    Hypothesis Hrun : run n g listing = Some lg.

    Lemma run_ok : ~ cyclic_reach g listing /\ ok_log g listing lg.
    Proof. pose proof (run_meets_monitor n g listing Hwf Hl) as M. rewrite Hrun in M. exact M. Qed.

    Theorem ctor_once : forall m, Reach g listing m ->
      count (isCB m) lg = 1 /\ count (isCE m) lg = 1 /\ precedes (CB m) (CE m) lg.
    Proof. intros m Hm. destruct run_ok as [_ [A _]]. destruct (A m Hm) as (? & ? & ? & ? & ? & ?). auto. Qed.
    Theorem deps_ctor_end_before : forall m d, Reach g listing m -> In d (g m) -> precedes (CE d) (CE m) lg.
    Proof. intros m d Hm Hd. destruct run_ok as [_ [A _]]. destruct (A m Hm) as (? & ? & ? & ? & ? & B). apply (B d Hd). Qed.
    Theorem postinit_once : forall m, Reach g listing m -> count (isPI m) lg = 1.
    Proof. intros m Hm. destruct run_ok as [_ [A _]]. destruct (A m Hm) as (? & ? & ? & ? & ? & ?). auto. Qed.
    Theorem postinit_after_deps : forall m d, Reach g listing m -> In d (g m) -> precedes (PI d) (PI m) lg.
    Proof. intros m d Hm Hd. destruct run_ok as [_ [A _]]. destruct (A m Hm) as (? & ? & ? & ? & ? & B). apply (B d Hd). Qed.
    Theorem dtor_once : forall m, Reach g listing m -> count (isDT m) lg = 1.
    Proof. intros m Hm. destruct run_ok as [_ [A _]]. destruct (A m Hm) as (? & ? & ? & ? & ? & ?). auto. Qed.
    Theorem dtor_before_deps : forall m d, Reach g listing m -> In d (g m) -> precedes (DT m) (DT d) lg.
    Proof. intros m d Hm Hd. destruct run_ok as [_ [A _]]. destruct (A m Hm) as (? & ? & ? & ? & ? & B). apply (B d Hd). Qed.
    Theorem nothing_unreachable : forall m, ~ Reach g listing m ->
      count (isCB m) lg = 0 /\ count (isCE m) lg = 0 /\ count (isPI m) lg = 0 /\ count (isDT m) lg = 0.
    Proof. intros m Hm. destruct run_ok as [_ [_ [A _]]]. auto. Qed.
    (* all constructors, then all post-inits, then all destructors *)
    Theorem phases_in_order : exists l1 l2 l3, lg = l1 ++ l2 ++ l3 /\ Forall is_ctor l1 /\ Forall is_pi l2 /\ Forall is_dt l3.
    Proof. destruct run_ok as [_ [_ [_ A]]]. exact A. Qed.

    (* a successful run yields a rank function on the reachable modules: the two notions of acyclicity agree there *)
    Theorem success_gives_rank : exists rank : mid -> nat, forall m d, Reach g listing m -> In d (g m) -> rank d < rank m.
    Proof.
      exists (fun m => match index (isPI m) lg 0 with Some i => i | None => 0 end).
      intros m d Hm Hd. pose proof (postinit_after_deps m d Hm Hd) as P. pose proof (postinit_once m Hm) as C.
      pose proof (precedes_index (isPI d) (isPI m) (PI d) (PI m) lg P ltac:(apply isPI_true; auto) ltac:(apply isPI_true; auto) C) as B.
      destruct (index (isPI d) lg 0); [|discriminate]. destruct (index (isPI m) lg 0); [|discriminate].
      simpl in B. apply Nat.ltb_lt in B. exact B.
    Qed.
  End Success.

  Theorem no_cycle_iff_rank :
    ~ cyclic_reach g listing <-> exists rank : mid -> nat, forall m d, Reach g listing m -> In d (g m) -> rank d < rank m.
  Proof.
    split.
    - intro C. destruct (no_cycle_runs C) as (lg & E & _). exact (success_gives_rank lg E).
    - intros [rank Hr] [x [Hx Hp]].
      assert (St : forall y z, star g y z -> Reach g listing y -> rank z <= rank y /\ Reach g listing z).
      { induction 1; intro Hy. auto.
        assert (Hy' : Reach g listing y). { destruct Hy as [r [H1 H2]]. exists r. split; auto. eapply star_snoc; eauto. }
        specialize (Hr x0 y Hy H). destruct (IHstar Hy'). split; auto. lia. }
      inversion Hp as [a b c0 Hab Hbc Ea Ec]; subst.
      assert (Hb : Reach g listing b). { destruct Hx as [r [H1 H2]]. exists r. split; auto. eapply star_snoc; eauto. }
      specialize (Hr x b Hx Hab). destruct (St b x Hbc Hb). lia.
  Qed.
End Named.

(* ---------- the executable monitor itself: its reach / cyc_from with their fuel compute the Prop notions ---------- *)
Section Monitor.
  Variable n : nat.
  Variable g : graph.
  Hypothesis Hwf : wfg n g.
  Hypothesis Hnd : forall m, NoDup (g m).

  Lemma g_length m : length (g m) <= n.
  Proof. apply nodup_lt_length; auto. intros x Hx. eapply Hwf; eauto. Qed.

  Lemma reach_ok : forall fuel todo seen,
    (forall x, In x todo -> x < n) ->
    length todo + n * outside n seen <= fuel ->
    (forall x d, In x seen -> In d (g x) -> In d seen \/ In d todo) ->
    let R := reach fuel g todo seen in
    incl seen R /\ incl todo R /\ (forall x d, In x R -> In d (g x) -> In d R) /\
    (forall x, In x R -> In x seen \/ exists t, In t todo /\ star g t x).
  Proof.
    induction fuel as [|f IH]; intros todo seen Ht Hf Hc.
    - destruct todo; [|simpl in Hf; lia]. simpl. split. apply incl_refl. split. intros x []. split.
      intros x d Hx Hd. destruct (Hc x d Hx Hd) as [H|[]]; auto. auto.
    - destruct todo as [|m r].
      + simpl. split. apply incl_refl. split. intros x []. split.
        intros x d Hx Hd. destruct (Hc x d Hx Hd) as [H|[]]; auto. auto.
      + simpl. destruct (mem m seen) eqn:E.
        * apply mem_In in E.
          destruct (IH r seen) as (A & B & C & D).
          { intros x Hx; apply Ht; right; auto. }
          { simpl in Hf. lia. }
          { intros x d Hx Hd. destruct (Hc x d Hx Hd) as [H|[<-|H]]; auto. }
          split; auto. split. intros x [<-|Hx]; auto. split; auto.
          intros x Hx. destruct (D x Hx) as [H|[t [H1 H2]]]; auto. right. exists t. split; [right; auto|auto].
        * apply mem_nIn in E. assert (Hm : m < n) by (apply Ht; left; auto).
          destruct (IH (g m ++ r) (m :: seen)) as (A & B & C & D).
          { intros x Hx. apply in_app_iff in Hx. destruct Hx as [Hx|Hx]. eapply Hwf; eauto. apply Ht; right; auto. }
          { assert (O : outside n (m :: seen) < outside n seen).
            { apply outside_lt with (m := m); auto. intros x Hx; right; auto. left; auto. }
            pose proof (g_length m) as GL. rewrite app_length. simpl in Hf.
            assert (M : n * S (outside n (m :: seen)) <= n * outside n seen) by (apply Nat.mul_le_mono_l; lia).
            rewrite Nat.mul_succ_r in M. unfold mid in *. lia. }
          { intros x d [<-|Hx] Hd. right. apply in_app_iff; auto.
            destruct (Hc x d Hx Hd) as [H|[<-|H]]. left; right; auto. left; left; auto. right. apply in_app_iff; auto. }
          split. intros x Hx. apply A. right; auto.
          split. intros x [<-|Hx]. apply A. left; auto. apply B. apply in_app_iff; auto.
          split; auto.
          intros x Hx. destruct (D x Hx) as [[<-|H]|[t [H1 H2]]]; auto.
          -- right. exists m. split. left; auto. apply star_refl.
          -- apply in_app_iff in H1. destruct H1 as [H1|H1].
             ++ right. exists m. split. left; auto. eapply star_step; eauto.
             ++ right. exists t. split; [right; auto|auto].
  Qed.

  Lemma reach_Reach listing : (forall m, In m listing -> m < n) -> length listing <= n + 2 ->
    forall x, In x (reach (n * n + n + 2) g listing []) <-> Reach g listing x.
  Proof.
    intros Hl Hlen.
    assert (Hf : length listing + n * outside n [] <= n * n + n + 2).
    { pose proof (outside_le_n n []) as O. assert (n * outside n [] <= n * n) by (apply Nat.mul_le_mono_l; auto). lia. }
    assert (Hc : forall x d : mid, In x [] -> In d (g x) -> In d [] \/ In d listing) by (intros x d []).
    destruct (reach_ok (n * n + n + 2) listing [] Hl Hf Hc) as (A & B & C & D).
    intro x. split.
    - intro Hx. destruct (D x Hx) as [[]|[t [H1 H2]]]. exists t; auto.
    - intros [r [H1 H2]]. apply (star_closed g (fun y => In y (reach (n * n + n + 2) g listing [])) C r x H2). apply B; auto.
  Qed.

  Lemma cyc_from_complete : forall fuel path m, (exists z, In z path /\ star g m z) -> cyc_from fuel g path m = true.
  Proof.
    induction fuel as [|f IH]; intros path m [z [Hz Hs]]; simpl; auto.
    destruct (mem m path) eqn:E; auto. apply mem_nIn in E.
    inversion Hs; subst. contradiction.
    apply existsb_exists. exists y. split; auto. apply IH. exists z. split; auto. right; auto.
  Qed.
  Lemma cyc_from_cycle x : plus g x x -> cyc_from (S n) g [] x = true.
  Proof.
    intro P. inversion P as [a b c0 Hab Hbc Ea Ec]; subst. simpl.
    apply existsb_exists. exists b. split; auto. apply cyc_from_complete. exists x. split; auto. left; auto.
  Qed.

  Lemma cyc_from_sound : forall fuel path m, NoDup path -> (forall y, In y path -> y < n) -> m < n -> n < fuel + length path ->
    (forall y, In y path -> plus g y m) -> cyc_from fuel g path m = true -> exists z, star g m z /\ plus g z z.
  Proof.
    induction fuel as [|f IH]; intros path m Hnd' Hlt Hm Hf Hp Hc.
    - pose proof (nodup_lt_length n path Hnd' Hlt). unfold mid in *. lia.
    - simpl in Hc. destruct (mem m path) eqn:E.
      + apply mem_In in E. exists m. split. apply star_refl. auto.
      + apply mem_nIn in E. apply existsb_exists in Hc. destruct Hc as [d [Hd Hc]].
        destruct (IH (m :: path) d) as [z [Hz1 Hz2]]; auto.
        * constructor; auto.
        * intros y [<-|Hy]; auto.
        * eapply Hwf; eauto.
        * simpl. unfold mid in *. lia.
        * intros y [<-|Hy]. eapply plus_intro; eauto. apply star_refl. eapply plus_snoc; eauto.
        * exists z. split; auto. eapply star_step; eauto.
  Qed.

  Theorem run_monitor_true : forall listing, (forall m, In m listing -> m < n) -> length listing <= n + 2 ->
    monitor n g listing = true.
  Proof.
    intros listing Hl Hlen. unfold monitor.
    pose proof (reach_Reach listing Hl Hlen) as HR.
    set (R := reach (n * n + n + 2) g listing []) in *. clearbody R.
    assert (Cyc : existsb (cyc_from (S n) g []) R = true <-> cyclic_reach g listing).
    { rewrite existsb_exists. split.
      - intros [x [Hx Hc]]. apply HR in Hx.
        assert (Hxn : x < n). { destruct Hx as [r [H1 H2]]. apply (star_closed g (fun y => y < n) (fun a b _ H => Hwf a b H) r x H2). auto. }
        destruct (cyc_from_sound (S n) [] x) as [z [Hz1 Hz2]]; auto. constructor. intros y []. simpl; lia. intros y [].
        exists z. split; auto. destruct Hx as [r [H1 H2]]. exists r. split; auto. eapply star_trans; eauto.
      - intros [x [Hx Hp]]. exists x. split. apply HR; auto. apply cyc_from_cycle; auto. }
    pose proof (run_meets_monitor n g listing Hwf Hl) as M.
    destruct (run n g listing) as [lg|]; simpl in M.
    - destruct M as [NC (OK1 & OK2 & _)].
      assert (Ec : existsb (cyc_from (S n) g []) R = false).
      { destruct (existsb (cyc_from (S n) g []) R) eqn:E; auto. exfalso. apply NC. apply Cyc. auto. }
      rewrite Ec. simpl. apply andb_true_iff. split.
      + apply forallb_forall. intros m Hm. apply HR in Hm. destruct (OK1 m Hm) as (C1 & C2 & C3 & C4 & _ & Hd).
        rewrite C1, C2, C3, C4. simpl. apply forallb_forall. intros d Hdm. destruct (Hd d Hdm) as (P1 & P2 & P3).
        assert (Hdr : Reach g listing d). { destruct Hm as [r [H1 H2]]. exists r. split; auto. eapply star_snoc; eauto. }
        destruct (OK1 d Hdr) as (_ & _ & _ & D4 & _).
        rewrite (precedes_index (isCE d) (isCE m) (CE d) (CE m) lg P1) by (try apply isCE_true; auto).
        rewrite (precedes_index (isPI d) (isPI m) (PI d) (PI m) lg P2) by (try apply isPI_true; auto).
        rewrite (precedes_index (isDT m) (isDT d) (DT m) (DT d) lg P3) by (try apply isDT_true; auto).
        reflexivity.
      + apply forallb_forall. intros m _. destruct (mem m R) eqn:E; auto. simpl.
        apply mem_nIn in E. assert (Hn : ~ Reach g listing m) by (intro; apply E; apply HR; auto).
        destruct (OK2 m Hn) as (Z & _). rewrite Z. reflexivity.
    - apply Cyc. exact M.
  Qed.
End Monitor.

(* the length bound on the listing is about the monitor's own fuel for reach, not about the loader: *)
Example monitor_fuel_artifact : monitor 2 (fun _ => []) [0;0;0;0;0;0;0;0;0;1] = false /\
                                monitor' (fun _ => []) [0;0;0;0;0;0;0;0;0;1] (run 2 (fun _ => []) [0;0;0;0;0;0;0;0;0;1]).
Proof. split. vm_compute. reflexivity. apply run_meets_monitor. intros m d []. intros m H. simpl in H. intuition lia. Qed.
(* likewise NoDup (g m): with a dependency declared 20 times the monitor's reach runs out of fuel before it sees module 2 *)
Definition g_dup : graph := fun m => match m with 0 => repeat 1 20 ++ [2] | _ => [] end.
Example monitor_fuel_artifact_dup : monitor 3 g_dup [0] = false /\ monitor' g_dup [0] (run 3 g_dup [0]).
Proof.
  split. vm_compute. reflexivity. apply run_meets_monitor.
  - intros m d. destruct m as [|m]; simpl; [|intros []]. intro H. repeat (destruct H as [<-|H]; [lia|]). destruct H.
  - intros m [<-|[]]. lia.
Qed.
