(* Spike: the line tokenizer of iauth_read (strtol prefix, 16-slot argument vector, trailing ':' argument),
   composed with the Iauth.v step function (repaired dispatch, including the "-1 <cmd>" garbage notices). *)
From Coq Require Import List NArith ZArith Bool Strings.Byte Strings.String Lia.
Import ListNotations.
Require Import Iauth.
Local Open Scope string_scope.
Local Open Scope list_scope.
Local Open Scope Z_scope.

Definition nb (b : byte) : N := Byte.to_N b.
Definition isdigit (b : byte) : bool := ((48 <=? nb b) && (nb b <=? 57))%N.
Fixpoint cut_nul (s : str) : str := match s with [] => [] | c :: r => if (nb c =? 0)%N then [] else c :: cut_nul r end.

(* strtol(line, &sep, 10) followed by the (int) narrowing; returns id and the text at sep *)
Definition strtol10 (line : str) : Z * str := let '(v, rest) := strtol_long line in (to_int32 v, rest).

Fixpoint word (s : str) : str * str := match s with c :: r => if isspace c then ([], s) else let (a, b) := word r in (c :: a, b) | [] => ([], []) end.
Fixpoint toks (fuel : nat) (slots : nat) (s : str) : list str :=
  match fuel, slots with
  | S f, S k =>
    match skipws s with
    | [] => []
    | c :: r => if (nb c =? 58)%N then [r]
                else let (w, rest) := word (c :: r) in w :: (match rest with [] => [] | _ :: rest' => toks f k rest' end)
    end
  | _, _ => []
  end.

Definition garbage (c : byte) : list out := [ORaw (S_ "> :ircd sent garbage: -1 " ++ [c] ++ S_ " ...")].
Definition in_set (c : byte) (l : str) : bool := existsb (fun x => (nb x =? nb c)%N) l.

(* evbuffer_readln(EVBUFFER_EOL_CRLF): the line ends at LF; one CR directly before it is dropped *)
Fixpoint strip_cr (s : str) : str :=
  match s with [] => [] | [c] => if (nb c =? 13)%N then [] else [c] | c :: r => c :: strip_cr r end.

Definition step_line (c : cfg) (s : st) (raw0 : str) : st * list out :=
  let raw := strip_cr raw0 in
  let line := cut_nul raw in
  match line with
  | [] => (s, [])
  | _ =>
    let '(id, sep) := strtol10 line in
    let argv := toks (S (List.length sep)) 16 sep in
    match argv with
    | [] => (s, [])                                        (* D1: a line without a command is ignored *)
    | a0 :: _ =>
      let ch := cmdchar argv in
      if (id =? -1) && in_set ch (S_ "DdHTu") then (s, garbage ch)
      else if (id =? -1) && in_set ch (S_ "NPn") then (if Nat.ltb 1 (List.length argv) then (s, garbage ch) else (s, []))
      else if (id =? -1) && in_set ch (S_ "U") then (s, garbage ch)
      else if negb (id =? -1) && negb (in_set ch (S_ "C")) && (match lookup id (reqs s) with None => true | Some _ => false end) then (s, [])
      else step c s id argv
    end
  end.

(* events as the daemon sees them: raw input lines, and reloads placed between two lines *)
Inductive rev :=
| RLine (raw : str)
| RReload (services : list (str * str)) (newrules : list rule) (timeout_set : bool).

Definition step_rev (c : cfg) (s : st) (e : rev) : st * list out :=
  match e with
  | RLine raw => step_line c s raw
  | RReload svs rs t => step_ev c s (Reload svs rs t)
  end.

Definition run_revs (c : cfg) (s0 : st) (es : list rev) : list (list out * nat) :=
  snd (fold_left (fun acc e => let '(s, outs) := acc in let '(s', o) := step_rev c s e in (s', outs ++ [(o, List.length (reqs s'))])) es (s0, [])).
