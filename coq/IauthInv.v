(* The hold-accounting invariant on the full executable model (Iauth.v): every reachable table entry satisfies it,
   across steps and reloads; the gate decides exactly the ready requests. *)
From Coq Require Import List NArith ZArith Bool Strings.Byte Strings.String Lia.
Import ListNotations.
Require Import Iauth.
Local Open Scope string_scope.
Local Open Scope list_scope.
Local Open Scope Z_scope.

Definition Inv (r : req) : Prop :=
  holds r = (if ho r && negb (nonempty (acct r)) then 1 else 0) /\
  (f_tout r = false -> soft r = (if (refm r =? 0)%N then 0 else 1)).

Lemma setbit_nz a i : N.setbit a i <> 0%N.
Proof. intro H. assert (N.testbit (N.setbit a i) i = true) as T by apply N.setbit_eq. rewrite H, N.bits_0 in T. discriminate. Qed.

Ltac nz := repeat match goal with
  | |- context [(N.setbit ?a ?i =? 0)%N] => rewrite (proj2 (N.eqb_neq (N.setbit a i) 0%N) (setbit_nz a i))
  | H : context [(N.setbit ?a ?i =? 0)%N] |- _ => rewrite (proj2 (N.eqb_neq (N.setbit a i) 0%N) (setbit_nz a i)) in H
  end.

Lemma queried_inv r slot : Inv r -> Inv (queried r slot).
Proof.
  intros [H1 H2]. unfold queried. split; cbn [holds ho acct soft refm f_tout]; [exact H1|].
  intros Ht. specialize (H2 Ht). nz. destruct (refm r =? 0)%N; lia.
Qed.

Lemma continued_inv r slot : Inv r -> Inv (continued r slot).
Proof.
  intros [H1 H2]. unfold continued. split; cbn [holds ho acct soft refm f_tout]; [exact H1|].
  intros Ht. specialize (H2 Ht). nz. destruct (refm r =? 0)%N; lia.
Qed.

Lemma qpass_inv ss : forall slot ispw r outs efs, Inv r -> Inv (fst (fst (qpass ss slot ispw r outs efs))).
Proof.
  induction ss as [|[sv|] rest IH]; intros slot ispw r outs efs HI; cbn [qpass]; [exact HI| |apply IH; exact HI].
  match goal with |- context [if ?c then _ else _] => destruct c end; [apply IH; exact HI|].
  apply IH. apply queried_inv. exact HI.
Qed.

Lemma cont_inv ss : forall slot t r outs efs, Inv r -> Inv (fst (fst (cont ss slot t r outs efs))).
Proof.
  induction ss as [|[sv|] rest IH]; intros slot t r outs efs HI; cbn [cont]; [exact HI| |apply IH; exact HI].
  match goal with |- context [if ?c then _ else _] => destruct c end; [|apply IH; exact HI].
  apply IH. apply continued_inv. exact HI.
Qed.

Lemma gate_inv c tb r : Inv r -> match fst (gate c tb r) with Some r' => Inv r' | None => True end.
Proof.
  intros HI. unfold gate.
  destruct ((holds r =? 0) && complete c r); [|exact HI].
  destruct ((soft r =? 0) || f_tout r).
  - destruct (classify (slots tb) (rules tb) r). exact I.
  - destruct (negb (f_sdone r)); [|exact HI]. exact HI.
Qed.

Lemma find_slot_bit ss : forall slot name mask s t, find_slot ss slot name mask = Some (s, t) -> N.testbit mask s = true.
Proof.
  induction ss as [|[sv|] rest IH]; intros slot name mask s t H; cbn [find_slot] in H; [discriminate| |eapply IH; eauto].
  destruct (N.testbit mask slot && seq_eq (s_name sv) name) eqn:E.
  - inversion H; subst. apply andb_true_iff in E. tauto.
  - eapply IH; eauto.
Qed.

(* release of an awaited slot, optionally vouching an account *)
Lemma release_inv r slot mr ok na h :
  N.testbit (refm r) slot = true -> Inv r ->
  (match na with
   | None => h = holds r
   | Some a => nonempty a = true /\ h = (if ho r && negb (nonempty (acct r)) then holds r - 1 else holds r)
   end) ->
  Inv (release r slot mr ok na h).
Proof.
  intros Hb [H1 H2] Hh. unfold release, Inv; cbn [holds ho acct soft refm f_tout].
  assert ((refm r =? 0)%N = false) as E.
  { apply N.eqb_neq. intro Z. rewrite Z, N.bits_0 in Hb. discriminate. }
  split.
  - destruct na as [a|]; [destruct Hh as [Ha Hh]; rewrite Ha; subst h; rewrite andb_false_r; destruct (ho r && negb (nonempty (acct r))); lia | subst h; exact H1].
  - intros Ht. specialize (H2 Ht). rewrite E in H2. destruct (N.clearbit (refm r) slot =? 0)%N; lia.
Qed.

Lemma nonempty_firstn_acct a : nonempty a = true -> nonempty (firstn acct_len a) = true.
Proof. destruct a; [discriminate|reflexivity]. Qed.

(* the local helper `fin` of reply *)
Lemma fin_inv c tb r1 (pre : list out) (e : list eff) : Inv r1 ->
  match fst (fst (let '(r', g) := gate c tb r1 in (r', pre ++ g, e))) with Some r' => Inv r' | None => True end.
Proof. intros HI. pose proof (gate_inv c tb r1 HI) as G. destruct (gate c tb r1) as [r' g]. exact G. Qed.

Lemma reply_inv c tb r svcn tx : Inv r -> match fst (fst (reply c tb r svcn tx)) with Some r' => Inv r' | None => True end.
Proof.
  intros HI. unfold reply.
  destruct (find_slot (slots tb) 0 svcn (refm r)) as [[slot t]|] eqn:Ef; [|exact HI].
  pose proof (find_slot_bit _ _ _ _ _ _ Ef) as Hb.
  assert (forall mr ok, Inv (release r slot mr ok None (holds r))) as R0 by (intros; apply release_inv; auto).
  cbv beta zeta.
  destruct tx as [tx|].
  - destruct (seq_eq tx (S_ "OK")); [apply fin_inv, R0|].
    destruct (prefix (S_ "OK ") tx).
    + destruct (negb (nonempty (upto sp (skipn 3 tx))) || is_drone t) eqn:Ea; [apply fin_inv, R0|].
      apply orb_false_iff in Ea as [Ea _]. apply negb_false_iff in Ea.
      apply fin_inv. apply release_inv; auto. split; [apply nonempty_firstn_acct; exact Ea|reflexivity].
    + destruct (prefix (S_ "NO ") tx); [exact I|].
      destruct (prefix (S_ "AGAIN ") tx); [apply fin_inv, R0|].
      destruct (prefix (S_ "MORE ") tx); [|exact HI].
      apply fin_inv, R0.
  - apply fin_inv, R0.
Qed.

Lemma password_inv tb r t : Inv r -> Inv (fst (fst (password tb r t))).
Proof.
  intros HI. unfold password.
  destruct ((more r =? 0)%N || negb (nonempty (pw r))); [|apply cont_inv; exact HI].
  destruct (negb (starts t x2b || starts t x2d)); [exact HI|].
  destruct (modes _ _ _ _ _ _ _) as [[[[[rest0 sx] cx] sb] cb]|]; [|exact HI].
  cbv zeta.
  destruct (negb (has sp (skipsp rest0))); [exact HI|].
  apply qpass_inv. destruct HI as [H1 H2]. unfold with_pw, Inv; cbn [holds ho acct soft refm f_tout]. split; [|exact H2].
  destruct sb, cb, (ho r), (nonempty (acct r)); cbn [andb negb] in *; lia.
Qed.

(* ---------- table level ---------- *)
Definition TInv (s : st) : Prop := Forall Inv (reqs s).

Lemma remove_inv id l : Forall Inv l -> Forall Inv (remove id l).
Proof. induction 1 as [|r t Hr Ht IH]; cbn [remove]; [constructor|]. destruct (cid r =? id); [exact Ht|constructor; assumption]. Qed.
Lemma put_inv r l : Inv r -> Forall Inv l -> Forall Inv (put r l).
Proof.
  intros Hr. induction 1 as [|x t Hx Ht IH]; cbn [put]; [constructor; [assumption|constructor]|].
  destruct (cid x =? cid r); constructor; assumption.
Qed.
Lemma lookup_inv id l r : Forall Inv l -> lookup id l = Some r -> Inv r.
Proof. induction 1 as [|x t Hx Ht IH]; cbn [lookup]; [discriminate|]. destruct (cid x =? id); [intros E; inversion E; subst; exact Hx|exact IH]. Qed.

Lemma finish_inv s id res : TInv s -> match fst (fst res) with Some r' => Inv r' | None => True end -> TInv (fst (finish s id res)).
Proof.
  intros HT Hr. unfold finish, TInv in *. destruct res as [[ro outs] efs]. cbn [fst] in Hr. destruct ro as [r'|]; cbn [fst reqs].
  - apply put_inv; assumption.
  - apply remove_inv; assumption.
Qed.

Lemma after_inv c tb r ispw : Inv r -> match fst (fst (after c tb r ispw)) with Some r' => Inv r' | None => True end.
Proof.
  intros HI. unfold after.
  pose proof (qpass_inv (slots tb) 0%N ispw r [] [] HI) as Q. destruct (qpass (slots tb) 0%N ispw r [] []) as [[r1 o] efs]. cbn [fst] in Q.
  pose proof (gate_inv c tb r1 Q) as G. destruct (gate c tb r1) as [r2 g]. exact G.
Qed.

Lemma gate3_inv c tb r (e : list eff) : Inv r ->
  match fst (fst (let '(r2, g) := gate c tb r in (r2, g, e))) with Some r' => Inv r' | None => True end.
Proof. intros HI. pose proof (gate_inv c tb r HI) as G. destruct (gate c tb r) as [r2 g]. exact G. Qed.

Lemma set_flags_inv r a b c d e : Inv r -> Inv (set_flags r a b c d e).
Proof. intros H; exact H. Qed.
Lemma with_fields_inv r h cu au ni re em : Inv r -> Inv (with_fields r h cu au ni re em).
Proof. intros H; exact H. Qed.
Lemma fresh_inv id sn a g p tm : Inv (fresh id sn a g p tm).
Proof. split; reflexivity. Qed.
Lemma timed_out_inv r : Inv r -> Inv (timed_out r).
Proof. intros [H1 H2]. split; cbn [timed_out holds ho acct soft refm f_tout]; [exact H1|discriminate]. Qed.

Theorem step_inv c s id argv : TInv s -> TInv (fst (step c s id argv)).
Proof.
  intros HT. unfold step. cbv zeta.
  destruct (beq (cmdchar argv) x43).
  { destruct (arg 1 argv) as [a|], (arg 2 argv), (arg 3 argv), (arg 4 argv); try exact HT.
    destruct (announce_addr a) as [g txt].
    unfold TInv; cbn [fst reqs]. apply put_inv; [apply fresh_inv|exact HT]. }
  destruct (beq (cmdchar argv) x58 || beq (cmdchar argv) x78).
  { destruct (negb (with_xq c)); [exact HT|].
    destruct (arg 1 argv) as [svcn|]; [|exact HT]. destruct (arg 2 argv) as [tg|]; [|exact HT]. destruct (arg 3 argv) as [tx|]; [|exact HT].
    destruct (parse_tag tg) as [[tid tser]|]; [|exact HT].
    destruct (lookup tid (reqs s)) as [r|] eqn:El; [|exact HT].
    destruct (ser r =? tser)%N; [|exact HT].
    apply finish_inv; [exact HT|]. apply reply_inv. eapply lookup_inv; eauto. }
  destruct (lookup id (reqs s)) as [r|] eqn:El; [|exact HT].
  pose proof (lookup_inv _ _ _ HT El) as HI.
  assert (forall r1, Inv r1 ->
    TInv (fst (finish s id (if with_xq c then after c (tb s) r1 false else let '(r2, g) := gate c (tb s) r1 in (r2, g, []))))) as Aft.
  { intros r1 H1. apply finish_inv; [exact HT|]. destruct (with_xq c); [apply after_inv; exact H1|apply gate3_inv; exact H1]. }
  destruct (beq (cmdchar argv) x44 || beq (cmdchar argv) x54).
  { unfold TInv; cbn [fst reqs]. apply remove_inv; exact HT. }
  destruct (beq (cmdchar argv) x21).
  { match goal with |- context [if ?b then _ else _] => destruct b end; [|exact HT].
    pose proof (gate_inv c (tb s) (timed_out r) (timed_out_inv r HI)) as G. destruct (gate c (tb s) (timed_out r)) as [r2 g].
    apply finish_inv; [exact HT|exact G]. }
  destruct (beq (cmdchar argv) x4e).
  { destruct (arg 1 argv); [|exact HT]. destruct (nonempty (host r)); [exact HT|].
    apply Aft, set_flags_inv, with_fields_inv, HI. }
  destruct (beq (cmdchar argv) x64).
  { apply Aft, set_flags_inv, HI. }
  destruct (beq (cmdchar argv) x75).
  { destruct (arg 1 argv).
    - apply Aft, set_flags_inv, with_fields_inv, HI.
    - destruct (nonempty (cliu r)); apply Aft; [apply set_flags_inv|apply with_fields_inv]; exact HI. }
  destruct (beq (cmdchar argv) x6e).
  { destruct (arg 1 argv); [|exact HT]. apply Aft, set_flags_inv, with_fields_inv, HI. }
  destruct (beq (cmdchar argv) x55).
  { destruct (arg 1 argv); [|exact HT]. destruct (arg 2 argv); [|exact HT].
    apply Aft, set_flags_inv, with_fields_inv, HI. }
  destruct (beq (cmdchar argv) x48).
  { destruct (with_xq c) eqn:Ex; [specialize (Aft (set_flags r true true true true (f_pass r)))|specialize (Aft (set_flags r true (f_ident r) (f_nick r) (f_user r) (f_pass r)))];
      rewrite ?Ex in Aft; apply Aft, set_flags_inv, HI. }
  destruct (beq (cmdchar argv) x50); [|exact HT].
  destruct (arg 1 argv) as [t|]; [|exact HT].
  pose proof (set_flags_inv r (f_host r) (f_ident r) (f_nick r) (f_user r) true HI) as HI0.
  destruct (with_xq c).
  - pose proof (password_inv (tb s) _ t HI0) as P.
    destruct (password (tb s) _ t) as [[r1 o] efs]. cbn [fst] in P.
    pose proof (gate_inv c (tb s) r1 P) as G. destruct (gate c (tb s) r1) as [r2 g].
    apply finish_inv; [exact HT|exact G].
  - pose proof (gate_inv c (tb s) _ HI0) as G. destruct (gate c (tb s) _) as [r2 g].
    apply finish_inv; [exact HT|exact G].
Qed.

(* forgetting refilled slots touches sent / more / okm only: the invariant speaks of holds, soft, refm, ho, acct, f_tout *)
Lemma forget_inv idx r : Inv r -> Inv (forget idx r).
Proof. intros H; exact H. Qed.

Theorem step_ev_inv c s e : TInv s -> TInv (fst (step_ev c s e)).
Proof.
  intros HT. destruct e as [id argv|svs rs t]; cbn [step_ev].
  - apply step_inv; exact HT.
  - unfold TInv in *. cbn [fst reqs]. apply Forall_forall. intros r' Hr. apply in_map_iff in Hr as (r & <- & Hr).
    apply forget_inv. exact (proj1 (Forall_forall _ _) HT r Hr).
Qed.

Theorem run_inv c s0 evs : TInv s0 -> TInv (fold_left (fun s e => fst (step_ev c s e)) evs s0).
Proof.
  revert s0. induction evs as [|e evs IH]; intros s0 H0; cbn [fold_left]; [exact H0|].
  apply IH. apply step_ev_inv. exact H0.
Qed.

Lemma init_inv c services rs t : TInv (init c services rs t).
Proof. constructor. Qed.

Corollary run_inv_init c services rs t evs : TInv (fold_left (fun s e => fst (step_ev c s e)) evs (init c services rs t)).
Proof. apply run_inv, init_inv. Qed.

(* the same statement for the state component threaded by run_out's fold *)
Corollary run_out_inv c s0 evs : TInv s0 ->
  TInv (fst (fold_left (fun acc e => let '(s, outs) := acc in let '(s', o) := step_ev c s e in (s', outs ++ [o])) evs (s0, @nil (list out)))).
Proof.
  assert (forall acc, TInv (fst acc) ->
    TInv (fst (fold_left (fun acc e => let '(s, outs) := acc in let '(s', o) := step_ev c s e in (s', outs ++ [o])) evs acc))) as G.
  { induction evs as [|e evs IH]; intros [s outs] Hs; cbn [fold_left]; [exact Hs|].
    apply IH. pose proof (step_ev_inv c s e Hs) as P. destruct (step_ev c s e). exact P. }
  intros H0. apply G. exact H0.
Qed.

(* ---------- the gate against the spec's notion of readiness (C02 / C03 on the full model) ---------- *)
Definition ready (c : cfg) (r : req) : bool :=
  complete c r && negb (ho r && negb (nonempty (acct r))) && ((refm r =? 0)%N || f_tout r).

Lemma gate_sound c tb r : Inv r -> fst (gate c tb r) = None -> ready c r = true.
Proof.
  intros [H1 H2]. unfold gate, ready.
  destruct (complete c r); rewrite ?andb_false_r; cbn [andb]; [|discriminate].
  destruct (holds r =? 0) eqn:Eh; cbn [andb]; [|discriminate].
  apply Z.eqb_eq in Eh.
  destruct (ho r && negb (nonempty (acct r))) eqn:Ehard; [lia|]. cbn [negb andb].
  destruct (f_tout r) eqn:Et; [intros _; apply orb_true_r|].
  specialize (H2 eq_refl). rewrite orb_false_r.
  destruct (soft r =? 0) eqn:Es.
  - intros _. apply Z.eqb_eq in Es. destruct (refm r =? 0)%N; [reflexivity|lia].
  - cbn [orb]. destruct (negb (f_sdone r)); discriminate.
Qed.

Lemma complete_upd_hold c r h s sd : complete c (upd_hold r h s sd) = complete c r.
Proof. reflexivity. Qed.

Lemma gate_not_stuck c tb r : Inv r -> match fst (gate c tb r) with Some r' => ready c r' = false | None => True end.
Proof.
  intros [H1 H2]. unfold gate.
  destruct ((holds r =? 0) && complete c r) eqn:Eg.
  - destruct ((soft r =? 0) || f_tout r) eqn:Es.
    + destruct (classify (slots tb) (rules tb) r). exact I.
    + apply orb_false_iff in Es as [Es Et]. specialize (H2 Et). apply Z.eqb_neq in Es.
      assert ((refm r =? 0)%N = false) as Er by (destruct (refm r =? 0)%N; [lia|reflexivity]).
      destruct (negb (f_sdone r)); cbn [fst]; unfold ready; rewrite ?complete_upd_hold; unfold upd_hold; cbn [ho acct refm f_tout]; rewrite Er, Et; rewrite ?andb_false_r; reflexivity.
  - cbn [fst]. unfold ready.
    destruct (complete c r); rewrite ?andb_false_r in *; cbn [andb] in *; try reflexivity.
    destruct (holds r =? 0) eqn:Eh; [discriminate|]. apply Z.eqb_neq in Eh.
    destruct (ho r && negb (nonempty (acct r))); [reflexivity|lia].
Qed.

