(* Phase 1: module_load / module_depends / the loading loop of module_load_list, for an arbitrary number of modules and ANY
   dependency graph (cyclic or not).  Fuel: every recursive call inserts a new module in the table first, so the depth is bounded by the
   number of absent modules. *)
From Coq Require Import List Arith Lia Bool.
Import ListNotations.
Require Import ModModel ModBase.

(* the loop body of a constructor: one module_depends argument *)
Definition load_step (f : nat) (g : graph) (m : mid) (st : mst) (d : mid) : mst :=
  let st' := if mem d (present st) then st else load f g d st in
  {| present := present st'; deps := upd m (fun l => l ++ [d]) (deps st');
     rdeps := upd d (fun l => l ++ [m]) (rdeps st'); log := log st' |}.

Lemma load_S f g m s : load (S f) g m s =
  if mem m (present s) then s else
  let s2 := fold_left (load_step f g m) (g m)
              {| present := m :: present s; deps := deps s; rdeps := rdeps s; log := CB m :: log s |} in
  {| present := present s2; deps := deps s2; rdeps := rdeps s2; log := CE m :: log s2 |}.
Proof. reflexivity. Qed.

Definition s0 : mst := {| present := []; deps := []; rdeps := []; log := [] |}.
Definition load_all (fuel : nat) (g : graph) (listing : list mid) (s : mst) : mst :=
  fold_left (fun st m => load fuel g m st) listing s.

Section Load.
  Variable n : nat.
  Variable g : graph.
  Hypothesis g_lt : forall m d, In d (g m) -> d < n.

  (* holds at every point of the loading phase *)
  Record GInv (s : mst) : Prop := {
    gi_nodup : NoDup (present s);
    gi_lt : forall x, In x (present s) -> x < n;
    gi_cb1 : forall x, In x (present s) -> count (isCB x) (log s) = 1;
    gi_cb0 : forall x, ~ In x (present s) -> count (isCB x) (log s) = 0;
    gi_ce : forall x, count (isCE x) (log s) <= 1;
    gi_ce_pres : forall x, In (CE x) (log s) -> In x (present s);
    gi_cecb : forall x, In (CE x) (log s) -> precedes (CE x) (CB x) (log s);
    gi_only : Forall is_ctor (log s);
    gi_deps_done : forall x, In (CE x) (log s) -> assoc x (deps s) = g x;
    gi_deps_abs : forall x, ~ In x (present s) -> assoc x (deps s) = [];
    gi_rdeps : forall d x, In x (assoc d (rdeps s)) <-> In d (assoc x (deps s));
    gi_closed : forall x d, In (CE x) (log s) -> In d (g x) -> In d (present s);
    gi_ord : forall x d, In (CE x) (log s) -> In d (g x) -> precedes (CE x) (CE d) (log s) \/ plus g x x }.

  (* effect of loading the absent module m *)
  Record LPost (m : mid) (s s' : mst) : Prop := {
    lp_inv : GInv s';
    lp_incl : incl (present s) (present s');
    lp_m : In (CE m) (log s');
    lp_new : forall x, In x (present s') -> In x (present s) \/ (star g m x /\ In (CE x) (log s'));
    lp_log : exists l, log s' = l ++ log s /\ forall x, In (CE x) l -> ~ In x (present s);
    lp_deps : forall x, In x (present s) -> assoc x (deps s') = assoc x (deps s) }.

  (* inside the constructor of m, after the dependencies pre have been declared *)
  Record LInv (m : mid) (s : mst) (pre : list mid) (st : mst) : Prop := {
    li_inv : GInv st;
    li_incl : incl (m :: present s) (present st);
    li_nce : ~ In (CE m) (log st);
    li_depm : assoc m (deps st) = pre;
    li_pre : forall d, In d pre -> In d (present st) /\ (In (CE d) (log st) \/ plus g m m);
    li_new : forall x, In x (present st) -> In x (m :: present s) \/ (star g m x /\ In (CE x) (log st));
    li_log : exists l, log st = l ++ CB m :: log s /\ forall x, In (CE x) l -> ~ In x (m :: present s);
    li_deps : forall x, In x (present s) -> assoc x (deps st) = assoc x (deps s) }.

  Definition inprog_reach (m : mid) (s : mst) : Prop :=
    forall x, In x (present s) -> ~ In (CE x) (log s) -> star g x m.

  Lemma LInv_inprog m s pre st : inprog_reach m s -> LInv m s pre st -> inprog_reach m st.
  Proof.
    intros Hs L x Hx Hn. destruct (li_new _ _ _ _ L x Hx) as [[<-|H]|[_ H]].
    - apply star_refl.
    - apply Hs; auto. intro Hc. apply Hn. destruct (li_log _ _ _ _ L) as (l & -> & _).
      rewrite in_app_iff. right. right. auto.
    - contradiction.
  Qed.

  Lemma step_ok f
    (IH : forall (m : mid) s, GInv s -> m < n -> ~ In m (present s) -> outside n (present s) < f -> inprog_reach m s -> LPost m s (load f g m s))
    m s pre st d :
    ~ In m (present s) -> inprog_reach m s -> LInv m s pre st -> In d (g m) -> outside n (present st) < f ->
    LInv m s (pre ++ [d]) (load_step f g m st d) /\ outside n (present (load_step f g m st d)) <= outside n (present st).
  Proof.
    intros Hms Hs L Hd Hf.
    assert (IP := LInv_inprog m s pre st Hs L).
    assert (Hmst : In m (present st)) by (apply (li_incl _ _ _ _ L); left; auto).
    (* the state after making d available *)
    assert (MS : exists st', st' = (if mem d (present st) then st else load f g d st) /\
       GInv st' /\ incl (present st) (present st') /\ In d (present st') /\ (In (CE d) (log st') \/ plus g m m) /\
       (forall x, In x (present st') -> In x (present st) \/ (star g d x /\ In (CE x) (log st'))) /\
       (exists l, log st' = l ++ log st /\ forall x, In (CE x) l -> ~ In x (present st)) /\
       (forall x, In x (present st) -> assoc x (deps st') = assoc x (deps st))).
    { eexists. split. reflexivity. destruct (mem d (present st)) eqn:E.
      - apply mem_In in E. split. apply (li_inv _ _ _ _ L). split. apply incl_refl. split; auto.
        split.
        + destruct (count (isCE d) (log st)) eqn:C.
          * right. eapply plus_intro. exact Hd. apply IP; auto. rewrite In_CE. lia.
          * left. apply In_CE. lia.
        + split. auto. split. exists []. split; [reflexivity|intros x []]. auto.
      - apply mem_nIn in E.
        assert (P : LPost d st (load f g d st)).
        { apply IH; auto. apply (li_inv _ _ _ _ L). eapply g_lt; eauto.
          intros x Hx Hn. eapply star_snoc. apply IP; auto. auto. }
        destruct P as [P1 P2 P3 P4 P5 P6]. split; auto. split; auto. split. apply (gi_ce_pres _ P1); auto. split; auto. }
    destruct MS as (st' & Est & G' & Hinc & Hdp & Hdce & Hnew & (l' & Hlog & Hl') & Hdeps).
    unfold load_step. rewrite <- Est. clear Est.
    assert (Hnce : ~ In (CE m) (log st')).
    { rewrite Hlog. rewrite in_app_iff. intros [H|H]. apply (Hl' m H); auto. apply (li_nce _ _ _ _ L); auto. }
    assert (Hmst' : In m (present st')) by auto.
    split; [|simpl; apply outside_le; auto].
    destruct G' as [G1 G2 G3 G4 G5 G6 G7 G8 G9 G10 G11 G12 G13].
    split; simpl.
    - split; simpl; auto.
      + intros x Hx. rewrite assoc_upd. destruct (Nat.eqb m x) eqn:E; auto. apply Nat.eqb_eq in E. subst x. contradiction.
      + intros x Hx. rewrite assoc_upd. destruct (Nat.eqb m x) eqn:E; auto. apply Nat.eqb_eq in E. subst x. contradiction.
      + intros d0 x. rewrite !assoc_upd. destruct (Nat.eqb d d0) eqn:E1; destruct (Nat.eqb m x) eqn:E2;
          try (apply Nat.eqb_eq in E1; subst d0); try (apply Nat.eqb_eq in E2; subst x);
          try (apply Nat.eqb_neq in E1); try (apply Nat.eqb_neq in E2); rewrite ?in_app_iff; simpl; rewrite G11; intuition congruence.
    - intros x Hx. apply Hinc. apply (li_incl _ _ _ _ L); auto.
    - exact Hnce.
    - rewrite assoc_upd, Nat.eqb_refl. rewrite Hdeps by auto. rewrite (li_depm _ _ _ _ L). reflexivity.
    - intros d0 H0. apply in_app_iff in H0. destruct H0 as [H0|[<-|[]]].
      + destruct (li_pre _ _ _ _ L d0 H0) as [A [B|B]]; split; auto. left. rewrite Hlog. apply in_app_iff; auto.
      + split; auto.
    - intros x Hx. destruct (Hnew x Hx) as [H|[H1 H2]].
      + destruct (li_new _ _ _ _ L x H) as [A|[A B]]; auto. right. split; auto. rewrite Hlog. apply in_app_iff; auto.
      + right. split; auto. eapply star_step; eauto.
    - destruct (li_log _ _ _ _ L) as (l & El & Hl). exists (l' ++ l). split. rewrite Hlog, El, app_assoc. reflexivity.
      intros x Hx. apply in_app_iff in Hx. destruct Hx as [Hx|Hx]; [|exact (Hl x Hx)]. intro Hc. apply (Hl' x Hx). apply (li_incl _ _ _ _ L); auto.
    - intros x Hx. rewrite assoc_upd. destruct (Nat.eqb m x) eqn:E.
      + apply Nat.eqb_eq in E. subst x. contradiction.
      + rewrite Hdeps. apply (li_deps _ _ _ _ L); auto. apply (li_incl _ _ _ _ L). right; auto.
  Qed.

  Lemma loop_ok f
    (IH : forall (m : mid) s, GInv s -> m < n -> ~ In m (present s) -> outside n (present s) < f -> inprog_reach m s -> LPost m s (load f g m s))
    m s : ~ In m (present s) -> inprog_reach m s ->
    forall ds pre st, incl ds (g m) -> LInv m s pre st -> outside n (present st) < f ->
      LInv m s (pre ++ ds) (fold_left (load_step f g m) ds st).
  Proof.
    intros Hms Hs. induction ds as [|d r IHr]; intros pre st Hi L Hf.
    - simpl. rewrite app_nil_r. auto.
    - simpl. destruct (step_ok f IH m s pre st d Hms Hs L ltac:(apply Hi; left; auto) Hf) as [L' Ho].
      replace (pre ++ d :: r) with ((pre ++ [d]) ++ r) by (rewrite <- app_assoc; reflexivity).
      apply IHr; auto. intros x Hx; apply Hi; right; auto. lia.
  Qed.

  Lemma load_ok : forall f (m : mid) s, GInv s -> m < n -> ~ In m (present s) -> outside n (present s) < f -> inprog_reach m s ->
    LPost m s (load f g m s).
  Proof.
    induction f as [|f IHf]; intros m s G Hm Hms Hf Hs. lia.
    rewrite load_S. assert (E : mem m (present s) = false) by (apply mem_nIn; auto). rewrite E.
    set (s1 := {| present := m :: present s; deps := deps s; rdeps := rdeps s; log := CB m :: log s |}).
    assert (L1 : LInv m s [] s1).
    { destruct G as [G1 G2 G3 G4 G5 G6 G7 G8 G9 G10 G11 G12 G13]. split; simpl.
      - split; simpl; auto.
        + constructor; auto.
        + intros x [<-|Hx]; auto.
        + intros x Hx. rewrite count_cons. simpl. destruct (Nat.eqb m x) eqn:E'.
          * apply Nat.eqb_eq in E'. subst x. rewrite G4; auto.
          * apply Nat.eqb_neq in E'. destruct Hx as [Hx|Hx]. congruence. rewrite G3; auto.
        + intros x Hx. rewrite count_cons. simpl. destruct (Nat.eqb m x) eqn:E'.
          * apply Nat.eqb_eq in E'. subst x. exfalso. apply Hx; auto.
          * rewrite G4; auto.
        + intros x [Hx|Hx]. discriminate. auto.
        + intros x [Hx|Hx]. discriminate. apply precedes_cons; auto.
        + constructor; simpl; auto.
        + intros x [Hx|Hx]. discriminate. auto.
        + intros x d [Hx|Hx] Hd. discriminate. right. eapply G12; eauto.
        + intros x d [Hx|Hx] Hd. discriminate. destruct (G13 x d Hx Hd); auto. left. apply precedes_cons; auto.
      - apply incl_refl.
      - intros [H|H]. discriminate. apply Hms. auto.
      - apply G10; auto.
      - intros d [].
      - auto.
      - exists []. split; [reflexivity|intros x []].
      - auto. }
    assert (Ho : outside n (present s1) < f).
    { assert (outside n (m :: present s) < outside n (present s)).
      { apply outside_lt with (m := m); auto. intros x Hx; right; auto. left; auto. }
      simpl. lia. }
    assert (L2 := loop_ok f IHf m s Hms Hs (g m) [] s1 (incl_refl _) L1 Ho). simpl in L2.
    set (s2 := fold_left (load_step f g m) (g m) s1) in *. cbv zeta. clearbody s2.
    destruct L2 as [[G1 G2 G3 G4 G5 G6 G7 G8 G9 G10 G11 G12 G13] L2 L3 L4 L5 L6 L7 L8].
    assert (Hm2 : In m (present s2)) by (apply L2; left; auto).
    assert (Hce0 : count (isCE m) (log s2) = 0).
    { destruct (count (isCE m) (log s2)) eqn:C; auto. exfalso. apply L3. apply In_CE. lia. }
    split; simpl.
    - split; simpl.
      + exact G1.
      + exact G2.
      + intros x Hx. rewrite count_cons. simpl. auto.
      + intros x Hx. rewrite count_cons. simpl. auto.
      + intros x. rewrite count_cons. simpl. destruct (Nat.eqb m x) eqn:E'.
        * apply Nat.eqb_eq in E'. subst x. rewrite Hce0. auto.
        * apply G5.
      + intros x [Hx|Hx]. inversion Hx; subst; auto. auto.
      + intros x Hx. destruct (Nat.eq_dec x m) as [->|Hne].
        * apply precedes_head. apply In_CB. rewrite G3; auto.
        * destruct Hx as [Hx|Hx]. inversion Hx; congruence. apply precedes_cons; auto.
      + constructor; simpl; auto.
      + intros x Hx. destruct (Nat.eq_dec x m) as [->|Hne]; auto.
        destruct Hx as [Hx|Hx]. inversion Hx; congruence. auto.
      + exact G10.
      + exact G11.
      + intros x d Hx Hd. destruct (Nat.eq_dec x m) as [->|Hne].
        * destruct (L5 d Hd); auto.
        * destruct Hx as [Hx|Hx]. inversion Hx; congruence. eapply G12; eauto.
      + intros x d Hx Hd. destruct (Nat.eq_dec x m) as [->|Hne].
        * destruct (L5 d Hd) as [_ [H|H]]; auto. left. apply precedes_head; auto.
        * destruct Hx as [Hx|Hx]. inversion Hx; congruence. destruct (G13 x d Hx Hd); auto. left. apply precedes_cons; auto.
    - intros x Hx. apply L2. right; auto.
    - left; auto.
    - intros x Hx. destruct (L6 x Hx) as [[<-|H]|[H1 H2]]; auto.
      right. split. apply star_refl. left; auto.
    - destruct L7 as (l & El & Hl). exists (CE m :: l ++ [CB m]). split.
      + rewrite El. simpl. rewrite <- app_assoc. reflexivity.
      + intros x [Hx|Hx]. inversion Hx; subst; auto. apply in_app_iff in Hx. destruct Hx as [Hx|[Hx|[]]]; [|discriminate].
        intro Hc. apply (Hl x Hx). right; auto.
    - auto.
  Qed.

  (* the loading loop of module_load_list *)
  Definition all_done (s : mst) : Prop := forall x, In x (present s) -> In (CE x) (log s).

  Lemma load_top (m : mid) s : GInv s -> all_done s -> m < n ->
    let s' := load (S n) g m s in
    GInv s' /\ all_done s' /\ incl (present s) (present s') /\ In m (present s') /\
    (forall x, In x (present s') -> In x (present s) \/ star g m x) /\ exists l, log s' = l ++ log s.
  Proof.
    intros G D Hm s'. destruct (mem m (present s)) eqn:E.
    - assert (Es : s' = s) by (unfold s'; rewrite load_S, E; reflexivity). clearbody s'. subst s'.
      apply mem_In in E. split; auto. split; auto. split. apply incl_refl. split; auto. split; auto. exists []; auto.
    - apply mem_nIn in E.
      assert (P : LPost m s s').
      { apply load_ok; auto. pose proof (outside_le_n n (present s)). lia. intros x Hx Hn. exfalso. auto. }
      clearbody s'. destruct P as [P1 P2 P3 P4 P5 P6]. split; auto. split.
      + intros x Hx. destruct (P4 x Hx) as [H|[_ H]]; auto. destruct P5 as (l & -> & _). apply in_app_iff. right. auto.
      + split; auto. split. apply (gi_ce_pres _ P1); auto. split. intros x Hx. destruct (P4 x Hx) as [H|[H _]]; auto.
        destruct P5 as (l & -> & _). exists l; auto.
  Qed.

  Lemma load_all_ok : forall listing s, GInv s -> all_done s -> (forall m, In m listing -> m < n) ->
    let s' := load_all (S n) g listing s in
    GInv s' /\ all_done s' /\ incl (present s) (present s') /\ (forall m, In m listing -> In m (present s')) /\
    (forall x, In x (present s') -> In x (present s) \/ Reach g listing x) /\ exists l, log s' = l ++ log s.
  Proof.
    induction listing as [|m r IHr]; intros s G D Hl.
    - simpl. split; auto. split; auto. split. apply incl_refl. split. intros m []. split; auto. exists []; auto.
    - cbv zeta. change (load_all (S n) g (m :: r) s) with (load_all (S n) g r (load (S n) g m s)).
      pose proof (load_top m s G D ltac:(apply Hl; left; auto)) as T. cbv zeta in T.
      set (s1 := load (S n) g m s) in *. clearbody s1. destruct T as (G' & D' & I' & M' & R' & l' & E').
      pose proof (IHr s1 G' D' ltac:(intros; apply Hl; right; auto)) as T. cbv zeta in T.
      set (s2 := load_all (S n) g r s1) in *. clearbody s2. destruct T as (G'' & D'' & I'' & M'' & R'' & l'' & E'').
      split; auto. split; auto. split. intros x Hx; auto. split. intros x [<-|Hx]; auto.
      split. intros x Hx. destruct (R'' x Hx) as [H|[r0 [H1 H2]]].
      + destruct (R' x H) as [H0|H0]; auto. right. exists m. split; auto. left; auto.
      + right. exists r0. split; auto. right; auto.
      + exists (l'' ++ l'). rewrite E'', E', app_assoc. reflexivity.
  Qed.

  Lemma GInv_s0 : GInv s0.
  Proof.
    split; simpl; auto; try (intros; contradiction). constructor. intros d x. tauto.
  Qed.

  (* Phase 1, summary: the state after the loading loop *)
  Theorem load_phase : forall listing, (forall m, In m listing -> m < n) ->
    let s := load_all (S n) g listing s0 in
    NoDup (present s) /\
    (forall x, In x (present s) <-> Reach g listing x) /\
    (forall x, In x (present s) -> x < n) /\
    (forall x, In x (present s) ->
       count (isCB x) (log s) = 1 /\ count (isCE x) (log s) = 1 /\ precedes (CE x) (CB x) (log s)) /\
    (forall x, ~ In x (present s) -> count (isCB x) (log s) = 0 /\ count (isCE x) (log s) = 0) /\
    Forall is_ctor (log s) /\
    (forall x, In x (present s) -> assoc x (deps s) = g x) /\
    (forall x, ~ In x (present s) -> assoc x (deps s) = []) /\
    (forall d x, In x (assoc d (rdeps s)) <-> In x (present s) /\ In d (g x)) /\
    (forall x d, In x (present s) -> In d (g x) ->
       In d (present s) /\ (precedes (CE x) (CE d) (log s) \/ plus g x x)).
  Proof.
    intros listing Hl.
    destruct (load_all_ok listing s0 GInv_s0 ltac:(intros x []) Hl) as (G & D & _ & M & R & _).
    set (s := load_all (S n) g listing s0) in *. cbv zeta.
    destruct G as [G1 G2 G3 G4 G5 G6 G7 G8 G9 G10 G11 G12 G13].
    assert (Closed : forall x d, In x (present s) -> In d (g x) -> In d (present s)).
    { intros x d Hx Hd. eapply G12; eauto. }
    split; auto. split.
    { intro x. split.
      - intro Hx. destruct (R x Hx) as [[]|H]; auto.
      - intros [r [Hr Hs]]. revert Hs. intro Hs. apply (star_closed g (fun y => In y (present s)) Closed r x Hs). auto. }
    split; auto. split.
    { intros x Hx. split; auto. split; auto. assert (0 < count (isCE x) (log s)) by (apply In_CE; auto). specialize (G5 x). lia. }
    split.
    { intros x Hx. split; auto. destruct (count (isCE x) (log s)) eqn:C; auto. exfalso. apply Hx. apply G6. apply In_CE. lia. }
    split; auto. split. intros x Hx. auto. split; auto. split.
    { intros d x. rewrite G11. split.
      - intro H. assert (Hx : In x (present s)). { destruct (mem x (present s)) eqn:E. apply mem_In; auto. apply mem_nIn in E. rewrite G10 in H; auto. destruct H. }
        split; auto. rewrite <- G9; auto.
      - intros [Hx Hd]. rewrite G9; auto. }
    intros x d Hx Hd. split. eauto. apply G13; auto.
  Qed.

  (* on an acyclic graph (rank function) every dependency's constructor has ended before the dependent's constructor ends;
     the log is newest first here, so "CE x precedes CE d" means CE d happened first *)
  Corollary load_deps_ctor_end_before : forall listing, (forall m, In m listing -> m < n) -> acyclic g ->
    let s := load_all (S n) g listing s0 in
    forall x d, In x (present s) -> In d (g x) -> precedes (CE x) (CE d) (log s).
  Proof.
    intros listing Hl A. pose proof (load_phase listing Hl) as P. cbv zeta in *.
    destruct P as (_ & _ & _ & _ & _ & _ & _ & _ & _ & P). intros x d Hx Hd. destruct (P x d Hx Hd) as [_ [H|H]]; auto.
    destruct (acyclic_no_cycle g A x H).
  Qed.
End Load.
