(* C11: class rules - the first matching rule in name order decides.  ONLY statements closed by `exact`, each followed by Print Assumptions. *)
From Coq Require Import List NArith ZArith Bool Strings.Byte Strings.String.
Import ListNotations.
Require Import Params Iauth IauthFacts.
Require ClassSpec MaskSpec Sorted.
Local Open Scope list_scope.

Theorem class_is_first_matching_rule : forall ss rs r,
  snd (classify ss rs r) = match find (fun ru => rule_matches ss ru r) rs with Some ru => rule_class ru | None => [] end.
Proof. exact classify_first_match. Qed.
Print Assumptions class_is_first_matching_rule.

Theorem no_class_when_no_rule_matches : forall ss rs r,
  (forall ru, In ru rs -> rule_matches ss ru r = false) -> classify ss rs r = ([], []).
Proof. exact classify_no_match. Qed.
Print Assumptions no_class_when_no_rule_matches.

Theorem trust_username_upgrade : forall ss rs r,
  fst (classify ss rs r) = match find (fun ru => rule_matches ss ru r) rs with Some ru => trusted_line ru r | None => [] end.
Proof. exact classify_trust. Qed.
Print Assumptions trust_username_upgrade.

Theorem class_within_limit : forall ss rs r, (List.length (snd (classify ss rs r)) < CLASSLEN)%nat.
Proof. exact class_fits. Qed.
Print Assumptions class_within_limit.

(* the glob criteria (account, ident, host name): the matcher's fuel is always enough - fnm computes exactly the fuel-free relation
   Matches ('*' any string, '?' any one byte, every other byte itself) *)
Theorem glob_criterion_is_the_documented_match : forall p s, fnm p s = true <-> ClassSpec.Matches p s.
Proof. exact ClassSpec.fnm_spec. Qed.
Print Assumptions glob_criterion_is_the_documented_match.

(* both directions on the whole result of classify: either some rule is the first match of the list and decides class and U line,
   or no rule matches and there is neither *)
Theorem classification_is_decided_by_the_first_match : forall ss rs r,
  (exists ru, ClassSpec.picks ss rs r ru /\ classify ss rs r = (trusted_line ru r, rule_class ru)) \/
  ((forall x, In x rs -> rule_matches ss x r = false) /\ classify ss rs r = ([], [])).
Proof. exact ClassSpec.classify_decided_by_first_match. Qed.
Print Assumptions classification_is_decided_by_the_first_match.

(* "in case-insensitive alphabetical order of rule names": for a rule table sorted by the order the configuration tree keeps its
   children in (Conf.scmp on case-folded names, see C14 parsed_tree_is_sorted), the chosen rule is the matching rule of least name *)
Theorem first_matching_rule_in_name_order : forall ss rs r ru,
  Sorted.StronglySorted ClassSpec.name_lt (map r_name rs) -> ClassSpec.picks ss rs r ru ->
  forall ru', In ru' rs -> rule_matches ss ru' r = true -> ru' = ru \/ ClassSpec.name_lt (r_name ru) (r_name ru').
Proof. exact ClassSpec.first_matching_rule_in_name_order. Qed.
Print Assumptions first_matching_rule_in_name_order.

(* the address criterion is equality of the leading `bits` bits (abit: bit i of the 128, most significant first); /0 matches all *)
Theorem address_criterion_is_prefix_equality : forall ru r m bits,
  r_addr ru = Some (m, bits) -> (0 < bits <= 128)%N -> ClassSpec.wf8 (raddr r) -> ClassSpec.wf8 m ->
  ClassSpec.addr_criterion ru r = true <-> (forall i, (i < bits)%N -> MaskSpec.abit (raddr r) i = MaskSpec.abit m i).
Proof. exact ClassSpec.address_criterion_is_prefix_equality. Qed.
Print Assumptions address_criterion_is_prefix_equality.
Require D30.

(* D30, REPAIRED: the xreply_ok criterion reads a SLOT bit.  A reload that gives a previously empty slot to a service clears that bit in
   every pending request (SlotReuse.reload_forgets_refilled_slots), so the OK of a former occupant does not count for the new one
   (SlotReuse.xreply_ok_of_new_occupant_is_false).  D30.d30_statement: on the history of D30.v client 5 is no longer accepted with
   the class of rule 10-viad (xreply_ok d.svc) on the strength of the OK of a.svc, whose released slot d.svc took over: at "5 U"
   d.svc is asked and the client waits for its answer. *)
Theorem xreply_ok_does_not_survive_a_refilled_slot : D30.d30_statement.
Proof. exact D30.d30_repaired. Qed.
Print Assumptions xreply_ok_does_not_survive_a_refilled_slot.
