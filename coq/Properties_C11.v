(* C11: class rules - the first matching rule in name order decides.  ONLY statements closed by `exact`, each followed by Print Assumptions. *)
From Coq Require Import List NArith ZArith Bool Strings.Byte Strings.String.
Import ListNotations.
Require Import Params Iauth IauthFacts.
Local Open Scope list_scope.

Theorem class_is_first_matching_rule : forall ss rs r,
  snd (classify ss rs r) = match find (fun ru => rule_matches ss ru r) rs with Some ru => rule_class ru | None => [] end.
Proof. exact classify_first_match. Qed.
Print Assumptions class_is_first_matching_rule.

Theorem no_class_when_no_rule_matches : forall ss rs r,
  (forall ru, In ru rs -> rule_matches ss ru r = false) -> classify ss rs r = ([], []).
Proof. exact classify_no_match. Qed.
Print Assumptions no_class_when_no_rule_matches.

Theorem trust_username_upgrade : forall ss rs r,
  fst (classify ss rs r) = match find (fun ru => rule_matches ss ru r) rs with Some ru => trusted_line ru r | None => [] end.
Proof. exact classify_trust. Qed.
Print Assumptions trust_username_upgrade.

Theorem class_within_limit : forall ss rs r, (List.length (snd (classify ss rs r)) < CLASSLEN)%nat.
Proof. exact class_fits. Qed.
Print Assumptions class_within_limit.
