"""C08: arbitrary input cannot crash or derail the daemon (partial: memory safety is observed by ASan/UBSan, not proved)."""
import re
from iauth_common import *
PROFILE = dict(maxlen=30, p_good_reply=0.6)

JUNK = [b"", b" ", b"   ", b"\t", b"5", b"-1", b"abc", b"5 ", b"-1 D", b"-1 N", b"-1 N x", b"-1 U", b"-1 u", b"-1 P", b"-1 P :+x a b", b"-1 H", b"-1 T", b"-1 d", b"-1 n", b"-1 n q",
        b"99999999999999999999 H", b"-99999999999999999999 H", b"4294967297 H", b"+1 H", b"0x1 H", b"91 Q", b"92 E a b", b"93 M s 5", b"97 X s0.x 1_1 :OK", b"94 N", b"94 P", b"94 n", b"95 U", b"95 U a",
        b"96 Z " + b" ".join(b"p%d" % i for i in range(20)), b"-1 Z " + b" ".join(b"p%d" % i for i in range(16)), b"98 N " + b"h" * 5000, b"-1 X", b"-1 X a", b"-1 X a b", b"-1 x a b", b"-1 X s0.x zz :OK",
        b"-1 X s0.x 1_ :OK", b"-1 X s0.x _1 :NO x", b"-1 X nosuch 1_1 :OK", b"-1 ? nosuch", b"-1 ?", b"\r", b"5 \r", b":", b"5 :", b"5 :C 1.2.3.4 1 2 3", b"-1 \x01\x02\xff\xfe", b"\xff\xff\xff", b"5 C", b"5 C 1.2.3.4", b"5 C 1.2.3.4 1 2"]

def mutate(rng, b):
    k = rng.random()
    if k < 0.15: return re.sub(rb" ", lambda m: rng.choice([b" ", b"  ", b"\t", b" \t "]), b, count=rng.randrange(1, 4))
    if k < 0.25: return b" " + b
    if k < 0.35: return b + rng.choice([b" ", b"\t", b"\r", b" \r", b"   "])
    if k < 0.45: return b.replace(b" ", b"", 1)
    if k < 0.55: return b + b" a b c d e f g h i j k l m n o p q r s"
    if k < 0.70: return b[:rng.randrange(0, len(b) + 1)]
    if k < 0.80:
        x = bytearray(b)
        if x: x[rng.randrange(len(x))] = rng.choice(b" 0123456789:CDNdPUunHTXx-+\tab_\x00\xff")
        return bytes(x).replace(b"\n", b"")
    if k < 0.9: return bytes(rng.choice(b" 0123456789:CDNdPUunHTX-+\tab") for _ in range(rng.randrange(0, 20)))
    return b + b"\x00trailing after NUL"

def stream_items(stream):
    """what evbuffer_readln(EOL_CRLF) delivers: complete lines only"""
    parts = stream.split(b"\n")
    return [('L', p) for p in parts[:-1]]

def filt(lines):
    return [l for l in lines if not (l == 's' or l == 'a' or l.startswith('S ') or l.startswith('A '))]

def raw_run(impl, scn, stream, chunking=None):
    """feed the byte stream as is (no markers); returns (rc, stdout lines after the banner, stderr)"""
    s2 = Scn(scn.with_xq, scn.with_class, scn.svcs, scn.rules, scn.timeout, [('L', stream)], scn.note)
    d = Path(tempfile.mkdtemp(dir=str(BUILD / "tmp"), prefix="r"))
    try:
        conf = d / "iauthd.conf"
        conf.write_text(conf_text(str(impl / "mods"), scn.with_xq, scn.with_class, scn.svcs, scn.rules, scn.timeout), encoding="latin1")
        argv = [str(impl / "iauthd-c"), "-n", "-f", str(conf)]
        if chunking is None:
            p = subprocess.run(argv, input=stream, stdout=subprocess.PIPE, stderr=subprocess.PIPE, timeout=60, env=SAN_ENV, cwd=str(d))
            out, err, rc = p.stdout, p.stderr, p.returncode
        else:
            p = subprocess.Popen(argv, stdin=subprocess.PIPE, stdout=subprocess.PIPE, stderr=subprocess.PIPE, env=SAN_ENV, cwd=str(d))
            i = 0
            try:
                while i < len(stream):
                    k = chunking(len(stream) - i)
                    p.stdin.write(stream[i:i + k]); p.stdin.flush(); i += k
                    if k < 64: time.sleep(0.0005)
                    elif getattr(chunking, 'pause', 0): time.sleep(chunking.pause)     # let the daemon read this chunk on its own
                p.stdin.close()
            except BrokenPipeError:
                pass
            out = p.stdout.read(); err = p.stderr.read()
            try: rc = p.wait(timeout=60)
            except subprocess.TimeoutExpired: p.kill(); rc = -9
        lines = out.decode('latin1').split("\n")
        if lines and lines[-1] == "": lines.pop()
        # drop what precedes the version banner (start-up diagnostics), then the start-up banner itself: V, a, A*, O
        i = next((i_ for i_, l_ in enumerate(lines) if l_.startswith("V ")), 0)
        while i < len(lines) and (lines[i].startswith("V ") or lines[i] == "a" or lines[i].startswith("A ") or lines[i].startswith("O ")): i += 1
        return rc, lines[i:], err.decode('latin1', errors='replace')
    finally:
        shutil.rmtree(d, ignore_errors=True)

def run(chk):
    env = setup(chk, ["the absence of out-of-bounds accesses in the C code is observed (ASan/UBSan on every run), not proved; the proved part is the line splitting, tokenizer bound and junk-line no-op on the model"])
    if env is None: return
    drv, impl = env
    rng = chk.rng
    quick = chk.tier == "quick"
    nstreams = 250 if quick else 6000
    base = corpus() + [gen_scn(rng, PROFILE, chk.hist) for _ in range(nstreams)]
    base = [s for s in base if not any(it[0] == 'R' for it in s.items)]
    jobs = []     # (scn, stream, kind)
    for scn in base:
        lines = [it[1] for it in scn.items]
        # (a) junk mixed in
        mixed = []
        for l in lines:
            while rng.random() < 0.35: mixed.append(rng.choice(JUNK)); chk.hist("junk line")
            mixed.append(mutate(rng, l) if rng.random() < 0.15 else l)
        eol = lambda: rng.choice([b"\n", b"\n", b"\n", b"\r\n"])
        stream = b"".join(x.replace(b"\n", b"") + eol() for x in mixed)
        if rng.random() < 0.3: stream += rng.choice([b"5 H", b"-1 X a", b"5", b"\r", b"7 C 1.2.3.4 1 2"])     # peer dies in mid-line
        jobs.append((scn, stream, "junk+mutation"))
    # (a2) deterministic: every reply line of the fixed corpus histories arrives twice (at once, and all of them again at the end) - the
    #      second copy of a final answer names nothing that is awaited any more and must be as inert as any other junk line
    for scn in [s_ for s_ in corpus() if not any(it[0] == 'R' for it in s_.items)]:
        lines = [it[1] for it in scn.items]
        isrep = lambda l: len(l.split(b" ")) > 1 and l.split(b" ")[1] in (b"X", b"x")
        if not any(isrep(l) for l in lines): continue
        twice = [x for l in lines for x in ((l, l) if isrep(l) else (l,))]
        jobs.append((scn, b"".join(x + b"\n" for x in twice), "every reply twice")); chk.hist("every reply twice")
        ends = [i for i, l in enumerate(lines) if l.split(b" ")[1:2] in ([b"D"], [b"T"])]
        cut = ends[0] if ends else len(lines)
        late = lines[:cut] + [l for l in lines[:cut] if isrep(l)] + lines[cut:]
        jobs.append((scn, b"".join(x + b"\n" for x in late), "all replies again before the first client leaves")); chk.hist("replies repeated later")
    # (b) every prefix of a few streams: peer death at any byte
    nprefix = 12 if quick else 300
    for scn, stream, _ in jobs[:nprefix]:
        st = stream[:400]
        for k in range(len(st)):
            jobs.append((scn, st[:k], "prefix")); chk.hist("prefix")
    # (c) pure random bytes
    for _ in range(60 if quick else 3000):
        scn = rng.choice(base)
        n = rng.choice([1, 10, 100, 1000, 5000, 9000])
        stream = bytes(rng.choice(b" 0123456789:CDNdPUunHTXx-+\t\n\n\r\x00ab_.?!") for _ in range(n))
        jobs.append((scn, stream, "random bytes")); chk.hist("random bytes")
    mscns = [Scn(s.with_xq, s.with_class, s.svcs, s.rules, s.timeout, stream_items(st), s.note) for s, st, _ in jobs]
    ms = run_model(drv, mscns)
    res = pmap(lambda j: raw_run(impl, j[0], j[1]), jobs)
    distinct = set()
    for (scn, stream, kind), m, (rc, lines, err), msc in zip(jobs, ms, res, mscns):
        if len(chk.violations) >= 4: break
        chk.cov["evaluations"] += 1
        exp = [l for step in m for l in step[0]]
        got = filt(lines)
        why = None
        if rc != 0:
            why = ("the daemon did not exit cleanly at end of input (exit status %s)%s" % (rc, ": " + err[-700:].replace("\n", " | ") if err else ""), True)
        elif got != exp:
            k = next((i for i in range(min(len(got), len(exp))) if got[i] != exp[i]), min(len(got), len(exp)))
            why = ("output differs from the model at line %d: daemon %r, model %r" % (k, got[k] if k < len(got) else None, exp[k] if k < len(exp) else None), False)
            if kind in ("every reply twice", "all replies again before the first client leaves"):
                # the property itself, on the daemon alone: if the repeated replies are junk (the model, for which the no-op is proved,
                # gives the same output without them), the daemon must treat the other lines the same with and without them
                plain = b"".join(it[1] + b"\n" for it in scn.items)
                mp = run_model(drv, [Scn(scn.with_xq, scn.with_class, scn.svcs, scn.rules, scn.timeout, stream_items(plain))])[0]
                rcp, lp, ep = raw_run(impl, scn, plain)
                if [l for st_ in mp for l in st_[0]] == exp and rcp == 0 and filt(lp) != got:
                    why = ("replies that name nothing awaited any more (each final answer delivered a second time) change the treatment of the other lines: with them %r, without them %r" % (got[k] if k < len(got) else None, filt(lp)[k] if k < len(filt(lp)) else None), True)
        if why:
            # minimise on lines of the stream
            def fails(cand):
                rc2, l2, e2 = raw_run(impl, scn, cand)
                if rc != 0: return rc2 != 0
                m2 = run_model(drv, [Scn(scn.with_xq, scn.with_class, scn.svcs, scn.rules, scn.timeout, stream_items(cand))])[0]
                return rc2 == 0 and filt(l2) != [l for st_ in m2 for l in st_[0]]
            parts = stream.split(b"\n")
            cur = parts; changed = True; budget = 60
            while changed and budget > 0:
                changed = False
                for i in range(len(cur) - 1, -1, -1):
                    cand = cur[:i] + cur[i + 1:]
                    budget -= 1
                    if budget <= 0: break
                    if cand and fails(b"\n".join(cand)): cur = cand; changed = True
            small = b"\n".join(cur)
            rc2, l2, e2 = raw_run(impl, scn, small)
            chk.violation("byte stream (%s): %s" % (kind, why[0]), "configuration:\n%s\n\ninput stream (python bytes literal):\n%r\n\ndaemon stdout after the banner:\n%s\n\nexit status %s\nstderr:\n%s" % (scn.describe().split("\n> ")[0], small, "\n".join(l2), rc2, e2[-2500:]), "stream:" + why[0][:60], found_input=why[1])
            continue
        chk.cov["traces_validated_against_impl"] += 1
        if got: distinct.add(hash(tuple(got)))
    # (d) segmentation into read() chunks: same stream, random chunkings through the pipe
    nchunk = 20 if quick else 400
    for scn, stream, kind in jobs[:nchunk]:
        if len(chk.violations) >= 4: break
        ref = raw_run(impl, scn, stream)
        for mode in ("1-byte", "random", "split-at-CR"):
            chk.cov["evaluations"] += 1; chk.hist("chunking:" + mode)
            if mode == "1-byte": ch = lambda n: 1
            elif mode == "random": ch = lambda n: rng.randrange(1, 40)
            else: ch = lambda n: rng.choice([1, 2, 3, 7, 4096, 5000])
            got = raw_run(impl, scn, stream[:1500], ch) if mode == "1-byte" else raw_run(impl, scn, stream, ch)
            exp = raw_run(impl, scn, stream[:1500]) if mode == "1-byte" else ref
            if got[0] != 0 or filt(got[1]) != filt(exp[1]):
                chk.violation("the same byte stream cut into different read() chunks (%s) is treated differently" % mode, "stream %r\nwhole: %r\nchunked: %r\nstderr %s" % (stream, exp[1], got[1], got[2][-800:]), "chunking")
                break
    # (d2) over-long junk lines cut by a read() boundary exactly where the rest of the line would read as a command for a live
    #      client: the line is ONE line however it arrives (whatever buffering limit an implementation has, the remainder of a
    #      discarded line must not be taken for a new line)
    for L_ in (100, 513, 600, 1100, 4097, 9000):
        for tailcmd in ("D", "H", "T"):
            if len(chk.violations) >= 4: break
            scn = Scn(True, False, [('a.svc', 'login')], [], 0, [], "over-long junk line split before a tail that looks like a command")
            pre = b"7 C 1.2.3.4 1000 10.0.0.1 6667\n7 N host.example.org\n7 u ident\n7 n Nick\n"
            junk = b"99 Z :" + b"x" * L_ + b" "
            tail = b"7 " + tailcmd.encode() + b"\n"
            post = b"7 U user :Real\n7 P :+x acct pw\n-1 X a.svc 7_1 :OK acct:1\n7 H\n"
            stream = pre + junk + tail + post
            cuts = [len(pre) + len(junk)]
            sizes = iter([cuts[0], len(stream) - cuts[0]])
            whole = raw_run(impl, scn, stream)
            def two(n, it=sizes): return next(it, n)
            two.pause = 0.15
            parts = raw_run(impl, scn, stream, two)
            nojunk = raw_run(impl, scn, pre + post)
            chk.cov["evaluations"] += 1; chk.hist("chunking:over-long line cut before a command-like tail")
            if parts[0] != 0 or whole[0] != 0 or filt(parts[1]) != filt(whole[1]) or filt(whole[1]) != filt(nojunk[1]):
                chk.violation("an over-long junk line (%d bytes) delivered in two read() chunks, the second starting with %r, is not treated as one junk line" % (len(junk) + len(tail) - 1, tail[:-1]),
                              "stream %r\n\nin one piece: exit %s %r\nin two chunks (cut at byte %d): exit %s %r\nwithout the junk line: exit %s %r\nstderr %s" % (stream, whole[0], whole[1], cuts[0], parts[0], parts[1], nojunk[0], nojunk[1], parts[2][-600:]), "chunking:long-line")
            else:
                chk.cov["traces_validated_against_impl"] += 1
    # (d3) a burst whose size is an exact multiple of the daemon's read size (4096 bytes), all complete lines: every line must be
    #      answered without waiting for further input, and none may be lost when end of input follows
    for k in (1, 2, 3):
        if len(chk.violations) >= 4: break
        scn = Scn(True, False, [('a.svc', 'login')], [], 0, [], "burst of exactly %d bytes of complete lines" % (4096 * k))
        body = b""
        i = 0
        while True:
            i += 1
            one = b"".join(b"%d %s\n" % (i, l) for l in (b"C 10.0.%d.%d %d 10.0.0.1 6667" % (i // 250, i % 250, 1000 + i), b"N host%d.example.org" % i, b"u ident", b"n Nick%d" % i, b"U user :Real Name", b"H", b"D"))
            if len(body) + len(one) > 4096 * k - 20: break
            body += one
        stream = body + b"99 Z :" + b"x" * (4096 * k - len(body) - 7) + b"\n"
        assert len(stream) == 4096 * k
        def pieces(n): return min(n, 1500)
        pieces.pause = 0.05
        ref = raw_run(impl, scn, stream, pieces)
        atonce = raw_run(impl, scn, stream)
        chk.cov["evaluations"] += 2; chk.hist("chunking:burst of an exact multiple of 4096 bytes")
        if ref[0] != 0 or atonce[0] != 0 or filt(atonce[1]) != filt(ref[1]) or not filt(ref[1]):
            chk.violation("%d bytes of complete lines followed by end of input: %d answer lines when they arrive in one burst, %d when they arrive in 1500-byte pieces (exit %s / %s)" % (len(stream), len(filt(atonce[1])), len(filt(ref[1])), atonce[0], ref[0]),
                          "stream %r\n\nin one burst: %r\n\nin pieces: %r\nstderr %s" % (stream, atonce[1], ref[1], atonce[2][-600:]), "chunking:burst-eof")
            continue
        # the same burst with the input left open: the answers must come without further input
        d = Path(tempfile.mkdtemp(dir=str(BUILD / "tmp"), prefix="b"))
        try:
            conf = d / "iauthd.conf"
            conf.write_text(conf_text(str(impl / "mods"), True, False, scn.svcs, [], 0), encoding="latin1")
            pr = subprocess.Popen([str(impl / "iauthd-c"), "-n", "-f", str(conf)], stdin=subprocess.PIPE, stdout=subprocess.PIPE, stderr=subprocess.PIPE, env=SAN_ENV, cwd=str(d))
            want = len([l for l in ref[1] if l.startswith("D ")])
            pr.stdin.write(stream); pr.stdin.flush()
            out = b""; t0 = time.time()
            while out.count(b"\nD ") < want and time.time() - t0 < 30:      # returns as soon as the verdicts are there; the bound only matters when they never come
                r, _, _ = select.select([pr.stdout], [], [], 0.25)
                if r:
                    chunk = os.read(pr.stdout.fileno(), 65536)
                    if not chunk: break
                    out += chunk
            seen = out.count(b"\nD ")
            pr.stdin.close(); pr.stdout.read(); pr.stderr.read(); pr.wait(timeout=30)
        finally:
            shutil.rmtree(d, ignore_errors=True)
        if seen < want:
            chk.violation("a burst of %d bytes of complete lines is not processed until more input (or end of input) arrives: %d of %d verdicts after 30 s with the input left open" % (len(stream), seen, want),
                          "stream %r" % (stream,), "chunking:burst-hang")
        else:
            chk.cov["traces_validated_against_impl"] += 1
    # (e) info requests and client traffic after a reload whose core.modules entry is written differently (other order, fewer names):
    #     nothing is loaded or unloaded by a reload, so the answers must be those of the same session without the reload, and no
    #     module may be left holding a name that the configuration tree has freed (D25)
    info = L("-1 ? config", "-1 ? stats", "7 C 10.1.2.5 4002 10.0.0.1 6667", "7 H", "-1 ? config", "7 D", "-1 ? stats")
    for with_class in (True, False):
        for nrel in (1, 2, 3):
            if len(chk.violations) >= 4: break
            svcs = [('a.svc', 'login')]; rules = [dict(name='r1', **{'class': 'c1'})] if with_class else []
            rel = [('R', svcs, rules, 0)]
            with_r = Scn(True, with_class, svcs, rules, 0, L("5 C 1.2.3.4 1 10.0.0.1 6667") + rel * nrel + info, "info requests after %d reload(s) with a rewritten core.modules" % nrel)
            without = Scn(True, with_class, svcs, rules, 0, L("5 C 1.2.3.4 1 10.0.0.1 6667") + info, "")
            dr, dn = run_daemons(impl, [with_r, without])
            chk.cov["evaluations"] += 1; chk.hist("reload with rewritten core.modules")
            a = [st[0] for st in dr.steps[1 + nrel:]]; b = [st[0] for st in dn.steps[1:]]
            strip = lambda ls: [[l for l in x if not l.startswith('S ') or 'alloc' in l or 'in use' in l] for x in ls]
            if dr.rc != 0 or dn.rc != 0 or strip(a) != strip(b):
                chk.violation("after a reload that only rewrites core.modules (other order / fewer names) the daemon %s" % (("fails with exit status %s: %s" % (dr.rc, dr.stderr[-600:].replace("\n", " | "))) if dr.rc != 0 else "answers differently"),
                              replay_text(with_r, dr, None) if dr.rc != 0 else "with reload:\n%s\n\nwithout:\n%s" % (fmt_steps(with_r, dr.steps), fmt_steps(without, dn.steps)), "reload-modules")
            else:
                chk.cov["traces_validated_against_impl"] += 1
    chk.cov["distinct_nontrivial"] = len(distinct)
    chk.cov["samples"] = [repr(jobs[0][1][:300]), repr(jobs[len(base) + 5][1]) if len(jobs) > len(base) + 5 else "", repr(jobs[-1][1][:120])]
    chk.cov["rule"] = "byte streams: generated sessions with junk lines (unknown ids, unknown commands, malformed replies, missing parameters, >16 parameters, 5000-byte lines, NUL and high bytes) and mutations mixed in, every reply of the fixed corpus histories delivered twice, CRLF and LF line ends, a final partial line; every prefix of the first streams; random bytes; the same stream through a pipe in 1-byte / random / page-sized chunks; bursts of exactly 4096, 8192 and 12288 bytes of complete lines, followed by end of input and with the input left open (answers must not wait for more input). Required: exit status 0, sanitizers silent, stdout equal to the model's output for the complete lines of the stream; distinct = distinct non-empty outputs"
