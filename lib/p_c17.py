"""C17: a reload reaches the decision modules."""
import signal
from iauth_common import *

def probes(rng, svcs, rules, base_id=50):
    """clients arriving after the reload, probing every service (all prerequisites, with and without password) and every rule"""
    items = []
    cid = base_id
    def client(addr, lines, replies=True):
        nonlocal cid
        cid += 1
        items.extend(L("%d C %s %d 10.0.0.1 6667" % (cid, addr, 2000 + cid)))
        for l in lines: items.extend(L("%d %s" % (cid, l)))
        return cid
    accts = ['oper:1', 'op', 'bob', 'alice:5', 'x']
    for k in range(3):
        a = rng.choice(['1.2.3.4', '10.0.0.7', '2001:db8::1', '200.100.50.25', '2001:db8:0:0:a:b:c:1234', '0::1', '192.168.1.1'])
        user = rng.choice(['user', '~tilde', 'ident'])
        lines = ["N %s" % rng.choice(['host.example.org', 'a', 'x.example.org']), "u %s" % rng.choice(['ident', '~untr', 'ab']) if rng.random() < 0.7 else "u",
                 "n Nick%d" % k, "U %s :Real Name" % user]
        if rng.random() < 0.7: lines.insert(rng.randrange(0, len(lines) + 1), "P :%s %s pw" % (rng.choice(['+x', '+!', '-x']), rng.choice(['oper', 'bob', 'alice'])))
        rng.shuffle(lines)
        c = client(a, lines)
        # answer whatever might be asked: one OK (with account for the first) per known service name, then hurry up
        for n_, t_ in svcs:
            items.extend(L("-1 X %s %x_%%SER%d%% :%s" % (n_, c, c, rng.choice(['OK', 'OK %s' % rng.choice(accts), 'OK %s' % rng.choice(accts)]))))
        items.extend(L("%d H" % c))
        for n_, t_ in svcs:
            items.extend(L("-1 X %s %x_%%SER%d%% :OK" % (n_, c, c)))
        items.extend(L("%d D" % c))
    return items

def fix_serials(items, start_serial):
    """the probe replies carry %SERn% placeholders: n-th announced probe client gets serial start_serial + position"""
    out = []; ser = start_serial; cur = {}
    for it in items:
        if it[0] != 'L': out.append(it); continue
        s = it[1].decode('latin1')
        toks = s.split(' ')
        if len(toks) > 1 and toks[1] == 'C':
            ser += 1; cur[int(toks[0])] = ser
        import re as _re
        s = _re.sub(r"%SER(\d+)%", lambda m: "%x" % cur.get(int(m.group(1)), 0), s)
        out.append(('L', s.encode('latin1')))
    return out

def edit_tables(rng, svcs, rules):
    """one of the edit kinds: add, remove, change in place (service protocol / rule field), replace everything, nothing"""
    kind = rng.choice(['add', 'remove', 'inplace', 'inplace', 'rule-field', 'rule-add', 'rule-remove', 'replace', 'same', 'drop-section-content', 'drop-section-content', 'case-only', 'case-only'])
    svcs = list(svcs); rules = [dict(r) for r in rules]
    pool = ['s0.x', 's1.x', 's2.x', 'S3.x', 'login.svc', 'drone.svc', 'Auth.Svc', 'z.y', 'n1.x', 'n2.x']
    if kind == 'add':
        free = [n for n in pool if n.lower() not in [x[0].lower() for x in svcs]]
        if free: svcs.append((rng.choice(free), rng.choice(TYPES)))
    elif kind == 'remove' and svcs:
        svcs.pop(rng.randrange(len(svcs)))
    elif kind == 'inplace' and svcs:
        i = rng.randrange(len(svcs)); svcs[i] = (svcs[i][0], rng.choice([t for t in TYPES if t != svcs[i][1]]))
    elif kind == 'rule-field' and rules:
        r = rng.choice(rules); f = rng.choice(['class', 'account', 'address', 'username', 'hostname', 'trust'])
        if f == 'trust': r['trust'] = not r.get('trust')
        elif r.get(f) is not None and rng.random() < 0.4: r[f] = None
        else: r[f] = {'class': rng.choice(['newclass', 'opers']), 'account': rng.choice(['op*', 'bob', '*']), 'address': rng.choice(['1.2.3.0/24', '2001:db8::/32', '10.*']), 'username': rng.choice(['ident', '~*']), 'hostname': rng.choice(['*.example.org', 'a'])}[f]
    elif kind == 'case-only' and rules:
        # an in-place edit that changes only the letter case of a value (class names and glob patterns are case-sensitive)
        r = rng.choice(rules); f = rng.choice(['class', 'account', 'hostname', 'username'])
        cur = r.get(f)
        if cur is None: r[f] = {'class': 'Opers', 'account': 'Op*', 'hostname': '*.Example.org', 'username': 'Ident'}[f]
        else: r[f] = cur.swapcase()
    elif kind == 'rule-add':
        rules.append(dict(name=rng.choice(['m', 'A', 'zz']) + str(rng.randrange(100, 999)), trust=rng.random() < 0.3, **{'class': rng.choice([None, 'added'])}))
    elif kind == 'rule-remove' and rules:
        rules.pop(rng.randrange(len(rules)))
    elif kind == 'replace':
        svcs, rules = gen_tables(rng, {})
    elif kind == 'drop-section-content':
        if rng.random() < 0.5: svcs = []
        else: rules = []
    return kind, sorted_svcs(svcs), sorted_rules(rules)

def det_probes(svcs):
    """sixteen probe clients over the product of two addresses, hosts, ident answers and accounts (every value a staged rule field may test)"""
    items = []; cid = 70
    for addr in ('1.2.3.4', '10.0.0.7'):
        for host in ('host.example.org', 'a'):
            for ident in ('ident', 'ab'):
                for acct in ('bob', 'alice'):
                    cid += 1
                    for l in ("C %s %d 10.0.0.1 6667" % (addr, 2000 + cid), "N %s" % host, "u %s" % ident, "n Nick%d" % cid, "U user :Real Name", "P :+x %s pw" % acct):
                        items.extend(L("%d %s" % (cid, l)))
                    for n_, t_ in svcs:
                        items.extend(L("-1 X %s %x_%%SER%d%% :OK %s" % (n_, cid, cid, acct)))
                    items.extend(L("%d H" % cid))
                    for n_, t_ in svcs:
                        items.extend(L("-1 X %s %x_%%SER%d%% :OK" % (n_, cid, cid)))
                    items.extend(L("%d D" % cid))
    return items

def staged_family():
    """a field of one rule goes through several values over consecutive reloads (added by one reload and edited in place by the next;
    present, removed, re-added, edited): the value in force is always that of the last file"""
    vals = {'username': ('ident', 'ab*'), 'hostname': ('host.example.org', 'a'), 'address': ('1.2.3.0/24', '10.0.0.0/8'), 'account': ('bob', 'alice'),
            'class': ('staff2', 'staff3'), 'trust': (True, False)}
    svcs = sorted_svcs([('login.svc', 'login')])
    out = []
    for f, (v1, v2) in vals.items():
        def tab(v, with_rule=True):
            r = dict(name='r100', trust=False); r['class'] = 'staff'
            if f != 'hostname': r['hostname'] = '*'
            if v is not None: r[f] = v
            rs = [dict(name='r200', trust=False, **{'class': 'users'})]
            if with_rule: rs.append(r)
            return sorted_rules(rs)
        for label, seq in (("added then edited", [tab(None), tab(v1), tab(v2)]),
                           ("edited twice", [tab(v1), tab(v2), tab(v1)]),
                           ("removed, re-added, edited", [tab(v1), tab(None), tab(v2), tab(v1)]),
                           ("rule added with the field, edited", [tab(None, False), tab(v1), tab(v2)]),
                           ("added, edited, removed", [tab(None), tab(v1), tab(v2), tab(None)])):
            out.append(([(svcs, r_) for r_ in seq], "field %s of rule r100: %s" % (f, label)))
    # the same for the service table: a service added by one reload has its protocol edited in place by the next one (and back)
    rules = sorted_rules([dict(name='r200', trust=False, **{'class': 'users'})])
    for t1 in TYPES:
        for t2 in TYPES:
            if t1 == t2: continue
            base = [('login.svc', 'login')]
            for label, seq in (("added then edited", [base, base + [('s1.x', t1)], base + [('s1.x', t2)]]),
                               ("removed, re-added, edited", [base + [('s1.x', t1)], base, base + [('s1.x', t2)], base + [('s1.x', t1)]])):
                out.append(([(sorted_svcs(sv), rules) for sv in seq], "service s1.x %s -> %s: %s" % (t1, t2, label)))
    return out

def sort_steps(steps):
    return [(sorted(l), n) for l, n in steps]

def run(chk):
    env = setup(chk, ["reloads are triggered through the guarded '-1 ! reload' hook in the quick tier and additionally by a real SIGUSR1 in the thorough tier"])
    if env is None: return
    drv, impl = env
    rng = chk.rng
    n = 300 if chk.tier == "quick" else 3000
    cases = []
    for seq, label in staged_family():
        pr = det_probes(seq[-1][0])
        reloaded = Scn(True, True, seq[0][0], seq[0][1], 0, [('R', s_, r_, 0) for s_, r_ in seq[1:]] + fix_serials(pr, 0), "staged: " + label)
        fresh = Scn(True, True, seq[-1][0], seq[-1][1], 0, fix_serials(pr, 0), "fresh daemon on the final file")
        cases.append((reloaded, fresh, len(seq) - 1)); chk.hist("edit:staged")
    for _ in range(n):
        svcs, rules = gen_tables(rng, dict(p_rules=0.8))
        stages = [(svcs, rules)]
        for k in range(rng.choice([1, 1, 2, 3])):
            kind, s2, r2 = edit_tables(rng, *stages[-1])
            chk.hist("edit:" + kind)
            stages.append((s2, r2))
        # reloaded daemon: some traffic on the first table (so that slots are referenced), then the reloads, then probes
        pre = gen_scn(rng, dict(maxlen=15, p_xq=1.0, p_class=1.0, ids=[1, 2, 3]), lambda *a: None)
        pre_items = []
        sh = Shadow(svcs, 0, True)
        for it in gen_scn(rng, dict(maxlen=12, p_xq=1.0, ids=[1, 2, 3]), lambda *a: None).items:
            toks = it[1].decode('latin1').split(' ')
            if len(toks) > 1 and toks[1] in ('X', 'x'): continue
            pre_items.append(it); sh.step(it[1].decode('latin1'))
        # finish or keep the early clients: both happen
        if rng.random() < 0.6:
            for cid in list(sh.live):
                pre_items.extend(L("%d D" % cid)); sh.step("%d D" % cid)
        pr = probes(rng, stages[-1][0], stages[-1][1])
        reloaded = Scn(True, True, svcs, rules, 0, pre_items + [('R', s_, r_, 0) for s_, r_ in stages[1:]] + fix_serials(pr, sh.serial), "reloaded through %d stage(s)" % (len(stages) - 1))
        fresh = Scn(True, True, stages[-1][0], stages[-1][1], 0, fix_serials(pr, 0), "fresh daemon on the final file")
        reloaded.omit_empty = fresh.omit_empty = rng.random() < 0.5      # an empty table may be written as an absent block
        cases.append((reloaded, fresh, len(pre_items) + len(stages) - 1))
    dr = run_daemons(impl, [c[0] for c in cases]); df = run_daemons(impl, [c[1] for c in cases])
    mr = run_model(drv, [c[0] for c in cases])
    distinct = set()
    import re as _re
    def norm(steps):
        # serials differ between the two daemons (the reloaded one has seen earlier clients): erase them
        return [(sorted(_re.sub(r"^(X \S+ [0-9a-f]+)_[0-9a-f]+ ", r"\1_S ", l) for l in ls), None) for ls, n_ in steps]
    for (rel, fr, k), d1, d2, m1 in zip(cases, dr, df, mr):
        if len(chk.violations) >= 4: break
        chk.cov["evaluations"] += 1
        got = norm(d1.steps[k:]); exp = norm(d2.steps)
        if d1.rc != 0 or d2.rc != 0:
            chk.violation("daemon exit status %s (reloaded) / %s (fresh): %s" % (d1.rc, d2.rc, (d1.stderr or d2.stderr)[-500:]), replay_text(rel, d1, m1), "reload-exit")
            continue
        if got != exp:
            i = next((j for j in range(min(len(got), len(exp))) if got[j] != exp[j]), min(len(got), len(exp)))
            chk.violation("after the reload a newly arriving client is treated differently from a freshly started daemon on the same file: probe step %d (%s): reloaded daemon %r, fresh daemon %r"
                          % (i, step_label(fr, i), got[i][0] if i < len(got) else None, exp[i][0] if i < len(exp) else None),
                          "reloaded daemon:\n%s\n\n%s\n\nfresh daemon:\n%s\n\n%s" % (rel.describe(), fmt_steps(rel, d1.steps), fr.describe(), fmt_steps(fr, d2.steps)), "reload-differs")
            continue
        if sort_steps(d1.steps) != sort_steps(m1):
            i = next((j for j in range(min(len(m1), len(d1.steps))) if sort_steps(d1.steps)[j] != sort_steps(m1)[j]), 0)
            chk.violation("model and daemon disagree on a history with reloads (step %d: daemon %r, model %r)" % (i, d1.steps[i] if i < len(d1.steps) else None, m1[i] if i < len(m1) else None), replay_text(rel, d1, m1), "corr:reload", found_input=False)
            continue
        chk.cov["traces_validated_against_impl"] += 1
        distinct.add(hash(str(got)))
    if chk.tier == "thorough":
        sigusr1(chk, impl, rng)
    chk.cov["distinct_nontrivial"] = len(distinct)
    chk.cov["samples"] = [cases[0][0].describe().split("\n")[:40]]
    chk.cov["rule"] = "(old, new) service and rule tables over every edit kind (add, remove, change protocol in place, change a rule field, add/remove rule, replace, unchanged, empty section), chains of 1-3 reloads with earlier clients holding references to slots; a staged family in which one field of one rule is added by one reload and edited in place by the next (also removed / re-added / edited, for each of six fields) probed by sixteen clients over the product of the tested values; afterwards probe clients exercise every service and rule; the reloaded daemon must answer exactly like a daemon started fresh on the final file (lines within a step compared as sets, serials erased); distinct = distinct probe conversations"

def sigusr1(chk, impl, rng):
    """the un-hooked path: a real SIGUSR1"""
    for _ in range(20):
        svcs, rules = gen_tables(rng, dict(p_rules=0.8))
        kind, s2, r2 = edit_tables(rng, svcs, rules)
        pr = fix_serials(probes(rng, s2, r2), 0)
        # the signal is handled by the event loop; the probes must not reach the daemon before it has been: a pause, and on a
        # disagreement one repetition with a much longer pause (a loaded machine), reported only if that disagrees as well
        r = sigusr1_once(chk, impl, svcs, rules, kind, s2, r2, pr, 0.5)
        if r is not None:
            r = sigusr1_once(chk, impl, svcs, rules, kind, s2, r2, pr, 4.0)
            if r is not None:
                chk.violation(*r); return

def sigusr1_once(chk, impl, svcs, rules, kind, s2, r2, pr, pause):
    if True:
        d = Path(tempfile.mkdtemp(dir=str(BUILD / "tmp"), prefix="u"))
        try:
            conf = d / "iauthd.conf"
            conf.write_text(conf_text(str(impl / "mods"), True, True, svcs, rules, 0), encoding="latin1")
            p = subprocess.Popen([str(impl / "iauthd-c"), "-n", "-f", str(conf)], stdin=subprocess.PIPE, stdout=subprocess.PIPE, stderr=subprocess.PIPE, env=SAN_ENV, cwd=str(d))
            p.stdin.write(MARK); p.stdin.flush()
            out = b""; t0 = time.time()
            while b"\ns\n" not in out and time.time() - t0 < 20:
                r, _, _ = select.select([p.stdout], [], [], 0.5)
                if r: out += os.read(p.stdout.fileno(), 65536)
            conf.write_text(conf_text(str(impl / "mods"), True, True, s2, r2, 0), encoding="latin1")
            p.send_signal(signal.SIGUSR1); time.sleep(pause)
            inp = b"".join(it[1] + b"\n" + MARK for it in pr)
            p.stdin.write(inp); p.stdin.close()
            out2 = p.stdout.read().decode('latin1'); p.stderr.read(); p.wait(timeout=30)
            steps, _ = split_steps(out2)
            fresh = run_daemon(impl, Scn(True, True, s2, r2, 0, pr))
            chk.cov["evaluations"] += 1
            a = [(sorted(l), None) for l, n in steps]; b = [(sorted(l), None) for l, n in fresh.steps]
            if a != b:
                return ("SIGUSR1 reload (%s): probes treated differently from a fresh daemon" % kind, "old %r %r\nnew %r %r\nreloaded: %r\nfresh: %r" % (svcs, rules, s2, r2, a, b), "sigusr1")
            return None
        finally:
            shutil.rmtree(d, ignore_errors=True)
