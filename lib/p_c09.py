"""C09: the server channel carries only well-formed, correctly addressed messages."""
import ipaddress, re
from iauth_common import *
PROFILE = dict(maxlen=40, p_good_reply=0.75)

WORD = r"[^ \n\r\0:][^ \n\r\0]*"
PATTERNS = [
    r"V :[^\n\r\0]*", r"a", r"s", r"A %s :[^\n\r\0]*" % WORD, r"S %s :[^\n\r\0]*" % WORD, r"O [A-Za-z]+", r"> :[^\n\r\0]*", r"G \d+",
    r"X %s %s :[^\n\r\0]*" % (WORD, WORD),
    r"[DdR] -?\d+ %s \d+( %s){0,2}" % (WORD, WORD),
    r"[kCM] -?\d+ %s \d+ :[^\n\r\0]*" % WORD,
    r"[oUuNI] -?\d+ %s \d+ %s" % (WORD, WORD),
]
RX = [re.compile(p, re.S) for p in PATTERNS]

def wf_line(l):
    # iauth_send formats every message into char msg[1024]: a single message is at most 1023 bytes
    return len(l) <= 1023 and any(r.fullmatch(l) for r in RX)

def canon_addr(text):
    """the 128-bit value an address text denotes; IPv4 and IPv4-compatible forms canonicalise to IPv4-mapped"""
    try:
        a = ipaddress.ip_address(text)
    except ValueError:
        return None
    if a.version == 4:
        return int(ipaddress.IPv6Address("::ffff:" + text))
    v = int(a)
    g = [(v >> (16 * (7 - i))) & 0xffff for i in range(8)]
    if g[0] == g[1] == g[2] == g[3] == g[4] == 0 and g[5] == 0 and g[6] != 0:
        g[5] = 0xffff
    return int("".join("%04x" % x for x in g), 16)

def monitor(scn, d):
    """every line after the banner start is one valid message; client messages carry the announced id, address and port"""
    announced = {}
    allsteps = [([], None)] * 0
    for l in d.banner:
        if not wf_line(l):
            return "start-up banner line %r is not a valid IAuth message" % l
    for i, it in enumerate(scn.items):
        if it[0] == 'L':
            toks = it[1].decode('latin1').split(' ')
            args = []
            for j, t in enumerate(toks[1:]):
                if t.startswith(':'): args.append(' '.join(toks[1 + j:])[1:]); break
                if t: args.append(t)
            try: cid = int(toks[0])
            except ValueError: cid = None
            if cid is not None and len(args) >= 5 and args[0][0] == 'C':
                try: port = int(args[2]) % 65536
                except ValueError: port = None
                announced[cid] = (canon_addr(args[1]), port, args[1])
        if i >= len(d.steps): break
        for l in d.steps[i][0]:
            if not wf_line(l):
                return "step %d (%s): %r is not a single syntactically valid IAuth message" % (i, step_label(scn, i), l)
            p = parse_line(l)
            if p[0] == 'C' and p[2] in announced:
                want, port, txt = announced[p[2]]
                if want is not None:
                    if p[3].startswith(':') or canon_addr(p[3]) != want:
                        return "step %d (%s): message %r carries address text %r, the server announced %r" % (i, step_label(scn, i), l, p[3], txt)
                    if port is not None and p[4] != port:
                        return "step %d (%s): message %r carries port %d, the server announced %d" % (i, step_label(scn, i), l, p[4], port)
    return None

def slow_reports(impl, result):
    """the lines that only appear with real time: requests pending for 10 s and more are listed by '? stats'.  One daemon, two
       pending clients, 10.6 s of silence, then every info request; EVERY line written (statistics included) must be a valid message.
       Runs in a thread beside the rest of the check."""
    d = Path(tempfile.mkdtemp(dir=str(BUILD / "tmp"), prefix="slow"))
    try:
        conf = d / "iauthd.conf"
        conf.write_text(conf_text(str(impl / "mods"), True, True, [('a.svc', 'login')], [dict(name='r1', **{'class': 'c1'})], 0), encoding="latin1")
        p = subprocess.Popen([str(impl / "iauthd-c"), "-n", "-f", str(conf)], stdin=subprocess.PIPE, stdout=subprocess.PIPE, stderr=subprocess.PIPE, env=SAN_ENV, cwd=str(d))
        p.stdin.write(b"5 C 10.0.0.1 4000 10.0.0.2 6667\n17 C 2001:db8::7 65535 10.0.0.2 6667\n17 P :+x acct pw\n-1 ? stats\n"); p.stdin.flush()
        time.sleep(10.6)
        p.stdin.write(b"-1 ? stats\n-1 ? stats2\n-1 ? config\n5 H\n17 D\n"); p.stdin.close()
        out = p.stdout.read().decode('latin1'); err = p.stderr.read().decode('latin1', 'replace')
        rc = p.wait(timeout=30)
        lines = out.split("\n")
        if lines and lines[-1] == "": lines.pop()
        bad = [l for l in lines if not wf_line(l)]
        result.update(rc=rc, lines=lines, bad=bad, err=err[-800:])
    except Exception as e:
        result.update(rc=-1, lines=[], bad=[], err="slow run failed: %r" % (e,))
    finally:
        shutil.rmtree(d, ignore_errors=True)

def run(chk):
    _impl0, _ = build_impl()
    _rt = start_realtime(_impl0) if _impl0 is not None else None
    import threading
    impl0, _ = build_impl()
    slow = {}
    th = None
    if impl0 is not None:
        th = threading.Thread(target=slow_reports, args=(impl0, slow)); th.start()
    r = standard_run(chk, PROFILE, 1500, 20000)
    if r is None:
        if th: th.join()
        return
    drv, impl, scns, ms, ds = r
    def proj(lines, n):
        return [l for l in lines]
    def judge(scn, i, dp, mp):
        if isinstance(dp, str): return None
        # same set of messages but different address / port text is ours; anything else belongs to C01-C06
        da = sorted((parse_line(l)[1:5] if parse_line(l)[0] == 'C' else ('-',)) for l in dp); ma = sorted((parse_line(l)[1:5] if parse_line(l)[0] == 'C' else ('-',)) for l in (mp or []))
        if [x[:2] for x in da] == [x[:2] for x in ma] and da != ma:
            return ("step %d (%s): client messages are addressed differently from the model: daemon %r, model %r" % (i, step_label(scn, i), dp, mp), True)
        return None
    analyse(chk, drv, impl, scns, ms, ds, project=proj, judge=judge, monitor=monitor, what="server channel: ", nontrivial=lambda scn, d: tuple(l for s in d.steps for l in s[0]) or None)
    # messages at the 1023-byte limit of the output buffer: every reply kind with texts around and beyond the limit
    lim = []
    for kind in ("MORE", "AGAIN", "NO"):
        for n in [980, 995, 1000, 1003, 1004, 1005, 1006, 1010, 1023, 1024, 1100, 3000]:
            lim.append(Scn(True, False, [('a.svc', 'login')], [], 0, L("7 C 10.1.2.3 4242 10.0.0.1 6667", "7 P :+x acct pw", "-1 X a.svc 7_1 :%s %s" % (kind, "z" * n), "7 H", "7 D"), "message length boundary"))
            chk.hist("length boundary")
    ml = run_model(drv, lim); dl = run_daemons(impl, lim)
    analyse(chk, drv, impl, lim, ml, dl, project=proj, judge=judge, monitor=monitor, what="server channel (buffer limit): ", nontrivial=lambda scn, d: tuple(len(l) for s_ in d.steps for l in s_[0]) or None)
    # announced addresses: every textual form; the echoed text must denote the announced address
    rng = chk.rng
    addr_scns = []
    for _ in range(60 if chk.tier == "quick" else 2000):
        items = []
        for cid in range(1, 9):
            g = [rng.choice([0, 0, 1, 0x10, 0x100, 0x1000, 0xffff, rng.randrange(65536)]) for _ in range(8)]
            if rng.random() < 0.25: g = [0, 0, 0, 0, 0, rng.choice([0, 0xffff]), rng.randrange(65536), rng.randrange(65536)]
            if g[0] == 0: g[0] = rng.choice([0x2001, 0x1, 0xfe80]) if rng.random() < 0.7 else 0
            form = rng.random()
            if form < 0.4: txt = ":".join("%x" % x for x in g)
            elif form < 0.7: txt = str(ipaddress.IPv6Address(int("".join("%04x" % x for x in g), 16)))
            elif form < 0.85: txt = "%d.%d.%d.%d" % (g[6] >> 8, g[6] & 255, g[7] >> 8, g[7] & 255)
            else: txt = ":".join("%04X" % x for x in g)
            if txt.startswith(":"): txt = "0" + txt
            items += L("%d C %s %d 10.0.0.1 6667" % (cid, txt, rng.choice([0, 1, 65535, 1024 + cid])), "%d H" % cid)
            chk.hist("address form")
        addr_scns.append(Scn(False, False, [], [], 0, items, "announced address forms"))
    ma = run_model(drv, addr_scns); da = run_daemons(impl, addr_scns)
    analyse(chk, drv, impl, addr_scns, ma, da, project=proj, judge=judge, monitor=monitor, what="server channel (address echo): ", nontrivial=lambda scn, d: tuple(l for s in d.steps for l in s[0]) or None)
    # logs-section variants and warning/error producing events: nothing but protocol lines may reach the channel
    logs_variants = ['logs { "*.*" "file:all.log" }\n', 'logs { "iauth.>=debug" ("file:a.log", "file:b.log"); "core.*" "file:c.log"; "bogus" "file:d.log"; verbose_timestamp false }\n',
                     'logs { "*.warning,error" "file:w.log"; "iauth_xquery.<=info" "file:x.log" }\n', None]
    noisy = []
    for lv in logs_variants:
        for k in range(4 if chk.tier == "quick" else 40):
            s = gen_scn(rng, dict(PROFILE, maxlen=25), chk.hist)
            extra = L("-1 ? nosuchrequest", "-1 ? config", "-1 ? stats", "-1 ?", "5 E a b", "-1 M server 100", "-1 X", "-1 X s0.x 1_1 :WEIRD reply")
            pos = rng.randrange(0, len(s.items) + 1)
            s.items = s.items[:pos] + extra + s.items[pos:]
            noisy.append((s, lv))
    dn = pmap(lambda x: run_daemon(impl, x[0], logs=x[1]), noisy)
    for (s, lv), d in zip(noisy, dn):
        if len(chk.violations) >= 4: break
        chk.cov["evaluations"] += 1; chk.hist("logs variant")
        bad = None
        for l in d.banner + [x for st in d.steps for x in st[0]] + [x for x in d.tail if x]:
            if not wf_line(l): bad = l; break
        if d.rc != 0:
            chk.violation("daemon exit status %s with logs section %r: %s" % (d.rc, lv, d.stderr[-400:]), s.describe() + "\nlogs: %r\n" % lv + d.raw, "logs-exit")
        elif bad is not None:
            chk.violation("with logs section %r the line %r reached the server channel; it is not a valid IAuth message" % (lv, bad), s.describe() + "\nlogs: %r\n\nstdout:\n" % lv + d.raw, "logs-leak")
        else:
            chk.cov["traces_validated_against_impl"] += 1
    # a failed reload (syntax error in the file) must not write to the channel either
    for k in range(3 if chk.tier == "quick" else 30):
        s = gen_scn(rng, dict(PROFILE, maxlen=12), chk.hist)
        chk.cov["evaluations"] += 1
        d = run_failed_reload(impl, s)
        bad = [l for l in d if l and not wf_line(l)]
        if bad:
            chk.violation("after a failed reload the line %r reached the server channel" % bad[0], s.describe() + "\n" + "\n".join(d), "reload-leak")
    if th:
        th.join()
        chk.cov["evaluations"] += 1; chk.hist("slow run: requests pending for more than 10 s, then every info request")
        if slow.get("rc") != 0 or slow.get("bad"):
            chk.violation("with two requests pending for more than 10 s, '? stats' / '? stats2' / '? config' make the daemon write %s" % (("lines that are not valid IAuth messages: %r" % slow["bad"][:4]) if slow.get("bad") else ("nothing usable: exit status %s, %s" % (slow.get("rc"), slow.get("err")))),
                          "input: 5 C 10.0.0.1 4000 10.0.0.2 6667 / 17 C 2001:db8::7 65535 10.0.0.2 6667 / 17 P :+x acct pw / -1 ? stats / (10.6 s pause) / -1 ? stats / -1 ? stats2 / -1 ? config / 5 H / 17 D\n\noutput:\n%s\n\nstderr:\n%s" % ("\n".join(slow.get("lines", [])), slow.get("err")), "slow-stats")
        else:
            chk.cov["traces_validated_against_impl"] += 1
    if _rt is not None: finish_realtime(chk, _rt, 'server channel: ')
    chk.cov["rule"] = "every stdout line of every run (banner included) is matched against the IAuth message grammar; every client-directed message is compared with the announced id / address (as a 128-bit value, IPv4-compatible canonicalised to IPv4-mapped) / port; all textual address forms; logs sections routing to files and '? nosuchrequest', '? config', malformed X, failed reload mixed in; distinct = distinct output traces"

def run_failed_reload(impl, scn):
    d = Path(tempfile.mkdtemp(dir=str(BUILD / "tmp"), prefix="f"))
    try:
        conf = d / "iauthd.conf"
        good = conf_text(str(impl / "mods"), scn.with_xq, scn.with_class, scn.svcs, scn.rules, scn.timeout, 'logs { "*.*" "file:all.log" }\n')
        conf.write_text(good, encoding="latin1")
        p = subprocess.Popen([str(impl / "iauthd-c"), "-n", "-f", str(conf)], stdin=subprocess.PIPE, stdout=subprocess.PIPE, stderr=subprocess.PIPE, env=SAN_ENV, cwd=str(d))
        p.stdin.write(MARK); p.stdin.flush()
        out = b""
        t0 = time.time()
        while b"\ns\n" not in out and time.time() - t0 < 20:
            r, _, _ = select.select([p.stdout], [], [], 0.5)
            if r:
                b = os.read(p.stdout.fileno(), 65536)
                if not b: break
                out += b
        conf.write_text(good + "\nthis is { not a valid ( file\n", encoding="latin1")
        inp = b"-1 ! reload\n" + b"".join(it[1] + b"\n" for it in scn.items if it[0] == 'L') + b"-1 ! reload\n"
        try:
            p.stdin.write(inp); p.stdin.close()
        except BrokenPipeError:
            pass
        out += p.stdout.read(); p.stderr.read(); p.wait(timeout=30)
        return out.decode('latin1').split("\n")
    finally:
        shutil.rmtree(d, ignore_errors=True)
