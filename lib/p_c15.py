"""C15: reload is deterministic - last good file plus defaults."""
from conf_common import *

TYPED_OK = {0: [b"v1", b"zz", b""], 1: [b"true", b"off", b"1", b"no"], 2: [b"10", b"-5", b"0x1f"], 4: [b"2h3m", b"1:2:3", b"10"], 5: [b"1K2", b"10", b"5B"]}

def gtree15(rng, regs, depth=0):
    """valid files only; values of registered typed strings are well-formed for their subtype (C16 covers the rejected ones)"""
    subs = {r[2].lower(): r[3] for r in regs if r[1] == 'str'}
    ents = []
    for _ in range(rng.randrange(0, 6)):
        name = rng.choice(NAMES); k = rng.random()
        key = name.decode().lower()
        if k < 0.45:
            sub = subs.get(key, 0) if depth == 0 else 0
            ents.append((name, STRING, rng.choice(TYPED_OK[sub]) if sub else rng.choice([b"v1", b"v2", b"zz", b"", b"a b", b"10"])))
        elif k < 0.6: ents.append((name, INADDR, (rng.choice([b"h1", b"H1", b"h2", b"::1"]), rng.choice([b"80", b"p", b"P"]))))
        elif k < 0.8: ents.append((name, LIST, [rng.choice([b"x", b"y", b"z"]) for _ in range(rng.randrange(0, 4))]))
        elif depth < 2: ents.append((name, OBJECT, gtree15(rng, [], depth + 1)))
    return ents

def key_of(n):
    return (fold(n["name"]), n["kind"])

def effective(n):
    """the effective value of a leaf, as the property means it (host/service pairs compare case-insensitively)"""
    if n["kind"] == STRING: return ("typed", n.get("typed")) if n.get("sub") else ("text", n["value"])
    if n["kind"] == INADDR: return tuple(fold(x) if x is not None else None for x in n["value"])
    if n["kind"] == LIST: return tuple(n["value"])
    return None

def walk(tree, prefix=b""):
    for n in tree:
        path = prefix + n["name"]
        yield path, n
        if n["kind"] == OBJECT:
            yield from walk(n["value"], path + b"/")

def hooks_oracle(before, after, hooks, registered):
    """hook log vs difference of the two dumps, for registered top-level nodes (the harness hooks exactly those)"""
    b = {key_of(n): n for n in before}; a = {key_of(n): n for n in after}
    fired = set()
    for h in hooks:
        m = re.match(r"HOOK (\d) (.*)$", h)
        if m and "/" not in m.group(2):
            fired.add((fold(m.group(2).encode("latin1")), int(m.group(1))))
    for key in registered:
        nb, na = b.get(key), a.get(key)
        if nb is None or na is None: continue
        if key[1] == OBJECT:
            changed = sorted(key_of(x) for x in nb["value"]) != sorted(key_of(x) for x in na["value"])
        else:
            changed = effective(nb) != effective(na)
        if changed and key not in fired:
            return "the effective value (or membership) of registered node %r changed (%r -> %r) but its hook did not run" % (na["name"], effective(nb) if key[1] != OBJECT else [x["name"] for x in nb["value"]], effective(na) if key[1] != OBJECT else [x["name"] for x in na["value"]])
        if not changed and key in fired and key[1] != OBJECT:
            return "the hook of %r ran although its effective value did not change (%r)" % (na["name"], effective(na))
    return None

def run(chk):
    env = conf_setup(chk)
    if env is None: return
    drv, impl = env
    rng = chk.rng
    quick = chk.tier == "quick"
    n = 800 if quick else 20000
    jobs = []     # (case_hist, case_fresh, regs, nloads)
    fixed = [
        ([('reg', 'list', 'l', ['d1'])], [b"l ();"], "D19: empty list in the file, non-empty default, registered after the load", 1),
        ([('reg', 'ina', 'h', 'dh', 'dp')], [b"x y;"], "D21: pair registered after a load that omits it", 1),
        ([('reg', 'str', 's', 0, None)], [b"s hello;", b"x y;"], "D17: registered string with null default reverts", 0),
        ([], [b"p q; r (a, b);", b"p q; r (a, b);"], "D18: identical content twice", 0),
        ([('reg', 'obj', 'o')], [b"o { a b; c d };", b"x y;"], "object block dropped entirely", 0),
        ([('reg', 'obj', 'o'), ('reg', 'str', 's', 4, '7')], [b"o { a b }; s 2h;", b"o { }; s 2h;", b's "1:0";'], "object emptied / typed change", 0),
    ]
    for regs, files, note, reg_at in fixed:
        jobs.append((regs, files, reg_at, note))
    for _ in range(n):
        regs = gen_regs(rng)
        # defaults of typed strings are well-formed for their subtype (an unparsable text keeps the previous value: C16's clause)
        okdef = {1: ["true", "0", "off"], 2: ["7", "0", "-3"], 4: ["7", "2h", "90"], 5: ["7", "1K", "0"]}
        regs = [(r[0], r[1], r[2], r[3], rng.choice(okdef[r[3]])) if r[1] == 'str' and r[3] in okdef else r for r in regs]
        # registering the same name twice with different kinds is legal; keep the first of each (name, kind)
        seen = set(); regs2 = []
        for r in regs:
            k = (r[2].lower(), r[1])
            if k not in seen: seen.add(k); regs2.append(r)
        regs = regs2
        nload = rng.randrange(1, 5)
        files = []
        for li in range(nload):
            data = render(rng, gtree15(rng, regs)) or b"\n"
            if files and rng.random() < 0.25: data = files[-1]; chk.hist("load:identical to previous")
            files.append(data); chk.hist("load:valid")
        jobs.append((regs, files, rng.randrange(0, nload + 1), ""))
    hist_cases = []; fresh_cases = []
    for regs, files, reg_at, note in jobs:
        items = []
        hookall = (note.startswith('D18') or (not note and len(files) > 1 and hash(files[0]) % 3 == 0))
        for li, f in enumerate(files):
            if li == reg_at: items += regs
            items.append(('load', f))
            if hookall and li == 0: items.append(('hookall',))
        if reg_at >= len(files): items += regs + [('dump',)]
        hist_cases.append(Case(items, note))
        fresh_cases.append(Case(list(regs) + [('load', files[-1])], "fresh process: registrations, then only the last file"))
    hh = run_harness(impl, hist_cases); hf = run_harness(impl, fresh_cases); mm = run_model(drv, hist_cases)
    distinct = set()
    for (regs, files, reg_at, note), ch, cf, (rc, lines, err), (rc2, lines2, err2), m in zip(jobs, hist_cases, fresh_cases, hh, hf, mm):
        if len(chk.violations) >= 4: break
        chk.cov["evaluations"] += 1
        why = None; found = True
        if rc != 0 or rc2 != 0:
            why = "memory error / abort (exit %s / %s): %s" % (rc, rc2, (err or err2)[-600:].replace("\n", " | "))
        else:
            segs = segments(lines)
            if any(s[-1] == "LOAD ERR" for s in segs):
                why = "a valid file was rejected (%r)" % [f for f in files][:2]
            else:
                final = [s for s in segs if s[-1] == "END"][-1]
                final_fresh = [s for s in segments(lines2) if s[-1] == "END"][-1]
                # names compare case-insensitively: the stored spelling (first one seen) is not part of the value
                def foldnames(ls):
                    return [re.sub(r'^( *)"((?:[^"\\]|\\x[0-9a-f]{2})*)"', lambda m_: m_.group(1) + '"' + m_.group(2).lower() + '"', l) for l in ls]
                if foldnames(final) != foldnames(final_fresh):
                    final, final_fresh = foldnames(final), foldnames(final_fresh)
                    k = next((j for j in range(min(len(final), len(final_fresh))) if final[j] != final_fresh[j]), 0)
                    why = "the configuration after the last load depends on history / registration point: got %r, a fresh process with the same registrations and only the last file has %r" % (final[k] if k < len(final) else None, final_fresh[k] if k < len(final_fresh) else None)
            if why is None:
                # identical content twice: nothing changes, nobody is notified; hooks fire exactly on effective change
                registered = set((fold(r[2].encode()), {'str': STRING, 'ina': INADDR, 'list': LIST, 'obj': OBJECT}[r[1]]) for r in regs)
                prev_dump = None; prev_file = None; li = 0; regs_done = False
                k = 0
                for it in ch.items:
                    seg = segs[k]; k += 1
                    if it[0] == 'reg' or it[0] == 'hookall':
                        regs_done = regs_done or it[0] == 'reg'; prev_dump = None if it[0] == 'reg' else prev_dump
                    elif it[0] == 'load':
                        load_seg = seg
                    elif it[0] == 'dump':
                        cur = strip_logs(parse_dump(seg))
                        if k >= 2 and ch.items[k - 2][0] == 'load':
                            f = ch.items[k - 2][1]
                            hooks = [l for l in load_seg if l.startswith("HOOK")]
                            if prev_dump is not None and prev_file == f and (hooks or cur != prev_dump):
                                why = "loading the same content twice %s (file %r)" % ("notified %r" % hooks[:3] if hooks else "changed the configuration", f)
                                break
                            if prev_dump is not None and regs_done:
                                why = hooks_oracle(prev_dump, cur, hooks, registered)
                                if why: break
                            prev_file = f
                        prev_dump = cur
        if why is None and lines != m:
            k = next((j for j in range(min(len(lines), len(m))) if lines[j] != m[j]), min(len(lines), len(m)))
            why = "src/config.c and the Coq model of the live tree disagree at output line %d: implementation %r, model %r" % (k, lines[k] if k < len(lines) else None, m[k] if k < len(m) else None); found = False
        if why:
            chk.violation(why, "script (%s):\n%s\n\nimplementation:\n%s\n\nfresh process:\n%s\n%s\n\nmodel:\n%s\n%s" % (note, ch.describe(), "\n".join(lines), cf.describe(), "\n".join(lines2), "\n".join(m), err[-1500:]), "merge:" + why[:50], found_input=found)
            continue
        chk.cov["traces_validated_against_impl"] += 1
        distinct.add(hash(tuple(lines)))
    chk.cov["distinct_nontrivial"] = len(distinct)
    chk.cov["samples"] = [hist_cases[0].describe().split("\n"), hist_cases[len(fixed) + 1].describe().split("\n")[:14]]
    chk.cov["rule"] = "sequences of 1-4 valid files over a small universe of names and all four node kinds (nested objects, typed strings with well-formed values), registration sets placed before, between or after the loads, identical content repeated. Oracles independent of the model: (1) the final dump equals that of a fresh process with the same registrations and only the last file; (2) the same content twice notifies nobody and changes nothing; (3) for registered top-level nodes the hook ran iff the effective value / membership differs between the dumps. Plus equality with the model's dump and hook log. Distinct = distinct output traces."
