"""C14: config parsing is total and a failed load changes nothing (partial: memory ownership observed with ASan)."""
from conf_common import *

def gen_case(rng, hist):
    regs = gen_regs(rng)
    items = []
    reg_at = rng.randrange(0, 3); nload = rng.randrange(2, 6)
    files = []
    good = []
    for li in range(nload):
        if li == reg_at: items += regs
        data = render(rng, gtree(rng, 0))
        k = rng.random()
        if k < 0.35 and good:
            base = rng.choice(good)
            data = corrupt(rng, base); hist("load:corrupted")
        elif k < 0.45 and files:
            data = files[-1]; hist("load:repeat")
        elif k < 0.5:
            data = rng.choice([b"", b"\0", b"\0abc", b"{", b"}", b"a", b"a ", b"a b", b"a b c d;", b"a (", b"a (b", b"a (b,", b"a {", b"a { b c", b'a "x', b'a "x\\', b"a b,", b"a /*", b"a //", b"/", b"a b; }", b"a b\n}\n"]); hist("load:edge")
        else:
            good.append(data); hist("load:valid")
        files.append(data)
        items.append(('load', data)); items.append(('dump',))
    if reg_at >= nload:
        items += regs; items.append(('dump',))
    return Case(items)

def truncation_cases(rng, n, hist):
    """a valid file truncated at EVERY byte, each applied on top of a previously loaded configuration"""
    out = []
    # fixed file first: every kind of entry defined twice (quoted tokens, escapes, a comment between the tokens), at top level and
    # inside an object - an error can then fall inside each token of a SECOND definition, whose first one has already been stored
    fixed = (b'h "hostA" "svcA";\nh "hostB" /* c */ "svc\\x42";\nl (a, "b");\nl ("c", "d\\n", e);\ns "x";\ns "y\\"z";\nm p, "q";\nm "r", s\n'
             b'o { k v; h2 "a" "b"; };\no { k "w"; k2 (p, "q"); k2 ("r"); h2 "c" "d"; k "again" };\n')
    for prior in (fixed, b'h x y;\no { h2 x y; k (z) };\n', None):
        for k in range(len(fixed) + 1):
            pre = [('load', prior), ('dump',)] if prior is not None else []
            out.append(Case(pre + [('load', fixed[:k]), ('dump',), ('load', fixed), ('dump',)], "fixed file with repeated keys truncated at byte %d" % k)); hist("load:repeated-keys-truncated-at-every-byte")
    for _ in range(n):
        regs = gen_regs(rng)
        a = render(rng, gtree(rng, 0)); b = render(rng, gtree(rng, 0))
        for k in range(len(b) + 1):
            out.append(Case(regs + [('load', a), ('dump',), ('load', b[:k]), ('dump',), ('load', a), ('dump',)], "truncation at byte %d" % k)); hist("load:truncated-at-every-byte")
    return out

def failed_load_oracle(case, segs):
    """independent of the model: a load that reports an error must leave dump and hook log untouched"""
    last_dump = None; pending = None
    i = 0
    for it, seg in zip(case.items, segs):
        if it[0] == 'load':
            if seg[-1] == "LOAD ERR":
                if any(l.startswith("HOOK") for l in seg):
                    return "a load that reported an error delivered change notifications: %r" % [l for l in seg if l.startswith("HOOK")][:3]
                pending = last_dump
            else:
                pending = None
        elif it[0] == 'reg':
            last_dump = None          # a registration legitimately changes the tree
        elif it[0] == 'dump':
            if i > 0 and case.items[i - 1][0] == 'load' and pending is not None and seg != pending:
                d = next((j for j in range(min(len(seg), len(pending))) if seg[j] != pending[j]), 0)
                return "a load that reported an error changed the live configuration: before %r, after %r" % (pending[d] if d < len(pending) else None, seg[d] if d < len(seg) else None)
            last_dump = seg
        i += 1
    return None

def run(chk):
    env = conf_setup(chk)
    if env is None: return
    drv, impl = env
    rng = chk.rng
    quick = chk.tier == "quick"
    cases = [Case([('load', b'x "::1" 80\n'), ('dump',), ('load', b'x "::1" 80\n'), ('dump',), ('load', b'x "::1" 80\n'), ('dump',)], "D8: third load of a host/service pair"),
             Case([('reg', 'ina', 'x', 'dh', 'dp'), ('load', b'x h p;'), ('load', b'x h p;'), ('load', b'{'), ('load', b'x h2 p2;'), ('dump',)], "D8 with registration")]
    cases += [gen_case(rng, chk.hist) for _ in range(400 if quick else 12000)]
    cases += truncation_cases(rng, 4 if quick else 60, chk.hist)
    hs = run_harness(impl, cases)
    ms = run_model(drv, cases)
    distinct = set()
    for case, (rc, lines, err), m in zip(cases, hs, ms):
        if len(chk.violations) >= 4: break
        chk.cov["evaluations"] += 1
        why = None; found = True
        if rc != 0:
            why = "reading a configuration file ended in a memory error or abort (exit status %s): %s" % (rc, err[-900:].replace("\n", " | "))
        else:
            segs = segments(lines)
            if len(segs) != len(case.items):
                why = "harness produced %d answers for %d commands" % (len(segs), len(case.items))
            else:
                why = failed_load_oracle(case, segs)
        if why is None and lines != m:
            k = next((j for j in range(min(len(lines), len(m))) if lines[j] != m[j]), min(len(lines), len(m)))
            why = "src/config.c and the Coq model disagree at output line %d: implementation %r, model %r" % (k, lines[k] if k < len(lines) else None, m[k] if k < len(m) else None); found = False
        if why:
            def fails(c2):
                r2 = run_harness(impl, [c2])[0]
                if rc != 0: return r2[0] != 0
                s2 = segments(r2[1])
                if found: return r2[0] == 0 and len(s2) == len(c2.items) and failed_load_oracle(c2, s2) is not None
                return r2[0] == 0 and r2[1] != run_model(drv, [c2])[0]
            small = minimise_case(case, fails)
            r2 = run_harness(impl, [small])[0]; m2 = run_model(drv, [small])[0]
            chk.violation(why, "script (%s):\n%s\n\nimplementation (exit %s):\n%s\n\nmodel:\n%s\n\nstderr:\n%s" % (small.note, small.describe(), r2[0], "\n".join(r2[1]), "\n".join(m2), r2[2][-2000:]), "conf:" + why[:50], found_input=found)
            continue
        chk.cov["traces_validated_against_impl"] += 1
        distinct.add(hash(tuple(lines)))
    # nesting depth: objects may be nested CONF_MAX_DEPTH (64) deep; deeper files - however deep - must be REPORTED as bad files
    # (no stack exhaustion in the parser, the merge or the clean-up) and leave the configuration untouched (D28)
    dcases = []
    for k in (200000, 1, 63, 64, 65, 66, 500, 20000):
        deep = b"a{" * k + b" x y; " + b"}" * k + b"\n"
        dcases.append((k, Case([('reg', 'str', 'keep', 0, 'd0'), ('load', b'keep v1; o { p q }\n'), ('dump',), ('load', deep), ('dump',), ('load', b"a{" * k), ('dump',)], "objects nested %d deep" % k)))
        chk.hist("load:nesting depth")
    # many objects NEXT to each other are not deep: 70 siblings at top level, and 70 siblings inside 63 levels (the depth counter must
    # go down again when an object is closed)
    flat = b"".join(b"o%d { a b }\n" % i for i in range(70))
    inner = b"a{" * 63 + b"".join(b" q%d { x y }; " % i for i in range(70)) + b"}" * 63 + b"\n"
    for lbl, txt in ((-70, flat), (-63, inner)):
        dcases.append((lbl, Case([('reg', 'str', 'keep', 0, 'd0'), ('load', b'keep v1; o { p q }\n'), ('dump',), ('load', txt), ('dump',), ('load', txt[:len(txt) // 2]), ('dump',)], "seventy sibling objects (%s)" % ("top level" if lbl == -70 else "63 levels down"))))
        chk.hist("load:sibling objects")
    # (the extracted model is not tail recursive over the input text: the 400 KB file is judged by the oracle alone)
    dm_ = iter(run_model(drv, [c for k_, c in dcases if k_ <= 20000]))
    dmodel = [next(dm_) if k_ <= 20000 else None for k_, c in dcases]
    for (k, case), (rc, lines, err), m in zip(dcases, run_harness(impl, [c for _, c in dcases]), dmodel):
        if len(chk.violations) >= 4: break
        chk.cov["evaluations"] += 1
        why = None; found = True
        if rc != 0:
            why = "a configuration file with objects nested %d deep ended in a memory error or abort (exit status %s): %s" % (k, rc, err[-600:].replace("\n", " | "))
        else:
            segs = segments(lines)
            if len(segs) != len(case.items): why = "harness produced %d answers for %d commands" % (len(segs), len(case.items))
            else:
                why = failed_load_oracle(case, segs)
                ok = [x for sg in segs for x in sg if x.startswith("LOAD")]
                if why is None and len(ok) >= 2 and (ok[1] == "LOAD OK") != (k <= 64):
                    why = ("objects nested %d deep: the load %s (the limit is 64)" % (k, "succeeded" if ok[1] == "LOAD OK" else "was refused")) if k > 0 else "a file with seventy sibling objects, none nested more than 64 deep, was refused" 
        if why is None and m is not None and lines != m:
            why = "src/config.c and the Coq model disagree on a file with objects nested %d deep" % k; found = False
        if why:
            chk.violation(why, "script: register 'keep', load a small file, then load %d times 'a{' + ' x y; ' + %d times '}', then %d times 'a{' alone\n\nimplementation (exit %s):\n%s\n\nstderr:\n%s" % (k, k, k, rc, "\n".join(lines[:40]), err[-1500:]), "conf:depth:%d" % k, found_input=found)
            continue
        chk.cov["traces_validated_against_impl"] += 1
    chk.cov["distinct_nontrivial"] = len(distinct)
    chk.cov["samples"] = [cases[0].describe().split("\n"), cases[5].describe().split("\n")[:12]]
    chk.cov["rule"] = "scripts of registrations and 2-5 loads: valid files (all four node kinds, nesting, comments, both list forms), the same file corrupted (truncated, bit flipped, random bytes), edge files (empty, NUL-leading, unterminated strings / lists / objects / comments), repeats; every valid file truncated at EVERY byte applied on top of a loaded configuration, among them a fixed file in which every kind of entry is defined twice (so that an error falls inside each token of a second definition). Oracle independent of the model: after a load that reports an error the dump is identical and no hook fired; exit status 0 under ASan/UBSan; plus equality with the model's prediction. Distinct = distinct output traces."
