"""C18: log routing follows the logs section."""
import glob, re
from common import *
import tempfile, shutil

SEV = ["debug", "command", "info", "warning", "error", "fatal"]
FACS = ["fa", "fb", "core"]

def parse_name(name):
    """the documented meaning of '<facility>.<severity set>' (names, comma lists, < <= = >= > ranges, *); None = unknown syntax"""
    if "." not in name: return None
    fac, sep = name.split(".", 1)
    ss = set()
    if sep == "*": return fac.lower(), set(range(6))
    while sep is not None and sep != "":
        if "," in sep: cur, sep = sep.split(",", 1)
        else: cur, sep = sep, None
        op = 0
        if cur.startswith(">"):
            cur = cur[1:]
            if cur.startswith("="): op = 1; cur = cur[1:]
            else: op = 2
        elif cur.startswith("<"):
            cur = cur[1:]
            if cur.startswith("="): op = 3; cur = cur[1:]
            else: op = 4
        elif cur.startswith("="): cur = cur[1:]
        if cur.lower() not in SEV: return None
        v = SEV.index(cur.lower())
        if op in (0, 1, 3): ss.add(v)
        if op in (1, 2): ss |= set(range(v + 1, 6))
        if op in (3, 4): ss |= set(range(0, v))
    return fac.lower(), ss

def route(section):
    r = {}
    for name in sorted(section, key=lambda n: n.lower().encode("latin1")):
        p = parse_name(name)
        if p is None: continue
        fac, ss = p
        for s in ss: r.setdefault((fac, s), []).extend(section[name])
    return r

def gen_name(rng):
    fac = rng.choice(["fa", "fb", "core", "*", "FA", "zz", "Core"])
    k = rng.random()
    if k < 0.1: return fac + ".*"
    if k < 0.2: return rng.choice(["nodot", fac + ".bogus", fac + ".info,*", fac + ".>>info", fac + ".info;error", fac + ".inf", fac + ".=>info", fac + ". info"])
    items = []
    for _ in range(rng.randrange(1, 4)):
        items.append(rng.choice(["", "=", ">", ">=", "<", "<="]) + rng.choice(SEV + ["INFO", "Warning"]))
    return fac + "." + ",".join(items)

def gen_section(rng):
    sec = {}
    for _ in range(rng.randrange(0, 6)):
        nm = gen_name(rng)
        if any(nm.lower() == k.lower() for k in sec): continue
        sec[nm] = [rng.choice(["f1", "f2", "f3"]) for _ in range(rng.randrange(1, 3))]
    return sec

def section_text(rng, sec, d):
    t = "logs {\n"
    for k, v in sec.items():
        if len(v) == 1 and rng.random() < 0.7: t += ' "%s" "file:%s/%s"\n' % (k, d, v[0])
        else: t += ' "%s" (%s)\n' % (k, ", ".join('"file:%s/%s"' % (d, x) for x in v))
    t += rng.choice(["", " verbose_timestamp false\n", " verbose_timestamp true\n"])
    return t + "}\nother x\n"

def run_case(impl, rng_seed, sections):
    import random
    rng = random.Random(rng_seed)
    d = tempfile.mkdtemp(dir=str(BUILD / "tmp"), prefix="l")
    try:
        script = []
        for st, sec in enumerate(sections):
            fn = os.path.join(d, "c%d.conf" % st)
            if sec == "BROKEN":
                open(fn, "w").write("logs { \"fa.*\" \"file:%s/f1\" \n" % d)     # syntax error: the reload fails, routing must stay
            else:
                open(fn, "w").write(section_text(rng, sec, d))
            script += ["load " + fn, "emit T%d" % st]
        try:
            p = subprocess.run(["timeout", "-s", "KILL", "60", str(impl / "h_log")], input=("\n".join(script) + "\n").encode(), stdout=subprocess.PIPE, stderr=subprocess.PIPE, env=dict(SAN_ENV, ASAN_OPTIONS="detect_leaks=0:exitcode=99"), timeout=90, cwd=d)
        except subprocess.TimeoutExpired:
            return -9, {}, "TIMEOUT", []
        got = {}; bad_lines = []
        for dest in ("f1", "f2", "f3"):
            pth = os.path.join(d, dest)
            if os.path.exists(pth):
                for l in open(pth, encoding="latin1").read().split("\n"):
                    if not l: continue
                    m = re.fullmatch(r"(?:\[[^\]\n]*\] )?\(([^:()]+):([a-z]+)\) (.*)", l)     # optional time stamp (its format is not part of the property)
                    if not m:
                        bad_lines.append((dest, l)); continue
                    if m.group(1) in FACS and re.fullmatch(r"T\d+ \S+ \d", m.group(3)):
                        got.setdefault(dest, []).append("(%s:%s) %s" % m.groups())
        return p.returncode, got, p.stderr.decode(errors="replace")[-1200:], bad_lines
    finally:
        shutil.rmtree(d, ignore_errors=True)

def expected(sections):
    exp = {}
    cur = {}
    for st, sec in enumerate(sections):
        if sec != "BROKEN": cur = sec
        r = route(cur)
        for fac in FACS:
            for s in range(5):
                for dd in r.get((fac, s), []) + r.get(("*", s), []):
                    exp.setdefault(dd, []).append("(%s:%s) T%d %s %d" % (fac, SEV[s], st, fac, s))
    return exp

def run(chk):
    ps = chk.proofs()
    chk.cov["trusted_base"] = TRUSTED_BASE_COMMON + ["the C harness h_log.c linked with /repo/src/log.c and config.c unmodified; destinations are files in a scratch directory",
                                                    "the default_target mechanism of log types is not exercised (the daemon registers every type without one)"]
    impl, ierr = build_impl()
    if impl is None:
        print(ierr); sys.exit(2)
    if ps["errors"]:
        chk.violation(proof_violation_text(ps), proof_violation_text(ps), "proof:" + ps["file"], found_input=False)
    drv = None
    if (OCAML / "drv_log.ml").exists():
        drv, err = ensure_ocaml("drv_log", "Extract_log.v", "drv_log.ml", "log_model")
        if drv is None:
            chk.violation("extraction/driver build failed: " + err, err, "extract", found_input=False)
    (BUILD / "tmp").mkdir(exist_ok=True)
    rng = chk.rng
    n = 250 if chk.tier == "quick" else 8000
    cases = []
    fixed = [[{"core.>=warning": ["f1"], "*.info,error": ["f2"], "fa.*": ["f3", "f1"], "bogus": ["f2"], "fb.<=command": ["f3"]}],
             [{"fa.info": ["f1", "f2"]}, {"fa.info": ["f1"]}, {"fa.info": []}],            # a list shrinking by its tail (needs the list hook)
             [{"fa.*": ["f1"]}, {"fa.*": ["f1"]}, {"fb.*": ["f1"]}],
             [{"fa.*": ["f1"]}, "BROKEN", {"fa.debug": ["f2"]}],
             [{"FA.Error": ["f1"], "fb.error": ["f2"]}]]
    for f in fixed: cases.append(f)
    for _ in range(n):
        secs = []
        for st in range(rng.randrange(1, 5)):
            r = rng.random()
            if secs and r < 0.15 and secs[-1] != "BROKEN": secs.append(dict(secs[-1])); chk.hist("reload:identical")
            elif secs and r < 0.35 and secs[-1] != "BROKEN":
                # a small edit of the previous section: drop a destination from the tail of a list, change one entry, remove one
                s2 = {k: list(v) for k, v in secs[-1].items()}
                if s2:
                    k = rng.choice(list(s2)); e = rng.random()
                    if e < 0.4 and len(s2[k]) > 0: s2[k] = s2[k][:-1]; chk.hist("reload:list tail dropped")
                    elif e < 0.7: s2[k] = [rng.choice(["f1", "f2", "f3"])]; chk.hist("reload:entry changed")
                    else: del s2[k]; chk.hist("reload:entry removed")
                secs.append(s2)
            elif secs and r < 0.42: secs.append("BROKEN"); chk.hist("reload:failed")
            else: secs.append(gen_section(rng)); chk.hist("section:new")
        cases.append(secs)
    seeds = [rng.randrange(1 << 30) for _ in cases]
    res = pmap(lambda x: run_case(impl, x[0], x[1]), list(zip(seeds, cases)))
    distinct = set()
    for secs, (rc, got, err, bad_lines) in zip(cases, res):
        if len(chk.violations) >= 4: break
        chk.cov["evaluations"] += 1
        exp = expected(secs)
        why = None
        if rc != 0:
            why = "log.c harness exit status %s: %s" % (rc, err[-500:].replace("\n", " | "))
        elif bad_lines:
            why = "a line written to %s is not complete / not attributed to a facility and severity: %r" % bad_lines[0]
        else:
            for dest in ("f1", "f2", "f3"):
                e = sorted(exp.get(dest, [])); g = sorted(got.get(dest, []))
                if e != g:
                    missing = [x for x in e if x not in g][:3]; extra = [x for x in g if x not in e][:3]
                    why = "destination %s: %s" % (dest, ("missing %r " % missing if missing else "") + ("unexpected %r" % extra if extra else "") or "multiplicity differs: expected %r got %r" % (e[:6], g[:6]))
                    break
        if why:
            chk.violation("log routing does not follow the logs section: " + why, "sections loaded in order (name -> destinations; BROKEN = a file with a syntax error):\n%s\n\nexpected per destination: %r\n\ngot: %r\n%s" % ("\n".join(repr(s) for s in secs), exp, got, err), "log:" + why[:50])
            continue
        chk.cov["traces_validated_against_impl"] += 1
        distinct.add(hash(str(sorted((k, tuple(v)) for k, v in got.items()))))
    # the Coq model's routing tables must agree with the documented meaning computed here (and hence with log.c)
    if drv is not None:
        lines = []
        flat = [s for secs in cases for s in secs if s != "BROKEN"]
        for sec in flat:
            ents = sorted(sec.items(), key=lambda kv: kv[0].lower().encode("latin1"))
            lines.append("SEC\t" + "\t".join("%s=%s" % (k, ",".join(v)) for k, v in ents))
        out = subprocess.run([str(drv)], input=("\n".join(lines) + "\n").encode("latin1"), stdout=subprocess.PIPE, timeout=600).stdout.decode("latin1").split("\n")[:-1]
        for sec, o in zip(flat, out):
            r = route(sec)
            exp_tab = ";".join("%s.%d=%s" % (fac, s, ",".join(r.get((fac, s), []) + r.get(("*", s), []))) for fac in FACS for s in range(5))
            if o != exp_tab:
                chk.violation("the Coq log model disagrees with the routing observed for section %r" % (sec,), "section %r\nmodel: %s\nexpected (= what log.c did): %s" % (sec, o, exp_tab), "corr:log", found_input=False)
                break
    chk.cov["distinct_nontrivial"] = len(distinct)
    chk.cov["samples"] = [repr(cases[0]), repr(cases[len(fixed) + 1])[:500]]
    chk.cov["rule"] = "logs sections over facilities fa, fb, core, * (mixed case) with severity expressions (names, comma lists, < <= = >= >, *), unknown syntax entries, 3 destination files, single and list values; sequences of 1-4 loads with identical reloads, small edits (list tail dropped, entry changed/removed), failed reloads; after each load one message per facility x severity (debug..error). Oracle written from the property text (python): the set of lines in every destination file must be exactly the routed ones, each line complete and attributed. Distinct = distinct file contents."
