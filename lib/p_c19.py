"""C19: the set container is an ordered map for every history."""
import subprocess, time
from common import *

CORPUS = [
    # D7 witness: comparator overflow made extreme ids unreachable
    ["ins 2147483647", "ins -2", "ins 5", "find 2147483647", "find -2", "find 5", "lower -2147483648", "show"],
    ["ins -2147483648", "ins 2147483647", "ins 0", "ins 1", "find -2147483648", "lower 2147483646", "rem 2147483647 0", "rem -2147483648 1", "show"],
    ["ins 5", "ins 3", "ins 8", "ins 5", "find 3", "lower 4", "lower 9", "rem 5 0", "rem 5 0", "show", "clear 0", "show"],
    ["ins 1", "ins 2", "ins 3", "clear 1", "show", "ins 2", "show"],
]

def gen_random(rng, ncases, hist):
    cases = []
    for _ in range(ncases):
        U = rng.choice([3, 5, 7, 20, 200])
        mode = rng.random()
        if mode < 0.2:
            keys = [rng.randrange(-2**31, 2**31) for _ in range(U)]
            hist("keys:random-int32")
        elif mode < 0.3:
            keys = [2**31 - 1, -2**31, -1, 0, 1, 2**31 - 2, -2**31 + 1, -2, 2, 2**30, -2**30][:max(3, min(U, 11))]
            hist("keys:extreme")
        else:
            keys = list(range(U))
            hist("keys:small-universe-%d" % U)
        cmds = []
        for _ in range(rng.randrange(1, 150)):
            k = rng.choice(keys); o = rng.random()
            if o < 0.4: cmds.append("ins %d" % k); hist("op:ins")
            elif o < 0.55: cmds.append("find %d" % k); hist("op:find")
            elif o < 0.65: cmds.append("lower %d" % k); hist("op:lower")
            elif o < 0.9: cmds.append("rem %d %d" % (k, int(rng.random() < 0.3))); hist("op:rem")
            elif o < 0.93: cmds.append("clear %d" % int(rng.random() < 0.3)); hist("op:clear")
            if rng.random() < 0.3: cmds.append("show")
        cmds.append("show")
        cases.append(cmds)
    return cases

def split_cases(text):
    """split output at 'reset' lines"""
    out, cur = [], []
    for l in text.split("\n"):
        if l == "reset":
            out.append(cur); cur = []
        elif l:
            cur.append(l)
    out.append(cur)
    return out[1:]

def run_script(exe, args, script, env=None):
    try:
        r = subprocess.run(["timeout", "-s", "KILL", "10", str(exe)] + args, input=script.encode(), stdout=subprocess.PIPE, stderr=subprocess.PIPE, timeout=40, env=env)
    except subprocess.TimeoutExpired:
        return -9, "", "TIMEOUT (hang)"
    return r.returncode, r.stdout.decode(errors="replace"), r.stderr.decode(errors="replace")

def noshape(lines):
    return [l for l in lines if not l.startswith("shape ")]

def minimise(case, fails):
    """greedy delta: drop one line at a time while the failure persists"""
    cur = list(case)
    changed = True; budget = 40
    while changed and len(cur) > 1 and budget > 0:
        changed = False
        for i in range(len(cur) - 1, -1, -1):
            cand = cur[:i] + cur[i + 1:]
            budget -= 1
            if budget <= 0: break
            if cand and fails(cand):
                cur = cand; changed = True
    return cur

def run(chk):
    ps = chk.proofs()
    chk.cov["trusted_base"] = TRUSTED_BASE_COMMON + ["modelled, not verified: pointer manipulation and memory release inside set.c (observed through the structural audit and ASan only)"]
    drv, err = ensure_ocaml("drv_set", "Extract_set.v", "drv_set.ml", "set_model")
    impl, ierr = build_impl()
    if impl is None:
        print(ierr); sys.exit(2)
    if ps["errors"]:
        chk.violation(proof_violation_text(ps), proof_violation_text(ps), "proof:" + ps["file"], found_input=False)
    if drv is None:
        chk.violation("extraction/driver build failed: " + err, err, "extract", found_input=False)
        return
    quick = chk.tier == "quick"
    U = 5 if quick else 7
    nrand = 1500 if quick else 40000
    # 1. corpus + random sequences
    cases = [list(c) for c in CORPUS] + gen_random(chk.rng, nrand, chk.hist)
    script = "".join("reset\n" + "\n".join(c) + "\n" for c in cases)
    # 2. complete exploration of reachable shapes over U keys
    rc, escript, eerr = run_script(drv, ["explore", str(U)], "")
    chk.notes.append("explore %d: %s" % (U, eerr.strip()))
    chk.cov["exhaustive"] = True
    chk.cov["exhaustive_scope"] = "every reachable (tree shape, key subset) over %d keys x every operation on every key (model-guided breadth-first search; the implementation replays the path)" % U
    import re as _re
    m = _re.search(r"states=(\d+) transitions=(\d+)", eerr)
    if m:
        chk.cov["states"], chk.cov["transitions"] = int(m.group(1)), int(m.group(2))
    full = script + escript
    ecases = [c.split("\n") for c in escript.split("reset\n")[1:]]
    ecases = [[l for l in c if l] for c in ecases]
    allcases = cases + ecases
    parts = chunks(allcases, NCPU)
    def work(part):
        sc = "".join("reset\n" + "\n".join(c) + "\n" for c in part)
        a = run_script(impl / "h_set", [], sc, env=SAN_ENV)
        b = run_script(drv, ["run"], sc)
        return part, a, b
    shape_same = shape_tot = 0
    distinct = set()
    for part, a, b in pmap(work, parts):
        ia, ib = split_cases(a[1]), split_cases(b[1])
        if a[0] != 0 or len(ia) != len(part):
            # find the crashing / hanging case: output is line buffered, so it is the last case that started (try it and its neighbour first)
            if len(chk.violations) >= 3:
                continue
            k = max(0, len(ia) - 1)
            order = [part[i] for i in (k, k + 1) if i < len(part)] + [c for i, c in enumerate(part) if i not in (k, k + 1)][:40]
            for c in order:
                sc = "reset\n" + "\n".join(c) + "\n"
                ra = run_script(impl / "h_set", [], sc, env=SAN_ENV)
                if ra[0] != 0:
                    hang = ra[0] in (-9, 137, -137)
                    # a hang costs the full time limit per attempt: shrink only by halving in that case
                    if hang:
                        mc = list(c)
                        while len(mc) > 2:
                            half = mc[:len(mc) // 2 + 1]
                            if run_script(impl / "h_set", [], "reset\n" + "\n".join(half) + "\n", env=SAN_ENV)[0] != 0: mc = half
                            else: break
                    else:
                        mc = minimise(c, lambda cand: run_script(impl / "h_set", [], "reset\n" + "\n".join(cand) + "\n", env=SAN_ENV)[0] != 0)
                    chk.violation("set.c harness %s (exit %d) on an operation sequence: %s" % ("did not terminate within 10 s" if hang else "aborted", ra[0], ra[2][-400:]), "\n".join(mc), "crash")
                    break
            continue
        for c, xa, xb in zip(part, ia, ib):
            chk.cov["evaluations"] += 1
            if any(l.startswith("audit") and l != "audit 0" for l in xa) or "BADPREV" in " ".join(xa):
                pass
            sa = [l for l in xa if l.startswith("shape ")]; sb = [l for l in xb if l.startswith("shape ")]
            shape_tot += 1; shape_same += (sa == sb)
            if sa:
                distinct.add(sa[-1] + "|" + " ".join(x.split()[0] for x in c[-3:]))
            if noshape(xa) != noshape(xb):
                def fails(cand):
                    sc = "reset\n" + "\n".join(cand) + "\n"
                    ra = run_script(impl / "h_set", [], sc, env=SAN_ENV); rb = run_script(drv, ["run"], sc)
                    return ra[0] != 0 or noshape(split_cases(ra[1])[0]) != noshape(split_cases(rb[1])[0])
                mc = minimise(c, fails)
                sc = "reset\n" + "\n".join(mc) + "\n"
                ra = run_script(impl / "h_set", [], sc, env=SAN_ENV); rb = run_script(drv, ["run"], sc)
                chk.violation("set.c disagrees with the sorted-map behaviour proved for the model (results / iteration order / disposal log / audit)",
                              "operations:\n  " + "\n  ".join(mc) + "\nimplementation printed:\n  " + "\n  ".join(split_cases(ra[1])[0]) + "\nmodel (= sorted map) says:\n  " + "\n  ".join(split_cases(rb[1])[0]),
                              "setdiff:" + " ".join(mc))
                if len(chk.violations) > 5:
                    break
    chk.cov["traces_validated_against_impl"] = chk.cov["evaluations"]
    chk.cov["distinct_nontrivial"] = len(distinct)
    chk.cov["rule"] = ("operation sequences = fixed corpus + %d random sequences (1-150 ops over universes of 3..200 keys, random and extreme int32 keys) + the complete exploration; "
                       "non-trivial and distinct = distinct (final tree shape with keys and tags, last operations) reached with a non-empty tree" % nrand)
    chk.cov["samples"] = [cases[0], cases[4][:12], ecases[len(ecases) // 2] if ecases else []]
    chk.cov["shape_agreement"] = "%d/%d final tree shapes identical between set.c and the functional splay model (informational, not part of the verdict)" % (shape_same, shape_tot)
    chk.assumptions += ["tree shape is not part of the verdict", "memory safety of set.c is observed by ASan/UBSan and the structural audit, not proved"]

def replay(chk, path):
    impl, ierr = build_impl()
    lines = [l.strip() for l in open(path) if l.strip() and not l.startswith("#")]
    ops = [l for l in lines if l.split()[0] in ("ins", "find", "lower", "rem", "clear", "show")]
    rc, out, err = run_script(impl / "h_set", [], "\n".join(ops) + "\n", env=SAN_ENV)
    print(out + err)
    return 0
