"""C16: config text means what it says."""
from conf_common import *

def typed_cases(rng):
    """typed settings: (subtype, text, expected value or None when it must be rejected)"""
    out = []
    for v, e in [("true", 1), ("on", 1), ("yes", 1), ("enabled", 1), ("1", 1), ("false", 0), ("off", 0), ("no", 0), ("disabled", 0), ("0", 0), ("pizza", None), ("TRUE", None), ("", None)]:
        out.append((1, v, e))
    for _ in range(40):
        n = rng.choice([0, 1, 7, 321, 2147483647, -1, -2147483648, 65536])
        out.append((2, str(n), n))
    out += [(2, "0x1f", 31), (2, "010", 8), (2, "12x", None), (2, "x", None), (2, "1 2", None)]
    units = {'y': 31536000, 'd': 86400, 'h': 3600, 'm': 60, 's': 1}
    for _ in range(40):
        parts = [(rng.randrange(0, 50), u) for u in rng.sample("ydhms", rng.randrange(1, 4))]
        text = "".join("%d%s" % p for p in parts); val = sum(n * units[u] for n, u in parts)
        if rng.random() < 0.3:
            k = rng.randrange(0, 100); text += str(k); val += k
        out.append((4, text, val % 2**32))
    out += [(4, "1:2:3", 3723), (4, "2:3", 2 * 3600 + 3), (4, "123z", None), (4, "1:2:3:", None), (4, "2h3m4s", 7384), (4, "", 0), (4, "4294967295", 4294967295), (4, "4294967296", 0)]
    vu = {'b': 1, 'B': 1, 'k': 1024, 'K': 1024, 'm': 1 << 20, 'M': 1 << 20, 'g': 1 << 30, 'G': 1 << 30}
    for _ in range(40):
        parts = [(rng.randrange(0, 100), u) for u in rng.sample("bBkKmMgG", rng.randrange(1, 3))]
        text = "".join("%d%s" % p for p in parts); val = sum(n * vu[u] for n, u in parts)
        out.append((5, text, val % 2**32))
    out += [(5, "5B", 5), (5, "pizza", None), (5, "1K2", 1026), (5, "3x", None), (5, "", 0)]
    return out

def run(chk):
    env = conf_setup(chk)
    if env is None: return
    drv, impl = env
    rng = chk.rng
    quick = chk.tier == "quick"
    fixed = [b"l a, b\nnext x\n", b"x { foo bar}", b'x { foo "bar"}', b"x { l (a) }", b"x { y { } }", b"x { h a b }", b"x { l a, b }", b"a b; A c; a (d); a { e f }; a { g h }",
             b"/*/ a b; /**/ c d;", b"a /* x */ b /* y */ ; // tail\n", b'"q\\"uote" "v\\\\al\\x41\\n";', b"a\tb\r\n", b"o { p { q { r s } } }", b"a b", b"o{a b;c d}", b"e ();f( x );g(x,y)", b"\0a b;"]
    trees = []
    for f in fixed:
        trees.append((None, f))
    for _ in range(700 if quick else 25000):
        t = gtree(rng, 0)
        data = render(rng, t)
        trees.append((t, data if data else b"\n"))      # a zero-length file is an error by decision (DESIGN.md section 7)
        chk.hist("tree entries", len(t))
    # generic escape: a backslash followed by any byte that is not an escape letter stands for that byte (also a raw newline, a blank, a ';')
    for c in range(1, 256):
        if c in b"abfnrtvx": continue
        v = b"p" + bytes([c]) + b"q"
        trees.append(([(b"k", STRING, v), (b"l", LIST, [v, b"z"])], b'k "p\\' + bytes([c]) + b'q";\nl ("p\\' + bytes([c]) + b'q", z)\n'))
        chk.hist("generic escape")
    cases = [Case([('load', data), ('dump',)]) for _, data in trees]
    hs = run_harness(impl, cases); ms = run_model(drv, cases)
    distinct = set()
    for (t, data), case, (rc, lines, err), m in zip(trees, cases, hs, ms):
        if len(chk.violations) >= 4: break
        chk.cov["evaluations"] += 1
        why = None; found = True
        if rc != 0:
            why = "memory error / abort (exit %s) on file %r: %s" % (rc, data, err[-500:].replace("\n", " | "))
        elif t is not None:
            if not lines or lines[0] != "LOAD OK":
                why = "a file written in the documented syntax was rejected: %r" % (data,)
            else:
                try:
                    got = shape(strip_logs(parse_dump(lines[1:])))
                except Exception as e:
                    got = "unparsable dump: %s" % e
                want = norm(t)
                if got != want:
                    why = "the file does not read back as the tree it was rendered from: file %r; read back %r; expected %r" % (data, got, want)
        if why is None and lines != m:
            k = next((j for j in range(min(len(lines), len(m))) if lines[j] != m[j]), min(len(lines), len(m)))
            why = "src/config.c and the Coq parser model disagree on %r at dump line %d: implementation %r, model %r" % (data, k, lines[k] if k < len(lines) else None, m[k] if k < len(m) else None); found = False
        if why:
            chk.violation(why, "file (python bytes literal): %r\n\nimplementation:\n%s\n\nmodel:\n%s\n%s" % (data, "\n".join(lines), "\n".join(m), err[-1500:]), "parse:" + why[:40], found_input=found)
            continue
        chk.cov["traces_validated_against_impl"] += 1
        if len(lines) > 3: distinct.add(hash(tuple(lines)))
    # typed settings: the value written, and rejection keeps the previous value in force
    tcases = []
    for sub, text, exp in typed_cases(rng):
        prev = {1: "true", 2: "42", 4: "90", 5: "7"}[sub]
        items = [('reg', 'str', 't', sub, prev), ('load', b't %s;' % rstr(rng, prev.encode(), True)), ('dump',), ('load', b't %s;' % rstr(rng, text.encode(), True)), ('dump',)]
        tcases.append((Case(items, "typed setting sub=%d text=%r" % (sub, text)), sub, text, exp, prev))
        chk.hist("typed sub%d" % sub)
    hs = run_harness(impl, [c[0] for c in tcases]); ms = run_model(drv, [c[0] for c in tcases])
    prevval = {1: "1", 2: "42", 4: "90", 5: "7"}
    for (case, sub, text, exp, prev), (rc, lines, err), m in zip(tcases, hs, ms):
        if len(chk.violations) >= 4: break
        chk.cov["evaluations"] += 1
        why = None; found = True
        if rc != 0:
            why = "memory error / abort (exit %s): %s" % (rc, err[-400:])
        else:
            segs = segments(lines)
            try:
                node = [n for n in parse_dump(segs[-1]) if n["name"] == b"t" and n["kind"] == STRING][0]
                want = str(exp) if exp is not None else prevval[sub]
                if node["typed"] != want:
                    why = "typed setting (subtype %d) written as %r delivers %s, expected %s%s" % (sub, text, node["typed"], want, "" if exp is not None else " (unparsable: the previous value must stay in force)")
            except Exception as e:
                why = "cannot read typed value back: %s (%r)" % (e, lines[-6:])
        if why is None and lines != m:
            why = "implementation and model disagree on a typed setting: %r vs %r" % (lines[-4:], m[-4:]); found = False
        if why:
            chk.violation(why, "script:\n%s\n\nimplementation:\n%s\n\nmodel:\n%s" % (case.describe(), "\n".join(lines), "\n".join(m)), "typed:%d:%s" % (sub, text), found_input=found)
            continue
        chk.cov["traces_validated_against_impl"] += 1
        distinct.add(hash(("typed", sub, text)))
    # several typed settings in ONE file: each must deliver the value written whatever was parsed before it in the same load
    # (over-long integers, underflowing floats and rejected texts in front; no state may leak from one conversion to the next)
    pool = [c for c in typed_cases(rng)]
    poison = [(2, "99999999999999999999999", "skip"), (3, "1e-400", "skip"), (2, "-99999999999999999999", "skip"), (3, "1e400", "skip"), (2, "pizza", None), (5, "3x", None)]
    scases = []
    for k in range(80 if quick else 2000):
        chosen = [rng.choice(poison)] + [rng.choice(pool) for _ in range(3)]
        if k % 3 == 0: rng.shuffle(chosen)
        prevs = {1: "true", 2: "42", 3: "0.5", 4: "90", 5: "7"}
        items = []
        for j, (sub, text, exp) in enumerate(chosen):
            items.append(('reg', 'str', 'n%d' % j, sub, prevs[sub]))
        items += [('load', b"".join(b'n%d %s;\n' % (j, rstr(rng, prevs[sub].encode(), True)) for j, (sub, text, exp) in enumerate(chosen))), ('dump',)]
        items += [('load', b"".join(b'n%d %s;\n' % (j, rstr(rng, text.encode(), True)) for j, (sub, text, exp) in enumerate(chosen))), ('dump',)]
        scases.append((Case(items, "several typed settings in one file"), chosen)); chk.hist("typed sequence")
    hs2 = run_harness(impl, [c[0] for c in scases])
    prevval2 = {1: "1", 2: "42", 3: "0.5", 4: "90", 5: "7"}
    for (case, chosen), (rc, lines, err) in zip(scases, hs2):
        if len(chk.violations) >= 4: break
        chk.cov["evaluations"] += 1
        why = None
        if rc != 0:
            why = "memory error / abort (exit %s): %s" % (rc, err[-400:])
        else:
            try:
                nodes = {n["name"]: n for n in parse_dump(segments(lines)[-1]) if n["kind"] == STRING}
                for j, (sub, text, exp) in enumerate(chosen):
                    if exp == "skip": continue
                    want = str(exp) if exp is not None else prevval2[sub]
                    got = nodes[b'n%d' % j]["typed"]
                    if got != want:
                        why = "typed setting n%d (subtype %d) written as %r delivers %s, expected %s, when %r stands in the same file" % (j, sub, text, got, want, [t for _, t, _ in chosen]); break
            except Exception as e:
                why = "cannot read typed values back: %s (%r)" % (e, lines[-8:])
        if why:
            chk.violation(why, "script:\n%s\n\nimplementation:\n%s" % (case.describe(), "\n".join(lines)), "typedseq:%s" % "|".join(t for _, t, _ in chosen)); continue
        chk.cov["traces_validated_against_impl"] += 1
    chk.cov["distinct_nontrivial"] = len(distinct)
    chk.cov["samples"] = [repr(trees[len(fixed) + 1][1]), repr(trees[len(fixed) + 2][0])[:400], tcases[20][0].describe().split("\n")]
    chk.cov["rule"] = "random trees (depth <= 4, repeated keys in different case, all node kinds) x random admissible renderings (bare/quoted strings with every escape, paren and comma lists, pairs, nested objects, ; or newline, last entry without terminator, C and C++ comments incl. /*/ and /**/, blanks); oracle independent of the model: the dump must equal norm(tree). Typed settings with python-computed expected values and rejection cases. Distinct = distinct non-trivial dumps and typed cases."
