"""C13: netmask parsing and matching are exact."""
from addr_common import *

def lead_equal(a, m, bits):
    A = int(hexg(a), 16); M = int(hexg(m), 16)
    return bits == 0 or (A >> (128 - bits)) == (M >> (128 - bits))

def v6text(g, rng):
    """some RFC 4291 rendering of g (python side, independent of the model): optional :: for one zero run"""
    runs = []
    i = 0
    while i < 8:
        if g[i] == 0:
            j = i
            while j < 8 and g[j] == 0:
                j += 1
            runs.append((i, j)); i = j
        else:
            i += 1
    if runs and rng.random() < 0.7:
        s, e = rng.choice(runs)
        left = ":".join("%x" % v for v in g[:s]); right = ":".join("%x" % v for v in g[e:])
        return left + "::" + right
    return ":".join("%x" % v for v in g)

def run(chk):
    ps = chk.proofs()
    chk.cov["trusted_base"] = TRUSTED_BASE_COMMON + [
        "inet_pton is represented by AddrRef.ref_pton (agreement tested on every run)",
        "strings with a fifth dotted component reach an out-of-range shift in C: the model answers Unspec and only memory safety is required there"]
    drv, err = ensure_ocaml("drv_addr", "Extract_addr.v", "drv_addr.ml", "addr_model")
    impl, ierr = build_impl()
    if impl is None:
        print(ierr); sys.exit(2)
    if ps["errors"]:
        chk.violation(proof_violation_text(ps), proof_violation_text(ps), "proof:" + ps["file"], found_input=False)
    if drv is None:
        chk.violation("extraction/driver build failed: " + err, err, "extract", found_input=False)
        return
    rng = chk.rng
    quick = chk.tier == "quick"
    cmds = []      # (cmd, expectation or None)
    # ---- mask: exhaustive per 16-bit group difference (single bit) and length, plus all-ones and random differences
    base = [rng.randrange(65536) for _ in range(8)]
    for gi in range(8):
        for bit in range(16):
            m = list(base); m[gi] ^= 1 << bit
            for n in range(129):
                cmds.append(("mask %s %s %d" % (hexg(base), hexg(m), n), ("mask", lead_equal(base, m, n))))
        m = list(base); m[gi] ^= 0xffff
        for n in range(129):
            cmds.append(("mask %s %s %d" % (hexg(base), hexg(m), n), ("mask", lead_equal(base, m, n))))
    chk.hist("mask:single-bit x 129 lengths", 8 * 16 * 129)
    for n in range(129):
        cmds.append(("mask %s %s %d" % (hexg(base), hexg(base), n), ("mask", True)))
    # the same around addresses of a special shape (IPv4-mapped, IPv4-compatible; thorough: also all-zero, all-ones, one leading group),
    # as the mask and as the candidate: a shape-dependent shortcut in the comparison must still compare all leading bits
    x, y = rng.randrange(1, 65536), rng.randrange(65536)
    shapes = [[0, 0, 0, 0, 0, 0xffff, x, y], [0, 0, 0, 0, 0, 0, x, y]] + ([] if quick else [[0] * 8, [0xffff] * 8, [x, 0, 0, 0, 0, 0, 0, 0], [0, 0, 0, 0, 0, 0xffff, 0, 0]])
    for sb in shapes:
        for gi in range(8):
            for bit in list(range(16)) + [None]:
                m = list(sb); m[gi] ^= (1 << bit) if bit is not None else 0xffff
                for n in range(129):
                    cmds.append(("mask %s %s %d" % (hexg(sb), hexg(m), n), ("mask", lead_equal(sb, m, n))))
                    cmds.append(("mask %s %s %d" % (hexg(m), hexg(sb), n), ("mask", lead_equal(m, sb, n))))
        chk.hist("mask:special shape, single-bit x 129 lengths x both roles", 8 * 17 * 129 * 2)
    for _ in range(4000 if quick else 200000):
        a = [rng.randrange(65536) for _ in range(8)]; m = list(a)
        for _ in range(rng.choice([0, 1, 1, 2, 3])):
            i = rng.randrange(8); m[i] ^= rng.choice([1 << rng.randrange(16), rng.randrange(65536)])
        n = rng.randrange(0, 129)
        cmds.append(("mask %s %s %d" % (hexg(a), hexg(m), n), ("mask", lead_equal(a, m, n))))
        chk.hist("mask:random")
    # ---- documented CIDR / wildcard forms with their documented meaning
    def p(s, ub, tr, exp=None):
        cmds.append(("pton %d %d %s" % (ub, tr, s.encode().hex()), exp))
    for _ in range(1500 if quick else 30000):
        o = [rng.choice([0, 1, 9, 10, 99, 100, 127, 200, 255, rng.randrange(256)]) for _ in range(4)]
        n = rng.randrange(0, 33)
        mapped = [0, 0, 0, 0, 0, 65535, o[0] * 256 + o[1], o[2] * 256 + o[3]]
        p("%d.%d.%d.%d/%d" % (o[0], o[1], o[2], o[3], n), 1, 0, ("cidr", len("%d.%d.%d.%d/%d" % (o[0], o[1], o[2], o[3], n)), 96 + n, hexg(mapped))); chk.hist("pton:cidr4")
        p("%d.%d.%d.%d" % tuple(o), 1, 0, ("cidr", len("%d.%d.%d.%d" % tuple(o)), 128, hexg(mapped))); chk.hist("pton:plain4")
        k = rng.randrange(1, 4)
        w = ".".join(str(x) for x in o[:k]) + ".*"
        wm = [0, 0, 0, 0, 0, 65535, (o[0] * 256 + (o[1] if k > 1 else 0)), ((o[2] * 256) if k > 2 else 0)]
        p(w, 1, 0, ("cidr", len(w), 96 + 8 * k, hexg(wm))); chk.hist("pton:wild4")
        # the short CIDR form of modules/iauth.h ("missing trailing bits, as in 192.168/16"): the octets given are the leading ones
        if k >= 2:       # at least one dot: a lone number before '/' is not an IPv4 text
            sc = ".".join(str(x) for x in o[:k]) + "/%d" % n
            p(sc, 1, 0, ("cidr", len(sc), 96 + n, hexg(wm))); chk.hist("pton:short cidr4")
        g = [rng.choice([0, 0, 1, 0xabcd, 0xffff, rng.randrange(65536)]) for _ in range(8)]
        if is_ipv4(g) or g[0] == 0:
            g[0] = 0x2001
        n6 = rng.randrange(0, 129)
        t = v6text(g, rng)
        p(t + "/%d" % n6, 1, 0, ("cidr", len(t) + 1 + len(str(n6)), n6, hexg(g))); chk.hist("pton:cidr6")
        p(t, 1, 0, ("cidr", len(t), 128, hexg(g))); chk.hist("pton:plain6")
        k6 = rng.randrange(1, 8)
        gw = [x if x else 1 for x in g[:k6]]
        tw = ":".join("%x" % v for v in gw) + ":*"
        p(tw, 1, 0, ("cidr", len(tw), 16 * k6, hexg(gw + [0] * (8 - k6)))); chk.hist("pton:wild6")
    p("*", 1, 0, ("cidr", 1, 0, hexg([0] * 8)))
    p("***", 1, 0, ("cidr", 3, 0, hexg([0] * 8)))
    # ---- every string over the address alphabet up to a bound, all four (usebits, allow_trailing) modes
    alpha = b"019af:./* "
    L = 4 if quick else 5
    nstr = 0
    for n in range(0, L + 1):
        for tup in itertools.product(alpha, repeat=n):
            s = bytes(tup)
            for ub, tr in ((0, 0), (1, 0), (1, 1), (0, 1)):
                cmds.append(("pton %d %d %s" % (ub, tr, s.hex()), None))
            nstr += 1
    chk.hist("pton:all strings over '019af:./* ' up to length %d" % L, nstr)
    chk.cov["exhaustive_scope"] = "all %d strings of length <= %d over the 10-character alphabet '019af:./* ' in all four (bits, allow_trailing) modes; every single-bit group difference x every prefix length 0..128, around a random address and around IPv4-mapped / IPv4-compatible addresses in both roles (mask, candidate)" % (nstr, L)
    # grammar-derived and mutated strings
    for _ in range(6000 if quick else 200000):
        if rng.random() < 0.3:
            s = ".".join(str(rng.choice([0, 1, 25, 255, 256, 99])) for _ in range(rng.choice([2, 3, 4, 4, 4, 5])))
        else:
            parts = ["%x" % rng.choice([0, 1, 0xabcd, 0xffff, 0x10000]) for _ in range(rng.randrange(0, 9))]
            if parts and rng.random() < 0.5:
                parts[rng.randrange(len(parts))] = ""
            s = ":".join(parts)
            if rng.random() < 0.2:
                s += ":1.2.3.4"
        if rng.random() < 0.4:
            s += rng.choice(["/0", "/8", "/32", "/33", "/64", "/128", "/129", "/a", "/", ".*", ":*", "*", "/08", "/4294967297"])
        if rng.random() < 0.05:
            s = " " + s
        if rng.random() < 0.2:
            b = bytearray(s.encode())
            if b:
                b[rng.randrange(len(b))] = rng.choice(b"0123456789abcdefABCDEF:./* g-\t")
            s = b.decode("latin1")
        chk.hist("pton:grammar+mutation")
        for ub, tr in ((0, 0), (1, 0), (1, 1), (0, 1)):
            if "\n" not in s and "\0" not in s:
                cmds.append(("pton %d %d %s" % (ub, tr, s.encode("latin1").hex()), None))
    res = run_both(impl, drv, [c for c, _ in cmds])
    exps = {}
    for c, e in cmds:
        if e is not None:
            exps[c] = e
    distinct = set(); ncorr = 0; unspec = 0
    for item in res:
        if item[0] == "CRASH":
            cmd = item[1]
            txt = bytes.fromhex(cmd.split(" ")[-1]) if cmd.startswith("pton") and len(cmd.split(" ")) == 4 else cmd
            chk.violation("irc_pton/irc_check_mask aborted (exit %s, sanitizer report below) on %r" % (item[2], txt), "command: %s\n%s" % (cmd, item[3]), "crash")
            continue
        c, x, y = item
        chk.cov["evaluations"] += 1
        e = exps.get(c)
        fx = x.split(" ")
        why = None
        if c.startswith("mask"):
            if e and (fx[1] == "1") != e[1]:
                why = "irc_check_mask says %s but the leading %s bits are %s" % (fx[1], c.split()[3], "equal" if e[1] else "different")
        else:
            s = bytes.fromhex(c.split(" ")[3]) if len(c.split(" ")) == 4 else b""
            ret, bits, addr = int(fx[1]), int(fx[2]), fx[3]
            fxd = fields(x)
            if e:
                if ret != e[1] or bits != e[2] or addr != e[3]:
                    why = "%r should yield length %d, prefix %d, address %s; irc_pton returned %d, %d, %s" % (s, e[1], e[2], e[3], ret, bits, addr)
            # agreement with the standard parser wherever both accept a plain address
            if why is None and c.startswith("pton 0 0") and ret == len(s) and ret > 0 and fxd.get("std") in ("1", "2") and fxd.get("std_addr") != addr:
                why = "plain address %r: irc_pton gives %s, the standard library parser gives %s" % (s, addr, fxd.get("std_addr"))
        if why:
            chk.violation(why, "command for harness/h_addr: %s\nimplementation: %s\nmodel: %s" % (c, x, y), "c13:" + c)
            if len(chk.violations) > 8:
                break
            continue
        # correspondence
        if y.startswith("pton unspec"):
            unspec += 1
            continue
        ncorr += 1
        if c.startswith("mask"):
            same = (x == y)
        else:
            fy = y.split(" ")
            fyd = fields(y)
            fxd = fields(x)
            same = fx[1:3] == fy[1:3] and (fx[3] == fy[3] or fx[1] == "0") and ((fyd.get("ref") == "none") == (fxd.get("std") == "0")) and (fyd.get("ref") == "none" or fyd.get("ref") == fxd.get("std_addr"))
        if not same:
            chk.violation("modules/iauth_misc.c and the Coq model disagree on '%s' (impl: %s; model: %s) although no documented form is violated by this input" % (c, x, y),
                          "command: %s\nimplementation: %s\nmodel: %s\ncorrespondence AddrFull.pton / AddrFull.cm / AddrRef.ref_pton no longer matches the implementation" % (c, x, y), "corr:" + c.split()[0], found_input=False)
            if len(chk.violations) > 8:
                break
        if not c.startswith("mask") and fx[1] != "0":
            distinct.add(c.split(" ")[3])
        elif c.startswith("mask"):
            distinct.add(c)
    chk.cov["traces_validated_against_impl"] = ncorr
    chk.cov["model_unspecified"] = unspec
    chk.cov["exhaustive"] = True
    chk.cov["distinct_nontrivial"] = len(distinct)
    chk.cov["rule"] = "mask triples + documented CIDR/wildcard texts (with python-computed expected meaning) + all short strings over the address alphabet + grammar-derived/mutated strings; distinct non-trivial = distinct accepted strings and distinct mask triples"
    chk.cov["samples"] = [cmds[0][0], cmds[20000][0] if len(cmds) > 20000 else cmds[-1][0], [c for c, e in cmds if e and e[0] == "cidr"][:3]]

def replay(chk, path):
    impl, ierr = build_impl()
    cmds = [l.split(":", 1)[1].strip() for l in open(path) if l.startswith("command")]
    r = subprocess.run([str(impl / "h_addr")], input=("\n".join(cmds) + "\n").encode(), stdout=subprocess.PIPE, env=SAN_ENV)
    print(r.stdout.decode())
    return 0
