"""C07: concurrent clients do not interfere."""
import re
from iauth_common import *
PROFILE = dict(maxlen=18, maxcli=1, p_good_reply=0.8, p_reannounce=0.0)

def strip_serial(line):
    return re.sub(r"^(X \S+ [0-9a-f]+)_[0-9a-f]+ ", r"\1_S ", line)

def client_of_item(it):
    """which client an input line belongs to: its id, or the id in the routing tag of a reply"""
    toks = it[1].decode('latin1').split(' ')
    if len(toks) > 3 and toks[1] in ('X', 'x'):
        tid, _ = tag_id(toks[3])
        return tid
    try: return int(toks[0])
    except ValueError: return None

def proj_client(scn, d, cid):
    """the conversation about client cid: its lines (serial erased), in order"""
    out = []
    for (lines, n) in d.steps:
        for l in lines:
            p = parse_line(l)
            if (p[0] == 'C' and p[2] == cid) or (p[0] == 'X' and tag_id(p[2])[0] == cid):
                out.append(strip_serial(l))
    return out

def restrict(scn, cid):
    """the history of scn restricted to client cid's own events (its lines, the replies whose tag names it, the reloads); the serial
       in reply tags is rewritten from the instance's serial in scn to its serial in the restricted history"""
    sh_all = Shadow(scn.svcs, scn.timeout, scn.with_xq); sh_own = Shadow(scn.svcs, scn.timeout, scn.with_xq)
    smap = {}            # serial of an instance of cid in scn -> serial in the restricted history
    items = []
    for it in scn.items:
        if it[0] != 'L':
            items.append(it); sh_all.svcs = [(n_, t_.lower()) for n_, t_ in it[1]]; sh_own.svcs = list(sh_all.svcs); continue
        line = it[1].decode('latin1'); toks = line.split(' ')
        before = sh_all.serial; sh_all.step(line)
        mine = toks[0] == str(cid) and not (len(toks) > 1 and toks[1][:1] in ('X', 'x'))
        if len(toks) > 3 and toks[1] in ('X', 'x'):
            tid, ser = tag_id(toks[3])
            if tid != cid or ser not in smap: continue
            toks[3] = "%s_%x" % (toks[3].split('_')[0], smap[ser]); line = ' '.join(toks); mine = True
        if not mine: continue
        b2 = sh_own.serial; sh_own.step(line)
        if sh_all.serial != before and sh_own.serial != b2: smap[sh_all.serial] = sh_own.serial
        items.append(('L', line.encode('latin1')))
    return Scn(scn.with_xq, scn.with_class, scn.svcs, scn.rules, scn.timeout, items, "client %d alone (its own events of the history above)" % cid)

def run(chk):
    _impl0, _ = build_impl()
    _rt = start_realtime(_impl0) if _impl0 is not None else None
    env = setup(chk)
    if env is None: return
    drv, impl = env
    rng = chk.rng
    ngroups = 300 if chk.tier == "quick" else 3000
    nshuf = 4 if chk.tier == "quick" else 12
    solos = []; groups = []
    # deterministic group (D24): a class rule asks for an OK from b.svc; client 5 has its OK, then a reload drops b.svc while client 6
    # still awaits it (so the slot lives on, unconfigured); whether 5 gets the rule's class must not depend on 6 being there
    for acc in ("5 H", "5 U u :r"):
        svcs = [('a.svc', 'login'), ('b.svc', 'login')]
        rules = [dict(name='10-m', xreply_ok='b.svc', **{'class': 'members'}), dict(name='20-g', **{'class': 'guests'})]
        s5 = Scn(True, True, svcs, rules, 0, [], "solo client 5 (xreply_ok from a dropped service)")
        s6 = Scn(True, True, svcs, rules, 0, [], "solo client 6 (still awaits the dropped service)")
        new = [('a.svc', 'login')]
        pre5 = ["5 C 1.2.3.4 1005 10.1.1.1 6667", "5 N h.example.org", "5 u id", "5 n Nick", "5 P :+x acct pw", "-1 X b.svc 5_1 :OK"]
        pre6 = ["6 C 1.2.3.6 1006 10.1.1.1 6667", "6 P :+x c d"]
        s5.items = L(*pre5) + [('R', new, rules, 0)] + L("-1 X a.svc 5_1 :OK acct:1", acc, "5 H", "5 D")
        s6.items = L(*pre6) + [('R', new, rules, 0)] + L("6 H", "-1 X b.svc 6_1 :OK", "-1 X a.svc 6_1 :OK c:2", "6 D")
        groups.append((svcs, rules, 0, [(5, s5), (6, s6)], (new, rules, 0, {5: len(pre5), 6: len(pre6)})))
        chk.hist("group:xreply_ok from a service dropped while another client awaits it (D24)")
    # deterministic group: twelve clients, so that serials reach two hex digits (0xa, 0xb, 0xc) in the merged run while every
    # client has serial 1 alone; tags are spelt in hex both ways
    svcs12 = [('a.svc', 'login')]
    mem12 = []
    for cid in range(41, 53):
        s12 = Scn(True, False, svcs12, [], 0, [], "solo client %d (one of twelve)" % cid)
        s12.items = L("%d C 10.0.0.%d %d 10.1.1.1 6667" % (cid, cid, 4000 + cid), "%d N h%d.example.org" % (cid, cid), "%d u id%d" % (cid, cid), "%d P :+x acct%d pw" % (cid, cid),
                      "-1 X a.svc %x_1 :OK acct%d" % (cid, cid), "%d n Nick%d" % (cid, cid), "%d U u%d :Real" % (cid, cid), "%d D" % cid)
        mem12.append((cid, s12))
    groups.append((svcs12, [], 0, mem12, None)); chk.hist("group:twelve clients (two-digit serials)")
    for g in range(ngroups):
        k = rng.choice([2, 2, 3, 4])
        svcs, rules = gen_tables(rng, dict(nsv=[1, 2, 3]))
        timeout = rng.choice([0, 3600])
        ids = rng.sample(range(1, 40), k)
        members = []
        for cid in ids:
            # one client's own script, generated alone; replies in it carry ITS tag with serial 1, fixed up when interleaved
            prof = dict(PROFILE, ids=[cid])
            s = None
            for _ in range(20):
                s = gen_scn(rng, prof, chk.hist)
                if s.with_xq: break
            s = Scn(True, bool(rules), svcs, rules, timeout, [], "solo client %d" % cid)
            sh = Shadow(svcs, timeout, True)
            gen = gen_scn(rng, dict(PROFILE, ids=[cid], p_xq=1.0), lambda *a: None)
            # regenerate against the group's tables: reuse only the non-reply lines, then synthesise replies from the shadow
            for it in gen.items:
                toks = it[1].decode('latin1').split(' ')
                if len(toks) > 1 and toks[1] in ('X', 'x'):
                    c = sh.live.get(cid)
                    if c and c.out:
                        svc = rng.choice(sorted(c.out))
                        text = rng.choice(['OK', 'OK acct:1', 'NO bad', 'MORE q?', 'AGAIN again', 'OK op'])
                        line = "-1 X %s %s :%s" % (svc, c.tag(), text)
                    else:
                        continue
                elif toks[0] != str(cid):
                    continue
                else:
                    line = it[1].decode('latin1')
                s.items.append(('L', line.encode('latin1'))); sh.step(line)
            members.append((cid, s))
        barrier = None
        logins = [n_ for n_, t_ in svcs if t_ in ('login', 'login-ipr', 'combined')]
        if logins and rng.random() < 0.25:
            # focused group 2: one client abandons a challenge (MORE) and leaves; the others retry their password after AGAIN / answer a
            # challenge of their own: whatever a departed client left pending must not colour a newcomer's queries
            members = []
            for j, cid in enumerate(ids):
                s = Scn(True, bool(rules), svcs, rules, timeout, [], "solo client %d (challenge family)" % cid)
                sh = Shadow(svcs, timeout, True)
                seq = ["%d C %s %d 10.1.1.1 6667" % (cid, rng.choice(['1.2.3.4', '2001:db8::1']), 1000 + cid), "%d P :+x acct%d pw" % (cid, cid)]
                for l in seq: sh.step(l)
                c_ = sh.live.get(cid)
                role = 'abandon' if j == 0 else rng.choice(['retry', 'answer', 'plain'])
                if c_ and c_.out:
                    svc = rng.choice(sorted(set(c_.out) & set(logins)) or sorted(c_.out))
                    if role == 'abandon': seq += ["-1 X %s %s :MORE who?" % (svc, c_.tag()), "%d %s" % (cid, rng.choice(['D', 'T']))]
                    elif role == 'retry': seq += ["-1 X %s %s :AGAIN wrong" % (svc, c_.tag()), "%d P :+x acct%d pw2" % (cid, cid), "%d H" % cid, "-1 X %s %s :OK acct%d" % (svc, c_.tag(), cid)]
                    elif role == 'answer': seq += ["-1 X %s %s :MORE q?" % (svc, c_.tag()), "%d P :my answer" % cid, "-1 X %s %s :OK acct%d" % (svc, c_.tag(), cid), "%d H" % cid]
                    else: seq += ["%d H" % cid, "-1 X %s %s :OK" % (svc, c_.tag())]
                else:
                    seq += ["%d H" % cid]
                s.items = L(*seq)
                members.append((cid, s))
            chk.hist("group:challenge family (abandoned MORE, retries)")
            groups.append((svcs, rules, timeout, members, None))
            continue
        focused = bool(svcs) and rng.random() < 0.3
        if focused:
            # focused group: every client gets all its queries out (hurry-up) before a reload that drops services; the answers come afterwards
            members = []
            cuts = {}
            for cid in ids:
                s = Scn(True, bool(rules), svcs, rules, timeout, [], "solo client %d (focused)" % cid)
                sh = Shadow(svcs, timeout, True)
                pre = ["%d C %s %d 10.1.1.1 6667" % (cid, rng.choice(['1.2.3.4', '2001:db8::1', '10.0.0.7']), 1000 + cid)]
                if rng.random() < 0.6: pre.append("%d P :%s" % (cid, rng.choice(['+x acct pass', '+! acct pass', '-x a b'])))
                pre.append("%d H" % cid)
                for l in pre: sh.step(l)
                post = []
                c_ = sh.live.get(cid)
                for svc in (rng.sample(sorted(c_.out), len(c_.out)) if c_ else []):
                    post.append("-1 X %s %s :%s" % (svc, c_.tag(), rng.choice(['OK', 'OK', 'NO refused', 'NO refused', 'OK acct:1', 'AGAIN a', 'MORE m'])))
                if rng.random() < 0.5: post.append("%d %s" % (cid, rng.choice(['D', 'T', 'H', 'P :+x c d'])))
                s.items = L(*(pre + post)); cuts[cid] = len(pre)
                members.append((cid, s))
            newsvcs = [x for x in svcs if rng.random() < 0.4]
            barrier = (newsvcs, rules, timeout, cuts)
            for cid, s in members:
                k_ = cuts[cid]
                s.items = s.items[:k_] + [('R', newsvcs, rules, timeout)] + s.items[k_:]
            chk.hist("group:focused (queries out, reload drops services, answers afterwards)")
            groups.append((svcs, rules, timeout, members, barrier))
            continue
        if svcs and rng.random() < 0.4:
            # a reload (a global event) acts as a barrier: every client's script is cut in two, the parts are interleaved separately
            newsvcs = [x for x in svcs if rng.random() < 0.5] if rng.random() < 0.7 else [(n_, rng.choice(TYPES)) for n_, t_ in svcs]
            barrier = (newsvcs, rules, timeout, {cid: rng.randrange(0, len(s.items) + 1) for cid, s in members})
            for cid, s in members:
                k_ = barrier[3][cid]
                s.items = s.items[:k_] + [('R', newsvcs, rules, timeout)] + s.items[k_:]
            chk.hist("group:with reload barrier")
        groups.append((svcs, rules, timeout, members, barrier))
    # solo runs
    solo_scns = [s for g in groups for _, s in g[3]]
    dsolo = run_daemons(impl, solo_scns)
    solo_proj = {}
    k = 0
    for gi, g in enumerate(groups):
        for cid, s in g[3]:
            solo_proj[(gi, cid)] = proj_client(s, dsolo[k], cid); k += 1
    # interleavings: merge preserving each client's order; serials in reply tags are rewritten to the instance's serial in the merged run
    inter = []
    for gi, (svcs, rules, timeout, members, barrier) in enumerate(groups):
        for _ in range(nshuf + 2):
            queues = {cid: [it[1].decode('latin1') for it in s.items if it[0] == 'L'] for cid, s in members}
            if barrier:
                o1 = [cid for cid, s in members for _ in range(barrier[3][cid])]
                o2 = [cid for cid, s in members for _ in range(len(queues[cid]) - barrier[3][cid])]
                rng.shuffle(o1); rng.shuffle(o2)
                order = o1 + [None] + o2
            elif _ < 2:
                # sequential schedules: one client completely before the next (records, slots and counters left behind by a
                # departed client must not leak into a newcomer's conversation)
                perm = [cid for cid, s in members]; rng.shuffle(perm)
                order = [cid for cid in perm for _q in queues[cid]]
            else:
                order = [cid for cid, s in members for _ in queues[cid]]
                rng.shuffle(order)
            items = []
            shm = Shadow(svcs, timeout, True)      # tracks the serial each instance gets in the merged run
            for cid in order:
                if cid is None:
                    items.append(('R', barrier[0], barrier[1], barrier[2])); shm.svcs = [(n_, t_.lower()) for n_, t_ in barrier[0]]; continue
                line = queues[cid].pop(0)
                toks = line.split(' ')
                if len(toks) > 3 and toks[1] in ('X', 'x'):
                    a, b = toks[3].split('_')
                    # the solo script carries this client's solo serial; rewrite to the serial of its instance in the merged run
                    cur = shm.live.get(cid)
                    toks[3] = "%s_%x" % (a, cur.serial if cur else 0)
                    line = ' '.join(toks)
                items.append(('L', line.encode('latin1'))); shm.step(line)
            inter.append((gi, Scn(True, bool(rules), svcs, rules, timeout, items, "interleaving of %d clients" % len(members))))
    # solo scripts may re-announce: keep only scripts with a single instance so that the serial mapping above is exact
    dint = run_daemons(impl, [s for _, s in inter])
    mint = run_model(drv, [s for _, s in inter])
    distinct = set()
    for (gi, scn), d, m in zip(inter, dint, mint):
        if len(chk.violations) >= 4: break
        chk.cov["evaluations"] += 1
        bad = None
        for cid, s in groups[gi][3]:
            if sum(1 for it in s.items if it[0] == 'L' and it[1].split(b' ')[1:2] == [b'C']) > 1:
                continue
            got = proj_client(scn, d, cid)
            if got != solo_proj[(gi, cid)]:
                bad = (cid, got, solo_proj[(gi, cid)], s)
                break
        if bad:
            cid, got, exp, s = bad
            chk.violation("the conversation about client %d depends on other clients' traffic: interleaved %r, alone %r" % (cid, got[:6], exp[:6]),
                          "interleaved history:\n%s\n\ndaemon output:\n%s\n\nclient %d alone:\n%s\n" % (scn.describe(), fmt_steps(scn, d.steps), cid, s.describe()), "interfere:%d" % cid)
            continue
        if [(l, n_) for l, n_ in d.steps] != m:
            k = next((i for i in range(min(len(m), len(d.steps))) if m[i] != d.steps[i]), 0)
            # search for a concrete input on which the property itself fails: every client of this history alone
            found = None
            cids = sorted({int(it[1].split(b' ')[0]) for it in scn.items if it[0] == 'L' and re.fullmatch(rb"-?\d+", it[1].split(b' ')[0]) and it[1].split(b' ')[0] != b'-1'})
            alone = [restrict(scn, c_) for c_ in cids]
            for c_, s_, d_ in zip(cids, alone, run_daemons(impl, alone)):
                if d.rc == 0 and d_.rc == 0 and proj_client(s_, d_, c_) != proj_client(scn, d, c_):
                    found = (c_, s_, d_); break
            if found:
                c_, s_, d_ = found
                chk.violation("the conversation about client %d depends on other clients' traffic: interleaved %r, alone %r" % (c_, proj_client(scn, d, c_)[:6], proj_client(s_, d_, c_)[:6]),
                              "interleaved history:\n%s\n\ndaemon output:\n%s\n\n%s:\n%s\n\ndaemon output:\n%s\n" % (scn.describe(), fmt_steps(scn, d.steps), s_.note, s_.describe(), fmt_steps(s_, d_.steps)), "interfere:%d" % c_)
                continue
            chk.violation("model and daemon disagree on an interleaved history (step %d: daemon %r, model %r)" % (k, d.steps[k] if k < len(d.steps) else None, m[k] if k < len(m) else None), replay_text(scn, d, m), "corr:interleave", found_input=False)
            continue
        chk.cov["traces_validated_against_impl"] += 1
        distinct.add(hash(tuple(str(x[1]) for x in scn.items)))
    chk.cov["distinct_nontrivial"] = len(distinct)
    chk.cov["samples"] = [inter[0][1].describe().split("\n")[:30]] if inter else []
    if _rt is not None: finish_realtime(chk, _rt, 'interference: ')
    chk.cov["rule"] = "k = 2..4 clients on distinct ids, each with its own generated script (data, passwords, replies addressed to it, timeouts, disconnects); %d random order-preserving interleavings per group on the real daemon; the per-client projection (serial erased) must equal the client's solo run; distinct = distinct interleavings" % nshuf
