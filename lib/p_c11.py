"""C11: class rules - the first matching rule in name order decides."""
import fnmatch
from iauth_common import *
PROFILE = dict(p_rules=1.0, p_class=1.0, p_xq=1.0, p_good_reply=0.85, maxlen=35, p_xok=0.45, timeouts=[0, 3600, 3600], w_pass=5, nsv=[1, 2, 2, 3])

def classes(lines, n):
    out = []
    for l in lines:
        p = parse_line(l)
        if p[0] == 'C' and p[1] in "RDU":
            out.append((p[1], p[2], p[5]))
    return sorted(out)

def run(chk):
    r = standard_run(chk, PROFILE, 3000, 40000)
    if r is None: return
    drv, impl, scns, ms, ds = r
    def judge(scn, i, dp, mp):
        if isinstance(dp, str): return None
        if sorted((a, b) for a, b, c in dp if a in "RD") != sorted((a, b) for a, b, c in (mp or []) if a in "RD"):
            return None
        return ("step %d (%s): class / trusted user name differ from the first matching rule in name order: daemon %r, expected %r; rules (in name order): %r" % (i, step_label(scn, i), dp, mp, scn.rules), True)
    def nontriv(scn, d):
        v = tuple(x for s in d.steps for x in s[0] if x[:2] in ("D ", "R ") and len(x.split(" ")) > 4)
        return v if v else None
    analyse(chk, drv, impl, scns, ms, ds, project=classes, judge=judge, what="class rules: ", nontrivial=nontriv)
    # the xreply_ok criterion in every state a service can be in for a client at acceptance time: never asked, asked and unanswered,
    # answered OK, answered OK and asked again (second password) with that query unanswered, unlinked, AGAIN; acceptance by hurry-up
    # or by the request timeout
    fam = []
    rules2 = [dict(name='10-members', xreply_ok='svc.x', **{'class': 'members'}), dict(name='20-guests', **{'class': 'guests'})]
    for typ in ('login', 'login-ipr', 'combined', 'dronecheck'):
        for state in ('never', 'pending', 'ok', 'ok-then-requery', 'unlinked', 'again', 'ok-acct'):
            for how in ('H', 'timeout'):
                ls = ["9 C 10.1.2.5 4002 10.0.0.1 6667"]
                if state != 'never': ls += ["9 P :+x acct pw", "9 N host.example.org", "9 u ident", "9 n Nick", "9 U user :Real"] if typ != 'login' else ["9 P :+x acct pw"]
                if state == 'ok': ls += ["-1 X svc.x 9_1 :OK"]
                if state == 'ok-acct': ls += ["-1 X svc.x 9_1 :OK acct:5"]
                if state == 'ok-then-requery': ls += ["-1 X svc.x 9_1 :OK", "9 P :+x acct pw2"]
                if state == 'unlinked': ls += ["-1 x svc.x 9_1 :gone"]
                if state == 'again': ls += ["-1 X svc.x 9_1 :AGAIN retry"]
                ls += ["9 H"]
                if how == 'timeout': ls += ["9 ! timeout"]
                ls += ["9 D"]
                fam.append(Scn(True, True, [('svc.x', typ)], rules2, 3600 if how == 'timeout' else 0, L(*ls), "xreply_ok state %s, %s service, accepted by %s" % (state, typ, how)))
                chk.hist("xreply_ok state family")
    mf = run_model(drv, fam); df = run_daemons(impl, fam)
    analyse(chk, drv, impl, fam, mf, df, project=classes, judge=judge, what="class rules (xreply_ok states): ", nontrivial=nontriv)
    # the address criterion on its boundary: one mask text per history, clients inside, just outside and far away
    masks = ['10.1.2.0/24', '10.1.2.5/32', '10.1.2.5', '10.1.2.4/31', '10.1.2.*', '10.*', '*', '10.0.0.0/8', '10.1.2.5/0', '0.0.0.0/0', '::ffff:10.1.2.5/128', '::ffff:10.1.2.0/120',
             '2001:db8::/32', '2001:db8::5/128', '2001:db8:0:0:0:0:0:5/128', '2001:db8::5', '2001:db8::4/127', '2001:db8:*', '2001:db8::/0', '::/0', '2001:db8::100/120', '2001:db8:0:0:8000::/65', '::5/128', '0::/1']
    clients = ['10.1.2.5', '10.1.2.4', '10.1.2.6', '10.1.3.5', '11.1.2.5', '138.1.2.5', '2001:db8::5', '2001:db8::4', '2001:db8::6', '2001:db8::105', '2001:db8:0:0:8000::1', '2001:db9::5', '::5', 'a001:db8::5']
    afam = []
    for mk_ in masks:
        ls = []
        for k, a in enumerate(clients):
            ls += ["%d C %s 4002 10.0.0.1 6667" % (k + 1, a), "%d H" % (k + 1), "%d D" % (k + 1)]
        afam.append(Scn(False, True, [], [dict(name='10-in', address=mk_, **{'class': 'inside'}), dict(name='20-out', **{'class': 'outside'})], 0, L(*ls), "address criterion " + mk_))
        chk.hist("address mask family")
    ma = run_model(drv, afam); da = run_daemons(impl, afam)
    analyse(chk, drv, impl, afam, ma, da, project=classes, judge=judge, what="class rules (address masks): ", nontrivial=nontriv)
    # oracle from the property text on one fixed history (D30, repaired): rule 10-viad needs an OK from d.svc, which never answered
    # (it was never even asked) - client 5 must get the class of the next rule
    sh = slot_reuse_history(expire=True); dh = run_daemons(impl, [sh])[0]      # d.svc is asked and stays silent; the client is accepted by its timeout
    chk.cov["evaluations"] += 1; chk.hist("slot reuse after two reloads")
    got = [l for st in dh.steps for l in st[0] if l.startswith(("D 5 ", "R 5 "))]
    if dh.rc != 0 or not got or got[0].split(" ")[-1] != "rest":
        chk.violation("client 5 is accepted as %r: rule '10-viad' (xreply_ok d.svc) decided although d.svc never said OK about it - the client carries the 'answered OK' bit of a.svc, whose released slot d.svc took over; expected class 'rest'" % (got[0] if got else None),
                      replay_text(sh, dh, None), "stale-slot:ok-bit-of-released-slot")
    else:
        chk.cov["traces_validated_against_impl"] += 1
    chk.cov["rule"] = "rule tables of 1-6 rules (names in mixed case, class or none, account / address / username / hostname / xreply_ok criteria subsets, globs with * and ?, CIDR and wildcard masks, trust_username) x client attribute combinations; projection = class field of D/R lines and U lines; distinct non-trivial = distinct traces in which some client received a class"
