"""C11: class rules - the first matching rule in name order decides."""
import fnmatch
from iauth_common import *
PROFILE = dict(p_rules=1.0, p_class=1.0, p_xq=1.0, p_good_reply=0.85, maxlen=35)

def classes(lines, n):
    out = []
    for l in lines:
        p = parse_line(l)
        if p[0] == 'C' and p[1] in "RDU":
            out.append((p[1], p[2], p[5]))
    return sorted(out)

def run(chk):
    r = standard_run(chk, PROFILE, 1200, 30000)
    if r is None: return
    drv, impl, scns, ms, ds = r
    def judge(scn, i, dp, mp):
        if isinstance(dp, str): return None
        if sorted((a, b) for a, b, c in dp if a in "RD") != sorted((a, b) for a, b, c in (mp or []) if a in "RD"):
            return None
        return ("step %d (%s): class / trusted user name differ from the first matching rule in name order: daemon %r, expected %r; rules (in name order): %r" % (i, step_label(scn, i), dp, mp, scn.rules), True)
    def nontriv(scn, d):
        v = tuple(x for s in d.steps for x in s[0] if x[:2] in ("D ", "R ") and len(x.split(" ")) > 4)
        return v if v else None
    analyse(chk, drv, impl, scns, ms, ds, project=classes, judge=judge, what="class rules: ", nontrivial=nontriv)
    chk.cov["rule"] = "rule tables of 1-6 rules (names in mixed case, class or none, account / address / username / hostname / xreply_ok criteria subsets, globs with * and ?, CIDR and wildcard masks, trust_username) x client attribute combinations; projection = class field of D/R lines and U lines; distinct non-trivial = distinct traces in which some client received a class"
