"""Shared machinery for /verif checks: Coq build + proof status, extraction + OCaml drivers,
implementation build from /repo's working tree, evidence, known findings, verdict protocol."""
import fcntl, hashlib, json, os, re, shutil, subprocess, sys, time, random, concurrent.futures
from pathlib import Path

VERIF = Path(__file__).resolve().parent.parent
REPO = Path(os.environ.get("VERIF_REPO", "/repo"))
BUILD = VERIF / "build"
(BUILD / "tmp").mkdir(parents=True, exist_ok=True)       # scratch space of every check (threads use it from the first moment)
COQ = VERIF / "coq"
OCAML = VERIF / "ocaml"
HARNESS = VERIF / "harness"
NCPU = min(16, os.cpu_count() or 4)
GUARD = "IAUTHD_C_VERIF"

ALLOWED_AXIOMS = {
    # standard-library axioms that DESIGN.md section 8 names; none is currently used
    "functional_extensionality_dep", "proof_irrelevance", "classic", "eq_rect_eq", "JMeq_eq",
}

def log(*a):
    print(*a, file=sys.stderr, flush=True)

def run(cmd, timeout=600, cwd=None, input=None, env=None):
    return subprocess.run(cmd, cwd=cwd, input=input, stdout=subprocess.PIPE, stderr=subprocess.PIPE, timeout=timeout, env=env)

class Lock:
    def __init__(self, name):
        BUILD.mkdir(exist_ok=True)
        self.path = BUILD / (name + ".lock")
    def __enter__(self):
        self.f = open(self.path, "w")
        fcntl.flock(self.f, fcntl.LOCK_EX)
        return self
    def __exit__(self, *a):
        fcntl.flock(self.f, fcntl.LOCK_UN)
        self.f.close()

# --------------------------------------------------------------------------------------------
# Params.v: regenerated from /repo's headers on every run
PARAMS_C = r'''
#include "modules/iauth.h"
#include "src/log.h"
#include "src/config.h"
#include <stdio.h>
#define P(n) printf("Definition " #n " : nat := %d.\n", (int)(n))
int main(void) {
    printf("(* GENERATED from /repo headers by lib/common.py on every run; do not edit *)\n");
    P(NICKLEN); P(USERLEN); P(HOSTLEN); P(REALLEN); P(ACCOUNTLEN); P(CLASSLEN); P(IRC_NTOP_MAX); P(ROUTINGLEN);
    P(IAUTH_NUM_FLAGS); P(LOG_NUM_SEVERITIES);
#ifdef CONF_MAX_DEPTH
    P(CONF_MAX_DEPTH);
#else
    printf("Definition CONF_MAX_DEPTH : nat := 0.   (* src/config.h defines no nesting limit *)\n");
#endif
    return 0;
}
'''

def gen_params():
    tmp = BUILD / "params"
    tmp.mkdir(parents=True, exist_ok=True)
    (tmp / "params.c").write_text(PARAMS_C)
    inc = ["-I", str(REPO)]
    if not (REPO / "autoconf.h").exists():          # a tree that was never configured: use the recorded configuration header
        (tmp / "inc").mkdir(exist_ok=True)
        shutil.copy(Path(__file__).resolve().parent.parent / "harness" / "autoconf.fallback.h", tmp / "inc" / "autoconf.h")
        inc += ["-I", str(tmp / "inc")]
    r = run(["gcc"] + inc + ["-o", str(tmp / "params"), str(tmp / "params.c")], timeout=60)
    if r.returncode != 0:
        return None, r.stderr.decode(errors="replace")
    out = run([str(tmp / "params")], timeout=10).stdout.decode()
    tgt = COQ / "Params.v"
    if not tgt.exists() or tgt.read_text() != out:
        tgt.write_text(out)
    return out, ""

FORBIDDEN = re.compile(r"\b(Admitted|admit|Axiom|Axioms|Parameter|Parameters|Conjecture|Admit Obligations|bypass_check|Unset Guard Checking|Unset Positivity Checking|Unset Universe Checking|type-in-type|impredicative-set|native_compute)\b")

def coq_sources():
    return sorted(p for p in COQ.glob("*.v"))

def scan_forbidden():
    bad = []
    for p in coq_sources():
        txt = p.read_text()
        txt = re.sub(r"\(\*.*?\*\)", "", txt, flags=re.S)
        for m in FORBIDDEN.finditer(txt):
            bad.append("%s: %s" % (p.name, m.group(0)))
    proj = (COQ / "_CoqProject").read_text()
    for m in FORBIDDEN.finditer(proj):
        bad.append("_CoqProject: " + m.group(0))
    return bad

def ensure_coq(targets=None):
    """Full .vo build of the Coq project (never -vos).  Returns dict(ok, log, failed=[files])."""
    with Lock("coq"):
        params, err = gen_params()
        if params is None:
            return dict(ok=False, failed=["Params.v"], log="Params.v generator does not compile against /repo headers:\n" + err)
        if not (COQ / "Makefile").exists() or (COQ / "Makefile").stat().st_mtime < (COQ / "_CoqProject").stat().st_mtime:
            r = run(["coq_makefile", "-f", "_CoqProject", "-o", "Makefile"], cwd=COQ, timeout=60)
            if r.returncode != 0:
                return dict(ok=False, failed=["_CoqProject"], log=r.stderr.decode())
        cmd = ["timeout", "2400", "make", "-k", "-j%d" % NCPU]
        if targets:
            cmd += targets
        t0 = time.time()
        r = run(cmd, cwd=COQ, timeout=2500)
        text = r.stdout.decode(errors="replace") + r.stderr.decode(errors="replace")
        (BUILD / "coq_make.log").write_text(text)
        failed = re.findall(r"\*\*\* \[[^\]]*?:\s*\d+:\s*(\S+?)\.vo\]", text)
        failed += re.findall(r"Error: Cannot find a physical path bound to logical path (\S+)", text)
        return dict(ok=(r.returncode == 0), failed=sorted(set(failed)), log=text, wall=time.time() - t0)

def vo_fresh(name):
    v, vo = COQ / (name + ".v"), COQ / (name + ".vo")
    return vo.exists() and vo.stat().st_mtime >= v.stat().st_mtime

def proof_status(pid):
    """Re-compile Properties_<pid>.v (a file of `exact` one-liners) capturing Print Assumptions."""
    name = "Properties_" + pid
    src = COQ / (name + ".v")
    res = dict(file=name + ".v", theorems=[], discharged=0, axioms={}, errors=[], closed=[])
    if not src.exists():
        res["errors"].append("missing " + name + ".v")
        return res
    text = src.read_text()
    res["theorems"] = re.findall(r"^(?:Theorem|Corollary)\s+(\w+)", text, flags=re.M)
    bad = scan_forbidden()
    if bad:
        res["errors"].append("forbidden constructs: " + "; ".join(bad[:5]))
    coq = ensure_coq()
    if not vo_fresh(name):
        first = ""
        m = re.search(r'File "\./(\w+)\.v", line (\d+)[^\n]*\n(?:.*\n){0,8}?Error:[^\n]*(?:\n[^\n]+){0,3}', coq["log"])
        if m:
            first = m.group(0)
        res["errors"].append("Coq build failed (%s); %s" % (", ".join(coq["failed"]) or "see build/coq_make.log", first))
        res["coq_failed"] = coq["failed"]
        return res
    tmp = BUILD / "tmp" / ("pa%d" % os.getpid())
    tmp.mkdir(parents=True, exist_ok=True)
    r = run(["timeout", "600", "coqc", "-R", ".", "IA", "-o", str(tmp / (name + ".vo")), name + ".v"], cwd=COQ, timeout=700)
    shutil.rmtree(tmp, ignore_errors=True)
    out = r.stdout.decode(errors="replace")
    if r.returncode != 0:
        res["errors"].append("coqc %s.v failed: %s" % (name, r.stderr.decode(errors="replace")[-600:]))
        return res
    # Print Assumptions blocks come in the order of the theorems
    blocks = re.split(r"(?=^Closed under the global context|^Axioms:|^Section Variables:)", out, flags=re.M)
    blocks = [b for b in blocks if b.startswith("Closed") or b.startswith("Axioms:") or b.startswith("Section")]
    if len(blocks) != len(res["theorems"]):
        res["errors"].append("expected one Print Assumptions per theorem (%d theorems, %d reports)" % (len(res["theorems"]), len(blocks)))
    for th, b in zip(res["theorems"], blocks):
        if b.startswith("Closed"):
            res["closed"].append(th)
            res["discharged"] += 1
            continue
        names = re.findall(r"^(\w[\w.']*)\s*:", b, flags=re.M)
        names = [n.split(".")[-1] for n in names]
        res["axioms"][th] = names
        if all(n in ALLOWED_AXIOMS for n in names) and b.startswith("Axioms:"):
            res["discharged"] += 1
        else:
            res["errors"].append("theorem %s depends on non-allowed assumptions: %s" % (th, names))
    return res

# --------------------------------------------------------------------------------------------
# extraction + OCaml drivers
def ensure_ocaml(name, extract_v, driver_ml, modname):
    """Extract with coq/<extract_v> (run in build/ocaml/<name>) and link with ocaml/<driver_ml>."""
    d = BUILD / "ocaml" / name
    exe = d / name
    with Lock("ocaml-" + name):
        srcs = [COQ / extract_v, OCAML / driver_ml]
        deps = list(COQ.glob("*.vo"))
        newest = max([p.stat().st_mtime for p in srcs + deps] or [0])
        if exe.exists() and exe.stat().st_mtime >= newest:
            return exe, ""
        d.mkdir(parents=True, exist_ok=True)
        shutil.copy(COQ / extract_v, d / extract_v)
        r = run(["timeout", "900", "coqc", "-R", str(COQ), "IA", extract_v], cwd=d, timeout=1000)
        if r.returncode != 0:
            return None, "extraction failed: " + (r.stdout.decode() + r.stderr.decode())[-800:]
        shutil.copy(OCAML / driver_ml, d / driver_ml)
        shim = OCAML / "shim.ml"
        files = [modname + ".mli", modname + ".ml"]
        if shim.exists():
            shutil.copy(shim, d / "shim.ml")
            files.append("shim.ml")
        files.append(driver_ml)
        r = run(["ocamlfind", "ocamlopt", "-O3", "-w", "-a", "-package", "str", "-linkpkg"] + files + ["-o", name], cwd=d, timeout=600)
        if r.returncode != 0:
            r = run(["ocamlfind", "ocamlopt", "-w", "-a", "-package", "str", "-linkpkg"] + files + ["-o", name], cwd=d, timeout=600)
        if r.returncode != 0:
            return None, "ocaml build failed: " + r.stderr.decode()[-800:]
        return exe, ""

# --------------------------------------------------------------------------------------------
# implementation build (content-addressed: same sources + flags -> same binaries)
CFLAGS = ["-g", "-O1", "-fsanitize=address,undefined", "-fno-sanitize=shift", "-fno-sanitize-recover=undefined", "-fno-omit-frame-pointer",
          "-D" + GUARD, "-DHAVE_CONFIG_H"]
SRC_CORE = ["accumulators", "bitset", "common", "config", "git-version", "log", "module", "set"]

def repo_files():
    fs = sorted(list((REPO / "src").glob("*.[ch]")) + list((REPO / "modules").glob("*.[ch]")))
    return fs

def impl_hash(extra=()):
    h = hashlib.sha256()
    for p in repo_files() + sorted(HARNESS.glob("*")) + [Path(__file__)]:
        h.update(p.name.encode()); h.update(p.read_bytes())
    ac = REPO / "autoconf.h"
    if ac.exists():
        h.update(ac.read_bytes())
    h.update(" ".join(CFLAGS).encode())
    for e in extra:
        h.update(str(e).encode())
    return h.hexdigest()[:16]

def build_impl():
    """Builds daemon, modules, unit harnesses and stub modules from /repo's working tree.  Returns (dir, err)."""
    key = impl_hash()
    root = BUILD / "impl"
    d = root / key
    with Lock("impl"):
        if (d / "OK").exists():
            os.utime(d / "OK")
            return d, ""
        if d.exists():
            shutil.rmtree(d)
        (d / "mods").mkdir(parents=True)
        inc = ["-I", str(REPO)]
        if not (REPO / "autoconf.h").exists():
            (d / "inc").mkdir()
            shutil.copy(HARNESS / "autoconf.fallback.h", d / "inc" / "autoconf.h")
            inc += ["-I", str(d / "inc")]
        defs = ['-DSYSCONFDIR="/nonexistent"', '-DMODULESDIR="%s"' % (d / "mods"), '-DLOGDIR="."']
        core = [str(REPO / "src" / (n + ".c")) for n in SRC_CORE]
        jobs = []
        # objects of the core, shared by every executable
        objs = []
        for n in SRC_CORE + ["main"]:
            o = d / (n + ".o")
            jobs.append(["gcc"] + CFLAGS + inc + defs + ["-c", str(REPO / "src" / (n + ".c")), "-o", str(o)])
            if n != "main":
                objs.append(str(o))
        jobs.append(["gcc"] + CFLAGS + inc + defs + ["-c", str(REPO / "modules" / "iauth_misc.c"), "-o", str(d / "iauth_misc.o")])
        mods = {"iauth": ["iauth_core.c", "iauth_misc.c"], "iauth_xquery": ["iauth_xquery.c"], "iauth_class": ["iauth_class.c"]}
        for m, fs in mods.items():
            jobs.append(["gcc"] + CFLAGS + inc + defs + ["-fPIC", "-shared"] + [str(REPO / "modules" / f) for f in fs] + ["-o", str(d / "mods" / (m + ".so"))])
        stub = HARNESS / "stubmod.c"
        if stub.exists():
            for i in range(6):
                jobs.append(["gcc"] + CFLAGS + inc + defs + ["-fPIC", "-shared", '-DSTUBNAME="m%d"' % i, str(stub), "-o", str(d / "mods" / ("m%d.so" % i))])
        def cc(cmd):
            r = run(cmd, timeout=300)
            return (r.returncode, " ".join(cmd[-3:]) + "\n" + r.stderr.decode(errors="replace"))
        with concurrent.futures.ThreadPoolExecutor(NCPU) as ex:
            rs = list(ex.map(cc, jobs))
        errs = [e for rc, e in rs if rc != 0]
        if errs:
            return None, "implementation does not compile:\n" + "\n".join(errs)[:3000]
        links = [["gcc"] + CFLAGS + objs + [str(d / "main.o"), "-rdynamic", "-o", str(d / "iauthd-c"), "-levent", "-lm", "-ldl"]]
        for h in sorted(HARNESS.glob("h_*.c")):
            extra = [str(d / "iauth_misc.o")] if h.stem in ("h_addr",) else []
            links.append(["gcc"] + CFLAGS + inc + defs + [str(h)] + objs + extra + ["-rdynamic", "-o", str(d / h.stem), "-levent", "-lm", "-ldl"])
        with concurrent.futures.ThreadPoolExecutor(NCPU) as ex:
            rs = list(ex.map(cc, links))
        errs = [e for rc, e in rs if rc != 0]
        if errs:
            return None, "implementation/harness does not link:\n" + "\n".join(errs)[:3000]
        (d / "OK").write_text(key)
        # keep the cache small - but never remove a build another check may still be running on (checks of different trees may
        # run side by side; every use touches OK): only builds unused for two hours go, beyond the three most recent ones
        def used(x):
            try: return (x / "OK").stat().st_mtime
            except OSError: return 0
        olds = sorted([x for x in root.iterdir() if x.is_dir() and x != d], key=used)
        now = time.time()
        for i, x in enumerate(olds[:-3]):
            if now - used(x) > 7200 or len(olds) - i > 300:
                shutil.rmtree(x, ignore_errors=True)
        return d, ""

SAN_ENV = dict(os.environ, ASAN_OPTIONS="detect_leaks=1:abort_on_error=0:exitcode=99", UBSAN_OPTIONS="print_stacktrace=1:halt_on_error=1:exitcode=98",
               LSAN_OPTIONS="exitcode=97")

# --------------------------------------------------------------------------------------------
# known findings
def load_known():
    """known_findings.txt lines:  finding: property=<id> match=<regex> <what fails>   |   fixed: property=<id> <commit> <what failed>"""
    out = []
    p = VERIF / "known_findings.txt"
    if not p.exists():
        return out
    for line in p.read_text().splitlines():
        m = re.match(r"(finding|fixed):\s+property=(\w+)\s+(.*)", line)
        if not m:
            continue
        kind, pid, rest = m.groups()
        ent = dict(kind=kind, property=pid, text=rest)
        if kind == "finding":
            mm = re.match(r"match=(\S+)\s+(.*)", rest)
            if mm:
                ent["match"], ent["text"] = mm.group(1), mm.group(2)
        out.append(ent)
    return out

# --------------------------------------------------------------------------------------------
class Check:
    """One run of one property's check: collects proof status, correspondence results, violations; writes evidence."""
    def __init__(self, pid, tier, seed):
        self.pid, self.tier, self.seed = pid, tier, seed
        self.t0 = time.time()
        self.violations = []       # dicts: kind, what, replay_text, signature
        self.notes = []
        self.cov = dict(evaluations=0, distinct_nontrivial=0, rule="", samples=[], traces_validated_against_impl=0)
        self.assumptions = []
        self.rng = random.Random(seed * 1000003 + int(pid[1:]))
        self.replay_dir = BUILD / "replays"
        self.replay_dir.mkdir(parents=True, exist_ok=True)
        for f in self.replay_dir.glob(pid + "-*.replay"):      # replays of earlier runs; never one a concurrent run has just reported
            try:
                if time.time() - f.stat().st_mtime > 7200:
                    f.unlink()
            except OSError:
                pass
        self.histogram = {}

    def hist(self, key, n=1):
        self.histogram[key] = self.histogram.get(key, 0) + n

    def violation(self, what, replay_text, signature="", found_input=True):
        self.violations.append(dict(what=what, replay=replay_text, signature=signature or what, found=found_input))

    def proofs(self):
        ps = proof_status(self.pid)
        if self.tier == "thorough" and not ps["errors"]:
            # independent re-check of the compiled files (and everything they depend on) with coqchk; lists the axioms of the closure
            try:
                r = run(["timeout", "3000", "coqchk", "-silent", "-o", "-R", ".", "IA", "IA.Properties_" + self.pid], cwd=COQ, timeout=3100)
                out = r.stdout.decode(errors="replace") + r.stderr.decode(errors="replace")
                m = re.search(r"\* Axioms:(.*?)\n\s*\n\* Constants", out, flags=re.S)
                self.cov["coqchk"] = dict(exit=r.returncode, axioms=(m.group(1).strip() if m else "?"), summary=out[-600:])
                if r.returncode != 0 or not m or m.group(1).strip() != "<none>":
                    ps["errors"].append("coqchk does not confirm an axiom-free closure: exit %s, axioms %s" % (r.returncode, m.group(1).strip() if m else out[-300:]))
            except subprocess.TimeoutExpired:
                self.cov["coqchk"] = dict(exit="timeout")
        self.ps = ps
        self.cov["obligations"] = len(ps["theorems"])
        self.cov["discharged"] = ps["discharged"] if not ps["errors"] else min(ps["discharged"], max(0, len(ps["theorems"]) - 1))
        self.cov["theorems"] = ps["theorems"]
        self.cov["axioms_used"] = ps["axioms"]
        self.cov["checker_cmd"] = "cd /verif/coq && coq_makefile -f _CoqProject -o Makefile && make -j16 && coqc -R . IA Properties_%s.v  (Coq 8.16.1, full .vo build; Print Assumptions under every theorem)" % self.pid
        return ps

    def finish(self):
        known = load_known()
        exit_code = 0
        lines = []
        nviol = 0
        seen_known = set()
        # violations with a concrete failing input are reported first (the first VIOLATION line is the one to replay)
        self.violations.sort(key=lambda v: 0 if v["found"] else 1)
        for i, v in enumerate(self.violations):
            matched = None
            for k in known:
                if k["kind"] == "finding" and k["property"] == self.pid and "match" in k and re.search(k["match"], v["signature"]):
                    matched = k
                    break
            if matched:
                if matched["text"] not in seen_known:
                    seen_known.add(matched["text"])
                    lines.append("KNOWN-FINDING: property=%s %s" % (self.pid, matched["text"]))
                continue
            nviol += 1
            if nviol > 3:
                continue
            path = self.replay_dir / ("%s-%d-%d.replay" % (self.pid, os.getpid(), i))
            path.write_text("# property %s\n# %s\n%s\n" % (self.pid, v["what"], v["replay"]))
            tail = "" if v["found"] else " no-failing-input-found"
            lines.append("VIOLATION property=%s replay=%s%s" % (self.pid, path, tail))
            log("  -> " + v["what"][:400])
            exit_code = 1
        ev = dict(property_id=self.pid, tier=self.tier, seed=self.seed, level="proof", coverage=self.cov,
                  assumptions=self.assumptions, wall_s=round(time.time() - self.t0, 2), violations=nviol)
        self.cov["generator_histogram"] = self.histogram
        self.cov["notes"] = self.notes
        (VERIF / "evidence").mkdir(exist_ok=True)
        (VERIF / "evidence" / (self.pid + ".json")).write_text(json.dumps(ev, indent=1, default=str) + "\n")
        for l in lines:
            print(l, flush=True)
        if exit_code == 0:
            print("OK property=%s tier=%s seed=%d obligations=%s discharged=%s evaluations=%s wall=%.1fs" % (
                self.pid, self.tier, self.seed, self.cov.get("obligations"), self.cov.get("discharged"), self.cov.get("evaluations"), time.time() - self.t0), flush=True)
        return exit_code

TRUSTED_BASE_COMMON = [
    "Coq 8.16.1 kernel (coqc, full .vo compilation; vm_compute used, native_compute not used)",
    "no axioms: every property theorem is 'Closed under the global context' (checked from Print Assumptions on every run)",
    "hand-written Gallina model tied to /repo by the correspondence run of this check (differential execution of the extracted model and the implementation built from the working tree)",
    "extraction: ExtrOcamlBasic only (Extract Inductive bool/option/unit/prod/list/sumbool/sumor to OCaml's own, Extract Inlined Constant for fst/snd/andb/orb/negb-style basics); no Extract Constant; Z/N/nat/byte stay Coq datatypes",
    "OCaml 4.13.1 ocamlopt, the driver in /verif/ocaml (I/O, number and byte conversion), the C harness mains in /verif/harness, gcc 12 with ASan/UBSan, glibc, libevent 2.1",
    "Params.v generator (C program printing the length constants of modules/iauth.h)",
]

def proof_violation_text(ps):
    return "proof obligations of %s no longer check:\n  %s" % (ps["file"], "\n  ".join(ps["errors"]))

def chunks(lst, n):
    k = max(1, (len(lst) + n - 1) // n)
    return [lst[i:i + k] for i in range(0, len(lst), k)]

def pmap(fn, items, workers=NCPU):
    with concurrent.futures.ThreadPoolExecutor(workers) as ex:
        return list(ex.map(fn, items))
