"""Shared by C01-C11 and C17: scenario generator, daemon runner (real iauthd-c built from /repo), model runner (extracted Coq model),
per-step comparison.  Every random choice comes from the rng handed in."""
import os, re, subprocess, tempfile, shutil, time, select
from common import *

TYPES = ['login', 'login-ipr', 'dronecheck', 'combined']
UNLINKED = "The login server is currently disconnected.  Please excuse the inconvenience."

class Scn:
    """one scenario: module set, tables, timeout and a list of items: ('L', bytes) raw input line | ('R', svcs, rules, timeout) successful reload"""
    def __init__(self, with_xq=True, with_class=True, svcs=(), rules=(), timeout=0, items=None, note=""):
        self.with_xq, self.with_class = with_xq, with_class
        self.svcs, self.rules, self.timeout = list(svcs), list(rules), timeout
        self.items = items or []
        self.note = note
    def lines(self):
        return [x[1] for x in self.items if x[0] == 'L']
    def describe(self):
        out = ["modules: iauth%s%s; timeout %s; services %s" % (" iauth_xquery" if self.with_xq else "", " iauth_class" if self.with_class else "", self.timeout, self.svcs)]
        for r in self.rules:
            out.append("rule %s" % r)
        for it in self.items:
            if it[0] == 'L':
                out.append("> " + it[1].decode("latin1"))
            else:
                out.append("RELOAD services=%s rules=%s timeout=%s" % (it[1], it[2], it[3]))
        return "\n".join(out)

def q(s):
    return '"' + s.replace('\\', '\\\\').replace('"', '\\"') + '"'

def conf_text(moddir, with_xq, with_class, svcs, rules, timeout, logs=None, omit_empty=False, mods_variant=0):
    mods = ["iauth"] + (["iauth_xquery"] if with_xq else []) + (["iauth_class"] if with_class else [])
    # the core.modules entry of a RELOADED file may be written differently: modules are neither loaded nor unloaded by a reload, so
    # listing them in another order, or listing fewer, must not change anything (and must not leave anybody with a stale name, D25)
    if mods_variant % 3 == 1: mods = mods[::-1]
    elif mods_variant % 3 == 2: mods = mods[:1]
    t = 'core {\n library_path ( "%s" )\n modules ( %s )\n}\n' % (moddir, ", ".join(mods))
    t += 'iauth { timeout %d }\n' % timeout
    if with_xq and not (omit_empty and not svcs):
        t += 'iauth_xquery {\n' + ''.join(' %s %s\n' % (q(n), q(ty)) for n, ty in svcs) + '}\n'
    if with_class and not (omit_empty and not rules):
        t += 'iauth_class {\n'
        for r in rules:
            t += ' %s {' % q(r['name'])
            for k in ('class', 'account', 'address', 'username', 'hostname', 'xreply_ok'):
                if r.get(k) is not None:
                    t += ' %s %s;' % (k, q(r[k]))
            if r.get('trust'):
                t += ' trust_username true;'
            t += ' dummy x\n }\n'
        t += '}\n'
    if logs:
        t += logs
    return t

def sorted_svcs(svcs):
    """the order in which iauth_xquery sees its entries: case-insensitive by name, later duplicates override"""
    d = {}
    for n, t in svcs:
        d[n.lower()] = (n, t)
    return [d[k] for k in sorted(d, key=lambda s: s.encode("latin1"))]

def sorted_rules(rules):
    d = {}
    for r in rules:
        d[r['name'].lower()] = r
    return [d[k] for k in sorted(d, key=lambda s: s.encode("latin1"))]

# ------------------------------------------------------------------------------------------------
# shadow automaton (python) used ONLY to steer the generator towards meaningful histories
PRE = {'login': {'P'}, 'login-ipr': {'H', 'I', 'P'}, 'dronecheck': {'H', 'I', 'N', 'U'}, 'combined': {'H', 'I', 'N', 'U'}}
NEED = {'H', 'I', 'N', 'U'}

class Cli:
    def __init__(s, cid, serial):
        s.id, s.serial = cid, serial
        s.got = set(); s.empty_ident = False; s.cli_user = ''; s.host = ''
        s.pw = ''; s.ho = False; s.sent = set(); s.out = set(); s.more = set(); s.vouched = ''; s.timed_out = False; s.timer = False
    def tag(s):
        return "%x_%x" % (s.id & 0xffffffff, s.serial)

class Shadow:
    def __init__(s, svcs, timeout, with_xq):
        s.svcs = [(n_, t_.lower()) for n_, t_ in svcs]; s.timeout = timeout; s.with_xq = with_xq; s.live = {}; s.serial = 0     # type names are case-insensitive
    def qpass(s, c, flag):
        for name, typ in s.svcs:
            if typ not in PRE: continue
            if name in c.sent and (flag != 'P' or typ == 'dronecheck'): continue
            if typ in ('login', 'login-ipr') and not c.pw: continue
            if not PRE[typ] <= c.got: continue
            c.sent.add(name); c.out.add(name)
    def gate(s, c):
        need = NEED if s.with_xq else {'H'}
        if not (need <= c.got) or (c.ho and not c.vouched): return
        if not c.out or c.timed_out:
            del s.live[c.id]
    def step(s, line):
        toks = line.split(' ')
        try: cid = int(toks[0])
        except ValueError: return
        if len(toks) < 2 or not toks[1]: return
        cmd = toks[1][0]; args = []; i = 2
        while i < len(toks):
            if toks[i].startswith(':'): args.append(' '.join(toks[i:])[1:]); break
            if toks[i]: args.append(toks[i])
            i += 1
        if cmd == 'C':
            if len(args) < 4: return
            s.serial += 1
            c = Cli(cid, s.serial); c.timer = s.timeout > 0; s.live[cid] = c; return
        if cmd in 'Xx':
            if cid != -1 and cid not in s.live: return        # a line whose id is neither -1 nor live is dropped before dispatch
            if len(args) < 3 or not s.with_xq: return
            try: a, b = args[1].split('_'); tid = int(a, 16); ser = int(b, 16)
            except ValueError: return
            if tid >= 2**31: tid -= 2**32
            c = s.live.get(tid)
            if not c or c.serial != ser or args[0] not in c.out: return
            typ = dict(s.svcs).get(args[0]); text = args[2] if cmd == 'X' else None
            if text is None: pass
            elif text == 'OK' or text.startswith('OK '):
                acct = text[3:].split(' ')[0] if len(text) > 3 else ''
                if acct and typ in ('login', 'login-ipr', 'combined'): c.vouched = acct[:64]
            elif text.startswith('NO '): del s.live[tid]; return
            elif text.startswith('AGAIN '): pass
            elif text.startswith('MORE '): c.more.add(args[0])
            else: return
            c.out.discard(args[0]); s.gate(c); return
        c = s.live.get(cid)
        if c is None: return
        if cmd in 'DT': del s.live[cid]; return
        if cmd == '!':
            if args and args[0] == 'timeout' and c.timer: c.timer = False; c.timed_out = True; s.gate(c)
            return
        if cmd == 'N':
            if not args or c.host: return
            c.host = args[0][:63]; c.got.add('H'); s.qpass(c, 'H')
        elif cmd == 'd': c.got.add('H'); s.qpass(c, 'H')
        elif cmd == 'u':
            if args: c.got.add('I')
            elif c.cli_user: c.got.add('I')
            else: c.empty_ident = True
            s.qpass(c, 'I')
        elif cmd == 'n':
            if not args: return
            c.got.add('N'); s.qpass(c, 'N')
        elif cmd == 'U':
            if len(args) < 2: return
            c.cli_user = args[0][:10]; c.got.add('U')
            if c.empty_ident: c.got.add('I')
            s.qpass(c, 'U')
        elif cmd == 'H':
            c.got |= (NEED if s.with_xq else {'H'}); s.qpass(c, 'HU')
        elif cmd == 'P':
            if not args or not s.with_xq: return
            c.got.add('P'); t = args[0]
            if not c.more or not c.pw:
                if not t or t[0] not in '+-': s.gate(c); return
                i = 0; st = False; mset = set(); mclr = set()
                while True:
                    if i >= len(t): s.gate(c); return
                    ch = t[i]
                    if ch == ' ': break
                    i += 1
                    if ch == '+': st = True
                    elif ch == '-': st = False
                    elif ch in 'x!':
                        if st: mset.add(ch); mclr.discard(ch)
                        else: mclr.add(ch); mset.discard(ch)
                while i < len(t) and t[i] == ' ': i += 1
                rest = t[i:]
                if ' ' not in rest: s.gate(c); return
                if '!' in mset: c.ho = True
                if '!' in mclr: c.ho = False
                c.pw = rest[:511]; s.qpass(c, 'P')
            else:
                for name, typ in s.svcs:
                    if name in c.more: c.more.discard(name); c.out.add(name)
        else: return
        s.gate(c)

# ------------------------------------------------------------------------------------------------
ADDRS = ['1.2.3.4', '10.0.0.7', '2001:db8::1', '0::1', '1:2:3:4:5:6:7:8', '2001:0:0:1:0:2:0:0', '0:1:2:3:4:5:6:7', '::ffff:9.8.7.6', '::5.6.7.8',
         'fe80::10:100:1000', '200.100.50.25', '2001:db8:0:0:a:b:c:1234', 'ff02::', '::', '1::', '0:0:1::', '192.168.1.1', '127.0.0.1']
ACCTS = ['oper:1', 'op', 'bob:5:6', 'x' * 70, 'a b', 'Oper', 'alice:1234', 'op:']

def gen_tables(rng, prof):
    nsv = rng.choice(prof.get('nsv', [0, 1, 1, 2, 2, 3, 4]))
    names = rng.sample(['s0.x', 's1.x', 's2.x', 'S3.x', 'login.svc', 'drone.svc', 'Auth.Svc', 'z.y'], nsv)
    svcs = sorted_svcs([(n, rng.choice(TYPES if rng.random() < 0.95 else TYPES + ['bogus', 'LOGIN'])) for n in names])
    rules = []
    if rng.random() < prof.get('p_rules', 0.7):
        for i in range(rng.choice([1, 1, 2, 3, 4, 6])):
            r = dict(name=rng.choice(['r', 'R', 'a', 'Z', 'rule']) + str(rng.randrange(100, 999)), trust=rng.random() < 0.3)
            r['class'] = rng.choice([None, 'dflt', 'opers', 'c' * 70])
            if rng.random() < 0.45: r['account'] = rng.choice(['op*', '*', 'bob', '?p', 'alice', 'o*r', ''])
            if rng.random() < 0.3: r['address'] = rng.choice(['1.2.3.0/24', '10.0.0.0/8', '2001:db8::/32', '1.2.3.4', '*', '10.*', '2001:db8:*', '::/0', '200.0.0.0/5', '1.2.3.4/32', '2001:db8::a:b:c:0/112', '0::1/128'])
            if rng.random() < 0.2: r['username'] = rng.choice(['ident', '~*', 'ab*', '*', 'i?ent'])
            if rng.random() < 0.2: r['hostname'] = rng.choice(['*.example.org', 'a', '*', '', 'host.*'])
            if rng.random() < prof.get('p_xok', 0.2) and names: r['xreply_ok'] = rng.choice(names + [names[0].upper(), 'nosuch.x'])
            rules.append(r)
        rules = sorted_rules(rules)
    return svcs, rules

def gen_scn(rng, prof, hist=lambda k, n=1: None):
    """prof: dict of generator weights (see the property modules)"""
    with_xq = rng.random() < prof.get('p_xq', 0.93)
    with_class = with_xq and rng.random() < prof.get('p_class', 0.8)
    if with_xq:
        svcs, rules = gen_tables(rng, prof)
    else:
        svcs, rules = [], []
    if not with_class:
        rules = []
    timeout = rng.choice(prof.get('timeouts', [0, 0, 3600]))
    scn = Scn(with_xq, with_class, svcs, rules, timeout)
    sh = Shadow(svcs, timeout, with_xq)
    cur_svcs = [list(svcs)]
    oldtags = []
    idpool = prof.get('ids')
    if idpool is None:
        r = rng.random()
        if r < 0.85: idpool = list(range(0, 6))
        elif r < 0.93: idpool = [2147483647, -2, 5, -2147483648, 0, 1000000]
        else: idpool = [rng.randrange(-2**31, 2**31) for _ in range(4)] + [7]
        idpool = [i for i in idpool if i != -1]
    ids = [rng.choice(idpool) for _ in range(rng.randrange(1, prof.get('maxcli', 4) + 1))]
    def rtext():
        return rng.choice(['hello world', 'x', '', 'a:b %s %d', 'tr ail ', ':colon first', 'y' * rng.choice([63, 64, 65, 500, 1100]), '~%%'])
    def emit(l):
        if isinstance(l, str): l = l.encode('latin1')
        scn.items.append(('L', l)); sh.step(l.decode('latin1')); hist("ev:" + (l.split(b' ')[1][:1].decode('latin1') if len(l.split(b' ')) > 1 and l.split(b' ')[1] else '?'))
    n = rng.randrange(prof.get('minlen', 6), prof.get('maxlen', 50))
    for _ in range(n):
        r = rng.random()
        cid = rng.choice(ids)
        c = sh.live.get(cid)
        if with_xq and rng.random() < prof.get('p_reload', 0.0):
            # a successful reload between two input lines: drop a service (preferably one somebody awaits), change a protocol in
            # place, or add a service; clients in flight keep what they were promised
            cur = list(scn.items[-1][1]) if scn.items and scn.items[-1][0] == 'R' else [(n_, t_) for n_, t_ in cur_svcs[0]]
            awaited = sorted({n_ for cl in sh.live.values() for n_ in cl.out})
            e = rng.random()
            if e < 0.5 and cur:
                victim = rng.choice([x for x in cur if x[0] in awaited] or cur)
                cur = [x for x in cur if x != victim]; hist("reload:drop service")
            elif e < 0.75 and cur:
                i_ = rng.randrange(len(cur)); cur[i_] = (cur[i_][0], rng.choice(TYPES)); hist("reload:change protocol")
            else:
                free = [n_ for n_ in ['n1.x', 'n2.x', 'z9.x'] if n_.lower() not in [x[0].lower() for x in cur]]
                if free: cur.append((rng.choice(free), rng.choice(TYPES)))
                hist("reload:add service")
            cur = sorted_svcs(cur); cur_svcs[0] = cur
            scn.items.append(('R', cur, rules, timeout)); sh.svcs = [(n_, t_.lower()) for n_, t_ in cur]
            continue
        if c is None and sh.serial > 0 and rng.random() < prof.get('p_departed', 0.2):
            # traffic for an id that is not live (never announced, decided or withdrawn): must be ignored
            if with_xq and oldtags and rng.random() < 0.4:
                # a late answer to a query of an instance that has left and whose id is (perhaps) not in use again
                mine = [x for x in oldtags if x[0].split('_')[0] == '%x' % (cid & 0xffffffff)] or oldtags
                tag, oldout = rng.choice(mine)
                svc = rng.choice(oldout or [s_[0] for s_ in sh.svcs] or ['nosuch.x'])
                if rng.random() < 0.15: emit("-1 x %s %s :gone" % (svc, tag))
                else: emit("-1 X %s %s :%s" % (svc, tag, rng.choice(['OK', 'OK %s' % rng.choice(ACCTS), 'NO %s' % rtext(), 'NO', 'AGAIN %s' % rtext(), 'MORE %s' % rtext(), 'MORE'])))
                hist("late reply for a departed instance"); continue
            emit("%d %s" % (cid, rng.choice(['N late.example.org', 'u ident', 'u', 'n Late', 'U user :Real', 'H', 'H', 'H', 'P :+x acct pw', 'P :+x acct pw', 'd', 'T', 'D', '! timeout']))); continue
        if c is None or r < prof.get('p_reannounce', 0.04):
            if c is not None: oldtags.append((c.tag(), sorted(c.out)))
            emit("%d C %s %d 10.1.1.1 6667" % (cid, rng.choice(ADDRS), rng.choice([1000 + (cid & 0xfff), 0, 65535, 6667]))); continue
        if r < 0.50:
            missing = [k for k, f in (('N', 'H'), ('u', 'I'), ('n', 'N'), ('U', 'U')) if f not in c.got]
            k = rng.choice(missing * prof.get('w_missing', 3) + ['N', 'd', 'u', 'ue', 'n', 'U', 'H'] + ['P'] * prof.get('w_pass', 3) + prof.get('extra_kinds', []))
            if k == 'N': emit("%d N %s" % (cid, rng.choice(['host.example.org', 'h' * 62, 'h' * 63, 'h' * 64, 'a', 'x.example.org'])))
            elif k == 'd': emit("%d d" % cid)
            elif k == 'u': emit("%d u %s" % (cid, rng.choice(['ident', '~untr', 'abcdefghijkl', 'abcdefghij', 'ab'])))
            elif k == 'ue': emit("%d u" % cid)
            elif k == 'n': emit("%d n %s" % (cid, rng.choice(['Nick', 'N' * 29, 'N' * 30, 'N' * 31, 'n|ck'])))
            elif k == 'U': emit("%d U %s :%s" % (cid, rng.choice(['user', '~tilde', 'abcdefghij', 'abcdefghijk', '~', 'abcdefghi']), rng.choice(['Real Name', 'r' * 49, 'r' * 50, 'r' * 51, '', ':x y'])))
            elif k == 'H': emit("%d H" % cid)
            elif k == 'Ubad': emit("%d U onlyuser" % cid)
            else:
                emit("%d P :%s" % (cid, rng.choice(['+x acct pass', '+! acct pass', '-! acct pass', '+x-x+! a b c', 'plain', '+x nospace', '+ a b', 'Mellon', '-x! a b', '+!', '+x  two  spaces', '+xq!z acct pw more words', '-x acct ' + 'p' * 520, 'second try', '+x lonelyaccount'])))
        elif r < 0.88 and with_xq:
            k = rng.random()
            svcnames = [s_[0] for s_ in sh.svcs]
            if k < prof.get('p_good_reply', 0.72) and len(c.out) >= 2 and rng.random() < prof.get('p_burst', 0.3):
                # every awaited service answers in a row, with a mix of stamped and plain OKs (order matters for the stored account)
                tg = c.tag()
                for svc_ in rng.sample(sorted(c.out), len(c.out)):
                    emit("-1 X %s %s :%s" % (svc_, tg, rng.choice(['OK %s' % rng.choice(ACCTS), 'OK', 'OK ', 'OK other:9', 'OK %s' % rng.choice(ACCTS)])))
                continue
            if k < prof.get('p_good_reply', 0.72) and c.out:
                tag = c.tag(); svc = rng.choice(sorted(c.out))
            elif k < 0.84:
                tag = c.tag(); svc = rng.choice(svcnames + ['nosuch.x'] + [x.upper() for x in svcnames[:1]])
            elif k < 0.92 and oldtags:
                # stale tag after id reuse, preferring a service the new instance awaits now
                tag, oldout = rng.choice(oldtags)
                cand = sorted(c.out) or svcnames or ['nosuch.x']
                svc = rng.choice(cand)
            else:
                tag = rng.choice(['zz', '5_', '_1', '0_0', 'ffffffff_1', c.tag() + '0', '0x' + c.tag(), '+' + c.tag(), c.tag().replace('_', '_0'), c.tag() + ' ', '%x_1%08x' % (c.id & 0xffffffff, c.serial), ' ' + c.tag(), '-' + c.tag(), c.tag().replace('_', '_-'), c.tag().upper()])
                svc = rng.choice(sorted(c.out) or svcnames + ['nosuch.x'])
            pre = rng.choice(["-1", "-1", "-1", str(cid), "77"])
            if rng.random() < 0.1:
                emit("%s x %s %s :gone" % (pre, svc, tag))
            else:
                t = rng.choice(['OK', 'OK', 'OK', 'OK %s' % rng.choice(ACCTS), 'OK %s' % rng.choice(ACCTS), 'OK ', 'OK  x', 'OKx', 'NO %s' % rtext(), 'NO',
                                'AGAIN %s' % rtext(), 'MORE %s' % rtext(), 'MORE', 'weird', 'ok', 'OK\tacct'])
                emit("%s X %s %s :%s" % (pre, svc, tag, t))
        elif r < 0.93 and timeout:
            emit("%d ! timeout" % cid)
        elif r < 0.96:
            oldtags.append((c.tag(), sorted(c.out))); emit("%d %s" % (cid, rng.choice(['D', 'T'])))
        else:
            emit("%d %s" % (rng.choice([91, 92, 93]), rng.choice(['N x', 'H', 'D', 'Q zz', 'u', 'P :+x a b', 'T', 'E a b', 'M s 5'])))
    return scn

# ------------------------------------------------------------------------------------------------
def write_case(f, scn):
    f.write("CASE %d %d\n" % (1 if scn.with_xq else 0, 1 if scn.timeout else 0))
    def tables(svcs, rules):
        for n, t in svcs:
            f.write("S\t%s\t%s\n" % (n, t))
        for r in rules:
            f.write("R\t%s\t%s\t%s\t%s\t%s\t%s\t%s\t%d\n" % (r['name'], *[(r.get(k) if r.get(k) is not None else "-") for k in ('class', 'account', 'address', 'username', 'hostname', 'xreply_ok')], 1 if r.get('trust') else 0))
    tables(scn.svcs, scn.rules)
    for it in scn.items:
        if it[0] == 'L':
            f.write("L\t%s\n" % it[1].hex() if it[1] else "L\n")
        else:
            f.write("RL\t%d\n" % (1 if it[3] else 0)); tables(it[1], it[2]); f.write("RE\n")
    f.write("END\n")

def run_model(drv, scns):
    """returns for each scenario a list of (lines, in_use) per item"""
    parts = chunks(list(range(len(scns))), NCPU)
    res = [None] * len(scns)
    def work(idx):
        tmp = tempfile.NamedTemporaryFile("w", dir=str(BUILD / "tmp"), suffix=".cases", delete=False, encoding="latin1")
        for i in idx:
            write_case(tmp, scns[i])
        tmp.close()
        p = subprocess.run([str(drv), tmp.name], stdout=subprocess.PIPE, stderr=subprocess.PIPE, timeout=1200)
        os.unlink(tmp.name)
        out = p.stdout.decode('latin1')
        cases = out.split("==\n")[:-1]
        r = []
        for c in cases:
            steps = []; cur = []
            for l in c.split("\n")[:-1]:
                m = re.fullmatch(r"--(\d+)", l)
                if m:
                    steps.append((cur, int(m.group(1)))); cur = []
                else:
                    cur.append(l)
            r.append(steps)
        if len(r) != len(idx):
            raise RuntimeError("model driver failed: " + p.stderr.decode()[-500:])
        return idx, r
    (BUILD / "tmp").mkdir(exist_ok=True)
    for idx, r in pmap(work, [p for p in parts if p]):
        for i, x in zip(idx, r):
            res[i] = x
    return res

MARK = b"-1 ? stats2\n"

def split_steps(text):
    """daemon stdout (after the banner) -> list of (lines, in_use) per marker"""
    steps = []; cur = []; inuse = None
    for l in text.split("\n"):
        if l == 's':
            steps.append((cur, inuse)); cur = []; inuse = None
        elif re.match(r"S [^ :\r\0][^ \r\0]* :", l):        # a well-formed statistics line; anything else that starts with 'S ' is kept as output
            m = re.match(r"S iauth :\d+-\d+ reqs alloc, (\d+) in use", l)
            if m: inuse = int(m.group(1))
        else:
            cur.append(l)
    return steps, cur

class DaemonResult:
    pass

def run_daemon(impl, scn, marker=True, chunking=None, logs=None, extra_env=None, workdir=None, timeout_s=60):
    """run the real daemon on the scenario; returns DaemonResult(rc, banner, steps, tail, stderr, raw_stdout)"""
    (BUILD / "tmp").mkdir(parents=True, exist_ok=True)
    d = Path(tempfile.mkdtemp(dir=str(BUILD / "tmp"), prefix="d"))
    try:
        conf = d / "iauthd.conf"
        conf.write_text(conf_text(str(impl / "mods"), scn.with_xq, scn.with_class, scn.svcs, scn.rules, scn.timeout, logs, getattr(scn, 'omit_empty', False)), encoding="latin1")
        env = dict(SAN_ENV)
        if extra_env: env.update(extra_env)
        res = DaemonResult()
        has_reload = any(it[0] in ('R', 'W') for it in scn.items)
        argv = [str(impl / "iauthd-c"), "-n", "-f", str(conf)]
        if not has_reload and chunking is None:
            inp = MARK if marker else b""
            for it in scn.items:
                inp += it[1] + b"\n" + (MARK if marker else b"")
            p = subprocess.run(argv, input=inp, stdout=subprocess.PIPE, stderr=subprocess.PIPE, timeout=timeout_s, env=env, cwd=str(d))
            out = p.stdout; res.rc = p.returncode; res.stderr = p.stderr.decode(errors='replace')
        else:
            p = subprocess.Popen(argv, stdin=subprocess.PIPE, stdout=subprocess.PIPE, stderr=subprocess.PIPE, env=env, cwd=str(d))
            out = b""
            nmark = 0
            def pump(upto):
                nonlocal out
                deadline = time.time() + timeout_s
                while out.count(b"\ns\n") + (1 if out.startswith(b"s\n") else 0) < upto and time.time() < deadline:
                    r, _, _ = select.select([p.stdout], [], [], 0.5)
                    if r:
                        b = os.read(p.stdout.fileno(), 65536)
                        if not b: break
                        out += b
                    elif p.poll() is not None:
                        break
            def send(b):
                if chunking:
                    i = 0
                    while i < len(b):
                        k = chunking(len(b) - i)
                        p.stdin.write(b[i:i + k]); p.stdin.flush(); i += k
                else:
                    p.stdin.write(b); p.stdin.flush()
            try:
                nreload = 0
                if marker:
                    send(MARK); nmark += 1
                for it in scn.items:
                    if it[0] == 'L':
                        send(it[1] + b"\n" + (MARK if marker else b"")); nmark += 1 if marker else 0
                    elif it[0] == 'W':
                        pump(nmark)          # real time passes: whatever a timer makes the daemon print belongs to this item
                        time.sleep(it[1])
                        send(MARK); nmark += 1
                        pump(nmark)
                    else:
                        pump(nmark)      # everything before the reload has been processed
                        nreload += 1
                        conf.write_text(conf_text(str(impl / "mods"), scn.with_xq, scn.with_class, it[1], it[2], it[3], logs, getattr(scn, 'omit_empty', False), mods_variant=nreload), encoding="latin1")
                        send(b"-1 ! reload\n" + (MARK if marker else b"")); nmark += 1 if marker else 0
                        pump(nmark)
                p.stdin.close()
            except BrokenPipeError:
                pass
            try:
                rest, err = p.stdout.read(), p.stderr.read()
                p.wait(timeout=timeout_s)
            except subprocess.TimeoutExpired:
                p.kill(); rest, err = b"", b"TIMEOUT"
            out += rest or b""
            res.rc = p.returncode; res.stderr = (err or b"").decode(errors='replace')
        text = out.decode('latin1')
        res.raw = text
        # banner = everything up to and including the first stats block
        if marker:
            steps, tail = split_steps(text)
            res.banner = steps[0][0] if steps else []
            # what the daemon prints BEFORE its version banner (start-up diagnostics, written while the log verbosity is still
            # the start-up default) is outside the channel contract, which begins with the V line
            vpos = next((i_ for i_, l_ in enumerate(res.banner) if l_.startswith("V ")), None)
            res.prebanner = res.banner[:vpos] if vpos is not None else []
            if vpos is not None: res.banner = res.banner[vpos:]
            res.banner_inuse = steps[0][1] if steps else None
            res.steps = steps[1:]
            res.tail = tail
        else:
            res.banner, res.steps, res.tail = [], [], text.split("\n")
        return res
    finally:
        shutil.rmtree(d, ignore_errors=True)

def run_daemons(impl, scns, **kw):
    return pmap(lambda s: run_daemon(impl, s, **kw), scns)

# ------------------------------------------------------------------------------------------------
# parsing of server-channel lines
CLIENT_KINDS = "DRkdCMNUuoIKr"
def parse_line(l):
    """-> ('X', service, tag, payload) | ('C', kind, id, addr, port, rest) | ('O', text)"""
    m = re.fullmatch(r"X (\S+) (\S+) :(.*)", l, flags=re.S)
    if m: return ('X', m.group(1), m.group(2), m.group(3))
    m = re.fullmatch(r"([A-Za-z]) (-?\d+) (\S+) (\d+)( .*)?", l, flags=re.S)
    if m and m.group(1) in CLIENT_KINDS: return ('C', m.group(1), int(m.group(2)), m.group(3), int(m.group(4)), m.group(5) or "")
    return ('O', l)

def tag_id(tag):
    try:
        a, b = tag.split('_'); i = int(a, 16)
        return (i - 2**32 if i >= 2**31 else i), int(b, 16)
    except ValueError:
        return None, None

def setup(chk, extra_tb=()):
    """proof status + drivers + implementation; returns (drv, impl) or None when nothing can be run"""
    ps = chk.proofs()
    chk.cov["trusted_base"] = TRUSTED_BASE_COMMON + list(extra_tb) + [
        "verification hooks in /repo guarded by IAUTHD_C_VERIF ('<id> ! timeout' fires a pending request timer, '-1 ! reload' re-reads the configuration) and the '-1 ? stats2' marker used to attribute output to input lines",
        "fnmatch(3) is modelled for patterns made of literals, '*' and '?' only; rule addresses are valid mask texts (operator-controlled configuration)",
        "modelled, not verified: libevent (timers, evbuffer), the heap, dlopen"]
    drv, err = ensure_ocaml("drv_iauth", "Extract_iauth.v", "drv_iauth.ml", "iauth_model")
    impl, ierr = build_impl()
    if impl is None:
        print(ierr); sys.exit(2)
    if ps["errors"]:
        chk.violation(proof_violation_text(ps), proof_violation_text(ps), "proof:" + ps["file"], found_input=False)
    if drv is None:
        chk.violation("extraction/driver build failed: " + err, err, "extract", found_input=False)
        return None
    (BUILD / "tmp").mkdir(exist_ok=True)
    return drv, impl

def minimise_scn(scn, fails, budget=120):
    """greedy removal of items while `fails(scn)` stays true"""
    cur = list(scn.items); n = 0
    def mk(items):
        return Scn(scn.with_xq, scn.with_class, scn.svcs, scn.rules, scn.timeout, items, scn.note)
    changed = True
    while changed and n < budget:
        changed = False
        for i in range(len(cur) - 1, -1, -1):
            cand = cur[:i] + cur[i + 1:]
            n += 1
            if n > budget: break
            if cand and fails(mk(cand)):
                cur = cand; changed = True
    return mk(cur)

# ------------------------------------------------------------------------------------------------
def L(*lines):
    return [('L', (l.encode('latin1') if isinstance(l, str) else l)) for l in lines]

def corpus():
    """hand-minimised histories of past failures (D1, D3-D6, D16, D22, D7) and of ordinary sessions; run first by every IAuth check"""
    two_login = [('a.svc', 'login'), ('b.svc', 'login')]
    c = []
    c.append(Scn(True, True, two_login, [dict(name='r500', **{'class': 'dflt'})], 0, L("5 C 1.2.3.4 1234 10.0.0.1 6667", "5 P :+! acct pass", "-1 X a.svc 5_1 :OK acct:1", "-1 X b.svc 5_1 :OK acct:1", "5 H"), "D4 two vouchers under +!"))
    c.append(Scn(True, False, [('a.svc', 'login')], [], 0, L("5 C 1.2.3.4 1234 10.0.0.1 6667", "5 P :+! acct pass", "-1 X a.svc 5_1 :OK ", "5 H", "5 D"), "D5 empty account under +!"))
    c.append(Scn(True, False, [('d.svc', 'dronecheck')], [], 0, L("5 C 1.2.3.4 1234 10.0.0.1 6667", "5 P :+! a b", "5 H", "-1 X d.svc 5_1 :OK", "5 P :-! a b"), "D6 no re-evaluation after password"))
    c.append(Scn(True, False, [('a.svc', 'login'), ('d.svc', 'dronecheck')], [], 3600, L("5 C 1.2.3.4 1234 10.0.0.1 6667", "5 P :+x a b", "5 ! timeout", "-1 X a.svc 5_1 :OK a", "5 H", "-1 X d.svc 5_1 :OK"), "D3 reply after timeout"))
    c.append(Scn(True, False, [('d.svc', 'dronecheck')], [], 3600, L("5 C 1.2.3.4 1234 10.0.0.1 6667", "5 ! timeout", "5 H", "-1 X d.svc 5_1 :OK"), "D3 query first sent after expiry"))
    c.append(Scn(True, True, [], [dict(name='r1', trust=True)], 0, L("5 C 1.2.3.4 1 10.0.0.1 6667", "5 u ~foo", "5 H", "6 C 1.2.3.4 1 10.0.0.1 6667", "6 u ~foo", "6 U ~ :x", "6 H", "7 C 1.2.3.4 1 10.0.0.1 6667", "7 u ~foo", "7 U bar :x", "7 H"), "D16 empty trusted user name"))
    c.append(Scn(True, False, [('a.svc', 'login')], [], 0, L("0 C 1.2.3.4 1 10.0.0.1 6667", "0 P :+x a b", "-1 X a.svc _1 :OK acct", "-1 X a.svc 0_ :OK acct", "-1 X a.svc _ :OK acct", "0 H", "-1 X a.svc 0_1 :OK acct"), "D22 tag without digits"))
    c.append(Scn(True, False, [('d.svc', 'dronecheck')], [], 0, L("2147483647 C 1.2.3.4 1 10.0.0.1 6667", "-2 C 1.2.3.4 1 10.0.0.1 6667", "5 C 1.2.3.4 1 10.0.0.1 6667", "2147483647 H", "-2 H", "5 H", "-1 X d.svc 7fffffff_1 :OK", "-1 X d.svc fffffffe_2 :OK", "-1 X d.svc 5_3 :NO go away"), "D7 extreme ids"))
    c.append(Scn(True, False, [('a.svc', 'login')], [], 0, L("5 C 1.2.3.4 1 10.0.0.1 6667", "5", "   ", "5 N", "5 P", "5 n", "5 u", "5 U", "5 U a", "5 H"), "D1 missing parameters"))
    # an ordinary session in the style of tests/code-coverage.pl
    c.append(Scn(True, True, [('drone.svc', 'dronecheck'), ('login.svc', 'login')], [dict(name='r100', account='op*', **{'class': 'opers'}), dict(name='r500')], 0,
                 L("1 C 192.168.1.9 40001 10.0.0.1 6667", "1 N client.example.org", "1 u ident", "1 n Nick", "1 U user :Real Name", "1 P :+x oper secret", "-1 X login.svc 1_1 :OK oper:1234",
                   "-1 X drone.svc 1_1 :OK", "2 C 2001:db8::5 40002 10.0.0.1 6667", "2 d", "2 u", "2 U ~u2 :r", "2 n N2", "-1 X drone.svc 2_2 :NO drones are not welcome", "2 D",
                   "3 C 10.9.8.7 3 10.0.0.1 6667", "3 H", "-1 x drone.svc 3_3 :unlinked", "3 T"), "ordinary sessions"))
    # id reuse with a stale reply for a service the newcomer awaits
    c.append(Scn(True, False, [('a.svc', 'login')], [], 0, L("5 C 1.2.3.4 1 10.0.0.1 6667", "5 P :+x a b", "5 D", "5 C 1.2.3.5 2 10.0.0.1 6667", "5 P :+x c d", "-1 X a.svc 5_1 :OK stale", "-1 X a.svc 5_1 :NO stale", "5 H", "-1 X a.svc 5_2 :OK fresh"), "stale serial after id reuse"))
    # challenge / response with two services
    c.append(Scn(True, False, two_login, [], 0, L("3 C 1.2.3.4 1 10.0.0.1 6667", "3 P :+x a b", "-1 X a.svc 3_1 :MORE first?", "-1 X b.svc 3_1 :MORE second?", "3 P :answer", "-1 X a.svc 3_1 :OK a", "-1 X b.svc 3_1 :AGAIN no", "3 U u :r", "3 H"), "two MORE challenges"))
    # a reload drops a service somebody still awaits; its answer (OK / NO) must still count for that client, newcomers do not ask it
    for txt in ("OK late:7", "NO refused late"):
        c.append(Scn(True, False, two_login, [], 0, L("5 C 1.2.3.4 1 10.0.0.1 6667", "5 P :+x a b") + [('R', [('a.svc', 'login')], [], 0)] +
                     L("6 C 1.2.3.6 1 10.0.0.1 6667", "6 P :+x c d", "-1 X b.svc 5_1 :" + txt, "5 H", "-1 X a.svc 5_1 :OK a:1", "-1 X a.svc 6_2 :OK c:2", "6 H"), "service dropped by a reload while awaited, then its answer (%s)" % txt[:2]))
    c.append(Scn(True, False, two_login, [], 0, L("5 C 1.2.3.4 1 10.0.0.1 6667", "5 P :+x a b") + [('R', [('a.svc', 'login')], [], 0), ('R', [('a.svc', 'login'), ('b.svc', 'dronecheck')], [], 0)] +
                 L("-1 x b.svc 5_1 :gone", "-1 X b.svc 5_1 :OK", "-1 X a.svc 5_1 :OK a:1", "5 H", "5 D"), "service dropped and re-added under another protocol while awaited"))
    # id reuse where the departed instance's serial (1) is a textual prefix of the newcomer's (0x10)
    ls = ["5 C 1.2.3.4 1 10.0.0.1 6667", "5 P :+x a b", "5 D"]
    for k in range(14): ls += ["%d C 1.2.3.9 1 10.0.0.1 6667" % (20 + k), "%d D" % (20 + k)]
    ls += ["5 C 1.2.3.5 2 10.0.0.1 6667", "5 P :+x c d", "-1 X a.svc 5_1 :OK stale", "-1 X a.svc 5_1 :NO stale", "-1 X a.svc 5_100 :OK longer", "5 H", "-1 X a.svc 5_10 :OK fresh"]
    c.append(Scn(True, False, [('a.svc', 'login')], [], 0, L(*ls), "stale serial that is a prefix of the live one"))
    # more services than the per-client masks have bits (D27): 36 entries, the first 32 (in name order) get a slot, the rest are refused
    # with an error; a NO from slot 0 after an OK "from" an entry that has no slot must still reject
    many = [('s%02d.x' % k, 'login') for k in range(10, 46)]
    c.append(Scn(True, False, many, [], 0, L("5 C 1.2.3.4 1 10.0.0.1 6667", "5 P :+x a b", "-1 X s42.x 5_1 :OK acct:1", "-1 X s45.x 5_1 :OK", "-1 X s10.x 5_1 :NO go away", "5 H", "5 D"), "thirty-six services: a slot for thirty-two"))
    c.append(Scn(True, False, many, [], 0, L("5 C 1.2.3.4 1 10.0.0.1 6667", "5 P :+x a b", "-1 X s41.x 5_1 :OK acct:1", "-1 X s42.x 5_1 :NO not configured", "5 H") + L(*["-1 X s%02d.x 5_1 :OK" % k for k in range(10, 41)]) + L("5 D"), "thirty-six services: all thirty-two answer"))
    c.append(Scn(True, False, many, [], 0, L("5 C 1.2.3.4 1 10.0.0.1 6667", "5 P :+x a b", "-1 X s42.x 5_1 :OK", "-1 X s10.x 5_1 :NO refused by the first service") + L(*["-1 X s%02d.x 5_1 :OK" % k for k in range(11, 46)]) + L("5 H", "5 D"), "thirty-six services: refusal after an answer from the entry that would share its bit"))
    c.append(Scn(True, False, [('s10.x', 'login')], [], 0, L("5 C 1.2.3.4 1 10.0.0.1 6667") + [('R', many, [], 0)] + L("5 P :+x a b", "-1 X s45.x 5_1 :OK", "-1 X s10.x 5_1 :NO no", "6 C 1.2.3.5 1 10.0.0.1 6667", "6 H"), "reload from one service to thirty-six"))
    # ---- histories that need a COMBINATION of conditions (round 6 of the seeded changes) ----
    abc = [('a.svc', 'login'), ('b.svc', 'login'), ('c.svc', 'login')]
    # a reload removes an idle service in the middle of the vector (and adds one) while clients await a higher slot: slots must not move
    for new in ([('a.svc', 'login'), ('c.svc', 'login'), ('d.svc', 'login')], [('a.svc', 'login'), ('c.svc', 'login')], [('b.svc', 'login'), ('c.svc', 'login')], [('c.svc', 'login')]):
        c.append(Scn(True, False, abc, [], 0, L("5 C 1.2.3.5 1 10.0.0.1 6667", "6 C 1.2.3.6 1 10.0.0.1 6667", "5 P :+x alice pw", "6 P :+x bob pw", "-1 X a.svc 5_1 :OK alice:5", "-1 X b.svc 5_1 :OK", "-1 X a.svc 6_2 :OK", "-1 X b.svc 6_2 :OK bob:6") +
                     [('R', new, [], 0)] + L("-1 X d.svc 5_1 :OK mallory", "-1 X a.svc 5_1 :OK mallory2", "5 N h.example.org", "5 u id", "5 n Nick", "5 U u :r", "-1 X c.svc 5_1 :OK", "6 H", "-1 X c.svc 6_2 :NO no", "7 C 1.2.3.7 1 10.0.0.1 6667", "7 P :+x carol pw", "7 H"),
                     "reload removes a middle service (new table %s) while two clients await the last one" % ",".join(n_ for n_, _ in new)))
    # the same in the middle of a registration, with protocols that need different data (a query that is still to be sent after the reload)
    mix = [('auth.svc', 'login'), ('drone.svc', 'dronecheck'), ('ipr.svc', 'login-ipr')]
    for new in (mix[1:], [mix[0], mix[2]], mix[2:], mix[:2]):
        c.append(Scn(True, False, mix, [], 0, L("1 C 10.0.0.1 40001 10.0.0.9 6667", "1 P :+x alice s3cret", "-1 X auth.svc 1_1 :OK alice:1") + [('R', new, [], 0)] +
                     L("1 N host.example.com", "1 u ident", "1 n nick", "1 U user :Real Name", "-1 X drone.svc 1_1 :OK", "-1 X ipr.svc 1_1 :OK", "1 H", "2 C 10.0.0.2 40002 10.0.0.9 6667", "2 H"),
                     "reload in the middle of a registration (new table %s)" % ",".join(n_ for n_, _ in new)))
    # a MORE answer forwarded while another query is out, then a reload that drops the challenging service before its final reply
    ld = [('drone.svc', 'dronecheck'), ('login.svc', 'login')]
    for fin in ("OK joeacct", "NO wrong word", "AGAIN once more"):
        c.append(Scn(True, False, ld, [], 0, L("5 C 10.1.2.3 40000 10.0.0.9 6667", "5 N client.example.net", "5 u joe", "5 n Joe", "5 U joe :Joe User", "5 P :+x joeacct secret", "-1 X login.svc 5_1 :MORE say-the-magic-word", "5 P :please") +
                     [('R', ld[:1], [], 0)] + L("-1 X login.svc 5_1 :" + fin, "-1 X drone.svc 5_1 :OK", "5 H", "5 D"), "MORE continuation with another query out, then the challenging service is dropped (%s)" % fin[:2]))
    # a client accepted by its timeout after S had answered it; another client still awaits S; a reload drops S; S then answers the waiting one
    ad = [('auth.svc', 'login'), ('drone.svc', 'dronecheck')]
    for fin in ("NO You look like a drone", "OK"):
        c.append(Scn(True, False, ad, [], 3600, L("1 C 10.0.0.1 1111 10.0.0.9 6667", "1 N h1.example.org", "1 u id1", "1 n Nick1", "1 U u1 :r", "1 P :+x alice secret", "-1 X drone.svc 1_1 :OK",
                       "2 C 10.0.0.2 2222 10.0.0.9 6667", "2 N h2.example.org", "2 u id2", "2 n Nick2", "2 U u2 :r", "1 ! timeout") +
                     [('R', [('auth.svc', 'login'), ('drone2.svc', 'dronecheck')], [], 3600)] + L("-1 X drone.svc 2_2 :" + fin, "2 H", "2 ! timeout", "2 D"), "timed-out client, another one awaiting the same service, reload drops it, then its answer (%s)" % fin[:2]))
    # timeout while still registering (data missing), then the stragglers answer one after the other; the rule names the later one
    r3 = [dict(name='r10_C', xreply_ok='c.svc', account='al*', **{'class': 'via-c'}), dict(name='R20_b', xreply_ok='b.svc', **{'class': 'via-b'}), dict(name='r90_rest', **{'class': 'plain'})]
    for order in (("b.svc", "c.svc"), ("c.svc", "b.svc")):
        c.append(Scn(True, True, abc, r3, 3600, L("7 C 192.0.2.7 5007 10.0.0.9 6667", "7 P :+x alan pw", "-1 X a.svc 7_1 :OK", "7 ! timeout", "-1 X %s 7_1 :OK alan:17" % order[0], "-1 X %s 7_1 :OK alan:18" % order[1],
                       "7 N h7.example.org", "7 u id7", "7 n Nick7", "7 U u7 :r", "7 D"), "timeout while data are missing, then two stragglers (%s first)" % order[0]))
    c.append(slot_reuse_history()); c.append(slot_reuse_history('login')); c.append(slot_reuse_history(expire=True))
    # the same release-and-refill while a challenge of the old occupant is open: the client's next password line answers nobody
    # (the newcomer never challenged it); the newcomer is asked in its own right
    for newtype in ('login', 'dronecheck', 'combined'):
        for keep in (False, True):
            old = [('a.svc', 'login')] + ([('z.svc', 'dronecheck')] if keep else [])
            mid = [x for x in old if x[0] != 'a.svc']
            c.append(Scn(True, False, old, [], 0, L("5 C 1.2.3.4 1 10.0.0.1 6667", "5 P :+x acct pw", "-1 X a.svc 5_1 :MORE what is the word?") + [('R', mid, [], 0), ('R', sorted_svcs(mid + [('b.svc', newtype)]), [], 0)] +
                         L("5 P :token-123456", "5 u alice", "5 n Alice", "5 U alice :Alice A", "5 N h.example.org", "-1 X b.svc 5_1 :OK acct:1", "5 H", "5 D"),
                         "a released slot is refilled while a challenge of the old occupant is open (%s%s)" % (newtype, ", another service present" if keep else "")))
    return c

def mode_family():
    """deterministic family around the +! / +x bookkeeping: two passwords with every pair of mode prefixes, the first answered by a stamp,
       a plain OK or not at all before the second arrives, the second likewise, data complete before or after; login alone or with a
       dronecheck service.  (A hold taken for +! must be released exactly once whatever the order of stamp and -!.)"""
    out = []
    for svcs in ([('a.svc', 'login')], [('a.svc', 'login'), ('d.svc', 'dronecheck')]):
        for m1 in ('+!', '+x', '+x!', '-!'):
            for m2 in ('-!', '+!', '-x', '+x', '-x!', None):
                for r1 in ('OK acct:1', 'OK', None):
                    for r2 in ('OK other:2', 'OK', None):
                        for early in (False, True):
                            if m2 is None and r2 is not None: continue
                            ls = ["5 C 1.2.3.4 1234 10.0.0.1 6667"]
                            data = ["5 N host.example.org", "5 u ident", "5 n Nick", "5 U user :Real"]
                            if early: ls += data
                            ls += ["5 P :%s acct pass" % m1]
                            if r1: ls += ["-1 X a.svc 5_1 :%s" % r1]
                            if m2:
                                ls += ["5 P :%s acct pass2" % m2]
                                if r2: ls += ["-1 X a.svc 5_1 :%s" % r2]
                            if not early: ls += data
                            if len(svcs) > 1: ls += ["-1 X d.svc 5_1 :OK"]
                            ls += ["5 H", "-1 X a.svc 5_1 :OK late:3", "5 D"]
                            out.append(Scn(True, False, svcs, [], 0, L(*ls), "mode family %s / %s, first answer %s, second %s, data %s" % (m1, m2, r1, r2, "first" if early else "last")))
    return out

def slot_reuse_history(newtype='dronecheck', expire=False):
    """D30 (repaired in 993eb0b): a.svc answers client 5 and is then dropped by a reload (its slot is released: nobody awaits it); a second
       reload adds d.svc, which takes that slot; client 5, still registering, carries the bits of the old occupant"""
    rules = [dict(name='10-viad', xreply_ok='d.svc', **{'class': 'viaD'}), dict(name='20-rest', **{'class': 'rest'})]
    return Scn(True, True, [('a.svc', 'login')], rules, 3600 if expire else 0,
               L("5 C 1.2.3.4 1 10.0.0.1 6667", "5 P :+x acct pw", "-1 X a.svc 5_1 :OK acct:1") + [('R', [], rules, 3600 if expire else 0), ('R', [('d.svc', newtype)], rules, 3600 if expire else 0)] +
               L("5 N h.example.org", "5 u id", "5 n Nick", "5 U u :r", *(["5 ! timeout"] if expire else []), "5 D"), "a released slot is taken by a new service while a client still carries the old occupant's bits")

# ------------------------------------------------------------------------------------------------
# real timers: the same history once with real waiting (libevent's one-shot request timers fire by themselves) and once with the
# expiry delivered as an event ('<id> ! timeout' where a deadline falls into a wait, for the instance announced at that time only)
def rt_histories():
    data = lambda i: ["%d N h%d.example.org" % (i, i), "%d u id%d" % (i, i), "%d n Nick%d" % (i, i), "%d U u%d :r" % (i, i)]
    dr = [('d.svc', 'dronecheck')]; lg = [('l.svc', 'login')]
    W = lambda s_: [('W', s_)]
    H = []
    H.append(("plain expiry", dr, 1, L("7 C 10.0.0.7 4007 10.0.0.9 6667", *data(7)) + W(1.4) + L("7 D")))
    H.append(("id re-announced while live, the new instance decided, then the OLD deadline passes", dr, 1,
              L("5 C 10.0.0.1 1111 10.0.0.9 6667", *data(5)) + W(0.5) + L("5 C 10.0.0.9 2222 10.0.0.9 6667", *data(5)) + L("-1 X d.svc 5_2 :OK") + W(0.9) + W(0.6)))
    H.append(("id re-announced while live, the new instance still waiting when the OLD deadline passes", dr, 1,
              L("5 C 10.0.0.1 1111 10.0.0.9 6667", *data(5)) + W(0.5) + L("5 C 2001:db8::7 2222 10.0.0.9 6667", "5 N h5.example.org", "5 P :+x acct pw") + W(0.9) + L("5 u id5", "5 n Nick5", "5 U u5 :r") + W(0.6) + L("5 D")))
    H.append(("announced under a timeout, reload removes the timeout, the request ends, the old deadline passes", dr, 1,
              L("1 C 10.0.0.1 4000 10.0.0.9 6667", *data(1)) + [('R', dr, [], 0)] + L("1 D", "2 C 10.0.0.2 4002 10.0.0.9 6667", *data(2)) + W(1.4) + L("2 D")))
    H.append(("reload shortens the timeout between two announcements; only the younger client's timer expires", lg, 30,
              L("5 C 10.0.0.5 4005 10.0.0.9 6667", "5 P :+x acct5 pw", *data(5)) + [('R', lg, [], 1)] + L("6 C 10.0.0.6 4006 10.0.0.9 6667", "6 P :+x acct6 pw", *data(6)) + W(1.4) + L("-1 X l.svc 5_1 :OK acct5", "5 D", "6 D")))
    return H

def rt_to_hook(items, T0):
    """the history with every wait replaced by the expiry events that fall into it"""
    t = 0.0; T = T0; inst = {}; out = []; groups = []
    for it in items:
        if it[0] == 'L':
            toks = it[1].decode('latin1').split(' ')
            if len(toks) >= 6 and toks[1] == 'C' and re.fullmatch(r"-?\d+", toks[0]):
                inst[int(toks[0])] = dict(ta=t, T=T, fired=False)
            out.append(it); groups.append([len(out) - 1])
        elif it[0] == 'R':
            T = it[3]; out.append(it); groups.append([len(out) - 1])
        else:
            due = sorted((v['ta'] + v['T'], k) for k, v in inst.items() if v['T'] > 0 and not v['fired'] and t < v['ta'] + v['T'] <= t + it[1])
            g = []
            for _, k in due:
                inst[k]['fired'] = True; out.append(('L', b"%d ! timeout" % k)); g.append(len(out) - 1)
            groups.append(g); t += it[1]
    return out, groups

def start_realtime(impl):
    import threading
    res = {}
    def work(name, svcs, T0, items):
        try:
            real = run_daemon(impl, Scn(True, False, svcs, [], T0, items, name), timeout_s=40)
            hitems, groups = rt_to_hook(items, T0)
            hook = run_daemon(impl, Scn(True, False, svcs, [], T0, hitems, name + " (expiry as an event)"), timeout_s=40)
            res[name] = (svcs, T0, items, real, hitems, groups, hook)
        except Exception as e:
            res[name] = e
    ths = [threading.Thread(target=work, args=(n_, sv, t0, its)) for n_, sv, t0, its in rt_histories()]
    for th in ths: th.start()
    return ths, res, impl, work

def rt_mismatch(r, items):
    if r is None or isinstance(r, Exception): return True
    svcs, T0, items_, real, hitems, groups, hook = r
    if real.rc != 0 or hook.rc != 0 or len(real.steps) != len(items_): return True
    for i, g in enumerate(groups):
        exp = [l for j in g if j < len(hook.steps) for l in hook.steps[j][0]]
        expn = hook.steps[g[-1]][1] if g and g[-1] < len(hook.steps) else None
        if real.steps[i][0] != exp or (expn is not None and real.steps[i][1] != expn): return True
    return False

def rt_scaled(items, k):
    return [('W', it[1] * k) if it[0] == 'W' else (('R', it[1], it[2], it[3] * k) if it[0] == 'R' else it) for it in items]

def finish_realtime(chk, handle, what):
    ths, res, impl, work = handle
    for th in ths: th.join()
    for name, svcs, T0, items in rt_histories():
        r = res.get(name)
        chk.cov["evaluations"] += 1; chk.hist("real-time history")
        if rt_mismatch(r, items):
            # a timer that fires late on a heavily loaded machine looks like a wrong answer: before reporting, run the history again,
            # alone, with every delay (request timeout, waits, reloaded timeouts) doubled and then tripled, which widens the margins
            # between a deadline and the next input from 0.4 s to 0.8 s and 1.2 s; a real defect shows at every scale
            again = []
            for k in (2, 3):
                nm = "%s (x%d)" % (name, k)
                work(nm, svcs, T0 * k, rt_scaled(items, k))
                again.append(rt_mismatch(res.get(nm), items))
                if not again[-1]: break
            chk.hist("real-time history repeated at a slower scale")
            if not all(again):
                chk.notes.append("real-time history %r disagreed once and agreed when repeated with longer delays (machine under load)" % name)
                chk.cov["traces_validated_against_impl"] += 1
                continue
        if r is None or isinstance(r, Exception):
            chk.violation("real-time history %r could not be run: %r" % (name, r), str(r), "rt:run", found_input=False); continue
        svcs, T0, items, real, hitems, groups, hook = r
        desc = "\n".join(("> " + it[1].decode('latin1')) if it[0] == 'L' else ("(%.1f s pass)" % it[1] if it[0] == 'W' else "RELOAD services=%r timeout=%r" % (it[1], it[3])) for it in items)
        if real.rc != 0 or hook.rc != 0 or len(real.steps) != len(items):
            chk.violation(what + "real-time history %r: the daemon failed (exit status %s / %s): %s" % (name, real.rc, hook.rc, (real.stderr or hook.stderr)[-500:].replace("\n", " | ")),
                          "request timeout %d s, services %r\n%s\n\nstderr:\n%s" % (T0, svcs, desc, (real.stderr or hook.stderr)[-1500:]), "rt:" + name); continue
        bad = None
        for i, g in enumerate(groups):
            exp = [l for j in g if j < len(hook.steps) for l in hook.steps[j][0]]
            expn = hook.steps[g[-1]][1] if g and g[-1] < len(hook.steps) else None
            if real.steps[i][0] != exp or (expn is not None and real.steps[i][1] != expn):
                bad = (i, real.steps[i], exp, expn); break
        if bad:
            i, got, exp, expn = bad
            it = items[i]
            chk.violation(what + "with real timers (%s): at item %d (%s) the daemon prints %r (in use %s), the same history with the expiry delivered as an event gives %r (in use %s)" %
                          (name, i, it[1].decode('latin1') if it[0] == 'L' else ("%.1f s pass" % it[1] if it[0] == 'W' else "reload"), got[0], got[1], exp, expn),
                          "request timeout %d s, services %r\n%s\n\nreal timers, item by item:\n%s\n\nexpiry as an event:\n%s" % (T0, svcs, desc, "\n".join(repr(x) for x in real.steps), "\n".join(repr(x) for x in hook.steps)), "rt:" + name)
        else:
            chk.cov["traces_validated_against_impl"] += 1

def fmt_steps(scn, steps):
    out = []
    for i, it in enumerate(scn.items):
        out.append("> " + (it[1].decode('latin1') if it[0] == 'L' else "RELOAD"))
        if steps is not None and i < len(steps):
            for l in steps[i][0]:
                out.append("    < " + l)
            out.append("    (in use: %s)" % steps[i][1])
    return "\n".join(out)

def replay_text(scn, d, m):
    return ("scenario (%s):\n%s\n\nimplementation, step by step (exit status %s):\n%s\n\nmodel, step by step:\n%s\n\nimplementation stderr (tail):\n%s\n" %
            (scn.note, scn.describe(), d.rc if d else "?", fmt_steps(scn, d.steps if d else None), fmt_steps(scn, m), (d.stderr[-1500:] if d else "")))

def analyse(chk, drv, impl, scns, ms, ds, project, judge=None, monitor=None, what="", nontrivial=None, max_viol=4):
    """project(lines, in_use) -> comparable; judge(scn, i, dproj, mproj) -> (text, found) for a projection mismatch at step i;
       monitor(scn, d) -> None or text (an oracle independent of the model)"""
    distinct = set()
    for scn, m, d in zip(scns, ms, ds):
        if len(chk.violations) >= max_viol:
            break
        chk.cov["evaluations"] += 1
        viol = None
        if monitor is not None:
            w = monitor(scn, d)
            if w:
                viol = (w, True)
        if viol is None:
            n = max(len(m), len(d.steps))
            for i in range(n):
                dp = project(*d.steps[i]) if i < len(d.steps) else "<no answer: the daemon stopped responding (exit status %s)>" % d.rc
                mp = project(*m[i]) if i < len(m) else None
                if dp != mp:
                    # the first divergence decides; later steps of a diverged history are not comparable
                    if judge:
                        viol = judge(scn, i, dp, mp)
                    else:
                        viol = ("step %d (%s): daemon %r, model %r" % (i, scn.items[i][1].decode('latin1') if i < len(scn.items) and scn.items[i][0] == 'L' else 'reload', dp, mp), True)
                    break
        if viol is None:
            chk.cov["traces_validated_against_impl"] += 1
            key = nontrivial(scn, d) if nontrivial else tuple(tuple(s[0]) for s in d.steps if s[0])
            if key:
                distinct.add(hash(key))
            continue
        text, found = viol
        # minimise: keep the same kind of failure
        def fails(s2):
            m2 = run_model(drv, [s2])[0]; d2 = run_daemon(impl, s2)
            if monitor is not None and monitor(s2, d2):
                return True
            for i in range(max(len(m2), len(d2.steps))):
                dp = project(*d2.steps[i]) if i < len(d2.steps) else "<none>"
                mp = project(*m2[i]) if i < len(m2) else None
                if dp != mp:
                    return (judge(s2, i, dp, mp) is not None) if judge else True
            return False
        try:
            small = minimise_scn(scn, fails, budget=80)
            m2 = run_model(drv, [small])[0]; d2 = run_daemon(impl, small)
            if not fails(small):
                small, m2, d2 = scn, m, d
        except Exception as e:
            small, m2, d2 = scn, m, d
        chk.violation("%s%s" % (what, text), replay_text(small, d2, m2), "iauth:" + text[:80], found_input=found)
    chk.cov["distinct_nontrivial"] = chk.cov.get("distinct_nontrivial", 0) + len(distinct)
    return distinct


def step_label(scn, i):
    if i < len(scn.items):
        return scn.items[i][1].decode('latin1') if scn.items[i][0] == 'L' else 'reload'
    return '?'

def kinds(lines, which):
    """sorted (kind, id) of client-addressed lines whose kind letter is in `which`"""
    out = []
    for l in lines:
        p = parse_line(l)
        if p[0] == 'C' and p[1] in which:
            out.append((p[1], p[2]))
    return sorted(out)

def reached_verdict(scn, d):
    v = tuple(tuple(x for x in s[0]) for s in d.steps if any(l[:1] in 'DRk' for l in s[0]))
    return v if v else None

def standard_run(chk, profile, nq, nt, extra=()):
    env = setup(chk, extra)
    if env is None:
        return None
    drv, impl = env
    n = nq if chk.tier == "quick" else nt
    intense = dict(profile, maxcli=1, minlen=8, maxlen=28, w_pass=6, w_missing=1, p_good_reply=0.85, p_departed=0.35, p_xq=1.0, nsv=[1, 2, 2, 3], timeouts=profile.get('timeouts', [0, 0, 3600]))
    reloading = dict(profile, maxcli=2, minlen=8, maxlen=24, p_good_reply=0.85, p_xq=1.0, nsv=[1, 2, 2, 3], p_reload=0.12)
    fam = mode_family() if profile.get('mode_family', True) else []
    for _ in fam: chk.hist("scenarios:mode family")
    scns = corpus() + fam + [gen_scn(chk.rng, (reloading if i % 12 == 5 else profile) if i % 3 else intense, chk.hist) for i in range(n)]
    ms = run_model(drv, scns)
    ds = run_daemons(impl, scns)
    chk.cov["samples"] = [scns[0].describe().split("\n"), scns[len(corpus()) + len(fam) + 1].describe().split("\n")[:25]]
    kernel_corpus(chk, scns[:len(corpus())], ms[:len(corpus())])
    chk.hist("scenarios:corpus", len(corpus())); chk.hist("scenarios:generated", n)
    chk.hist("steps", sum(len(s.items) for s in scns))
    return drv, impl, scns, ms, ds


# ------------------------------------------------------------------------------------------------
# corpus cases re-checked INSIDE Coq: for these the kernel (vm_compute + reflexivity) confirms that the model as defined
# in coq/Iauth.v prints exactly what the extracted OCaml program printed, i.e. what is then compared with the daemon
# (this takes extraction and the OCaml driver out of the trusted base for the corpus histories; it compares with the
# MODEL's run, so a behaviour change of the daemon is judged only by the per-property comparison in analyse())
def coq_bytes(b):
    return "(B [" + "; ".join(str(x) for x in b) + "])"

def coq_rule(r):
    def o(v): return "None" if v is None else "(Some %s)" % coq_bytes(v.encode("latin1"))
    addr = "None" if r.get("address") is None else "(rule_addr %s)" % coq_bytes(r["address"].encode("latin1"))
    return "{| r_name := %s; r_class := %s; r_acct := %s; r_addr := %s; r_user := %s; r_host := %s; r_xok := %s; r_trust := %s |}" % (
        coq_bytes(r["name"].encode("latin1")), o(r.get("class")), o(r.get("account")), addr, o(r.get("username")), o(r.get("hostname")), o(r.get("xreply_ok")), "true" if r.get("trust") else "false")

def kernel_corpus(chk, scns, ms):
    """writes one Example per scenario and compiles the file with coqc; returns the number of cases the kernel confirmed"""
    lines = ["From Coq Require Import List NArith ZArith Bool Strings.Byte.", "Import ListNotations.", "Require Import IA.Params IA.AddrFull IA.Iauth IA.Line.",
             "Local Open Scope N_scope.",
             "Definition B (l : list N) : list byte := map (fun n => match Byte.of_N n with Some b => b | None => x00 end) l.",
             "Definition rule_addr (s : list byte) : option (list N * N) := match pton s true false with Res _ (Some b) gs => Some (gs, b) | Res _ None gs => Some (gs, 0) | Unspec => None end.",
             "Definition obs (c : cfg) (s0 : st) (es : list rev) : list (list (list N) * nat) := map (fun x => (map (fun o => map Byte.to_N (render o)) (fst x), snd x)) (run_revs c s0 es)."]
    n = 0
    for k, (scn, msteps) in enumerate(zip(scns, ms)):
        if len(msteps) != len(scn.items):
            continue
        def tabs(svcs, rules):
            return "[" + "; ".join("(%s, %s)" % (coq_bytes(a.encode("latin1")), coq_bytes(b.encode("latin1"))) for a, b in svcs) + "]", "[" + "; ".join(coq_rule(r) for r in rules) + "]"
        sv, ru = tabs(scn.svcs, scn.rules)
        evs = []
        for it in scn.items:
            if it[0] == 'L': evs.append("RLine %s" % coq_bytes(it[1]))
            else:
                s2, r2 = tabs(it[1], it[2]); evs.append("RReload %s %s %s" % (s2, r2, "true" if it[3] else "false"))
        exp = "[" + "; ".join("([" + "; ".join("[" + "; ".join(str(x) for x in l.encode("latin1")) + "]" for l in ls) + "], %d%%nat)" % nu for ls, nu in msteps) + "]"
        c = "{| with_xq := %s |}" % ("true" if scn.with_xq else "false")
        lines.append("Example corpus_%d : obs %s (init %s %s %s %s) [%s] = %s." % (k, c, c, sv, ru, "true" if scn.timeout else "false", "; ".join(evs), exp))
        lines.append("Proof. vm_compute. reflexivity. Qed.")
        n += 1
    d = BUILD / "tmp" / ("kc%d" % os.getpid())
    d.mkdir(parents=True, exist_ok=True)
    (d / "Corpus.v").write_text("\n".join(lines) + "\n")
    try:
        r = run(["timeout", "300", "coqc", "-R", str(COQ), "IA", "Corpus.v"], cwd=d, timeout=320)
        ok = r.returncode == 0
        msg = (r.stdout.decode(errors="replace") + r.stderr.decode(errors="replace"))[-800:]
    except subprocess.TimeoutExpired:
        ok, msg = False, "timeout"
    shutil.rmtree(d, ignore_errors=True)
    chk.cov["corpus_cases_checked_in_kernel"] = n if ok else 0
    if not ok:
        chk.violation("the corpus histories re-checked inside Coq (vm_compute in the kernel) do not give what the extracted model printed: " + msg, msg, "kernel-corpus", found_input=False)
    return n if ok else 0
