"""C01: one verdict per announced client, then silence."""
from iauth_common import *
PROFILE = dict(p_reannounce=0.12, maxcli=6, maxlen=60, p_good_reply=0.6, p_departed=0.5, nsv=[1, 2, 2, 3, 4])

def mon01(scn, d):
    """independent oracle on the daemon's own trace: live ids come from the input only"""
    live = {}       # id -> dict(sd=bool, serial)
    serial = 0
    for i, it in enumerate(scn.items):
        if i >= len(d.steps): break
        lines = d.steps[i][0]
        ann = wd = None
        if it[0] == 'L':
            toks = it[1].decode('latin1').split(' ')
            try: cid = int(toks[0])
            except ValueError: cid = None
            args = []
            for j, t in enumerate(toks[1:]):
                if t.startswith(':'): args.append(' '.join(toks[1 + j:])[1:]); break
                if t: args.append(t)
            if cid is not None and args:
                if args[0][0] == 'C' and len(args) >= 5:
                    serial = (serial + 1) % 2**32; live[cid] = dict(sd=False, serial=serial)
                elif args[0][0] in 'DT' and cid in live:
                    del live[cid]        # withdrawn by the server: whatever this very line makes the daemon print is already "after"
        for l in lines:
            p = parse_line(l)
            if p[0] == 'X':
                tid, ser = tag_id(p[2])
                if tid not in live:
                    return "step %d (%s): query '%s' carries the routing tag of client %s which is not live (never announced, withdrawn or already decided)" % (i, step_label(scn, i), l, tid)
                if ser != live[tid]['serial']:
                    return "step %d (%s): query '%s' carries serial %s, the live instance of client %s has serial %s" % (i, step_label(scn, i), l, ser, tid, live[tid]['serial'])
            elif p[0] == 'C':
                cid2 = p[2]
                if cid2 not in live:
                    return "step %d (%s): '%s' names client %s which is not live (never announced, withdrawn or already decided)" % (i, step_label(scn, i), l, cid2)
                if p[1] in 'DRk':
                    del live[cid2]
                elif p[1] == 'd':
                    if live[cid2]['sd']:
                        return "step %d (%s): second soft-done for client %s" % (i, step_label(scn, i), cid2)
                    live[cid2]['sd'] = True
        if wd is not None and wd in live:
            del live[wd]
    return None

def run(chk):
    _impl0, _ = build_impl()
    _rt = start_realtime(_impl0) if _impl0 is not None else None
    r = standard_run(chk, PROFILE, 4000, 40000)
    if r is None: return
    drv, impl, scns, ms, ds = r
    def proj(lines, n):
        out = []
        for l in lines:
            p = parse_line(l)
            if p[0] == 'C': out.append((p[1], p[2]))
            elif p[0] == 'X': out.append(('X', p[1], tag_id(p[2])[0]))
        return sorted(out)
    def judge(scn, i, dp, mp):
        if isinstance(dp, str): return None
        return ("step %d (%s): messages naming clients differ from the model for which 'one verdict, then silence' is proved: daemon %r, model %r" % (i, step_label(scn, i), dp, mp), False)
    analyse(chk, drv, impl, scns, ms, ds, project=proj, judge=judge, monitor=mon01, what="verdict discipline: ", nontrivial=reached_verdict)
    if _rt is not None: finish_realtime(chk, _rt, 'verdict discipline: ')
    chk.cov["rule"] = "histories with 1-6 concurrently registering clients, ids reused and re-announced while live, stray replies, disconnects and registered notices at every stage; monitor (independent of the model) run on the daemon's trace: live set from the input, every client message and query tag must name a live instance with its serial, at most one d, nothing after D/R/k; distinct non-trivial = distinct traces reaching a verdict"
