"""C04: replies affect only the client instance they were asked about."""
from iauth_common import *
PROFILE = dict(p_good_reply=0.7, p_reannounce=0.12, maxlen=30, nsv=[1, 2, 2, 3])

def strays(rng, scn, pos, sh_tags):
    """reply lines that must be no-ops at this position: stale serials, other ids, malformed tags, unknown / not-awaited services"""
    svcnames = [n for n, t in scn.svcs] or ['nosuch.x']
    live, old, awaited, notawaited = sh_tags
    out = []
    texts = ['OK acct:9', 'NO you are refused', 'MORE challenge?', 'AGAIN retry', 'OK']
    for tag, outset in old:                                # stale serial after id reuse / departure
        for svc in (outset or svcnames)[:2]:
            out.append("-1 X %s %s :%s" % (svc, tag, rng.choice(texts)))
    for tag in live:
        out.append("-1 X nosuch.x %s :%s" % (tag, rng.choice(texts)))            # unknown service
        out.append("-1 x nosuch.x %s :gone" % tag)
        out.append("-1 X %s %s0 :%s" % (rng.choice(svcnames), tag, rng.choice(texts)))   # other serial
        out.append("-1 X %s %s :%s" % (rng.choice(svcnames).upper() + "x", tag, rng.choice(texts)))
    for tag, svc in notawaited:                            # known service that does not owe this instance an answer
        out.append("-1 X %s %s :%s" % (svc, tag, rng.choice(texts)))
        out.append("-1 x %s %s :gone" % (svc, tag))
    for t in ['zz', '5_', '_1', '_', '0_0', 'ffffffffffffffffffff_1', '1_ffffffffffffffffffffff', '1__1', '1_1_1', 'g_1', '1_g', '', ' _1']:
        out.append("-1 X %s %s :%s" % (rng.choice(svcnames), t, rng.choice(texts)))
    return out

def run(chk):
    env = setup(chk)
    if env is None: return
    drv, impl = env
    rng = chk.rng
    n = 400 if chk.tier == "quick" else 4000
    base = corpus() + [gen_scn(rng, PROFILE, chk.hist) for _ in range(n)]
    # a slot freed while somebody still references it can be taken by a service added later: two reloads, then a reply from the newcomer
    base.append(Scn(True, False, [('old.svc', 'login')], [], 0, L("7 C 1.2.3.4 1 10.0.0.1 6667", "7 P :+x a b") + [('R', [], [], 0), ('R', [('new.svc', 'dronecheck')], [], 0)] + L("7 n Nick", "7 H", "-1 X new.svc 7_1 :OK", "7 D"), "service dropped while awaited, another added later"))
    base.append(Scn(True, False, [('b.svc', 'login'), ('old.svc', 'login')], [], 0, L("7 C 1.2.3.4 1 10.0.0.1 6667", "7 P :+x a b", "-1 X b.svc 7_1 :OK") + [('R', [('b.svc', 'login')], [], 0), ('R', [('b.svc', 'login'), ('new.svc', 'login')], [], 0)] + L("7 n Nick", "7 P :+x c d", "7 H", "7 D"), "service dropped while awaited, another added later (2)"))
    # a challenger dropped by a reload between its MORE and the client's answer, kept in its slot by another client that still awaits
    # it: the answer is not forwarded, so the challenger owes the client nothing and its later "reply" must be inert
    for txt in ("OK bob", "NO go away", "MORE again?"):
        for newtab in ([('beta.svc', 'dronecheck')], [('alpha.svc', 'bogus'), ('beta.svc', 'dronecheck')]):
            base.append(Scn(True, False, [('alpha.svc', 'login'), ('beta.svc', 'dronecheck')], [], 0,
                            L("1 C 10.0.0.1 1001 10.0.0.9 6667", "1 P :+x al pw", "2 C 10.0.0.2 1002 10.0.0.9 6667", "2 P :+x bob pw", "-1 X alpha.svc 2_2 :MORE what is the word?")
                            + [('R', newtab, [], 0)]
                            + L("2 P :mellon", "-1 X alpha.svc 2_2 :" + txt, "2 N host.example.org", "2 u ident", "2 n bobby", "2 U bob :Bob B", "-1 X beta.svc 2_2 :OK", "2 H", "2 D", "1 D"),
                            "challenger dropped between its MORE and the answer, then replies"))
    base = [s for s in base if s.with_xq]
    variants = []   # (scenario with one stray line inserted, index of base, position)
    for bi, scn in enumerate(base):
        # replay the shadow to know, at every position, the live tags, old tags and awaited services
        sh = Shadow(scn.svcs, scn.timeout, scn.with_xq)
        old = []
        states = []
        for it in scn.items:
            live = [c.tag() for c in sh.live.values()]
            notaw = [(c.tag(), n_) for c in sh.live.values() for n_, t_ in sh.svcs if n_ not in c.out]
            states.append((live, list(old), [(c.tag(), sorted(c.out)) for c in sh.live.values()], notaw))
            before = {k: (v.tag(), sorted(v.out)) for k, v in sh.live.items()}
            if it[0] == 'R':
                sh.svcs = [(n_, t_.lower()) for n_, t_ in it[1]]; continue
            sh.step(it[1].decode('latin1'))
            for k, v in before.items():
                if k not in sh.live or sh.live[k].tag() != v[0]:
                    old.append(v)
        live = [c.tag() for c in sh.live.values()]
        states.append((live, list(old), [(c.tag(), sorted(c.out)) for c in sh.live.values()], [(c.tag(), n_) for c in sh.live.values() for n_, t_ in sh.svcs if n_ not in c.out]))
        # aimed family: a known service that owes nothing answers with the correct tag while the instance awaits another one
        aimed = [(pos, "-1 %s %s %s :%s" % (kind, svc_, tag_, txt)) for pos, st_ in enumerate(states) for c_tag, c_out in
                 [(t_, o_) for t_, o_ in st_[2] or []] for tag_, svc_ in st_[3] if tag_ == c_tag and c_out
                 for kind, txt in (('X', 'OK acct:9'), ('X', 'NO refused'), ('x', 'gone'))]
        for pos, line in rng.sample(aimed, min(len(aimed), 2 if chk.tier == "quick" else 6)):
            items = scn.items[:pos] + [('L', line.encode('latin1'))] + scn.items[pos:]
            variants.append((Scn(scn.with_xq, scn.with_class, scn.svcs, scn.rules, scn.timeout, items, "stray reply inserted at %d" % pos), bi, pos, line))
            chk.hist("stray:not-awaited service while another is awaited")
        positions = list(range(len(scn.items) + 1))
        rng.shuffle(positions)
        for pos in positions[: (3 if chk.tier == "quick" else 8)]:
            cands = strays(rng, scn, pos, states[pos])
            for line in rng.sample(cands, min(len(cands), 2 if chk.tier == "quick" else 4)):
                items = scn.items[:pos] + [('L', line.encode('latin1'))] + scn.items[pos:]
                variants.append((Scn(scn.with_xq, scn.with_class, scn.svcs, scn.rules, scn.timeout, items, "stray reply inserted at %d" % pos), bi, pos, line))
                chk.hist("stray:" + ("stale" if any(line.split(' ')[3] == t for t, _ in states[pos][1]) else "other"))
    dbase = run_daemons(impl, base)
    # replies inside the generated histories themselves: where the model (for which the no-op theorem is proved) says a reply
    # line names no awaited (instance, service), the daemon must stay silent too
    mbase = run_model(drv, base)
    for scn, d, m in zip(base, dbase, mbase):
        if len(chk.violations) >= 3: break
        for i, it in enumerate(scn.items):
            if it[0] != 'L':
                if i < len(d.steps) and i < len(m) and m[i] != d.steps[i]: break
                continue
            toks = it[1].decode('latin1').split(' ')
            if len(toks) > 1 and toks[1] in ('X', 'x') and i < len(d.steps) and i < len(m):
                if not m[i][0] and d.steps[i][0]:
                    chk.violation("the reply '%s' names no awaited (instance, service) - malformed tag, stale serial, unknown or not-awaited service - yet the daemon acted on it: %r" % (it[1].decode('latin1'), d.steps[i][0]),
                                  replay_text(scn, d, m), "stray-in-history:" + toks[3] if len(toks) > 3 else "stray")
                    break
                if m[i] != d.steps[i]:
                    break
            elif i < len(d.steps) and i < len(m) and m[i] != d.steps[i]:
                break
    dvar = run_daemons(impl, [v[0] for v in variants])
    mvar = run_model(drv, [v[0] for v in variants])
    distinct = set()
    ncorr = 0; nreal = 0
    for (vs, bi, pos, line), dv, mv in zip(variants, dvar, mvar):
        if nreal >= 3: break
        chk.cov["evaluations"] += 1
        db = dbase[bi]
        got = [s for i, s in enumerate(dv.steps) if i != pos]
        stray_out = dv.steps[pos] if pos < len(dv.steps) else None
        why = None
        if dv.rc != 0 or db.rc != 0:
            why = "daemon exit status %s with the stray line, %s without" % (dv.rc, db.rc)
        elif stray_out is None or stray_out[0]:
            why = "the stray reply '%s' produced output %r" % (line, stray_out[0] if stray_out else None)
        elif got != db.steps:
            k = next((i for i in range(min(len(got), len(db.steps))) if got[i] != db.steps[i]), min(len(got), len(db.steps)))
            why = "after the stray reply '%s' (inserted before input %d) the later behaviour differs at input %d: with %r, without %r" % (line, pos, k, got[k] if k < len(got) else None, db.steps[k] if k < len(db.steps) else None)
        if why:
            chk.violation("a reply that names no awaited (instance, service) changed the daemon's behaviour: " + why,
                          "history with the stray line:\n%s\n\nwith the stray line:\n%s\n\nwithout it:\n%s" % (vs.describe(), fmt_steps(vs, dv.steps), fmt_steps(base[bi], db.steps)), "stray:" + line)
            nreal += 1
            continue
        # correspondence: the model must agree on the variant as well (it proves the no-op for every stray reply)
        if [(l, n_) for l, n_ in dv.steps] != mv:
            ncorr += 1
            if ncorr > 2: continue          # keep looking for a reply that is itself acted upon (the differential above)
            k = next((i for i in range(min(len(mv), len(dv.steps))) if mv[i] != dv.steps[i]), 0)
            chk.violation("model and daemon disagree on a history with a stray reply (step %d: daemon %r, model %r)" % (k, dv.steps[k] if k < len(dv.steps) else None, mv[k] if k < len(mv) else None),
                          replay_text(vs, dv, mv), "corr:stray", found_input=False)
            continue
        chk.cov["traces_validated_against_impl"] += 1
        distinct.add(hash((bi, line)))
    chk.cov["distinct_nontrivial"] = len(distinct)
    chk.cov["samples"] = [variants[0][0].describe().split("\n")[:20], variants[len(variants) // 2][3]] if variants else []
    chk.cov["rule"] = "differential on the real daemon: history h vs h with one stray reply inserted (stale serial after id reuse aimed at a service the newcomer awaits, other id, malformed tags incl. '_1' '5_' over-long hex, unknown service, known but not-awaited service, unlinked notices) at random positions; fixed histories in which a service dropped by a reload (or a challenger dropped between its MORE and the client's answer) replies later; the stray line must produce no output and every later step must be identical; distinct = distinct (history, stray line) pairs"
