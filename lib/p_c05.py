"""C05: verdict content is faithful to what the services said."""
from iauth_common import *
PROFILE = dict(p_good_reply=0.85, maxlen=45, nsv=[1, 2, 2, 3])

def texts(lines, n):
    out = []
    for l in lines:
        p = parse_line(l)
        if p[0] == 'C' and p[1] in "kRDCM":
            out.append((p[1], p[2], p[5]))
    return sorted(out)

def run(chk):
    r = standard_run(chk, PROFILE, 3000, 40000)
    if r is None: return
    drv, impl, scns, ms, ds = r
    def judge(scn, i, dp, mp):
        if isinstance(dp, str): return None
        acc = lambda k: 'A' if k in 'DR' else k          # D and R are both "accepted": which of the two is sent is this property's business
        if sorted((acc(a), b) for a, b, c in dp) != sorted((acc(a), b) for a, b, c in (mp or [])):
            # which messages exist is the business of C01-C03; but a challenge/mode line relayed to the wrong or to no client is ours
            dk = sorted((a, b) for a, b, c in dp if a in "CM"); mk = sorted((a, b) for a, b, c in (mp or []) if a in "CM")
            dv = sorted((acc(a), b) for a, b, c in dp if a in "kRD"); mv = sorted((acc(a), b) for a, b, c in (mp or []) if a in "kRD")
            # a refusal from an awaited service that does not reject the client (first clause of the property): the model, for which
            # refusal_rejects_with_that_text is proved, prints the k line in this step and the daemon does not
            mks = [x for x in (mp or []) if x[0] == 'k']
            if mks and not all(x in dp for x in mks) and scn.items[i][0] == 'L' and b" :NO" in scn.items[i][1]:
                return ("step %d (%s): the refusal of an awaited service did not reject the client with that text: daemon %r, expected %r" % (i, step_label(scn, i), dp, mp), True)
            if dv == mv and dk != mk:
                return ("step %d (%s): challenge / +x messages differ: daemon %r, expected %r" % (i, step_label(scn, i), [x for x in dp if x[0] in 'CM'], [x for x in mp if x[0] in 'CM']), True)
            return None
        return ("step %d (%s): message text differs from what the services said: daemon %r, expected %r" % (i, step_label(scn, i), [x for x in dp if x not in mp], [x for x in mp if x not in dp]), True)
    analyse(chk, drv, impl, scns, ms, ds, project=texts, judge=judge, what="unfaithful verdict content: ", nontrivial=reached_verdict)
    chk.cov["rule"] = "as C02 with reply texts drawn from printable bytes incl. ':' '%' '~', lengths 0,1,63,64,65,500,1100, accounts with and without stamp suffix; projection = full text of k, R, D, C, M lines per client per step"
