"""C12: address text round-trips for every address."""
from addr_common import *

CORPUS = [
    [0x2001, 0, 0, 1, 0, 2, 0, 0],          # D2: printed as 2001:0:0:1:0::
    [0, 1, 2, 3, 4, 5, 6, 7],               # D20: printed as 0::1:2:3:4:5:6:7
    [0, 0, 0, 0, 0, 0, 0, 0], [0, 0, 0, 0, 0, 0, 0, 1], [1, 0, 0, 0, 0, 0, 0, 0],
    [0, 0, 0, 0, 0, 0xffff, 0x7f00, 1], [0, 0, 0, 0, 0, 0, 0x7f00, 1], [0, 0, 0, 0, 0, 0xffff, 0, 1], [0, 0, 0, 0, 0, 0, 1, 0],
    [0xffff] * 8, [0x10, 0x100, 0x1000, 0, 0, 0x10, 0x100, 0x1000], [0, 0xa, 0, 0xb, 0, 0xc, 0, 0xd],
    [0, 0, 1, 0, 0, 0, 1, 0], [1, 0, 0, 1, 0, 0, 0, 1], [0, 0, 0, 0, 0, 1, 0x102, 0x304],
]

def run(chk):
    ps = chk.proofs()
    chk.cov["trusted_base"] = TRUSTED_BASE_COMMON + [
        "the C library's inet_pton is represented in the theorems by the list-level reference parser AddrRef.ref_pton; their agreement is tested on every run, not proved",
        "byte order of irc_inaddr is below the model (the harness passes 16 bytes in network order)"]
    drv, err = ensure_ocaml("drv_addr", "Extract_addr.v", "drv_addr.ml", "addr_model")
    impl, ierr = build_impl()
    if impl is None:
        print(ierr); sys.exit(2)
    if ps["errors"]:
        chk.violation(proof_violation_text(ps), proof_violation_text(ps), "proof:" + ps["file"], found_input=False)
    if drv is None:
        chk.violation("extraction/driver build failed: " + err, err, "extract", found_input=False)
        return
    rng = chk.rng
    quick = chk.tier == "quick"
    addrs = [list(a) for a in CORPUS]
    pats = pattern_addresses(rng)
    addrs += pats if not quick else pats[::2]
    chk.hist("pattern(3^8 zero/short/long x fillings)", len(pats) if not quick else len(pats[::2]))
    # 5^8 digit-count patterns would be 390k; sample boundary values per group instead
    vals = [0, 1, 0xf, 0x10, 0xff, 0x100, 0xfff, 0x1000, 0xffff]
    n = 20000 if quick else 400000
    for _ in range(n):
        m = rng.random()
        if m < 0.5:
            addrs.append([rng.choice(vals) for _ in range(8)]); chk.hist("boundary-valued groups")
        elif m < 0.7:
            addrs.append([rng.choice([0, 0, 0, 65535, rng.randrange(65536)]) for _ in range(8)]); chk.hist("sparse random")
        elif m < 0.85:
            addrs.append([0, 0, 0, 0, 0, rng.choice([0, 65535]), rng.randrange(65536), rng.randrange(65536)]); chk.hist("ipv4-mapped/compatible")
        else:
            addrs.append([rng.randrange(65536) for _ in range(8)]); chk.hist("uniform random")
    cmds = ["ntop " + hexg(a) for a in addrs]
    res = run_both(impl, drv, cmds)
    maxlen = 40
    try:
        import re as _re
        maxlen = int(_re.search(r"IRC_NTOP_MAX : nat := (\d+)", (COQ / "Params.v").read_text()).group(1))
    except Exception:
        pass
    distinct = set()
    ncorr = 0
    for item in res:
        if item[0] == "CRASH":
            chk.violation("h_addr died (exit %s) on '%s': %s" % (item[2], item[1], item[3][-300:]), item[1] + "\n" + item[3], "crash")
            continue
        c, x, y = item
        chk.cov["evaluations"] += 1
        a = [int(c.split()[1][i:i + 4], 16) for i in range(0, 32, 4)]
        want = hexg(canon(a))
        fx, fy = fields(x), fields(y)
        text = fx["_"][2] if len(fx["_"]) > 2 else ""
        rlen = int(fx["_"][1]) if len(fx["_"]) > 1 and fx["_"][1].isdigit() else -1
        why = None
        # the property itself, checked on the implementation's own output (independent of the model)
        if rlen >= maxlen or rlen != len(text):
            why = "text does not fit the documented buffer (IRC_NTOP_MAX=%d): length %d" % (maxlen, rlen)
        elif text.startswith(":"):
            why = "text begins with ':'"
        elif fx.get("std") == "0":
            why = "text '%s' is rejected by the standard library parser" % text
        elif fx.get("std_addr") != want:
            why = "standard library parser reads '%s' as %s, announced address canonicalises to %s" % (text, fx.get("std_addr"), want)
        elif fx.get("own") != str(rlen):
            why = "irc_pton rejects or only partly consumes its own text '%s' (returned %s)" % (text, fx.get("own"))
        elif fx.get("own_addr") != want:
            why = "irc_pton reads '%s' back as %s, expected %s" % (text, fx.get("own_addr"), want)
        elif fx.get("again") != text:
            why = "parse-then-print is not idempotent: '%s' -> '%s'" % (text, fx.get("again"))
        if why:
            chk.violation("address %s: %s" % (":".join("%x" % v for v in a), why), "address groups: %s\ncommand for harness/h_addr: %s\nimplementation: %s\nmodel: %s" % (a, c, x, y),
                          "ntop:" + ":".join("%x" % v for v in a))
            if len(chk.violations) > 8:
                break
            continue
        # correspondence with the model (text, own parse, reference parser vs inet_pton)
        ncorr += 1
        mtext = fy["_"][2] if len(fy["_"]) > 2 else None
        if mtext != text or fy.get("ref") != fx.get("std_addr") or fy.get("own_addr") != fx.get("own_addr"):
            chk.violation("irc_ntop/irc_pton and the Coq model disagree on address %s (impl '%s', model '%s') although the round-trip property holds on this input" % (hexg(a), x, y),
                          "command: %s\nimplementation: %s\nmodel: %s\ncorrespondence AddrFull.ntop / AddrRef.ref_pton no longer matches modules/iauth_misc.c" % (c, x, y),
                          "corr:ntop", found_input=False)
            if len(chk.violations) > 8:
                break
        distinct.add(text)
    chk.cov["traces_validated_against_impl"] = ncorr
    chk.cov["distinct_nontrivial"] = len([t for t in distinct if ":" in t or "." in t])
    chk.cov["rule"] = "addresses = corpus (past failures) + the 3^8 zero/1-2-digit/3-4-digit group patterns x value fillings + boundary-valued, sparse, IPv4-mapped/compatible and uniform random addresses; distinct = distinct printed texts"
    chk.cov["samples"] = [res[0][:3], res[1][:3], res[len(res) // 2][:3]]
    chk.assumptions += ["inet_pton(AF_INET6) / inet_pton(AF_INET) of this glibc is 'the standard library parser'"]

def replay(chk, path):
    impl, ierr = build_impl()
    import re as _re
    cmds = [l.split(":", 1)[1].strip() for l in open(path) if l.startswith("command")]
    r = subprocess.run([str(impl / "h_addr")], input=("\n".join(cmds) + "\n").encode(), stdout=subprocess.PIPE, env=SAN_ENV)
    print(r.stdout.decode())
    return 0
