"""Shared by C14-C16 (and C18): configuration tree generator, renderer, corrupter, script runner for h_conf (src/config.c)
and for the extracted Coq model (drv_conf), dump parser."""
import os, re, subprocess, tempfile, shutil
from common import *

STRING, INADDR, LIST, OBJECT = 0, 1, 2, 3
TOKEN = set(b"abcdefghijklmnopqrstuvwxyzABCDEFGHIJKLMNOPQRSTUVWXYZ0123456789-._#")
NAMES = [b"a", b"B", b"b", b"c.d", b"x-1", b"#k"]

def fold(b):
    return bytes(c + 32 if 65 <= c <= 90 else c for c in b)

def gstr(rng):
    r = rng.random()
    if r < 0.5: return rng.choice([b"v1", b"v2", b"zz", b"10", b"1K2", b"true", b"off", b"2h3m", b"0x1f", b"-5", b"1:2:3"])
    if r < 0.8: return bytes(rng.choice(b"ab \t\"\\;,{}()/*\n\x01\xff#") for _ in range(rng.randrange(0, 6)))
    return rng.choice([b"", b"pizza", b"12x", b"99999999999", b"1y2d03:04:05"])

def gtree(rng, depth, names=NAMES):
    ents = []
    for _ in range(rng.randrange(0, 5 if depth else 6)):
        name = rng.choice(names); k = rng.random()
        if k < 0.4: ents.append((name, STRING, gstr(rng)))
        elif k < 0.55: ents.append((name, INADDR, (gstr(rng), gstr(rng))))
        elif k < 0.75: ents.append((name, LIST, [gstr(rng) for _ in range(rng.randrange(0, 4))]))
        elif depth < 3: ents.append((name, OBJECT, gtree(rng, depth + 1, names)))
    return ents

def rstr(rng, b, must_quote=False):
    if not must_quote and b and all(c in TOKEN for c in b) and rng.random() < 0.6: return b
    out = bytearray(b'"')
    esc = {7: b"\\a", 8: b"\\b", 12: b"\\f", 10: b"\\n", 13: b"\\r", 9: b"\\t", 11: b"\\v"}
    for c in b:
        if c in (34, 92): out += b"\\" + bytes([c])
        elif c in esc and rng.random() < 0.7: out += esc[c]
        elif c == 0 or (rng.random() < 0.1): out += b"\\x%02x" % c
        elif c not in b"abfnrtvx" and rng.random() < 0.08: out += b"\\" + bytes([c])     # generic escape: backslash + the byte itself
        else: out.append(c)
    return bytes(out + b'"')

def wsh(rng, atleast=0):
    c = [b" ", b"\t", b"", b"/* c\n */", b"  ", b"/*/ x */", b"/**/", b"/* * / */"]
    s = b"".join(rng.choice(c) for _ in range(rng.randrange(0, 3)))
    return s if len(s) >= atleast and (atleast == 0 or s[:1] in b" \t/") else b" " + s

def ws0(rng):
    c = [b" ", b"\n", b"\t", b"", b"/* x */", b"// y\n", b"\r", b"/*/ slash-led */", b"/***/", b"// /* not a block\n", b"/* // not a line */"]
    return b"".join(rng.choice(c) for _ in range(rng.randrange(0, 3)))

def render(rng, ents, top=True):
    out = bytearray(ws0(rng))
    for idx, (name, kind, v) in enumerate(ents):
        last = idx == len(ents) - 1
        out += rstr(rng, name) + ws0(rng)
        if out[-1:] not in b" \n\t\r/":
            out += b" "
        if kind == STRING: out += rstr(rng, v)
        elif kind == INADDR: out += rstr(rng, v[0]) + wsh(rng, 1) + rstr(rng, v[1])
        elif kind == LIST:
            if len(v) >= 2 and rng.random() < 0.5:
                out += (wsh(rng) + b"," + wsh(rng)).join(rstr(rng, x) for x in v)
            else:
                out += b"(" + ws0(rng) + (ws0(rng) + b"," + ws0(rng)).join(rstr(rng, x) for x in v) + ws0(rng) + b")"
        else:
            out += b"{" + render(rng, v, False) + b"}"
        if last and (not top) and rng.random() < 0.4:
            out += wsh(rng)                       # no terminator before '}'
        else:
            out += wsh(rng) + rng.choice([b";", b"\n"]) + ws0(rng)
    return bytes(out)

def corrupt(rng, data):
    r = rng.random()
    if not data: return b"{"
    if r < 0.4: return data[:rng.randrange(0, len(data))]
    if r < 0.7:
        i = rng.randrange(0, len(data)); return data[:i] + bytes([data[i] ^ (1 << rng.randrange(8))]) + data[i + 1:]
    return bytes(rng.randrange(256) for _ in range(rng.randrange(1, 30)))

def cut_nul(b):
    i = b.find(b"\0")
    return b if i < 0 else b[:i]

def norm(ents):
    """what the documented syntax says the tree is: children keyed by (case-folded name, kind), later duplicates override,
       repeated objects merge; C strings end at NUL"""
    d = {}
    for name, kind, v in ents:
        name = cut_nul(name)
        key = (fold(name), kind)
        if key in d:
            if kind == OBJECT: d[key] = (d[key][0], kind, d[key][2] + v)
            else: d[key] = (d[key][0], kind, v)
        else:
            d[key] = (name, kind, v)
    out = []
    for key in sorted(d):
        name, kind, v = d[key]
        if kind == OBJECT: out.append((name, kind, norm(v)))
        elif kind == STRING: out.append((name, kind, cut_nul(v)))
        elif kind == INADDR: out.append((name, kind, (cut_nul(v[0]), cut_nul(v[1]))))
        else: out.append((name, kind, [cut_nul(x) for x in v]))
    return out

# ------------------------------------------------------------------------------------------------
def unq(tok):
    """inverse of h_conf's put_str"""
    if tok == "(null)": return None
    assert tok[0] == '"' and tok[-1] == '"', tok
    s = tok[1:-1]
    return re.sub(r"\\x([0-9a-f]{2})", lambda m: chr(int(m.group(1), 16)), s).encode("latin1")

QS = r'"(?:[^"\\]|\\x[0-9a-f]{2})*"|\(null\)'

def parse_dump(lines):
    """h_conf dump lines -> nested list of dict(name, kind, spec, pres, value, typed); stops at END"""
    root = []; stack = [root]
    for l in lines:
        if l == "END": break
        s = l.lstrip(" ")
        if s == "}":
            stack.pop(); continue
        m = re.match(r"(%s) k(\d) s(\d) p(\d) (.*)$" % QS, s, flags=re.S)
        if not m:
            raise ValueError("cannot parse dump line %r" % l)
        name = unq(m.group(1)); kind = int(m.group(2)); rest = m.group(5)
        node = dict(name=name, kind=kind, spec=int(m.group(3)), pres=int(m.group(4)))
        if kind == STRING:
            mm = re.match(r"(%s) sub(\d) (.*)$" % QS, rest, flags=re.S)
            node["value"] = unq(mm.group(1)); node["sub"] = int(mm.group(2)); node["typed"] = mm.group(3)
        elif kind == INADDR:
            mm = re.match(r"(%s) (%s)$" % (QS, QS), rest, flags=re.S)
            node["value"] = (unq(mm.group(1)), unq(mm.group(2)))
        elif kind == LIST:
            node["value"] = [unq(x) for x in re.findall(QS, rest[1:-1], flags=re.S)]
        else:
            node["value"] = []
            stack[-1].append(node); stack.append(node["value"]); continue
        stack[-1].append(node)
    return root

def strip_logs(tree):
    return [n for n in tree if not (n["kind"] == OBJECT and n["name"] == b"logs" and n["spec"] == 1)]

def shape(tree):
    """(name, kind, value) view of a parsed dump, for comparison with norm()"""
    out = []
    for n in tree:
        if n["kind"] == OBJECT: out.append((n["name"], OBJECT, shape(n["value"])))
        else: out.append((n["name"], n["kind"], n["value"]))
    return out

# ------------------------------------------------------------------------------------------------
def expand(items):
    """every load is followed by exactly one dump (the model's load step prints the dump itself)"""
    out = []
    for i, it in enumerate(items):
        if it[0] == 'dump' and out and out[-1][0] == 'dump' and i > 0 and items[i - 1][0] == 'load':
            continue
        out.append(it)
        if it[0] == 'load': out.append(('dump',))
    return out

class Case:
    """a script: items are ('reg', kind, name, args...) | ('load', bytes) | ('dump',); a load is always followed by a dump"""
    def __init__(self, items, note=""):
        self.items = expand([it for it in items]) if True else items; self.note = note
    def describe(self):
        out = []
        for it in self.items:
            if it[0] == 'load': out.append("load %r" % (it[1],))
            else: out.append(" ".join(str(x) for x in it))
        return "\n".join(out)

def harness_lines(case, d):
    """script for h_conf; file contents are written under d"""
    out = []; k = 0
    for it in case.items:
        if it[0] == 'load':
            fn = os.path.join(d, "f%d.conf" % k); k += 1
            open(fn, "wb").write(it[1]); out.append("load " + fn)
        elif it[0] == 'dump': out.append("dump")
        elif it[0] == 'hookall': out.append("hookall")
        else:
            _, kind, name, *args = it
            if kind == 'str': out.append("reg str %s %d %s" % (name, args[0], args[1] if args[1] is not None else "-"))
            elif kind == 'list': out.append("reg list %s %s" % (name, " ".join(args[0])))
            elif kind == 'ina': out.append("reg ina %s %s %s" % (name, args[0] or "-", args[1] or "-"))
            else: out.append("reg obj %s" % name)
    return out

def model_lines(case):
    out = ["CASE"]
    prev = None
    for it in case.items:
        if it[0] == 'load': out.append("L " + it[1].hex() if it[1] else "L")
        elif it[0] == 'dump':
            if prev != 'load': out.append("D")
        elif it[0] == 'hookall': out.append("H")
        else:
            _, kind, name, *args = it
            if kind == 'str': out.append("R str %s %d %s" % (name, args[0], args[1] if args[1] is not None else "-"))
            elif kind == 'list': out.append("R list %s %s" % (name, " ".join(args[0])))
            elif kind == 'ina': out.append("R ina %s %s %s" % (name, args[0] or "-", args[1] or "-"))
            else: out.append("R obj %s" % name)
        prev = it[0]
    out.append("ENDCASE")
    return out

CONF_ENV = dict(SAN_ENV, ASAN_OPTIONS="detect_leaks=0:abort_on_error=0:exitcode=99")

def run_harness(impl, cases):
    """-> list of (rc, lines, stderr) per case"""
    def work(case):
        d = tempfile.mkdtemp(dir=str(BUILD / "tmp"), prefix="c")
        try:
            sc = "\n".join(harness_lines(case, d)) + "\n"
            try:
                p = subprocess.run(["timeout", "-s", "KILL", "60", str(impl / "h_conf")], input=sc.encode(), stdout=subprocess.PIPE, stderr=subprocess.PIPE, env=CONF_ENV, timeout=90)
            except subprocess.TimeoutExpired:
                return (-9, [], "TIMEOUT (hang)")
            return (p.returncode, p.stdout.decode("latin1").split("\n")[:-1], p.stderr.decode("latin1", errors="replace"))
        finally:
            shutil.rmtree(d, ignore_errors=True)
    (BUILD / "tmp").mkdir(exist_ok=True)
    return pmap(work, cases)

def run_model(drv, cases):
    parts = chunks(list(range(len(cases))), NCPU)
    res = [None] * len(cases)
    def work(idx):
        tmp = tempfile.NamedTemporaryFile("w", dir=str(BUILD / "tmp"), suffix=".ccases", delete=False)
        for i in idx:
            tmp.write("\n".join(model_lines(cases[i])) + "\n")
        tmp.close()
        p = subprocess.run([str(drv), "script", tmp.name], stdout=subprocess.PIPE, stderr=subprocess.PIPE, timeout=1200)
        os.unlink(tmp.name)
        outs = [c.split("\n")[:-1] for c in p.stdout.decode("latin1").split("==\n")[:-1]]
        if len(outs) != len(idx):
            raise RuntimeError("conf model driver failed: " + p.stderr.decode()[-400:])
        return idx, outs
    (BUILD / "tmp").mkdir(exist_ok=True)
    for idx, outs in pmap(work, [p for p in parts if p]):
        for i, o in zip(idx, outs):
            res[i] = o
    return res

def segments(lines):
    """split harness output into per-command segments: each ends with REG, 'LOAD OK', 'LOAD ERR' or END"""
    segs = []; cur = []
    for l in lines:
        cur.append(l)
        if l in ("REG", "LOAD OK", "LOAD ERR", "END"):
            segs.append(cur); cur = []
    if cur: segs.append(cur)
    return segs

def gen_regs(rng, names=NAMES, typed=True):
    regs = []
    for _ in range(rng.randrange(0, 5)):
        nm = rng.choice(names).decode(); k = rng.random()
        if k < 0.45:
            regs.append(('reg', 'str', nm, rng.choice([0, 0, 1, 2, 4, 5]) if typed else 0, rng.choice([None, "d1", "0", "7"])))
        elif k < 0.65:
            regs.append(('reg', 'list', nm, [rng.choice(["d1", "d2"]) for _ in range(rng.randrange(0, 3))]))
        elif k < 0.8:
            regs.append(('reg', 'ina', nm, rng.choice([None, "dh"]), rng.choice([None, "dp"])))
        else:
            regs.append(('reg', 'obj', nm))
    return regs

def conf_setup(chk, extra_tb=()):
    ps = chk.proofs()
    chk.cov["trusted_base"] = TRUSTED_BASE_COMMON + list(extra_tb) + [
        "the C harness h_conf.c (registers nodes with a logging hook, loads files, dumps the live tree) linked with /repo/src/config.c unmodified",
        "modelled, not verified: heap ownership inside config.c (observed with ASan); leaks on parse-error paths are not counted as memory errors"]
    drv, err = ensure_ocaml("drv_conf", "Extract_conf.v", "drv_conf.ml", "conf_model")
    impl, ierr = build_impl()
    if impl is None:
        print(ierr); sys.exit(2)
    if ps["errors"]:
        chk.violation(proof_violation_text(ps), proof_violation_text(ps), "proof:" + ps["file"], found_input=False)
    if drv is None:
        chk.violation("extraction/driver build failed: " + err, err, "extract", found_input=False)
        return None
    (BUILD / "tmp").mkdir(exist_ok=True)
    return drv, impl

def minimise_case(case, fails, budget=60):
    cur = list(case.items); changed = True; n = 0
    while changed and n < budget:
        changed = False
        for i in range(len(cur) - 1, -1, -1):
            cand = cur[:i] + cur[i + 1:]
            n += 1
            if n > budget: break
            if cand and fails(Case(cand, case.note)):
                cur = cand; changed = True
    # shrink file contents of loads as well (cut from the end)
    return Case(cur, case.note)
