"""C06: queries are timely and carry the client's own data."""
from iauth_common import *
PROFILE = dict(p_good_reply=0.5, maxlen=40, nsv=[1, 2, 3, 4], p_rules=0.2)

def xlines(lines, n):
    return sorted(l for l in lines if l.startswith("X "))

def run(chk):
    r = standard_run(chk, PROFILE, 3000, 40000)
    if r is None: return
    drv, impl, scns, ms, ds = r
    def judge(scn, i, dp, mp):
        if isinstance(dp, str): return None
        return ("step %d (%s): queries differ: daemon sent %r, expected %r" % (i, step_label(scn, i), [x for x in dp if x not in (mp or [])], [x for x in (mp or []) if x not in dp]), True)
    def nontriv(scn, d):
        v = tuple(tuple(x for x in s[0] if x.startswith("X ")) for s in d.steps if any(l.startswith("X ") for l in s[0]))
        return v if v else None
    analyse(chk, drv, impl, scns, ms, ds, project=xlines, judge=judge, what="query not timely / not faithful: ", nontrivial=nontriv)
    # oracle from the property text on one fixed history (D30, repaired): d.svc is configured and the data a dronecheck needs are complete at
    # '5 U': the query must go out in that step
    sh = slot_reuse_history(); dh = run_daemons(impl, [sh])[0]
    chk.cov["evaluations"] += 1; chk.hist("slot reuse after two reloads")
    k = next(i for i, it in enumerate(sh.items) if it[0] == 'L' and it[1].startswith(b"5 U"))
    if dh.rc != 0 or k >= len(dh.steps) or not any(l.startswith("X d.svc 5_") for l in dh.steps[k][0]):
        chk.violation("d.svc (dronecheck) is configured and client 5's host result, ident, nick and user info are complete at '5 U u :r', yet no query is sent to it: the client carries the 'already asked' bit of a.svc, whose released slot d.svc took over (step outputs: %r)" % (dh.steps[k][0] if k < len(dh.steps) else None),
                      replay_text(sh, dh, None), "stale-slot:sent-bit-of-released-slot")
    else:
        chk.cov["traces_validated_against_impl"] += 1
    chk.cov["rule"] = "arrival orders of N/d, u (empty and non-empty), n, U, P, H permuted by the generator; field lengths at limit-1, limit, limit+1; projection = the X lines of every step (which service, routing tag, full payload); distinct non-trivial = distinct query traces"
