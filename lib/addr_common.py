"""Shared by C12/C13: run h_addr (implementation) and drv_addr (extracted model) on the same command list."""
import itertools, subprocess
from common import *

def hexg(g):
    return "".join("%04x" % x for x in g)

def run_both(impl, drv, cmds):
    parts = chunks(cmds, NCPU)
    def work(part):
        inp = ("\n".join(part) + "\n").encode()
        a = subprocess.run([str(impl / "h_addr")], input=inp, stdout=subprocess.PIPE, stderr=subprocess.PIPE, timeout=1200, env=SAN_ENV)
        b = subprocess.run([str(drv)], input=inp, stdout=subprocess.PIPE, stderr=subprocess.PIPE, timeout=1200)
        la = a.stdout.decode(errors="replace").split("\n")[:-1]
        lb = b.stdout.decode(errors="replace").split("\n")[:-1]
        return part, a.returncode, la, lb, a.stderr.decode(errors="replace")
    res = []
    for part, rc, la, lb, err in pmap(work, parts):
        if rc != 0 or len(la) != len(part):
            # locate the command on which the implementation died
            k = len(la)
            bad = part[k] if k < len(part) else part[-1]
            res.append(("CRASH", bad, rc, err[-1500:]))
            la = la + ["?"] * (len(part) - len(la))
        for c, x, y in zip(part, la, lb):
            res.append((c, x, y))
    return res

def fields(line):
    """'ntop 15 text std=1 HEX own=15 HEX again=..' -> dict"""
    toks = line.split(" ")
    d = {"_": toks}
    i = 0
    while i < len(toks):
        t = toks[i]
        if "=" in t:
            k, v = t.split("=", 1)
            d[k] = v
            if k in ("std", "own") and i + 1 < len(toks) and "=" not in toks[i + 1]:
                d[k + "_addr"] = toks[i + 1]
        i += 1
    return d

def pattern_addresses(rng):
    """all 3^8 zero / short / long group patterns, four value fillings each"""
    out = []
    short = [1, 0xf, 0x10, 0xff]
    long_ = [0x100, 0xabc, 0x1000, 0xffff]
    for p in itertools.product([0, 1, 2], repeat=8):
        for k in range(4):
            out.append([0 if x == 0 else (short[(k + i) % 4] if x == 1 else long_[(k + i) % 4]) for i, x in enumerate(p)])
    return out

def is_ipv4(g):
    return g[0] == g[1] == g[2] == g[3] == g[4] == 0 and g[6] != 0 and g[5] in (0, 65535)

def canon(g):
    g = list(g)
    if is_ipv4(g):
        g[5] = 65535
    return g
