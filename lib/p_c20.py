"""C20: module load and unload respect declared dependencies (partial: dlopen / symbol lookup not modelled)."""
import itertools
from common import *

def spec_line(n, deps, listing):
    return "%d;%s;%s" % (n, ";".join(",".join(str(d) for d in deps[i]) for i in range(n)), ",".join(str(x) for x in listing))

def run_daemon(impl, n, deps, listing, extra_dep=None, anti=None, backends=()):
    d = Path(tempfile.mkdtemp(dir=str(BUILD / "tmp"), prefix="m"))
    try:
        log = d / "stub.log"
        conf = d / "c.conf"
        conf.write_text('core {\n library_path ( "%s" )\n modules ( %s )\n}\n' % (impl / "mods", ", ".join('"m%d"' % m for m in listing)))
        env = dict(SAN_ENV, STUBLOG=str(log), ASAN_OPTIONS="detect_leaks=0:exitcode=99")
        for m in range(n):
            ds = ["m%d" % x for x in deps[m]]
            if extra_dep and extra_dep[0] == m: ds.append(extra_dep[1])
            env["STUBDEPS_m%d" % m] = ",".join(ds)
            if anti and anti[m]: env["STUBANTI_m%d" % m] = ",".join("m%d" % x for x in anti[m])
            if m in backends: env["STUBBACKEND_m%d" % m] = "1"
        try:
            p = subprocess.run(["timeout", "-s", "KILL", "30", str(impl / "iauthd-c"), "-n", "-k", "-f", str(conf)], input=b"", stdout=subprocess.PIPE, stderr=subprocess.PIPE, env=env, cwd=str(d), timeout=60)
        except subprocess.TimeoutExpired:
            return -9, [], "TIMEOUT"
        evs = []
        if log.exists():
            for l in log.read_text().split("\n"):
                if l:
                    k, m = l.split(" ")
                    evs.append(k + m[1:])
        return p.returncode, evs, (p.stdout.decode(errors="replace") + p.stderr.decode(errors="replace"))[-1500:]
    finally:
        shutil.rmtree(d, ignore_errors=True)

import tempfile, shutil

def reach(n, deps, listing):
    seen = []; todo = list(listing)
    while todo:
        m = todo.pop(0)
        if m in seen: continue
        seen.append(m); todo = list(deps[m]) + todo
    return seen

def cyclic(n, deps, R):
    color = {}
    def visit(m):
        color[m] = 1
        for d in deps[m]:
            if color.get(d) == 1: return True
            if color.get(d) is None and visit(d): return True
        color[m] = 2
        return False
    return any(color.get(m) is None and visit(m) for m in R)

def monitor(n, deps, listing, rc, evs):
    """the property, checked on the implementation's own event log (independent of the model)"""
    R = reach(n, deps, listing)
    if cyclic(n, deps, R):
        if rc == 0: return "a genuine dependency cycle did not abort start-up (exit status 0)"
        if any(e.startswith("PI") for e in evs) and False: return None
        return None
    if rc != 0: return "an acyclic dependency graph was refused (exit status %s)" % rc
    for m in R:
        for k in ("CB", "CE", "PI", "DT"):
            c = evs.count("%s%d" % (k, m))
            if c != 1: return "module m%d: %s ran %d times" % (m, {"CB": "constructor", "CE": "constructor end", "PI": "post-init", "DT": "destructor"}[k], c)
        for d in deps[m]:
            if not evs.index("CE%d" % d) < evs.index("CE%d" % m): return "m%d finished constructing before its dependency m%d was fully constructed" % (m, d)
            if not evs.index("PI%d" % d) < evs.index("PI%d" % m): return "post-init of m%d ran before that of its dependency m%d" % (m, d)
            if not evs.index("DT%d" % m) < evs.index("DT%d" % d): return "destructor of m%d ran after that of its dependency m%d" % (m, d)
    for m in range(n):
        if m not in R and any(e[2:] == str(m) for e in evs): return "module m%d is not named nor depended upon but was loaded" % m
    return None

def run(chk):
    ps = chk.proofs()
    chk.cov["trusted_base"] = TRUSTED_BASE_COMMON + ["stub modules harness/stubmod.c (log constructor begin/end, post-init, destructor; read their dependency list from the environment) loaded by the real daemon with -k",
                                                    "modelled, not verified: dlopen, dlsym, the process environment"]
    drv, err = ensure_ocaml("drv_mod", "Extract_mod.v", "drv_mod.ml", "mod_model")
    impl, ierr = build_impl()
    if impl is None:
        print(ierr); sys.exit(2)
    if ps["errors"]:
        chk.violation(proof_violation_text(ps), proof_violation_text(ps), "proof:" + ps["file"], found_input=False)
    if drv is None:
        chk.violation("extraction/driver build failed: " + err, err, "extract", found_input=False); return
    (BUILD / "tmp").mkdir(exist_ok=True)
    rng = chk.rng
    quick = chk.tier == "quick"
    graphs = []
    def all_graphs(n):
        pairs = [(a, b) for a in range(n) for b in range(n) if a != b]
        for bits in itertools.product([0, 1], repeat=len(pairs)):
            deps = [[] for _ in range(n)]
            for (a, b), x in zip(pairs, bits):
                if x: deps[a].append(b)
            yield deps
    # every digraph on <= 3 modules (quick: plus a third of those on 4), every listing order of the roots we try
    for n in (1, 2, 3):
        for deps in all_graphs(n):
            for listing in ([0], list(range(n)), list(reversed(range(n)))):
                graphs.append((n, deps, listing))
    g4 = list(all_graphs(4))
    for deps in (g4[::5] if quick else g4):
        for listing in ([0], [3, 0], [0, 1, 2, 3], [3, 2, 1, 0]) if not quick else (rng.choice([[0], [3, 0], [0, 1, 2, 3], [3, 2, 1, 0]]),):
            graphs.append((4, deps, listing))
    # sampled larger graphs: random DAGs and cyclic graphs on 5 and 6 modules, diamonds, chains, permuted declaration order
    for _ in range(150 if quick else 4000):
        n = rng.choice([5, 6])
        order = list(range(n)); rng.shuffle(order)
        deps = [[] for _ in range(n)]
        for i in range(n):
            for j in range(i + 1, n):
                if rng.random() < 0.35: deps[order[i]].append(order[j])
        if rng.random() < 0.25:
            a, b = rng.sample(range(n), 2); deps[a].append(b) if b not in deps[a] else None; deps[b].append(a) if a not in deps[b] else None
        for m in range(n): rng.shuffle(deps[m])
        listing = rng.sample(range(n), rng.randrange(1, n + 1))
        graphs.append((n, deps, listing))
    chk.hist("graphs", len(graphs))
    model = subprocess.run([str(drv)], input=("\n".join(spec_line(*g) for g in graphs) + "\n").encode(), stdout=subprocess.PIPE, timeout=600).stdout.decode().split("\n")[:-1]
    res = pmap(lambda g: run_daemon(impl, *g), graphs)
    distinct = set()
    for (n, deps, listing), ml, (rc, evs, out) in zip(graphs, model, res):
        if len(chk.violations) >= 4: break
        chk.cov["evaluations"] += 1
        why = monitor(n, deps, listing, rc, evs); found = True
        if why is None:
            mevs = ml.split(" mon=")[0]
            if mevs == "ABORT":
                same = rc != 0
            else:
                same = rc == 0 and mevs.split(" ") == evs
            if not same:
                why = "module.c and the Coq loader model disagree: implementation (exit %s) %s, model %s" % (rc, " ".join(evs), mevs); found = False
            elif not ml.endswith("mon=true"):
                why = "the extracted monitor rejects the model's own run: %s" % ml; found = False
        if why:
            chk.violation("modules %s (listed: %s): %s" % ({("m%d" % i): ["m%d" % d for d in deps[i]] for i in range(n)}, ["m%d" % x for x in listing], why),
                          "dependency graph: %s\nconfiguration lists: %s\nevent log of the daemon (exit %s): %s\nmodel: %s\noutput:\n%s" % (deps, listing, rc, " ".join(evs), ml, out), "mod:" + why[:40], found_input=found)
            continue
        chk.cov["traces_validated_against_impl"] += 1
        distinct.add((n, str(deps), str(listing)))
    # back-end providers (module_antidepends, README "must be unloaded after it"): m in anti[x'] means x' is a back end for m... here
    # anti[b] lists the modules b provides for; each such module depends on b.  Judged by the oracle below (every loaded module
    # constructed / post-initialised / destroyed once, depends edges as before, and for BOTH kinds of edge the dependent's destructor
    # runs before the provider's) and compared event for event with the extended loader model (ModAnti.run2 / ModBackend.run3).
    agraphs = []
    for _ in range(120 if quick else 3000):
        n = rng.choice([3, 4, 5])
        order = list(range(n)); rng.shuffle(order)
        deps = [[] for _ in range(n)]; anti = [[] for _ in range(n)]
        for i in range(n):
            for j in range(i + 1, n):
                r_ = rng.random()
                if r_ < 0.3: deps[order[i]].append(order[j])            # order[i] depends on order[j]
                elif r_ < 0.55: anti[order[j]].append(order[i])          # order[j] is a back end for order[i]: order[i] depends on order[j]
        listing = rng.sample(range(n), rng.randrange(1, n + 1))
        bks = tuple(sorted(m for m in range(n) if rng.random() < 0.3)) if _ % 2 else ()
        agraphs.append((n, deps, anti, listing, bks))
    # the shape that needs it: a root that sorts first pulls in the dependent, the back end sorts between them
    agraphs.append((3, [[2], [], []], [[], [2], []], [0, 1], ()))
    agraphs.append((3, [[2], [], []], [[], [2], []], [1, 0], ()))
    # backends of the core (module_is_backend): unloaded after the ordinary modules, but still before what THEY depend on (D29)
    agraphs.append((2, [[], [0]], [[], []], [1], (1,)))
    agraphs.append((3, [[], [0], [1]], [[], [], []], [2], (1,)))
    agraphs.append((4, [[1], [], [], []], [[], [], [], []], [0, 3], (1, 3)))
    # a core backend over a chain / a fork of three more modules, under EVERY assignment of names (unload rounds scan in name order:
    # whether another round is needed must not depend on which module happens to be scanned last)
    import itertools as _it
    for perm in _it.permutations(range(4)):
        a, b, c, d = perm
        chain = [[] for _ in range(4)]; chain[a] = [b]; chain[b] = [c]; chain[c] = [d]
        fork = [[] for _ in range(4)]; fork[a] = [b]; fork[b] = [c, d]
        for g in (chain, fork):
            agraphs.append((4, g, [[], [], [], []], [a], (a,)))
        agraphs.append((4, chain, [[], [], [], []], [a], (a, c)))
    ares = pmap(lambda g: run_daemon(impl, g[0], g[1], g[3], anti=g[2], backends=g[4]), agraphs)
    aspec = lambda n, deps, anti, listing, bks=(): "A;%d;%s;%s;%s;%s" % (n, ";".join(",".join(str(d) for d in deps[i]) for i in range(n)), ";".join(",".join(str(d) for d in anti[i]) for i in range(n)), ",".join(str(x) for x in listing), ",".join(str(b) for b in bks))
    amodel = subprocess.run([str(drv)], input=("\n".join(aspec(*g) for g in agraphs) + "\n").encode(), stdout=subprocess.PIPE, timeout=600).stdout.decode().split("\n")[:-1]
    for (n, deps, anti, listing, bks), (rc, evs, out), aml in zip(agraphs, ares, amodel + [""] * len(agraphs)):
        if len(chk.violations) >= 4: break
        chk.cov["evaluations"] += 1; chk.hist("graphs with back-end (antidepends) edges")
        loaded = []; todo = list(listing)
        while todo:
            m = todo.pop(0)
            if m in loaded: continue
            loaded.append(m); todo = list(deps[m]) + list(anti[m]) + todo
        why = None
        if rc != 0: why = "an acyclic graph with back-end declarations was refused or the daemon failed (exit status %s)" % rc
        else:
            for m in loaded:
                for k in ("CB", "CE", "PI", "DT"):
                    if evs.count("%s%d" % (k, m)) != 1: why = why or "module m%d: %s ran %d times" % (m, k, evs.count("%s%d" % (k, m)))
            if why is None:
                for m in loaded:
                    for d in deps[m]:
                        # (construction order is not judged here: a back end's constructor loads the module it provides for, so a
                        #  dependency may still be under construction - inherent in the interface)
                        if not evs.index("PI%d" % d) < evs.index("PI%d" % m): why = why or "post-init of m%d ran before that of its dependency m%d" % (m, d)
                        if not evs.index("DT%d" % m) < evs.index("DT%d" % d): why = why or "destructor of m%d ran after that of its dependency m%d" % (m, d)
                    for x in anti[m]:
                        if not evs.index("DT%d" % x) < evs.index("DT%d" % m): why = why or "back end m%d (declared with module_antidepends for m%d) was destroyed before m%d" % (m, x, x)
        if why is None and bks:
            # what the flag is for: an ordinary module that no backend depends on (directly or not) goes before every backend
            comb = {m: set(deps[m]) | {b for b in range(n) if m in anti[b]} for m in range(n)}
            def reach_(b):
                seen = set(); todo = [b]
                while todo:
                    x = todo.pop()
                    for y in comb[x]:
                        if y not in seen: seen.add(y); todo.append(y)
                return seen
            kept = set()
            for b in bks:
                if b in loaded: kept |= reach_(b)
            for b in bks:
                if b not in loaded: continue
                for x in loaded:
                    if x not in bks and x not in kept and not evs.index("DT%d" % x) < evs.index("DT%d" % b):
                        why = why or "backend m%d was destroyed before the ordinary module m%d, which no backend depends on" % (b, x)
        afound = True
        if why is None and not ((aml == "ABORT" and rc != 0) or (rc == 0 and aml.split(" ") == evs)):
            why = "module.c and the Coq loader model with back-end declarations and backends (ModBackend.run3) disagree: implementation (exit %s) %s, model %s" % (rc, " ".join(evs), aml); afound = False
        if why:
            chk.violation("modules with back-end declarations: depends %s, back end for %s, backends of the core %s (listed: %s): %s" % ({("m%d" % i): ["m%d" % d for d in deps[i]] for i in range(n)}, {("m%d" % i): ["m%d" % d for d in anti[i]] for i in range(n) if anti[i]}, ["m%d" % b for b in bks], ["m%d" % x for x in listing], why),
                          "depends: %s\nantidepends: %s\nconfiguration lists: %s\nevent log of the daemon (exit %s): %s\noutput:\n%s" % (deps, anti, listing, rc, " ".join(evs), out), "mod:anti:" + why[:30], found_input=afound)
            continue
        chk.cov["traces_validated_against_impl"] += 1
    # an unloadable module aborts start-up
    rc, evs, out = run_daemon(impl, 2, [[1], []], [0], extra_dep=(1, "nosuchmodule"))
    chk.cov["evaluations"] += 1
    if rc == 0:
        chk.violation("a dependency on an unloadable module did not abort start-up", "m0 -> m1 -> nosuchmodule\n" + out, "unloadable")
    chk.cov["exhaustive"] = True
    chk.cov["exhaustive_scope"] = "every digraph without self loops on 1-3 stub modules x 3 listing orders" + ("" if quick else "; every digraph on 4 modules x 4 listing orders")
    chk.cov["distinct_nontrivial"] = len([d for d in distinct if d[1].count("[") > 2])
    chk.cov["samples"] = [spec_line(*graphs[40]), spec_line(*graphs[-1]), model[-1]]
    chk.cov["rule"] = "real daemon (-k) loading stub shared objects that log constructor begin/end, post-init and destructor; graphs: all digraphs on <= 3 (thorough: <= 4) modules, sampled DAGs and cyclic graphs on 5-6 modules with shuffled declaration order, several listing orders; an unloadable dependency. The C20 monitor (python, independent of the model) is evaluated on the daemon's own event log; the log must also equal the model's. Distinct = distinct (graph, listing) with at least one edge."
