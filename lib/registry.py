"""Tables shared by bin/setup and bin/gen_manifest."""
DRIVERS = {
    # name: (extraction file in coq/, driver in ocaml/, extracted module name)
    "drv_set": ("Extract_set.v", "drv_set.ml", "set_model"),
    "drv_addr": ("Extract_addr.v", "drv_addr.ml", "addr_model"),
    "drv_iauth": ("Extract_iauth.v", "drv_iauth.ml", "iauth_model"),
    "drv_conf": ("Extract_conf.v", "drv_conf.ml", "conf_model"),
}

HOOK_COMMITS = ["9dc863c"]

# property id -> dict(text, note, technique, design_ref) for every claimed property
CLAIMED = {
 "C19": dict(
   text="Coq theorems over a functional top-down splay with threaded chain: splay preserves the in-order sequence for every comparator, and find/insert refine a sorted association list (invariant: search order, chain = in-order, count). The model is tied to src/set.c on every run by differential execution (complete exploration of reachable shapes over a small key universe, random sequences, extreme ints), comparing results, iteration order, disposal log and a structural audit.",
   note="Trusted: Coq kernel, ExtrOcamlBasic extraction, OCaml driver, C harness h_set.c, ASan/UBSan. Pointer-level memory management of set.c is observed (audit, sanitizers), not proved.",
   technique="machine-checked proof in Coq (induction on tree size; refinement to a sorted list) + extracted-model differential against src/set.c",
   design_ref="DESIGN.md section 6 C19"),
}

NOT_YET = "check not built yet (work in progress in this session)"
