"""Tables shared by bin/setup and bin/gen_manifest."""
DRIVERS = {
    # name: (extraction file in coq/, driver in ocaml/, extracted module name)
    "drv_set": ("Extract_set.v", "drv_set.ml", "set_model"),
    "drv_addr": ("Extract_addr.v", "drv_addr.ml", "addr_model"),
    "drv_iauth": ("Extract_iauth.v", "drv_iauth.ml", "iauth_model"),
    "drv_conf": ("Extract_conf.v", "drv_conf.ml", "conf_model"),
    "drv_mod": ("Extract_mod.v", "drv_mod.ml", "mod_model"),
}

HOOK_COMMITS = ["9dc863c"]

# property id -> dict(text, note, technique, design_ref) for every claimed property
IA_NOTE = ("Trusted: Coq kernel (no axioms), ExtrOcamlBasic extraction, OCaml driver, the real daemon built from /repo with ASan/UBSan and the guarded hooks "
           "('<id> ! timeout', '-1 ! reload'), the '-1 ? stats2' marker for attributing output to input. Modelled, not verified: libevent, heap, dlopen; fnmatch beyond * and ?. "
           "The hand-written model (coq/Iauth.v, Line.v) is tied to iauth_core.c / iauth_xquery.c / iauth_class.c by differential execution on every run.")
IA_TECH = "machine-checked proof in Coq (invariants by induction over event lists) + extracted-model differential against the real daemon"
def ia(text, ref):
    return dict(text=text, note=IA_NOTE, technique=IA_TECH, design_ref="DESIGN.md section 6 " + ref)
CLAIMED = {
 "C01": ia("Theorem verdict_once_then_silence: for every configuration and every finite history the executable monitor Mon01 accepts the model's trace (every message and query tag names a live id, a verdict retires it, soft-done at most once). The same discipline is checked on the real daemon's traces by an independent monitor, and the model is compared with the daemon step by step.", "C01"),
 "C02": ia("Theorems hold_accounting_invariant (every reachable request: holds = [+! without account], soft holds = [some query unanswered] unless timed out) and accept_only_when_ready (the gate accepts only a ready request). The daemon is compared with the model on generated histories; an accept the model does not make is reported with the minimised history.", "C02"),
 "C03": ia("Theorems hold_accounting_invariant and gate_never_leaves_a_ready_client: a request left in the table is not ready, in every reachable state. On the daemon, a verdict the model issues and the daemon does not is reported with the minimised history (reply after timeout, two vouchers, MORE then reply, -! after +!).", "C03"),
 "C04": ia("Theorems stray_reply_changes_nothing (a reply without a target leaves the STATE equal and prints nothing, in every state), stray_reply_is_erasable, serials_are_fresh, tag_denotes_its_instance. On the daemon: differential h vs h with a stray reply inserted at random positions, plus an in-history oracle.", "C04"),
 "C05": ia("Theorems about the reply function for all texts: refusal_rejects_with_that_text, account_exactly_when_vouched, drone_check_account_ignored, accept_reports_account_and_class, challenges_relayed_verbatim. The daemon's k/R/D/C/M lines are compared in full with the model.", "C05"),
 "C06": ia("Theorems query_pass_exact (the lines of a pass are exactly those of configured, eligible, not yet asked services, in slot order), query_payload_is_the_clients_own, user_name_within_limit, shapeless_password_not_forwarded. The daemon's X lines are compared in full with the model for every step.", "C06"),
 "C07": ia("Theorem interleaving_invariance: for histories without reloads, the serial-erased lines about client c are equal for any two histories with the same events of c in the same order; plus foreign_lines_are_invisible on concrete lines and the abstract/concrete step correspondence. On the daemon: random order-preserving interleavings (with reload barriers) vs solo runs.", "C07"),
 "C08": dict(ia("PARTIAL. Proved on the model: argument_vector_bounded (<= 16), junk_line_changes_nothing, junk_lines_are_removable, line_splitting_ignores_chunking, prefix_of_stream_gives_prefix_of_lines. Not proved: absence of memory errors in the C code - observed with ASan/UBSan on byte streams (junk, mutations, every prefix, random bytes, re-chunking) whose stdout must equal the model's.", "C08"), technique="machine-checked proof in Coq on the line/tokenizer/dispatch model + sanitizer-instrumented differential on byte streams (memory safety observed, not proved)"),
 "C09": ia("Theorems every_output_line_is_wellformed (from start-up on, across reloads, under stated operator/protocol assumptions), client_messages_correctly_addressed, parser_result_is_an_address, stored_address_text_is_a_word; with C12 the echoed text denotes the announced address. On the daemon every stdout line is matched against the message grammar and every client message against the announcement.", "C09"),
 "C10": dict(ia("PARTIAL. Theorem in_use_is_live_count: after every prefix of every history the table size equals the monitor's live count. Release of memory and timers is observed (LeakSanitizer at exit, real one-shot timers in the thorough tier), not proved. The daemon's 'N in use' is compared after every line, including histories with hundreds of ids.", "C10"), technique="machine-checked proof in Coq + extracted-model differential; heap/timer release observed by sanitizers"),
 "C11": ia("Theorems class_is_first_matching_rule, no_class_when_no_rule_matches, trust_username_upgrade, class_within_limit. Rule tables with all criteria (globs, CIDR/wildcard masks, xreply_ok) x client attributes on the daemon, class field and U lines compared with the model. Name order of rules is the configuration tree's order (C15/C16 side).", "C11"),
 "C12": dict(text="Theorems for ALL addresses (8 groups < 65536) on the model compared byte-for-byte with iauth_misc.c: text_roundtrips_through_own_parser (canonicalising IPv4-compatible to mapped), text_roundtrips_through_reference_parser, text_never_begins_with_colon, text_fits_documented_buffer, parse_then_print_is_idempotent, text_determines_address. On the implementation the property itself is checked per address (inet_pton included) over all 3^8 group patterns and random values.",
             note="Trusted: Coq kernel (no axioms), extraction, drivers, harness h_addr.c. inet_pton is represented in the theorems by the list-level reference parser AddrRef.ref_pton; their agreement is tested on every run, not proved.",
             technique="machine-checked proof in Coq (simulation of the char-level parser, invariant of the zero-run scan, finite nibble sweeps lifted by lemmas) + differential against irc_ntop/irc_pton/inet_pton", design_ref="DESIGN.md section 6 C12"),
 "C13": dict(text="Theorems mask_test_exact (for all addresses and lengths <= 128: test succeeds iff the leading bits agree, by bit reasoning), parsers_agree_on_printed_addresses, and (C09 file) parser_result_is_an_address for ALL strings. CIDR / wildcard meaning and agreement with inet_pton are checked on the implementation with python-computed expectations; all strings over the address alphabet up to a bound under ASan.",
             note="Trusted as C12. The documented meaning of CIDR/wildcard texts is checked by the correspondence and an independent oracle, not yet stated as theorems (partial for that clause).",
             technique="machine-checked proof in Coq (N.testbit reasoning) + exhaustive/differential testing of irc_pton and irc_check_mask", design_ref="DESIGN.md section 6 C13"),
 "C17": ia("Theorems reload_is_like_a_fresh_start (configured (service, protocol) view after a reload is a permutation of the fresh daemon's, which is the file's entries in order; rules replaced literally), reload_touches_only_the_tables, queries_depend_on_configured_services_only. On the daemon: reloaded (hook; SIGUSR1 in thorough) vs fresh daemon on every edit kind, probe clients afterwards.", "C17"),
 "C19": dict(
   text="Theorems for EVERY operation sequence: set_is_a_sorted_map (results, iteration order, count, disposal log equal those of a sorted association list), cleanup_exactly_once (inserted = disposed + still in set + released, no tag twice), the same for every total-preorder comparator, the stock comparators are total preorders over their whole domain, and the subtraction comparator of the pinned tree is refuted (D7). The model is tied to src/set.c by complete exploration of reachable shapes, random sequences with extreme ints and node reuse, with a structural audit.",
   note="Trusted: Coq kernel (no axioms), ExtrOcamlBasic extraction, OCaml driver, C harness h_set.c, ASan/UBSan. Pointer-level memory management of set.c is observed (audit, sanitizers), not proved.",
   technique="machine-checked proof in Coq (induction on tree size; refinement to a sorted list; ledger permutation) + extracted-model differential against src/set.c",
   design_ref="DESIGN.md section 6 C19"),
}

NOT_YET = "check not built yet (work in progress in this session)"
