"""C10: request bookkeeping balances over any history."""
from iauth_common import *
PROFILE = dict(p_reannounce=0.15, maxlen=80, maxcli=6)

def run(chk):
    _impl0, _ = build_impl()
    _rt = start_realtime(_impl0) if _impl0 is not None else None
    r = standard_run(chk, PROFILE, 1000, 10000)
    if r is None: return
    drv, impl, scns, ms, ds = r
    def judge(scn, i, dp, mp):
        if isinstance(dp, str): return (dp, True)
        return ("step %d (%s): the daemon reports %s requests in use; announced and not withdrawn/registered/decided: %s" % (i, step_label(scn, i), dp, mp), True)
    def monitor(scn, d):
        if d.rc != 0:
            return "the daemon did not exit cleanly at end of input (exit status %s): %s" % (d.rc, d.stderr[-400:].replace("\n", " | "))
        return None
    analyse(chk, drv, impl, scns, ms, ds, project=lambda lines, n: n, judge=judge, monitor=monitor, what="bookkeeping: ", nontrivial=lambda scn, d: tuple(s[1] for s in d.steps))
    # long histories with thousands of clients and id reuse, with a real (never firing) timer armed
    nbig = 2 if chk.tier == "quick" else 12
    bigs = []
    for k in range(nbig):
        prof = dict(PROFILE, minlen=1500, maxlen=2500, ids=list(range(0, 400)), maxcli=300, timeouts=[0, 3600])
        bigs.append(gen_scn(chk.rng, prof, chk.hist))
    ms2 = run_model(drv, bigs); ds2 = run_daemons(impl, bigs, timeout_s=300)
    analyse(chk, drv, impl, bigs, ms2, ds2, project=lambda lines, n: n, judge=judge, monitor=monitor, what="bookkeeping (long history): ", nontrivial=lambda scn, d: tuple(s[1] for s in d.steps))
    if chk.tier == "thorough":
        real_timers(chk, impl)
    if _rt is not None: finish_realtime(chk, _rt, 'request bookkeeping: ')
    chk.cov["rule"] = "the 'N in use' figure after every input line vs the number of live instances; clean exit (status 0, LeakSanitizer silent) at end of input; long histories with hundreds of ids, re-announcements and disconnects at every stage, with and without a configured timeout; distinct = distinct in-use sequences"
    chk.assumptions.append("release of memory and timers is observed by LeakSanitizer/ASan at exit, not proved")

def real_timers(chk, impl):
    """real one-shot timers: a timer belonging to a finished request must never fire (ASan would report the use-after-free)"""
    import time as _t
    scn = Scn(True, False, [('d.svc', 'dronecheck')], [], 1, L("1 C 1.2.3.4 1 10.0.0.1 6667", "1 H", "-1 X d.svc 1_1 :OK", "2 C 1.2.3.4 1 10.0.0.1 6667", "2 D", "3 C 1.2.3.4 1 10.0.0.1 6667", "3 H"))
    delays = iter([0, 0, 0, 0, 0, 0, 0, 0, 0, 0, 0, 0, 0, 0, 0])
    d = run_daemon(impl, scn, chunking=lambda n: n, timeout_s=30)
    # keep stdin open past the timeout by running a second, slower session
    import subprocess, tempfile, shutil
    tmp = Path(tempfile.mkdtemp(dir=str(BUILD / "tmp")))
    try:
        conf = tmp / "c.conf"; conf.write_text(conf_text(str(impl / "mods"), True, False, scn.svcs, [], 1))
        p = subprocess.Popen([str(impl / "iauthd-c"), "-n", "-f", str(conf)], stdin=subprocess.PIPE, stdout=subprocess.PIPE, stderr=subprocess.PIPE, env=SAN_ENV, cwd=str(tmp))
        for l in scn.lines():
            p.stdin.write(l + b"\n"); p.stdin.flush()
        _t.sleep(2.5)
        p.stdin.write(b"-1 ? stats2\n"); p.stdin.flush(); p.stdin.close()
        out = p.stdout.read().decode('latin1'); err = p.stderr.read().decode('latin1'); p.wait(timeout=20)
        chk.cov["evaluations"] += 1
        if p.returncode != 0:
            chk.violation("real timers: daemon exit status %s after timers expired: %s" % (p.returncode, err[-600:]), scn.describe() + "\n(sleep 2.5 s with timeout 1)\n" + out + err, "timer")
        elif "D 3 " not in out:
            chk.violation("real timers: client 3 (hurry-up, query unanswered, timeout 1 s) was not accepted after the timeout expired", scn.describe() + "\n" + out, "timer-stuck")
        elif "0 in use" not in out:
            chk.violation("real timers: requests still in use after expiry", scn.describe() + "\n" + out, "timer-inuse")
    finally:
        shutil.rmtree(tmp, ignore_errors=True)
