"""C03: no stuck clients - the verdict comes as soon as it can."""
from iauth_common import *
PROFILE = dict(p_good_reply=0.8, timeouts=[0, 3600, 3600], maxlen=55, nsv=[1, 2, 2, 3, 4])

def run(chk):
    r = standard_run(chk, PROFILE, 4000, 40000)
    if r is None: return
    drv, impl, scns, ms, ds = r
    def judge(scn, i, dp, mp):
        if isinstance(dp, str):
            return (dp, True)
        missing = [x for x in (mp or []) if x not in dp]
        if missing:
            return ("step %d (%s): every condition for a verdict on client %s was met in this step (the model, proved never to leave a ready client waiting, issues %s) but the daemon issued none" % (i, step_label(scn, i), missing[0][1], missing[0][0]), True)
        return None
    analyse(chk, drv, impl, scns, ms, ds, project=lambda lines, n: kinds(lines, "DRk"), judge=judge, what="stuck client: ", nontrivial=reached_verdict)
    chk.cov["rule"] = "as C02, weighted towards histories in which holds are released more often than taken (reply after timeout, two vouchers, MORE then reply, -! after +!, repeated passwords); distinct non-trivial = distinct output traces that reached a verdict"
