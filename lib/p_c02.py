"""C02: no premature acceptance."""
from iauth_common import *
PROFILE = dict(p_good_reply=0.6, timeouts=[0, 3600, 3600], maxlen=45)

def run(chk):
    _impl0, _ = build_impl()
    _rt = start_realtime(_impl0) if _impl0 is not None else None
    r = standard_run(chk, PROFILE, 4000, 40000)
    if r is None: return
    drv, impl, scns, ms, ds = r
    def judge(scn, i, dp, mp):
        if isinstance(dp, str):
            return None
        extra = [x for x in dp if x not in (mp or [])]
        if extra:
            return ("step %d (%s): the daemon accepted client %s (%s) although, by the model proved sound for the acceptance gate, it was not yet acceptable "
                    "(required data missing, a query unanswered with no expired timeout, an unmet +! requirement, or a refusal)" % (i, step_label(scn, i), extra[0][1], extra[0][0]), True)
        return None
    analyse(chk, drv, impl, scns, ms, ds, project=lambda lines, n: kinds(lines, "DR"), judge=judge, what="premature acceptance: ", nontrivial=reached_verdict)
    if _rt is not None: finish_realtime(chk, _rt, 'premature acceptance: ')
    chk.cov["rule"] = "histories = corpus of past failures + generated sessions (1-4 clients, 0-4 services of all four protocols, timeouts fired through the hook at arbitrary points, passwords before/after user info, +! with 0-2 login services, replies OK / 'OK ' / 'OK  x' / OK acct / NO / AGAIN / MORE / junk); distinct non-trivial = distinct output traces that reached at least one verdict"
