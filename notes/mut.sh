#!/bin/bash
# usage: mut.sh <file> <sed-expr> ; applies mutation, rebuilds modules, runs proto_iauth, reverts
cd /tmp/r
f=$1; shift
cp $f /tmp/mut.bak
sed -i "$1" $f
if cmp -s $f /tmp/mut.bak; then echo "MUTATION DID NOT APPLY"; exit 1; fi
CF="-g -O1 -fsanitize=address,undefined -fno-omit-frame-pointer -DIAUTHD_C_VERIF -I/tmp/r"
gcc $CF -fPIC -shared -o b/mods/iauth.so modules/iauth_core.c modules/iauth_misc.c 2>&1 | head -3
gcc $CF -fPIC -shared -o b/mods/iauth_xquery.so modules/iauth_xquery.c 2>&1 | head -3
gcc $CF -fPIC -shared -o b/mods/iauth_class.so modules/iauth_class.c 2>&1 | head -3
(cd b && timeout 300 python3 proto.py 7 1200 --hook 2>&1 | grep -E "^(!!|cases|=== MIS)" | head -4)
cp /tmp/mut.bak $f
# rebuild clean so that later runs do not use the mutated modules
gcc $CF -fPIC -shared -o b/mods/iauth.so modules/iauth_core.c modules/iauth_misc.c; gcc $CF -fPIC -shared -o b/mods/iauth_xquery.so modules/iauth_xquery.c; gcc $CF -fPIC -shared -o b/mods/iauth_class.so modules/iauth_class.c
