#!/usr/bin/env python3
"""Throw-away prototype: Appendix A automaton (+ output rendering) vs the repaired daemon."""
import random, subprocess, sys, os, fnmatch

PRE = {'login': {'P'}, 'login-ipr': {'H', 'I', 'P'}, 'dronecheck': {'H', 'I', 'N', 'U'}, 'combined': {'H', 'I', 'N', 'U'}}
NEED = {'H', 'I', 'N', 'U'}
UNLINKED = "The login server is currently disconnected.  Please excuse the inconvenience."

class Cli:
    def __init__(s, cid, serial, addr, port):
        s.id, s.serial, s.addr, s.port = cid, serial, addr, port
        s.got = set(); s.empty_ident = False
        s.host = s.cli_user = s.auth_user = s.nick = s.real = ''
        s.pw = ''; s.hh = s.ho = False
        s.sent = set(); s.out = set(); s.more = set(); s.ok = set()
        s.vouched = ''; s.timed_out = False; s.soft_done = False; s.timer = False
    def pfx(s): return "%d %s %d" % (s.id, s.addr, s.port)
    def tag(s): return "%x_%x" % (s.id, s.serial)

class Model:
    def __init__(s, svcs, rules, timeout):
        s.svcs = svcs          # list of (name, type) in slot (= name) order
        s.rules = rules        # list of (name, klass or None, account_glob or None, trust)
        s.timeout = timeout
        s.live = {}; s.serial = 0

    def username(s, c):
        if c.auth_user: u = c.auth_user
        elif c.cli_user.startswith('~'): u = c.cli_user
        elif c.cli_user: u = '~' + c.cli_user
        else: u = ''
        return u[:10]

    def qpass(s, c, flag, outs):
        for name, typ in s.svcs:
            if name in c.sent and (flag != 'P' or typ == 'dronecheck'): continue
            if typ in ('login', 'login-ipr') and not c.pw: continue
            if not PRE[typ] <= c.got: continue
            host = c.host or c.addr
            if typ in ('dronecheck', 'combined'):
                outs.append("X %s %s :CHECK %s %s %s %s :%s" % (name, c.tag(), c.nick, s.username(c), c.addr, host, c.real))
            if c.pw:
                if typ in ('login', 'combined'):
                    outs.append("X %s %s :LOGIN %s" % (name, c.tag(), c.pw))
                elif typ == 'login-ipr':
                    outs.append("X %s %s :LOGIN2 %s %s %s %s" % (name, c.tag(), c.addr, host, s.username(c), c.pw))
            c.sent.add(name); c.out.add(name)

    def gate(s, c, outs):
        complete = NEED <= c.got
        hard_ok = not (c.ho and not c.vouched)
        if not (complete and hard_ok): return
        if not c.out or c.timed_out:
            klass = ''
            for (rn, rk, glob, trust) in s.rules:
                if glob is not None and not fnmatch.fnmatchcase(c.vouched.split(':')[0], glob): continue
                if trust and c.auth_user.startswith('~'):
                    u = c.cli_user[1:] if c.cli_user.startswith('~') else c.cli_user
                    if u: outs.append("U %s %s" % (c.pfx(), u))
                klass = (rk if rk is not None else rn)[:62]
                break
            line = ("R %s %s" % (c.pfx(), c.vouched)) if c.vouched else ("D %s" % c.pfx())
            if klass: line += " " + klass
            outs.append(line)
            del s.live[c.id]
        elif not c.soft_done:
            c.soft_done = True
            outs.append("d %s" % c.pfx())

    def password(s, c, t, outs):
        if not c.more or not c.pw:
            if not t or t[0] not in '+-': return
            i = 0; st = False; mset = set(); mclr = set()
            while True:
                if i >= len(t): return
                ch = t[i]
                if ch == ' ': break
                i += 1
                if ch == '+': st = True
                elif ch == '-': st = False
                elif ch in 'x!':
                    if st: mset.add(ch); mclr.discard(ch)
                    else: mclr.add(ch); mset.discard(ch)
            while i < len(t) and t[i] == ' ': i += 1
            rest = t[i:]
            if ' ' not in rest: return
            if 'x' in mset: c.hh = True
            if 'x' in mclr: c.hh = False
            if '!' in mset: c.ho = True
            if '!' in mclr: c.ho = False
            c.pw = rest[:511]
            s.qpass(c, 'P', outs)
        else:
            for name, typ in s.svcs:
                if name not in c.more: continue
                outs.append("X %s %s :MORE %s" % (name, c.tag(), t))
                c.more.discard(name); c.out.add(name)

    def reply(s, svc, tag, text, outs):   # text None = unlinked
        try:
            a, b = tag.split('_'); cid = int(a, 16); ser = int(b, 16)
        except ValueError:
            return
        c = s.live.get(cid)
        if not c or c.serial != ser or svc not in c.out: return
        typ = dict(s.svcs)[svc]
        if text is None:
            if typ != 'dronecheck': outs.append("C %s :%s" % (c.pfx(), UNLINKED))
        elif text == 'OK' or text.startswith('OK '):
            c.ok.add(svc)
            acct = text[3:].split(' ')[0] if len(text) > 3 else ''
            if text == 'OK' or acct == '': pass
            elif typ in ('login', 'login-ipr', 'combined'):
                c.vouched = acct[:64]
                if c.hh or c.ho: outs.append("M %s :+x" % c.pfx())
        elif text.startswith('NO '):
            outs.append("k %s :%s" % (c.pfx(), text[3:])); del s.live[cid]; return
        elif text.startswith('AGAIN '):
            outs.append("C %s :%s" % (c.pfx(), text[6:]))
        elif text.startswith('MORE '):
            c.more.add(svc); outs.append("C %s :%s" % (c.pfx(), text[5:]))
        else:
            return
        c.out.discard(svc)
        s.gate(c, outs)

    def step(s, line):
        outs = []
        toks = line.split(' ')
        cid = int(toks[0]); cmd = toks[1]
        # trailing
        args = []; i = 2
        while i < len(toks):
            if toks[i].startswith(':'): args.append(' '.join(toks[i:])[1:]); break
            args.append(toks[i]); i += 1
        if cmd == 'C':
            if len(args) < 4: return outs
            s.serial += 1
            c = Cli(cid, s.serial, args[0], int(args[1])); c.timer = s.timeout > 0
            s.live[cid] = c
            return outs
        if cmd == 'X' or cmd == 'x':
            if len(args) >= 3: s.reply(args[0], args[1], args[2] if cmd == 'X' else None, outs)
            return outs
        c = s.live.get(cid)
        if c is None: return outs
        if cmd == 'D' or cmd == 'T': del s.live[cid]; return outs
        if cmd == '!':
            if c.timer: c.timer = False; c.timed_out = True; s.gate(c, outs)
            return outs
        if cmd == 'N':
            if not args: return outs
            if c.host: return outs
            c.host = args[0][:63]; c.got.add('H'); s.qpass(c, 'H', outs)
        elif cmd == 'd':
            c.got.add('H'); s.qpass(c, 'H', outs)
        elif cmd == 'u':
            if args: c.auth_user = args[0][:10]; c.got.add('I')
            elif c.cli_user: c.got.add('I')
            else: c.empty_ident = True
            s.qpass(c, 'I', outs)
        elif cmd == 'n':
            if not args: return outs
            c.nick = args[0][:30]; c.got.add('N'); s.qpass(c, 'N', outs)
        elif cmd == 'U':
            if len(args) < 2: outs.append("> :ircd sent garbage: <id> U without realname"); return outs
            c.cli_user = args[0][:10]; c.real = args[1][:50]; c.got.add('U')
            if c.empty_ident: c.got.add('I')
            s.qpass(c, 'U', outs)
        elif cmd == 'H':
            c.got |= NEED; s.qpass(c, 'HU', outs)
        elif cmd == 'P':
            if not args: return outs
            c.got.add('P'); s.password(c, args[0], outs)
        else:
            return outs
        s.gate(c, outs)
        return outs

# ---------------------------------------------------------------- generator
TYPES = ['login', 'login-ipr', 'dronecheck', 'combined']
def gen(rng):
    nsv = rng.choice([0, 1, 1, 2, 2, 3])
    svcs = sorted((("s%d.x" % i), rng.choice(TYPES)) for i in range(nsv))
    rules = []
    if rng.random() < 0.7:
        rules.append(('r100', 'opers', 'op*', rng.random() < 0.5))
        if rng.random() < 0.7: rules.append(('r500', rng.choice([None, 'dflt']), None, rng.random() < 0.3))
    timeout = rng.choice([0, 0, 30])
    m = Model(svcs, rules, timeout)
    lines = []
    oldtags = []
    ids = [rng.randrange(0, 4) for _ in range(rng.randrange(1, 4))]
    accts = ['oper:1', 'op', 'bob:5:6', 'x' * 70, 'a b']
    def rtext():
        return rng.choice(['hello world', 'x', '', 'a:b %s %d', 'tr ail '])
    def emit(l):
        lines.append(l); m.step(l)
    n = rng.randrange(6, 50)
    for _ in range(n):
        r = rng.random()
        cid = rng.choice(ids)
        c = m.live.get(cid)
        if c is None or r < 0.04:
            addr = rng.choice(['1.2.3.4', '10.0.0.%d' % cid, '2001:db8::1', '0::1', '1:2:3:4:5:6:7:8'])
            if c is not None: oldtags.append(c.tag())
            emit("%d C %s %d 10.1.1.1 6667" % (cid, addr, 1000 + cid)); continue
        if r < 0.50:
            missing = [k for k, f in (('N', 'H'), ('u', 'I'), ('n', 'N'), ('U', 'U')) if f not in c.got]
            k = rng.choice(missing * 3 + ['N', 'd', 'u', 'ue', 'n', 'U', 'H', 'P', 'P', 'P'])
            if k == 'N': emit("%d N %s" % (cid, rng.choice(['host.example.org', 'h' * 70, 'a'])))
            elif k == 'd': emit("%d d" % cid)
            elif k == 'u': emit("%d u %s" % (cid, rng.choice(['ident', '~untr', 'abcdefghijkl'])))
            elif k == 'ue': emit("%d u" % cid)
            elif k == 'n': emit("%d n %s" % (cid, rng.choice(['Nick', 'N' * 40])))
            elif k == 'U': emit("%d U %s :%s" % (cid, rng.choice(['user', '~tilde', 'abcdefghij', 'abcdefghijk', '~']), rng.choice(['Real Name', 'r' * 60, ''])))
            elif k == 'H': emit("%d H" % cid)
            else:
                emit("%d P :%s" % (cid, rng.choice(['+x acct pass', '+! acct pass', '-! acct pass', '+x-x+! a b c', 'plain', '+x nospace', '+ a b', 'Mellon', '-x! a b', '+!'])))
        elif r < 0.88:
            q = rng.random()
            if q < 0.75 and c.out:
                tag = c.tag(); svc = rng.choice(sorted(c.out))
            elif q < 0.85:
                tag = c.tag(); svc = rng.choice([s_[0] for s_ in svcs] + ['nosuch.x'])
            else:
                tag = rng.choice(oldtags + ['zz', '5_', '_1', '0_0', 'ffffffff_1', c.tag() + '0'])
                svc = rng.choice([s_[0] for s_ in svcs] + ['nosuch.x'])
            if rng.random() < 0.1:
                emit("-1 x %s %s :gone" % (svc, tag))
            else:
                t = rng.choice(['OK', 'OK', 'OK', 'OK %s' % rng.choice(accts), 'OK %s' % rng.choice(accts), 'OK ', 'OK  x', 'OKx', 'NO %s' % rtext(), 'NO',
                                'AGAIN %s' % rtext(), 'MORE %s' % rtext(), 'MORE', 'weird'])
                emit("-1 X %s %s :%s" % (svc, tag, t))
        elif r < 0.93 and timeout:
            emit("%d ! timeout" % cid)
        elif r < 0.96:
            oldtags.append(c.tag()); emit("%d %s" % (cid, rng.choice(['D', 'T'])))
        else:
            emit("%d %s" % (rng.randrange(4, 9), rng.choice(['N x', 'H', 'D', 'Q zz'])))
    return svcs, rules, timeout, lines

def conf_text(svcs, rules, timeout, moddir):
    t = 'core {\n library_path ( "%s" )\n modules ( iauth_class, iauth_xquery )\n}\n' % moddir
    t += 'iauth { timeout %d }\n' % timeout
    t += 'iauth_xquery {\n' + ''.join(' %s %s\n' % sv for sv in svcs) + '}\n'
    t += 'iauth_class {\n'
    for (rn, rk, glob, trust) in rules:
        t += ' "%s" {' % rn
        if rk is not None: t += ' class %s;' % rk
        if glob is not None: t += ' account "%s";' % glob
        if trust: t += ' trust_username true;'
        t += ' dummy x\n }\n'
    t += '}\n'
    return t

def run_daemon(binary, conf, lines):
    inp = ''.join(l + '\n-1 ? stats2\n' for l in lines)
    p = subprocess.run([binary, '-n', '-f', conf], input=inp.encode(), stdout=subprocess.PIPE, stderr=subprocess.PIPE)
    out = p.stdout.decode(errors='replace').split('\n')
    # drop banner up to the O line
    i = 0
    while i < len(out) and not out[i].startswith('O '): i += 1
    out = out[i + 1:]
    steps = []; cur = []
    for l in out:
        if l == 's': steps.append(cur); cur = []
        elif l.startswith('S '): continue
        else: cur.append(l)
    return p.returncode, steps, p.stderr.decode(errors='replace')

def main():
    seed = int(sys.argv[1]) if len(sys.argv) > 1 else 1
    ncase = int(sys.argv[2]) if len(sys.argv) > 2 else 200
    hook = '--hook' in sys.argv
    rng = random.Random(seed)
    bad = 0; verdicts = 0
    for case in range(ncase):
        svcs, rules, timeout, lines = gen(rng)
        if not hook: lines = [l for l in lines if ' ! ' not in l]
        conf = '/tmp/r/b/case.conf'
        open(conf, 'w').write(conf_text(svcs, rules, timeout, '/tmp/r/b/mods'))
        rc, steps, err = run_daemon('/tmp/r/b/iauthd-c', conf, lines)
        m = Model(svcs, rules, timeout)
        exp = [m.step(l) for l in lines]
        verdicts += sum(1 for e in exp for o in e if o[0] in 'DRk')
        if rc != 0 or len(steps) != len(lines) or any(a != b for a, b in zip(exp, steps)):
            bad += 1
            print("=== MISMATCH case", case, "rc", rc, "svcs", svcs, "rules", rules, "timeout", timeout)
            for i, l in enumerate(lines):
                g = steps[i] if i < len(steps) else None
                mark = '  ' if g == exp[i] else '!!'
                print(mark, l, '\n     exp', exp[i], '\n     got', g)
            print(err[-2000:])
            if bad >= 3: break
    print("cases", ncase, "bad", bad, "verdicts", verdicts)

main()
