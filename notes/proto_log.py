#!/usr/bin/env python3
"""Throw-away: C18 model (sevset parser + routing) vs src/log.c via h_log."""
import random, subprocess, sys, os, glob
SEV = ["debug", "command", "info", "warning", "error", "fatal"]
FACS = ["fa", "fb", "core"]
def parse_name(name):
    if "." not in name: return None
    fac, sep = name.split(".", 1)
    ss = set()
    if sep == "*": return fac.lower(), set(range(6))
    while sep is not None and sep != "":
        if "," in sep: cur, sep = sep.split(",", 1)
        else: cur, sep = sep, None
        op = 0
        if cur.startswith(">"):
            cur = cur[1:]
            if cur.startswith("="): op = 1; cur = cur[1:]
            else: op = 2
        elif cur.startswith("<"):
            cur = cur[1:]
            if cur.startswith("="): op = 3; cur = cur[1:]
            else: op = 4
        elif cur.startswith("="): cur = cur[1:]
        if cur.lower() not in SEV: return None
        v = SEV.index(cur.lower())
        if op in (0, 1, 3): ss.add(v)
        if op in (1, 2): ss |= set(range(v + 1, 6))
        if op in (3, 4): ss |= set(range(0, v))
    return fac.lower(), ss
def route(section):
    """section: dict name -> list of dests (in file); returns dict (fac, sev) -> list of dests"""
    r = {}
    for name in sorted(section, key=lambda n: n.lower()):
        p = parse_name(name)
        if p is None: continue
        fac, ss = p
        for s in ss: r.setdefault((fac, s), []).extend(section[name])
    return r
def gen_name(rng):
    fac = rng.choice(["fa", "fb", "core", "*", "FA", "zz", ""])
    k = rng.random()
    if k < 0.1: return fac + ".*"
    if k < 0.15: return rng.choice(["nodot", fac + ".", fac + ".bogus", fac + ".info,*", fac + ".,info", fac + ".>>info"])
    items = []
    for _ in range(rng.randrange(1, 4)):
        items.append(rng.choice(["", "=", ">", ">=", "<", "<="]) + rng.choice(SEV + ["INFO", "Warning"]))
    return fac + "." + ",".join(items)
def main():
    rng = random.Random(int(sys.argv[1]) if len(sys.argv) > 1 else 1); bad = 0; n = int(sys.argv[2]) if len(sys.argv) > 2 else 200
    os.makedirs("/tmp/r/b/logs", exist_ok=True)
    for case in range(n):
        for f in glob.glob("/tmp/r/b/logs/*"): os.remove(f)
        script = []; sections = []
        for st in range(rng.randrange(1, 4)):
            sec = {}
            for _ in range(rng.randrange(0, 5)):
                nm = gen_name(rng)
                if any(nm.lower() == k.lower() for k in sec): continue
                sec[nm] = [rng.choice(["f1", "f2", "f3"]) for _ in range(rng.randrange(1, 3))]
            if sections and rng.random() < 0.2: sec = dict(sections[-1])
            sections.append(sec)
            txt = "logs {\n" + "".join(' "%s" %s\n' % (k, ('"file:/tmp/r/b/logs/%s"' % v[0]) if len(v) == 1 and rng.random() < 0.7 else "(" + ", ".join('"file:/tmp/r/b/logs/%s"' % d for d in v) + ")") for k, v in sec.items()) + "}\nverbose x\n"
            fn = "/tmp/r/b/logs/c%d.conf" % st; open(fn, "w").write(txt)
            script += ["load " + fn, "emit T%d" % st]
        p = subprocess.run(["/tmp/r/b/h_log"], input=("\n".join(script) + "\n").encode(), stdout=subprocess.PIPE, stderr=subprocess.PIPE, timeout=20)
        exp = {}
        for st, sec in enumerate(sections):
            r = route(sec)
            for fac in FACS:
                for s in range(5):
                    for d in r.get((fac, s), []) + r.get(("*", s), []):
                        exp.setdefault(d, []).append("(%s:%s) T%d %s %d" % (fac, SEV[s], st, fac, s))
        got = {}
        for d in ("f1", "f2", "f3"):
            pth = "/tmp/r/b/logs/" + d
            if os.path.exists(pth):
                lines = [l.split("] ", 1)[1] for l in open(pth).read().split("\n") if " T" in l and "] (" in l and "Attaching" not in l and "Releasing" not in l]
                if lines: got[d] = lines
        ok = p.returncode == 0 and {k: sorted(v) for k, v in exp.items()} == {k: sorted(v) for k, v in got.items()}
        if not ok:
            bad += 1; print("=== case", case, "rc", p.returncode, sections)
            for d in ("f1", "f2", "f3"):
                e = sorted(exp.get(d, [])); g = sorted(got.get(d, []))
                if e != g: print(d, "missing", [x for x in e if x not in g][:5], "extra", [x for x in g if x not in e][:5])
            print(p.stderr.decode()[-800:])
            if bad > 3: break
    print("cases", n, "bad", bad, "last exp lines", sum(len(v) for v in exp.values()))
main()
