#!/usr/bin/env python3
"""Spike: extracted Coq set model (notes/spikes/SetOps.v) vs src/set.c via h_set."""
import random, subprocess, sys
rng = random.Random(int(sys.argv[1]) if len(sys.argv) > 1 else 1); bad = 0; nops = 0
for case in range(int(sys.argv[2]) if len(sys.argv) > 2 else 300):
    cmds = []; U = rng.choice([3, 5, 7, 20, 200])
    keys = [rng.randrange(-2**31, 2**31) for _ in range(U)] if rng.random() < 0.2 else list(range(U))
    for _ in range(rng.randrange(1, 150)):
        k = rng.choice(keys); o = rng.random(); nops += 1
        if o < 0.4: cmds.append("ins %d" % k)
        elif o < 0.55: cmds.append("find %d" % k)
        elif o < 0.65: cmds.append("lower %d" % k)
        elif o < 0.9: cmds.append("rem %d %d" % (k, int(rng.random() < 0.3)))
        elif o < 0.93: cmds.append("clear %d" % int(rng.random() < 0.3))
    inp = ("\n".join(x for c in cmds for x in (c, "show")) + "\n").encode()
    a = subprocess.run(["/tmp/r/b/h_set"], input=inp, stdout=subprocess.PIPE, stderr=subprocess.PIPE, timeout=30)
    b = subprocess.run(["/tmp/spike/drvs"], input=("\n".join(cmds) + "\n").encode(), stdout=subprocess.PIPE, stderr=subprocess.PIPE, timeout=30)
    if a.returncode or a.stdout != b.stdout:
        bad += 1; ga = a.stdout.decode().split("\n"); gb = b.stdout.decode().split("\n")
        for i, (x, y) in enumerate(zip(ga, gb)):
            if x != y: print("case", case, "diff at", i, "\n impl", x, "\n coq ", y); break
        else: print("case", case, "len", len(ga), len(gb), a.stderr.decode()[-300:], b.stderr.decode()[-300:])
        if bad > 3: break
print("ops", nops, "bad", bad)
