#!/usr/bin/env python3
"""Spike: extracted Coq address model (notes/spikes/AddrFull.v) vs modules/iauth_misc.c via h_addr."""
import itertools, random, subprocess, sys
rng = random.Random(int(sys.argv[1]) if len(sys.argv) > 1 else 1)
def hexg(g): return "".join("%04x" % x for x in g)
cmds = []
for p in itertools.product([0, 1, 2], repeat=8):
    g = [0 if x == 0 else (rng.choice([1, 0xf, 0x10, 0xff]) if x == 1 else rng.choice([0x100, 0xabc, 0x1000, 0xffff])) for x in p]
    cmds.append("ntop " + hexg(g))
for _ in range(3000): cmds.append("ntop " + hexg([rng.choice([0, 0, 0, 65535, rng.randrange(65536)]) for _ in range(8)]))
strs = []
for n in range(0, 5):
    for tup in itertools.product(b"019af:./* ", repeat=n): strs.append(bytes(tup))
for _ in range(40000):
    strs.append(bytes(rng.choice(b"0123456789abcdefABCDEF::::....//** g-") for _ in range(rng.randrange(5, 24))))
for _ in range(20000):
    if rng.random() < 0.3: s = ".".join(str(rng.choice([0, 1, 25, 255, 256, 99])) for _ in range(rng.choice([2, 3, 4, 4, 4, 5])))
    else:
        parts = ["%x" % rng.choice([0, 1, 0xabcd, 0xffff, 0x10000]) for _ in range(rng.randrange(0, 9))]
        if parts and rng.random() < 0.5: parts[rng.randrange(len(parts))] = ""
        s = ":".join(parts)
        if rng.random() < 0.2: s += ":1.2.3.4"
    if rng.random() < 0.4: s += rng.choice(["/0", "/8", "/32", "/33", "/64", "/128", "/129", "/a", "/", ".*", ":*", "*", "/08"])
    if rng.random() < 0.05: s = " " + s
    strs.append(s.encode())
for s in strs:
    if b"\0" in s or b"\n" in s: continue
    for ub, tr in ((0, 0), (1, 0), (1, 1), (0, 1)): cmds.append("pton %d %d %s" % (ub, tr, s.hex()))
for _ in range(20000):
    a = [rng.randrange(65536) for _ in range(8)]; m = list(a)
    for _ in range(rng.choice([0, 1, 1, 2])): i = rng.randrange(8); m[i] ^= 1 << rng.randrange(16)
    cmds.append("mask %s %s %d" % (hexg(a), hexg(m), rng.randrange(0, 129)))
inp = ("\n".join(cmds) + "\n").encode()
a = subprocess.run(["/tmp/r/b/h_addr"], input=inp, stdout=subprocess.PIPE, stderr=subprocess.PIPE, timeout=300).stdout.decode().split("\n")[:-1]
b = subprocess.run(["/tmp/spike/drva"], input=inp, stdout=subprocess.PIPE, stderr=subprocess.PIPE, timeout=300).stdout.decode().split("\n")[:-1]
bad = unspec = 0
for c, x, y in zip(cmds, a, b):
    if y == "pton unspec": unspec += 1; continue
    if c.startswith("ntop"): x = " ".join(x.split(" ")[:3])
    if x != y:
        bad += 1
        if bad < 8: print(c, bytes.fromhex(c.split(" ")[-1]) if c.startswith("pton") else "", "\n impl", x, "\n coq ", y)
print("cmds", len(cmds), len(a), len(b), "bad", bad, "unspec", unspec)
