#!/usr/bin/env python3
"""Spike: extracted Coq live-tree model (ConfMerge.v) vs src/config.c over scripts of registrations and loads."""
import random, subprocess, sys
src = open('/tmp/r/b/proto_conf.py').read().replace("\nmain()\n", "\n")
ns = {}; exec(compile(src, 'proto_conf', 'exec'), ns)
gtree, render, corrupt, NAMES = ns['gtree'], ns['render'], ns['corrupt'], ns['NAMES']
rng = random.Random(int(sys.argv[1]) if len(sys.argv) > 1 else 1); ncase = int(sys.argv[2]) if len(sys.argv) > 2 else 200
cases = []
with open('/tmp/r/b/mcases.txt', 'w') as f:
    for case in range(ncase):
        regs = []
        for _ in range(rng.randrange(0, 5)):
            nm = rng.choice(NAMES).decode(); k = rng.random()
            if k < 0.45:
                d = rng.choice([None, "d1", "0", "7"]); sub = rng.choice([0, 0, 1, 2, 4, 5])
                regs.append(("R str %s %d %s" % (nm, sub, d if d else "-"), "reg str %s %d %s" % (nm, sub, d if d else "-")))
            elif k < 0.65:
                d = [rng.choice(["d1", "d2"]) for _ in range(rng.randrange(0, 3))]
                regs.append(("R list %s %s" % (nm, " ".join(d)), "reg list %s %s" % (nm, " ".join(d))))
            elif k < 0.8:
                h = rng.choice([None, "dh"]); s = rng.choice([None, "dp"])
                regs.append(("R ina %s %s %s" % (nm, h or "-", s or "-"), "reg ina %s %s %s" % (nm, h or "-", s or "-")))
            else: regs.append(("R obj %s" % nm, "reg obj %s" % nm))
        reg_at = rng.randrange(0, 3); nload = rng.randrange(1, 5)
        coq = ["CASE"]; har = []; files = []
        for li in range(nload):
            if li == reg_at:
                for a, b in regs: coq.append(a); har.append(b)
            data = render(rng, gtree(rng, 0))
            if rng.random() < 0.25: data = corrupt(rng, data)
            if files and rng.random() < 0.2: data = files[-1]
            files.append(data)
            fn = "/tmp/r/b/cf/m%d_%d.conf" % (case, li); open(fn, "wb").write(data)
            coq.append("L " + data.hex() if data else "L"); har += ["load " + fn, "dump"]
        if reg_at >= nload:
            for a, b in regs: coq.append(a); har.append(b)
            coq.append("D"); har.append("dump")
        coq.append("ENDCASE"); f.write("\n".join(coq) + "\n"); cases.append((har, files))
p = subprocess.run(['/tmp/spike/drvm', '/tmp/r/b/mcases.txt'], stdout=subprocess.PIPE, stderr=subprocess.PIPE, timeout=300)
model = [c.split("\n")[:-1] for c in p.stdout.decode('latin1').split("==\n")[:-1]]
bad = loads = 0
for ci, (har, files) in enumerate(cases):
    q = subprocess.run(['/tmp/r/b/h_conf'], input=("\n".join(har) + "\n").encode(), stdout=subprocess.PIPE, stderr=subprocess.PIPE, env={"ASAN_OPTIONS": "detect_leaks=0"}, timeout=30)
    got = q.stdout.decode('latin1').split("\n")[:-1]; exp = model[ci] if ci < len(model) else None; loads += len(files)
    if q.returncode != 0 or got != exp:
        bad += 1; print("=== case", ci, "rc", q.returncode, har); 
        for i, f_ in enumerate(files): print(" file", i, repr(f_))
        for i in range(max(len(got), len(exp or []))):
            g = got[i] if i < len(got) else None; e = exp[i] if exp and i < len(exp) else None
            if g != e: print(" first diff at", i, "\n  coq ", e, "\n  impl", g); break
        print(q.stderr.decode()[-300:])
        if bad > 2: break
print("cases", ncase, "loads", loads, "bad", bad, p.stderr.decode()[-300:])
