#!/usr/bin/env python3
"""Spike: tokenizer + IAuth model (Line.v, raw byte lines) vs the repaired daemon."""
import random, subprocess, sys, re
src = open('/tmp/r/b/proto.py').read().replace("\nmain()\n", "\n")
ns = {}; exec(compile(src, 'proto', 'exec'), ns)
gen, conf_text = ns['gen'], ns['conf_text']
seed = int(sys.argv[1]) if len(sys.argv) > 1 else 1; ncase = int(sys.argv[2]) if len(sys.argv) > 2 else 200
rng = random.Random(seed)
def mutate(l):
    b = l.encode('latin1'); k = rng.random()
    if k < 0.55: return b
    if k < 0.65: return re.sub(rb" ", lambda m: rng.choice([b" ", b"  ", b"\t", b" \t "]), b, count=rng.randrange(1, 4))
    if k < 0.70: return b" " + b
    if k < 0.75: return b + rng.choice([b" ", b"\t", b" \r", b"   "])
    if k < 0.80: return b.replace(b" ", b"", 1)                     # "5N host"
    if k < 0.85: return b + b" a b c d e f g h i j k l m n o p q r s"    # more than 16 arguments
    if k < 0.90: return rng.choice([b"", b" ", b"5", b"-1", b"abc", b"5 ", b"-1 D", b"-1 N", b"-1 N x", b"-1 U", b"-1 u", b"-1 P", b"-1 P :+x a b", b"-1 H", b"-1 T", b"-1 d", b"-1 n", b"-1 n q",
                                b"99999999999999999999 H", b"-99999999999999999999 H", b"4294967297 H", b"+1 H", b"0x1 H", b"1 Q", b"1 E a b", b"1 M s 5", b"7 X s0.x 1_1 :OK"])
    if k < 0.95: return b[:rng.randrange(0, len(b) + 1)]
    return bytes(rng.choice(b" 0123456789:CDNdPUunHTX-+\tab") for _ in range(rng.randrange(0, 20)))
cases = []
with open('/tmp/r/b/lcases.txt', 'w') as f:
    for _ in range(ncase):
        svcs, rules, timeout, lines = gen(rng)
        raw = [mutate(l) for l in lines]
        raw = [x.replace(b"\n", b"").replace(b"\0", b"") for x in raw]
        raw = [x for x in raw if b" ? " not in x and b"! reload" not in x]
        cases.append((svcs, rules, timeout, raw))
        f.write("CASE %d\n" % (1 if timeout else 0))
        for n, t in svcs: f.write("S\t%s\t%s\n" % (n, t))
        for (rn, rk, g, tr) in rules: f.write("R\t%s\t%s\t%s\t%d\n" % (rn, rk if rk is not None else "-", g if g is not None else "-", 1 if tr else 0))
        for x in raw: f.write("L\t%s\n" % x.hex() if x else "L\n")
        f.write("END\n")
p = subprocess.run(['/tmp/spike/drvl', '/tmp/r/b/lcases.txt'], stdout=subprocess.PIPE, stderr=subprocess.PIPE, timeout=300)
model = [[st.split("\n")[:-1] if st else [] for st in c.split("--\n")[:-1]] for c in p.stdout.decode('latin1').split("==\n")[:-1]]
bad = steps = 0
for ci, (svcs, rules, timeout, raw) in enumerate(cases):
    open('/tmp/r/b/case.conf', 'w').write(conf_text(svcs, rules, timeout, '/tmp/r/b/mods'))
    inp = b"".join(x + b"\n-1 ? stats2\n" for x in raw)
    q = subprocess.run(['/tmp/r/b/iauthd-c', '-n', '-f', '/tmp/r/b/case.conf'], input=inp, stdout=subprocess.PIPE, stderr=subprocess.PIPE, timeout=60)
    out = q.stdout.decode('latin1').split('\n'); i = 0
    while i < len(out) and not out[i].startswith('O '): i += 1
    got = []; cur = []
    for l in out[i + 1:]:
        if l == 's': got.append(cur); cur = []
        elif l.startswith('S '): continue
        else: cur.append(l)
    exp = model[ci] if ci < len(model) else None; steps += len(raw)
    if q.returncode != 0 or got != exp:
        bad += 1
        for j, x in enumerate(raw):
            g = got[j] if j < len(got) else None; e = exp[j] if exp and j < len(exp) else None
            if g != e: print("case", ci, "line", x, "\n  coq ", e, "\n  impl", g); break
        else: print("case", ci, "rc", q.returncode, len(got), len(exp) if exp else None, q.stderr.decode()[-300:])
        if bad > 4: break
print("cases", ncase, "steps", steps, "bad", bad, p.stderr.decode()[-300:])
