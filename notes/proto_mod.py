#!/usr/bin/env python3
"""Throw-away: C20 — every digraph on <=N stub modules, real daemon, event-log monitor."""
import itertools, subprocess, sys, os
N = int(sys.argv[1]) if len(sys.argv) > 1 else 3
D = '/tmp/r/b/stubs'; os.makedirs(D, exist_ok=True)
names = ['ma', 'mb', 'mc', 'md', 'me'][:N]
def build(edges_of):
    for n in names:
        src = '#include "src/common.h"\nvoid module_constructor(const char name[]) { fprintf(stderr,"cb %s\\n", name);\n'
        for d in edges_of[n]: src += '  module_depends("%s", NULL);\n' % d
        src += ' fprintf(stderr,"ce %s\\n", name); }\nvoid module_post_init(struct module *self) { fprintf(stderr, "pi %s\\n", module_get_name(self)); }\nvoid module_destructor(void) { fprintf(stderr, "dt %s\\n"); }\n'.replace('dt %s\\n")', 'dt ' + n + '\\n")')
        open('%s/%s.c' % (D, n), 'w').write(src)
        subprocess.check_call(['gcc', '-I/tmp/r', '-fPIC', '-shared', '-o', '%s/%s.so' % (D, n), '%s/%s.c' % (D, n)])
def acyclic(edges_of):
    seen = {}
    def dfs(u):
        if seen.get(u) == 1: return False
        if seen.get(u) == 2: return True
        seen[u] = 1
        for v in edges_of[u]:
            if not dfs(v): return False
        seen[u] = 2; return True
    return all(dfs(n) for n in names)
def reach(edges_of, roots):
    out = set(); st = list(roots)
    while st:
        u = st.pop()
        if u in out: continue
        out.add(u); st += edges_of[u]
    return out
pairs = [(a, b) for a in names for b in names if a != b]
bad = tot = dag = 0
for mask in range(1 << len(pairs)):
    edges_of = {n: [] for n in names}
    for i, (a, b) in enumerate(pairs):
        if mask >> i & 1: edges_of[a].append(b)
    build(edges_of)
    for listing in ([names[0]], list(reversed(names)), names):
        tot += 1
        open(D + '/m.conf', 'w').write('core {\n library_path ( "%s", "/tmp/r/b/mods" )\n modules ( %s, iauth )\n}\n' % (D, ', '.join(listing)))
        p = subprocess.run(['/tmp/r/b/iauthd-c', '-n', '-f', D + '/m.conf'], input=b"", stdout=subprocess.PIPE, stderr=subprocess.PIPE, timeout=20)
        log = [l.split() for l in p.stderr.decode().split('\n') if l[:3] in ('cb ', 'ce ', 'pi ', 'dt ')]
        R = reach(edges_of, listing)
        sub = {n: edges_of[n] for n in R}
        cyc = not acyclic({n: (edges_of[n] if n in R else []) for n in names})
        pos = {(k, n): i for i, (k, n) in enumerate(log)}
        errs = []
        if cyc:
            if p.returncode == 0: errs.append("cycle but exit 0")
        else:
            dag += 1
            # stdin is /dev/null -> EOF -> clean exit expected
            if p.returncode != 0: errs.append("exit %d" % p.returncode)
            for n in R:
                for k in ('cb', 'ce', 'pi', 'dt'):
                    c = sum(1 for e in log if e == [k, n])
                    if c != 1: errs.append("%s %s x%d" % (k, n, c))
            for n in R:
                for d in edges_of[n]:
                    if errs: break
                    if not pos[('ce', d)] < pos[('ce', n)]: errs.append("ctor order %s %s" % (n, d))
                    if not pos[('pi', d)] < pos[('pi', n)]: errs.append("postinit order %s %s" % (n, d))
                    if not pos[('dt', n)] < pos[('dt', d)]: errs.append("dtor order %s %s" % (n, d))
            for n in set(names) - R:
                if any(e[1] == n for e in log): errs.append("unreachable %s loaded" % n)
        if errs:
            bad += 1
            if bad < 6: print(edges_of, listing, errs, p.stdout.decode()[-300:])
print("graphs", 1 << len(pairs), "runs", tot, "dag runs", dag, "bad", bad)
