#!/usr/bin/env python3
"""Throw-away prototype: model of src/config.c (parser as repaired by D9-D12,D18; merge as repaired by
D8,D17,D19,D21) compared with the real code through h_conf."""
import random, subprocess, sys

STRING, INADDR, LIST, OBJECT = 0, 1, 2, 3
TOKEN = set(b"abcdefghijklmnopqrstuvwxyzABCDEFGHIJKLMNOPQRSTUVWXYZ0123456789-._#")
SPACE = set(b" \t\n\v\f\r")
HEX = {c: int(chr(c), 16) for c in b"0123456789abcdefABCDEF"}

def fold(b): return bytes(c + 32 if 65 <= c <= 90 else c for c in b)

class PErr(Exception): pass

class Node:
    def __init__(s, name, kind):
        s.name, s.kind = name, kind
        s.specified = 0; s.present = 0; s.hook = False; s.parent = None
        s.value = None; s.dflt = None; s.subtype = 0; s.parsed = None     # string
        s.host = s.svc = s.dhost = s.dsvc = None                            # inaddr
        s.items = []; s.ditems = []                                         # list
        s.kids = []                                                         # object, sorted by key
    def key(s): return (fold(s.name), s.kind)

def find(obj, key):
    for k in obj.kids:
        if k.key() == key: return k
    return None
def insert(obj, node):
    node.parent = obj
    obj.kids.append(node); obj.kids.sort(key=Node.key)

# ------------------------------------------------------------------ parser
class P:
    def __init__(s, data):
        z = data.find(b"\0")
        s.d = (data if z < 0 else data[:z]) + b"\0"
        s.i = 0
        s.root = Node(b"", OBJECT)
    def ws(s, care):
        d = s.d
        while d[s.i] != 0:
            c = d[s.i]; s.i += 1
            if c == 10:
                if care: return c
                continue
            if c in SPACE: continue
            if c != 47: return c
            e = d[s.i]; s.i += 1
            if e == 42:
                while True:
                    while True:
                        c = d[s.i]; s.i += 1
                        if c == 0 or c == 42: break
                    if c == 0:
                        s.i -= 1; return 0
                    if d[s.i] == 47:
                        s.i += 1; break
            elif e == 47:
                while True:
                    c = d[s.i]; s.i += 1
                    if c == 0 or c == 10: break
                s.i -= 1
                if c == 0: break
            else:
                s.i -= 1; return c
        return 0
    def string(s):
        d = s.d
        ch = s.ws(0)
        if ch == 0: return None
        start = s.i - 1
        out = bytearray()
        if ch == 34:
            e = start + 1
            while d[e] != 0 and d[e] != 34:
                if d[e] == 92:
                    e += 1
                    if d[e] == 0: break
                e += 1
            if d[e] == 0: raise PErr("eof")
            e = start + 1
            while d[e] != 34:
                if d[e] == 92:
                    n = d[e + 1]
                    m = {97: 7, 98: 8, 102: 12, 110: 10, 114: 13, 116: 9, 118: 11}
                    if n in m: out.append(m[n])
                    elif n == 120:
                        if d[e + 2] not in HEX: pass
                        elif d[e + 3] not in HEX: e += 1
                        else:
                            out.append(HEX[d[e + 2]] * 16 + HEX[d[e + 3]]); e += 2
                    else: out.append(n)
                    e += 1
                else: out.append(d[e])
                e += 1
            e += 1
        elif ch in TOKEN:
            e = start + 1
            while d[e] in TOKEN: e += 1
            out += d[start:e]
        else:
            raise PErr("string")
        s.i = e
        z = out.find(b"\0")          # C string semantics for "\x00"
        return bytes(out if z < 0 else out[:z])
    def child(s, parent, name, kind):
        n = find(parent, (fold(name), kind))
        if n is None:
            n = Node(name, kind); insert(parent, n)
        n.present = 1
        return n
    def entry(s, parent):
        d = s.d
        name = s.string()
        ch = s.ws(0)
        if ch == 0: return
        if ch == 40:
            node = s.child(parent, name, LIST); nv = []
            while True:
                ch = s.ws(0)
                if ch == 0: raise PErr("eof")
                if ch == 41: break
                s.i -= 1
                nv.append(s.string())
                ch = s.ws(0)
                if ch == 0: raise PErr("eof")
                if ch == 41: break
                if ch != 44: raise PErr("comma")
            node.items = nv
        elif ch == 123:
            node = s.child(parent, name, OBJECT)
            while True:
                ch = s.ws(0)
                if ch == 125: break
                if ch == 0: raise PErr("eof")
                s.i -= 1
                s.entry(node)
        else:
            s.i -= 1
            st = s.string()
            ch = s.ws(1)
            if ch in (59, 10, 125):
                s.i -= 1
                node = s.child(parent, name, STRING)
                node.value = st; node.parsed = st
                if ch == 125 and parent is not s.root: return
            elif ch == 44:
                node = s.child(parent, name, LIST); nv = [st]
                while True:
                    ch = s.ws(1)
                    if ch == 0: raise PErr("eof")
                    if ch == 10:
                        s.i -= 1; break
                    s.i -= 1
                    nv.append(s.string())
                    ch = s.ws(1)
                    if ch == 0: raise PErr("eof")
                    if ch in (10, 59, 125):
                        s.i -= 1; break
                    if ch != 44: raise PErr("comma")
                node.items = nv
            else:
                s.i -= 1
                sv = s.string()
                node = s.child(parent, name, INADDR)
                node.host, node.svc = st, sv
        ch = s.ws(1)
        if ch == 125 and parent is not s.root:
            s.i -= 1; return
        if ch != 59 and ch != 10: raise PErr("semi")
    def parse(s):
        while s.d[s.i] != 0:
            s.entry(s.root)
        return s.root

# ------------------------------------------------------------------ typed values
def p_bool(v):
    if v in (b"0", b"false", b"off", b"disabled", b"no"): return 0, True
    if v in (b"1", b"true", b"on", b"enabled", b"yes"): return 1, True
    return 0, False
def p_interval(v):
    total = partial = 0; colon = 0; ok = True
    mult = {100: 86400, 104: 3600, 109: 60, 115: 1, 121: 365 * 86400}
    for c in v:
        if 48 <= c <= 57: partial = (partial * 10 + c - 48) & 0xffffffff
        elif c in mult: total = (total + partial * mult[c]) & 0xffffffff; partial = 0
        elif c == 58:
            if colon == 0: total = (total + partial * 3600) & 0xffffffff
            elif colon == 1: total = (total + partial * 60) & 0xffffffff
            else: ok = False; break
            colon += 1; partial = 0
        else: ok = False; break
    return (total + partial) & 0xffffffff, ok
def p_volume(v):
    total = partial = 0; ok = True
    sh = {66: 0, 98: 0, 71: 30, 103: 30, 75: 10, 107: 10, 77: 20, 109: 20}
    for c in v:
        if 48 <= c <= 57: partial = (partial * 10 + c - 48) & 0xffffffff
        elif c in sh: total = (total + (partial << sh[c])) & 0xffffffff; partial = 0
        else: ok = False; break
    return (total + partial) & 0xffffffff, ok
def p_integer(v):       # only the forms the generator produces: optional '-', decimal digits, no junk handling beyond eov
    i = 0; neg = False
    while i < len(v) and v[i] in SPACE: i += 1
    if i < len(v) and v[i] in b"+-": neg = v[i] == 45; i += 1
    j = i
    if v[i:i + 2] in (b"0x", b"0X") and i + 2 < len(v) and v[i + 2] in HEX:
        j = i + 2
        while j < len(v) and v[j] in HEX: j += 1
        n = int(v[i + 2:j], 16)
    elif v[i:i + 1] == b"0":
        j = i + 1
        while j < len(v) and 48 <= v[j] <= 55: j += 1
        n = int(v[i:j], 8)
    else:
        while j < len(v) and 48 <= v[j] <= 57: j += 1
        if j == i: return 0, len(v) == 0
        n = int(v[i:j])
    if n > 2 ** 64 - 1: n = 2 ** 64 - 1
    elif neg: n = (-n) % 2 ** 64
    if j != len(v): return 0, False
    n &= 0xffffffff
    return (n - 2 ** 32 if n >= 2 ** 31 else n), True

class Live:
    def __init__(s):
        s.root = Node(b"", OBJECT); s.root.specified = 1
        s.hooks = []
        lg = s.reg_obj(s.root, b"logs"); lg.hook = False
        vt = s.reg_str(lg, b"verbose_timestamp", 1, b"true"); vt.hook = False
    def path(s, n):
        p = []
        while n.parent is not None: p.append(n.name.decode('latin1')); n = n.parent
        return '/'.join(reversed(p))
    def fire(s, n):
        if n.hook: s.hooks.append("HOOK %d %s" % (n.kind, s.path(n)))
    # --- typed re-parse (conf_parse_string_value)
    def parse_value(s, n, had_orig):
        if n.value is None: n.value = n.dflt
        if n.value is None:
            n.parsed = None if n.subtype == 0 else 0
            if had_orig: s.fire(n)
            return
        if n.subtype == 0:
            res = n.parsed is None or n.parsed != n.value
            n.parsed = n.value
            if res: s.fire(n)
            return
        f = {1: p_bool, 2: p_integer, 4: p_interval, 5: p_volume}[n.subtype]
        v, ok = f(n.value)
        cur = n.parsed if isinstance(n.parsed, int) else ('ptr' if n.parsed is not None else 0)
        if ok and v != cur:
            n.parsed = v; s.fire(n)
    def reg_node(s, parent, name, kind):
        n = find(parent, (fold(name), kind))
        if n is None:
            n = Node(name, kind); insert(parent, n)
        n.specified = 1
        return n
    def reg_obj(s, parent, name):
        n = s.reg_node(parent, name, OBJECT); n.hook = True; return n
    def reg_str(s, parent, name, sub, dflt):
        n = s.reg_node(parent, name, STRING)
        if n.subtype != sub: n.parsed = None
        n.subtype = sub; n.dflt = dflt
        s.parse_value(n, n.value is not None)
        n.hook = True
        return n
    def reg_list(s, parent, name, dflt):
        n = s.reg_node(parent, name, LIST)
        n.ditems = list(dflt)
        if not n.present: n.items = list(dflt)
        n.hook = True
        return n
    def reg_ina(s, parent, name, h, v):
        n = s.reg_node(parent, name, INADDR)
        n.dhost, n.dsvc = h, v
        if n.host is None: n.host = h
        if n.svc is None: n.svc = v
        n.hook = True
        return n
    # --- conf_replace_value
    def set_list(s, n, new):
        if n.items == new: return
        n.items = list(new); s.fire(n)
    def replace(s, t, src):
        if t.kind == STRING:
            orig = t.value
            if src is not None:
                t.value = src.value; s.parse_value(t, t.value is not None)
            else:
                t.value = None; s.parse_value(t, False)
                if orig is not None and t.value is None and t.specified: s.fire(t)
        elif t.kind == INADDR:
            oh, osv = t.host, t.svc
            if src is not None: t.host, t.svc = src.host, src.svc
            else: t.host = t.svc = None
            if t.host is None: t.host = t.dhost
            if t.svc is None: t.svc = t.dsvc
            def diff(a, b): return (a is None) != (b is None) or (a is not None and fold(a) != fold(b))
            if diff(t.host, oh) or diff(t.svc, osv): s.fire(t)
        elif t.kind == LIST:
            s.set_list(t, src.items if src is not None else t.ditems)
        else:
            modified = False
            if src is not None:
                tk = list(t.kids); sk = list(src.kids); i = j = 0
                while i < len(tk) or j < len(sk):
                    if i < len(tk) and j < len(sk):
                        a, b = tk[i].key(), sk[j].key(); res = -1 if a < b else (1 if a > b else 0)
                    elif i < len(tk): res = -1
                    else: res = 1
                    if res > 0:
                        insert(t, sk[j]); j += 1; modified = True
                    elif res < 0:
                        if s.replace(tk[i], None): modified = True
                        i += 1
                    else:
                        s.replace(tk[i], sk[j]); i += 1; j += 1
            elif t.present:
                for k in list(t.kids):
                    if s.replace(k, None): modified = True
            if modified: s.fire(t)
        t.present = 1 if src is not None else 0
        if not t.present and not t.specified and t.parent is not None:
            t.parent.kids.remove(t); return True
        return False
    def load(s, data):
        s.hooks = []
        if len(data) == 0: return False          # fread() of zero bytes is reported as a system error
        try:
            tree = P(data).parse()
        except PErr:
            return False
        s.replace(s.root, tree)
        return True
    # --- dump
    def q(s, b):
        if b is None: return "(null)"
        return '"' + ''.join(chr(c) if 32 <= c <= 126 and c not in (34, 92) else "\\x%02x" % c for c in b) + '"'
    def dump(s, obj=None, depth=0, out=None):
        if out is None: out = []; obj = s.root
        for n in obj.kids:
            pre = "%s%s k%d s%d p%d " % (' ' * depth * 2, s.q(n.name), n.kind, n.specified, n.present)
            if n.kind == STRING:
                if not n.specified: pv = "-"
                elif n.subtype == 0: pv = s.q(n.parsed if not isinstance(n.parsed, int) else None)
                else: pv = str(n.parsed if isinstance(n.parsed, int) else 0)
                out.append(pre + "%s sub%d %s" % (s.q(n.value), n.subtype, pv))
            elif n.kind == INADDR: out.append(pre + s.q(n.host) + " " + s.q(n.svc))
            elif n.kind == LIST: out.append(pre + "(" + ",".join(s.q(x) for x in n.items) + ")")
            else:
                out.append(pre + "{"); s.dump(n, depth + 1, out); out.append(' ' * depth * 2 + "}")
        return out

# ------------------------------------------------------------------ generator: trees and renderings
NAMES = [b"a", b"B", b"b", b"c.d", b"x-1", b"#k"]
def gstr(rng):
    r = rng.random()
    if r < 0.5: return rng.choice([b"v1", b"v2", b"zz", b"10", b"1K2", b"true", b"off", b"2h3m", b"0x1f", b"-5", b"1:2:3"])
    if r < 0.8: return bytes(rng.choice(b"ab \t\"\\;,{}()/*\n\x01\xff#") for _ in range(rng.randrange(0, 6)))
    return rng.choice([b"", b"pizza", b"12x", b"99999999999", b"1y2d03:04:05"])
def gtree(rng, depth):
    ents = []
    for _ in range(rng.randrange(0, 5 if depth else 6)):
        name = rng.choice(NAMES); k = rng.random()
        if k < 0.4: ents.append((name, STRING, gstr(rng)))
        elif k < 0.55: ents.append((name, INADDR, (gstr(rng), gstr(rng))))
        elif k < 0.75: ents.append((name, LIST, [gstr(rng) for _ in range(rng.randrange(0, 4))]))
        elif depth < 3: ents.append((name, OBJECT, gtree(rng, depth + 1)))
    return ents
def rstr(rng, b, must_quote=False):
    if not must_quote and b and all(c in TOKEN for c in b) and rng.random() < 0.6: return b
    out = bytearray(b'"')
    esc = {7: b"\\a", 8: b"\\b", 12: b"\\f", 10: b"\\n", 13: b"\\r", 9: b"\\t", 11: b"\\v"}
    for c in b:
        if c in (34, 92): out += b"\\" + bytes([c])
        elif c in esc and rng.random() < 0.7: out += esc[c]
        elif c == 0 or (rng.random() < 0.1): out += b"\\x%02x" % c
        else: out.append(c)
    return bytes(out + b'"')
def wsh(rng, atleast=0):
    c = [b" ", b"\t", b"", b"/* c\n */", b"  "]
    s = b"".join(rng.choice(c) for _ in range(rng.randrange(0, 3)))
    return s if len(s) >= atleast and (atleast == 0 or s[:1] in b" \t/") else b" " + s
def ws0(rng):
    c = [b" ", b"\n", b"\t", b"", b"/* x */", b"// y\n", b"\r"]
    return b"".join(rng.choice(c) for _ in range(rng.randrange(0, 3)))
def render(rng, ents, top=True):
    out = bytearray(ws0(rng))
    for idx, (name, kind, v) in enumerate(ents):
        last = idx == len(ents) - 1
        out += rstr(rng, name) + ws0(rng)
        if ws0 and out[-1:] not in b" \n\t\r/" and True:
            out += b" "
        if kind == STRING: out += rstr(rng, v)
        elif kind == INADDR: out += rstr(rng, v[0]) + wsh(rng, 1) + rstr(rng, v[1])
        elif kind == LIST:
            if len(v) >= 2 and rng.random() < 0.5:
                out += (wsh(rng) + b"," + wsh(rng)).join(rstr(rng, x) for x in v)
            else:
                out += b"(" + ws0(rng) + (ws0(rng) + b"," + ws0(rng)).join(rstr(rng, x) for x in v) + ws0(rng) + b")"
        else:
            out += b"{" + render(rng, v, False) + b"}"
        if last and (not top) and rng.random() < 0.4:
            out += wsh(rng)                       # no terminator before '}'
        else:
            out += wsh(rng) + rng.choice([b";", b"\n"]) + ws0(rng)
    return bytes(out)
def corrupt(rng, data):
    r = rng.random()
    if not data: return b"{"
    if r < 0.4: return data[:rng.randrange(0, len(data))]
    if r < 0.7:
        i = rng.randrange(0, len(data)); return data[:i] + bytes([data[i] ^ (1 << rng.randrange(8))]) + data[i + 1:]
    return bytes(rng.randrange(256) for _ in range(rng.randrange(1, 30)))

def main():
    seed = int(sys.argv[1]) if len(sys.argv) > 1 else 1
    ncase = int(sys.argv[2]) if len(sys.argv) > 2 else 200
    rng = random.Random(seed)
    bad = okloads = errloads = 0
    for case in range(ncase):
        live = Live(); script = []; expect = []
        regs = []
        for _ in range(rng.randrange(0, 5)):
            nm = rng.choice(NAMES); k = rng.random()
            if k < 0.45: regs.append(("str", nm, rng.choice([0, 0, 1, 2, 4, 5]), rng.choice([None, b"d1", b"0", b"7"])))
            elif k < 0.65: regs.append(("list", nm, [rng.choice([b"d1", b"d2"]) for _ in range(rng.randrange(0, 3))]))
            elif k < 0.8: regs.append(("ina", nm, rng.choice([None, b"dh"]), rng.choice([None, b"dp"])))
            else: regs.append(("obj", nm))
        def do_regs():
            for r in regs:
                nm = r[1].decode(); live.hooks = []
                if r[0] == "str":
                    script.append("reg str %s %d %s" % (nm, r[2], r[3].decode() if r[3] is not None else "-")); live.reg_str(live.root, r[1], r[2], r[3])
                elif r[0] == "list":
                    script.append("reg list %s %s" % (nm, " ".join(x.decode() for x in r[2]))); live.reg_list(live.root, r[1], r[2])
                elif r[0] == "ina":
                    script.append("reg ina %s %s %s" % (nm, r[2].decode() if r[2] else "-", r[3].decode() if r[3] else "-")); live.reg_ina(live.root, r[1], r[2], r[3])
                else:
                    script.append("reg obj %s" % nm); live.reg_obj(live.root, r[1])
                expect.extend(live.hooks); expect.append("REG")
        reg_at = rng.randrange(0, 3)
        nload = rng.randrange(1, 5)
        files = []
        for li in range(nload):
            if li == reg_at: do_regs()
            data = render(rng, gtree(rng, 0))
            if rng.random() < 0.25: data = corrupt(rng, data)
            if files and rng.random() < 0.2: data = files[-1]
            files.append(data)
            fn = "/tmp/r/b/f%d.conf" % li
            open(fn, "wb").write(data)
            script.append("load " + fn)
            ok = live.load(data)
            okloads += ok; errloads += (not ok)
            expect += live.hooks + ["LOAD " + ("OK" if ok else "ERR")]
            script.append("dump"); expect += live.dump() + ["END"]
        if reg_at >= nload:
            do_regs(); script.append("dump"); expect += live.dump() + ["END"]
        p = subprocess.run(["/tmp/r/b/h_conf"], input=("\n".join(script) + "\n").encode(), stdout=subprocess.PIPE, stderr=subprocess.PIPE,
                           env={"ASAN_OPTIONS": "detect_leaks=0"})
        got = p.stdout.decode('latin1').split("\n")[:-1]
        if p.returncode != 0 or got != expect:
            bad += 1
            print("=== MISMATCH case", case, "rc", p.returncode)
            for i, f in enumerate(files): print("file", i, repr(f))
            print("script", script)
            for i in range(max(len(got), len(expect))):
                g = got[i] if i < len(got) else None; e = expect[i] if i < len(expect) else None
                if g != e:
                    print("first diff at", i, "\n exp", e, "\n got", g); break
            print(p.stderr.decode('latin1')[-1500:])
            if bad >= 3: break
    print("cases", ncase, "bad", bad, "okloads", okloads, "errloads", errloads)
main()
