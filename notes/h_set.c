/* throw-away harness for src/set.c: int keys, unique tags, disposal log, full audit + shape */
#include "src/common.h"
struct event_base *ev_base; struct evdns_base *ev_dns; int clean_exit;
struct el { int key; int tag; };
static void cleanup(void *p) { struct el *e = p; printf("dispose %d#%d\n", e->key, e->tag); }
static void shape(struct set_node *n) {
    if (!n) { putchar('.'); return; }
    putchar('('); shape(n->l); printf("%d#%d", ((struct el*)set_node_data(n))->key, ((struct el*)set_node_data(n))->tag); shape(n->r); putchar(')');
}
static void chain(struct set *s) {
    struct set_node *n, *prev = NULL; unsigned cnt = 0;
    for (n = set_first(s); n; prev = n, n = set_next(n), cnt++) {
        struct el *e = set_node_data(n);
        if (set_prev(n) != prev) printf("BADPREV ");
        printf("%d#%d ", e->key, e->tag);
    }
    printf("| count=%u walk=%u\n", set_size(s), cnt);
}
int main(void) {
    char line[256]; struct set *s = set_alloc(set_compare_int, cleanup); int tag = 0;
    while (fgets(line, sizeof line, stdin)) {
        char cmd[16]; int k = 0, nd = 0; struct el probe;
        if (sscanf(line, "%15s %d %d", cmd, &k, &nd) < 1) continue;
        probe.key = k; probe.tag = -1;
        if (!strcmp(cmd, "ins")) {
            struct set_node *n = set_node_alloc(sizeof(struct el)); struct el *e = set_node_data(n);
            e->key = k; e->tag = ++tag; set_insert(s, n); printf("ins\n");
        } else if (!strcmp(cmd, "find")) {
            struct el *e = set_find(s, &probe); if (e) printf("find %d#%d\n", e->key, e->tag); else printf("find none\n");
        } else if (!strcmp(cmd, "lower")) {
            struct set_node *n = set_lower(s, &probe); if (n) { struct el *e = set_node_data(n); printf("lower %d#%d\n", e->key, e->tag); } else printf("lower none\n");
        } else if (!strcmp(cmd, "rem")) {
            int r; struct set_node *n;
            for (n = set_first(s); n; n = set_next(n)) if (((struct el*)set_node_data(n))->key == k) break;
            r = set_remove(s, &probe, nd); printf("rem %d\n", r);
            if (r && nd && n) free(n);
        } else if (!strcmp(cmd, "clear")) {
            /* with no_dispose the caller owns the nodes: collect and free them ourselves */
            if (k) { struct set_node *n = set_first(s), *nx; struct set_node *keep[4096]; int c = 0, i; for (; n; n = nx) { nx = set_next(n); keep[c++] = n; } set_clear(s, 1); for (i = 0; i < c; i++) free(keep[i]); }
            else set_clear(s, 0);
            printf("clear\n");
        } else if (!strcmp(cmd, "show")) {
            printf("shape "); shape(s->root); putchar('\n'); printf("chain "); chain(s);
        }
    }
    set_clear(s, 0); free(s);
    return 0;
}
