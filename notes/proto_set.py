#!/usr/bin/env python3
"""Throw-away: functional top-down splay model (mirrors the Coq spike) vs src/set.c via h_set."""
import random, subprocess, sys
sys.setrecursionlimit(10000)
def cmp(a, b): return (a > b) - (a < b)
# tree = None | (l, (key, tag), r)
def asmL(fs, x):
    for (l, k) in reversed(fs): x = (l, k, x)
    return x
def asmR(fs, x):
    for (k, r) in reversed(fs): x = (x, k, r)
    return x
def splay(d, t):
    if t is None: return None, 0
    l, k, r = t; L = []; R = []          # frames appended in link order (outermost first)
    while True:
        res = cmp(d, k[0])
        if res == 0: break
        if res < 0:
            if l is None: break
            ll, lk, lr = l
            res2 = cmp(d, lk[0])
            if res2 < 0:
                l, k, r = ll, lk, (lr, k, r)            # rotate right
                res = res2
                if l is None: break
            R.append((k, r)); (l, k, r) = l             # link right, descend
        else:
            if r is None: break
            rl, rk, rr = r
            res2 = cmp(d, rk[0])
            if res2 > 0:
                l, k, r = (l, k, rl), rk, rr
                res = res2
                if r is None: break
            L.append((l, k)); (l, k, r) = r
    return (asmL(L, l), k, asmR(R, r)), res
class M:
    def __init__(s): s.t = None; s.chain = []; s.count = 0; s.tag = 0; s.log = []
    def ins(s, key):
        s.tag += 1; el = (key, s.tag)
        if s.t is not None:
            s.t, res = splay(key, s.t); l, k, r = s.t
            i = s.chain.index(k)
            if res < 0: s.t = (l, el, (None, k, r)); s.chain.insert(i, el)
            elif res > 0: s.t = ((l, k, None), el, r); s.chain.insert(i + 1, el)
            else: s.t = (l, el, r); s.chain[i] = el; s.log.append("dispose %d#%d" % k); s.count -= 1
        else: s.t = (None, el, None); s.chain = [el]
        s.count += 1; s.log.append("ins")
    def find(s, key):
        if s.t is None: s.log.append("find none"); return
        s.t, res = splay(key, s.t)
        s.log.append("find none" if res else "find %d#%d" % s.t[1])
    def lower(s, key):
        if s.t is None: s.log.append("lower none"); return
        s.t, res = splay(key, s.t); k = s.t[1]
        if res > 0:
            i = s.chain.index(k) + 1
            k = s.chain[i] if i < len(s.chain) else None
        s.log.append("lower none" if k is None else "lower %d#%d" % k)
    def rem(s, key, nd):
        if s.t is None: s.log.append("rem 0"); return
        s.t, res = splay(key, s.t)
        if res: s.log.append("rem 0"); return
        l, k, r = s.t
        if l is None: s.t = r
        else:
            nl, _ = splay(key, l); s.t = (nl[0], nl[1], r)
        s.chain.remove(k); s.count -= 1
        if not nd: s.log.append("dispose %d#%d" % k)
        s.log.append("rem 1")
    def clear(s, nd):
        if not nd:
            for k in s.chain: s.log.append("dispose %d#%d" % k)
        s.t = None; s.chain = []; s.count = 0; s.log.append("clear")
    def show(s):
        def sh(t): return "." if t is None else "(" + sh(t[0]) + "%d#%d" % t[1] + sh(t[2]) + ")"
        s.log.append("shape " + sh(s.t))
        s.log.append("chain " + "".join("%d#%d " % k for k in s.chain) + "| count=%d walk=%d" % (s.count, len(s.chain)))
def main():
    rng = random.Random(int(sys.argv[1]) if len(sys.argv) > 1 else 1); bad = 0; nops = 0
    for case in range(400):
        m = M(); cmds = []
        U = rng.choice([3, 5, 7, 20, 200]); keys = [rng.randrange(-2**31, 2**31) for _ in range(U)] if rng.random() < 0.2 else list(range(U))
        for _ in range(rng.randrange(1, 120)):
            k = rng.choice(keys); o = rng.random(); nops += 1
            if o < 0.4: cmds.append("ins %d" % k); m.ins(k)
            elif o < 0.55: cmds.append("find %d" % k); m.find(k)
            elif o < 0.65: cmds.append("lower %d" % k); m.lower(k)
            elif o < 0.9: nd = int(rng.random() < 0.3); cmds.append("rem %d %d" % (k, nd)); m.rem(k, nd)
            elif o < 0.93: nd = int(rng.random() < 0.3); cmds.append("clear %d" % nd); m.clear(nd)
            cmds.append("show"); m.show()
        p = subprocess.run(["/tmp/r/b/h_set"], input=("\n".join(cmds) + "\n").encode(), stdout=subprocess.PIPE, stderr=subprocess.PIPE)
        got = p.stdout.decode().split("\n")[:-1]
        exp = m.log + ["dispose %d#%d" % k for k in m.chain]
        if p.returncode or got != exp:
            bad += 1
            for i, (a, b) in enumerate(zip(exp, got)):
                if a != b: print("case", case, "diff at", i, "\n exp", a, "\n got", b); break
            else: print("case", case, "length", len(exp), len(got), p.stderr.decode()[-500:])
            if bad > 3: break
    print("bad", bad, "ops", nops)
main()
