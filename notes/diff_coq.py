#!/usr/bin/env python3
"""Spike: extracted Coq model (notes/spikes/Iauth.v) vs the repaired daemon, cases from proto.py's generator."""
import random, subprocess, sys, importlib.util, io, contextlib
src = open('/tmp/r/b/proto.py').read().replace("\nmain()\n", "\n")
ns = {}; sys_argv = sys.argv; exec(compile(src, 'proto', 'exec'), ns)
gen, conf_text, run_daemon = ns['gen'], ns['conf_text'], ns['run_daemon']
def argv_of(line):
    toks = line.split(' '); cid = toks[0]; args = []; i = 1
    while i < len(toks):
        if toks[i].startswith(':'): args.append(' '.join(toks[i:])[1:]); break
        if toks[i] != '': args.append(toks[i])
        i += 1
    return cid, args
seed = int(sys.argv[1]) if len(sys.argv) > 1 else 1; ncase = int(sys.argv[2]) if len(sys.argv) > 2 else 200
rng = random.Random(seed)
cases = []
with open('/tmp/r/b/cases.txt', 'w') as f:
    for _ in range(ncase):
        svcs, rules, timeout, lines = gen(rng)
        # the spike model takes the address text as given and has no tokenizer: keep to what it covers
        lines = [l for l in lines if '\t' not in l]
        cases.append((svcs, rules, timeout, lines))
        f.write("CASE %d\n" % (1 if timeout else 0))
        for n, t in svcs: f.write("S\t%s\t%s\n" % (n, t))
        for (rn, rk, g, tr) in rules: f.write("R\t%s\t%s\t%s\t%d\n" % (rn, rk if rk is not None else "-", g if g is not None else "-", 1 if tr else 0))
        for l in lines:
            cid, args = argv_of(l)
            f.write("E\t%s\t%s\n" % (cid, "\t".join(args)))
        f.write("END\n")
p = subprocess.run(['/tmp/spike/drv', '/tmp/r/b/cases.txt'], stdout=subprocess.PIPE, stderr=subprocess.PIPE, timeout=120)
model = [[st.split("\n")[:-1] if st else [] for st in c.split("--\n")[:-1]] for c in p.stdout.decode('latin1').split("==\n")[:-1]]
bad = 0; steps = 0
for ci, (svcs, rules, timeout, lines) in enumerate(cases):
    open('/tmp/r/b/case.conf', 'w').write(conf_text(svcs, rules, timeout, '/tmp/r/b/mods'))
    rc, got, err = run_daemon('/tmp/r/b/iauthd-c', '/tmp/r/b/case.conf', lines)
    exp = model[ci]; steps += len(lines)
    if rc != 0 or got != exp:
        bad += 1
        for i, l in enumerate(lines):
            g = got[i] if i < len(got) else None; e = exp[i] if i < len(exp) else None
            if g != e: print("case", ci, "line", repr(l), "\n  coq ", e, "\n  impl", g); break
        if bad > 3: break
print("cases", ncase, "steps", steps, "bad", bad, p.stderr.decode()[-300:])
