#!/usr/bin/env python3
"""Throw-away: C17 differential — daemon reloaded to `new` vs daemon started on `new` (repaired tree, hook build)."""
import random, subprocess, sys
TYPES = ['login', 'login-ipr', 'dronecheck', 'combined']
def conf(svcs, rules, layout_rng):
    t = 'core {\n library_path ( "/tmp/r/b/mods" )\n modules ( iauth_class, iauth_xquery )\n}\niauth { timeout 0 }\n'
    t += 'iauth_xquery {\n' + ''.join(' %s %s\n' % sv for sv in sorted(svcs.items())) + '}\n'
    t += 'iauth_class {\n'
    for rn, r in sorted(rules.items()):
        t += ' "%s" {' % rn + ''.join(' %s "%s";' % kv for kv in sorted(r.items())) + ' }\n'
    t += '}\n'
    return t
def gen_tables(rng):
    svcs = {("s%d.x" % i): rng.choice(TYPES) for i in range(4) if rng.random() < 0.5}
    rules = {}
    for i in range(4):
        if rng.random() < 0.5:
            r = {}
            if rng.random() < 0.7: r['class'] = rng.choice(['c1', 'c2', 'c3'])
            if rng.random() < 0.4: r['hostname'] = rng.choice(['*.one', '*.two', '*'])
            if rng.random() < 0.3: r['address'] = rng.choice(['10.0.0.0/8', '10.1.*', '*'])
            if rng.random() < 0.3: r['username'] = rng.choice(['id*', 'x'])
            if rng.random() < 0.2: r['trust_username'] = rng.choice(['true', 'false'])
            rules["r%d" % i] = r
    return svcs, rules
def mutate(rng, svcs, rules):
    svcs = dict(svcs); rules = {k: dict(v) for k, v in rules.items()}
    for _ in range(rng.randrange(1, 4)):
        k = rng.random()
        if k < 0.2 and svcs: del svcs[rng.choice(sorted(svcs))]
        elif k < 0.4: svcs["s%d.x" % rng.randrange(4)] = rng.choice(TYPES)
        elif k < 0.55 and svcs: svcs[rng.choice(sorted(svcs))] = rng.choice(TYPES)
        elif k < 0.7 and rules: del rules[rng.choice(sorted(rules))]
        elif k < 0.85 and rules:
            r = rules[rng.choice(sorted(rules))]; f = rng.choice(['class', 'hostname', 'address'])
            if f in r and rng.random() < 0.3: del r[f]
            else: r[f] = {'class': rng.choice(['c1', 'c2', 'c9']), 'hostname': rng.choice(['*.one', '*.two']), 'address': rng.choice(['10.0.0.0/8', '11.*'])}[f]
        else: rules["r%d" % rng.randrange(4)] = {'class': rng.choice(['c1', 'c4'])}
    return svcs, rules
PROBE = []
for i, (addr, host, ident) in enumerate([('10.0.0.1', 'a.one', 'ident'), ('10.1.2.3', 'b.two', 'x'), ('11.0.0.9', 'c.three', '~u')]):
    cid = 50 + i
    PROBE += ["%d C %s 1 10.9.9.9 2" % (cid, addr), "%d N %s" % (cid, host), "%d u %s" % (cid, ident), "%d n Nick" % cid,
              "%d U user :real" % cid, "%d P :+x acct pass" % cid, "%d ! timeout" % cid, "%d H" % cid, "%d D" % cid]
def run(conf_path, lines):
    p = subprocess.run(['/tmp/r/b/iauthd-c', '-n', '-f', conf_path], input=("\n".join(lines) + "\n").encode(), stdout=subprocess.PIPE, stderr=subprocess.PIPE)
    out = p.stdout.decode().split("\n")
    return p.returncode, out, p.stderr.decode()
def canon(lines):
    import re
    res = []
    for l in lines:
        if l.startswith('S ') or l == 's': continue
        if l.startswith('A xquery :-'): continue        # unconfigured leftovers still referenced: reported, never queried
        res.append(re.sub(r'_[0-9a-f]+ ', '_N ', l))
    return res
def main():
    rng = random.Random(int(sys.argv[1]) if len(sys.argv) > 1 else 1); bad = 0; n = int(sys.argv[2]) if len(sys.argv) > 2 else 100
    for case in range(n):
        tables = [gen_tables(rng)]
        for _ in range(rng.randrange(1, 4)): tables.append(mutate(rng, *tables[-1]))
        # reloaded daemon: start on tables[0], then write+reload each successive table, then probe
        import shutil
        live = '/tmp/r/b/live.conf'
        stages = []
        for i, tb in enumerate(tables):
            pth = '/tmp/r/b/stage%d.conf' % i; open(pth, 'w').write(conf(*tb, rng)); stages.append(pth)
        def session(first, later):
            shutil.copy(first, live)
            p = subprocess.Popen(['/tmp/r/b/iauthd-c', '-n', '-f', live], stdin=subprocess.PIPE, stdout=subprocess.PIPE, stderr=subprocess.PIPE)
            def send(l):
                try: p.stdin.write((l + "\n").encode()); p.stdin.flush()
                except BrokenPipeError:
                    print("DIED", tables); print(p.stderr.read().decode()[-3000:]); raise SystemExit
            def sync():
                send("-1 ? stats2"); outl = []
                while True:
                    l = p.stdout.readline().decode()
                    if l == '': break
                    l = l.rstrip("\n")
                    if l == 's': break
                    outl.append(l)
                return outl
            sync()
            for st in later:
                shutil.copy(st, live); send("-1 ! reload"); sync()
            got = []
            send("-1 ? config"); got += sorted(sync())
            for l in PROBE: send(l); got += ['--'] + sorted(sync())
            p.stdin.close(); err = p.stderr.read().decode(); p.wait()
            return p.returncode, got, err
        rc1, got, err1 = session(stages[0], stages[1:])
        rc, fresh, err = session(stages[-1], [])
        class P_: returncode = rc1
        p = P_()
        a, b = canon(got), canon(fresh)
        if a != b or p.returncode != 0 or rc != 0:
            bad += 1
            print("=== case", case, "tables", tables, "rc", p.returncode, rc)
            for x, y in zip(a, b):
                if x != y: print("  reloaded:", x, "\n  fresh   :", y); break
            else: print(len(a), len(b))
            print(err1[-800:])
            if bad > 3: break
    print("cases", n, "bad", bad)
main()
