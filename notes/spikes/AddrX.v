Require Import AddrFull.
Require Extraction. Require Import ExtrOcamlBasic.
Extraction "addr_model.ml" ntop pton cm.
