(* Spike: hold accounting of iauth_xquery (repaired) refines the set-based spec; reduced to the fields that matter. *)
From Coq Require Import NArith ZArith Lia Bool List.
Import ListNotations.
Local Open Scope Z_scope.

Record creq := {
  soft : Z; holds : Z;
  refm : N; more : N;
  have_pw : bool; ho : bool; acct : bool;
  timed_out : bool; complete : bool; soft_done : bool; responded : bool }.

Inductive cev :=
| ESend (slot : N)                 (* query pass sends to slot *)
| EFinal (slot : N) (vouch : bool) (* OK/AGAIN/unlinked; vouch = OK with account from login-type *)
| EMore (slot : N)
| ECont (slot : N)                 (* continuation forwarded to slot *)
| EModes (ho' : bool)              (* accepted credential changes +! *)
| ETimeout
| EData (c : bool).

Inductive cout := OAccept | OSoftDone.

Definition upd_soft r v := {| soft := v; holds := holds r; refm := refm r; more := more r; have_pw := have_pw r; ho := ho r; acct := acct r; timed_out := timed_out r; complete := complete r; soft_done := soft_done r; responded := responded r |}.

Definition gate (r : creq) : creq * list cout :=
  if (holds r =? 0) && negb (responded r) && complete r then
    if (soft r =? 0) || timed_out r then
      ({| soft := soft r; holds := holds r; refm := refm r; more := more r; have_pw := have_pw r; ho := ho r; acct := acct r; timed_out := timed_out r; complete := complete r; soft_done := soft_done r; responded := true |}, [OAccept])
    else if negb (soft_done r) then
      ({| soft := soft r; holds := holds r; refm := refm r; more := more r; have_pw := have_pw r; ho := ho r; acct := acct r; timed_out := timed_out r; complete := complete r; soft_done := true; responded := responded r |}, [OSoftDone])
    else (r, [])
  else (r, []).

Definition send (r : creq) (i : N) : creq :=
  {| soft := if (refm r =? 0)%N then soft r + 1 else soft r; holds := holds r;
     refm := N.setbit (refm r) i; more := more r; have_pw := have_pw r; ho := ho r; acct := acct r;
     timed_out := timed_out r; complete := complete r; soft_done := soft_done r; responded := responded r |}.

Definition release (r : creq) (i : N) : creq :=
  let rm := N.clearbit (refm r) i in
  {| soft := if (rm =? 0)%N then soft r - 1 else soft r; holds := holds r;
     refm := rm; more := more r; have_pw := have_pw r; ho := ho r; acct := acct r;
     timed_out := timed_out r; complete := complete r; soft_done := soft_done r; responded := responded r |}.

Definition step (r : creq) (e : cev) : creq * list cout :=
  if responded r then (r, []) else
  match e with
  | ESend i => gate (send r i)
  | EFinal i vouch =>
      if N.testbit (refm r) i then
        let r1 := if vouch then
                    {| soft := soft r; holds := if ho r && negb (acct r) then holds r - 1 else holds r;
                       refm := refm r; more := more r; have_pw := have_pw r; ho := ho r; acct := true;
                       timed_out := timed_out r; complete := complete r; soft_done := soft_done r; responded := responded r |}
                  else r in
        gate (release r1 i)
      else (r, [])
  | EMore i =>
      if N.testbit (refm r) i then
        let r1 := {| soft := soft r; holds := holds r; refm := refm r; more := N.setbit (more r) i; have_pw := have_pw r; ho := ho r; acct := acct r;
                     timed_out := timed_out r; complete := complete r; soft_done := soft_done r; responded := responded r |} in
        gate (release r1 i)
      else (r, [])
  | ECont i =>
      if N.testbit (more r) i then
        let r1 := send r i in
        gate {| soft := soft r1; holds := holds r1; refm := refm r1; more := N.clearbit (more r) i; have_pw := have_pw r1; ho := ho r1; acct := acct r1;
                timed_out := timed_out r1; complete := complete r1; soft_done := soft_done r1; responded := responded r1 |}
      else (r, [])
  | EModes ho' =>
      let h := if ho' && negb (ho r) && negb (acct r) then holds r + 1
               else if negb ho' && ho r && negb (acct r) then holds r - 1 else holds r in
      gate {| soft := soft r; holds := h; refm := refm r; more := more r; have_pw := true; ho := ho'; acct := acct r;
              timed_out := timed_out r; complete := complete r; soft_done := soft_done r; responded := responded r |}
  | ETimeout =>
      gate {| soft := 0; holds := holds r; refm := refm r; more := more r; have_pw := have_pw r; ho := ho r; acct := acct r;
              timed_out := true; complete := complete r; soft_done := soft_done r; responded := responded r |}
  | EData c =>
      gate {| soft := soft r; holds := holds r; refm := refm r; more := more r; have_pw := have_pw r; ho := ho r; acct := acct r;
              timed_out := timed_out r; complete := complete r || c; soft_done := soft_done r; responded := responded r |}
  end.

Definition init : creq := {| soft := 0; holds := 0; refm := 0; more := 0; have_pw := false; ho := false; acct := false;
                             timed_out := false; complete := false; soft_done := false; responded := false |}.

(* ---- spec-level readiness: no counters ---- *)
Definition ready (r : creq) : bool :=
  complete r && negb (ho r && negb (acct r)) && ((refm r =? 0)%N || timed_out r).

Definition Inv (r : creq) : Prop :=
  holds r = (if ho r && negb (acct r) then 1 else 0) /\
  (timed_out r = false -> soft r = (if (refm r =? 0)%N then 0 else 1)).

Lemma setbit_nz a i : N.setbit a i <> 0%N.
Proof. intro H. assert (N.testbit (N.setbit a i) i = true) by apply N.setbit_eq. rewrite H in H0. now rewrite N.bits_0 in H0. Qed.

Lemma inv_init : Inv init. Proof. split; reflexivity. Qed.

Ltac crush :=
  repeat match goal with
  | |- context [if ?b then _ else _] => destruct b eqn:?
  | H : context [if ?b then _ else _] |- _ => destruct b eqn:?
  end; simpl in *; try lia; try congruence.

Ltac bash :=
  repeat (simpl in *; match goal with
  | H : _ /\ _ |- _ => destruct H
  | |- context [(?a =? ?b)%Z] => destruct (Z.eqb_spec a b)
  | |- context [(?a =? ?b)%N] => destruct (N.eqb_spec a b)
  | H : context [(?a =? ?b)%Z] |- _ => destruct (Z.eqb_spec a b)
  | H : context [(?a =? ?b)%N] |- _ => destruct (N.eqb_spec a b)
  | b : bool |- _ => destruct b
  | H : ?x = ?x -> _ |- _ => specialize (H eq_refl)
  | H : _ \/ _ |- _ => destruct H
  end); simpl in *; try tauto; try lia; try congruence; auto.

Lemma gate_inv r : Inv r -> Inv (fst (gate r)).
Proof. destruct r; unfold gate, Inv; simpl; intros; bash; split; intros; bash. Qed.

Lemma gate_no_stuck r : Inv r -> responded r = false ->
  responded (fst (gate r)) = false -> ready (fst (gate r)) = false.
Proof. destruct r; unfold gate, Inv, ready; simpl; intros; bash. Qed.

Lemma gate_accept_sound r : Inv r -> responded r = false -> In OAccept (snd (gate r)) -> ready r = true.
Proof. destruct r; unfold gate, Inv, ready; simpl; intros; bash. Qed.

Lemma send_inv r i : Inv r -> Inv (send r i).
Proof.
  unfold Inv, send; simpl. intros [H1 H2]. split; [exact H1|]. intros Ht. specialize (H2 Ht).
  assert (N.setbit (refm r) i =? 0 = false)%N as -> by (apply N.eqb_neq, setbit_nz).
  destruct (refm r =? 0)%N; lia.
Qed.

Lemma release_inv r i : N.testbit (refm r) i = true -> Inv r -> Inv (release r i).
Proof.
  unfold Inv, release; simpl. intros Hb [H1 H2]. split; [exact H1|]. intros Ht. specialize (H2 Ht).
  assert (refm r =? 0 = false)%N as E.
  { apply N.eqb_neq. intro Z. rewrite Z, N.bits_0 in Hb. discriminate. }
  rewrite E in H2. destruct (N.clearbit (refm r) i =? 0)%N; lia.
Qed.

Theorem step_inv r e : Inv r -> Inv (fst (step r e)).
Proof.
  intros HI. unfold step. destruct (responded r) eqn:Hr; [exact HI|].
  destruct e as [i|i v|i|i|h|?|c].
  - apply gate_inv, send_inv, HI.
  - destruct (N.testbit (refm r) i) eqn:Hb; [|exact HI]. apply gate_inv.
    destruct v.
    + apply release_inv; [exact Hb|]. destruct HI as [H1 H2]. split; simpl; [|exact H2].
      rewrite andb_false_r. destruct (ho r && negb (acct r)); lia.
    + apply release_inv; assumption.
  - destruct (N.testbit (refm r) i) eqn:Hb; [|exact HI]. apply gate_inv.
    apply (release_inv _ i); [exact Hb|]. destruct HI as [H1 H2]. split; simpl; assumption.
  - destruct (N.testbit (more r) i) eqn:Hb; [|exact HI]. apply gate_inv.
    pose proof (send_inv r i HI) as [S1 S2]. split; simpl; assumption.
  - apply gate_inv. destruct HI as [H1 H2]. split; simpl; [|exact H2].
    destruct h, (ho r), (acct r); simpl in *; lia.
  - apply gate_inv. destruct HI as [H1 H2]. split; simpl; [exact H1|discriminate].
  - apply gate_inv. destruct HI as [H1 H2]. split; simpl; assumption.
Qed.

Theorem run_inv es : Inv (fold_left (fun r e => fst (step r e)) es init).
Proof.
  assert (forall r, Inv r -> Inv (fold_left (fun r e => fst (step r e)) es r)) as G.
  { induction es as [|e es IH]; intros r Hr; cbn [fold_left]; [exact Hr|]. apply IH, step_inv, Hr. }
  apply G, inv_init.
Qed.
Print Assumptions run_inv.
Print Assumptions gate_no_stuck.
Print Assumptions gate_accept_sound.
