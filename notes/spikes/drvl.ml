(* driver: reads a case file, prints the model's output lines per step, each step closed by a line "--" *)
open Line_model
let b_of_char (c : char) : byte = Obj.magic (Char.code c)
let char_of_b (b : byte) : char = Char.chr (Obj.magic b : int)
let explode s = List.init (String.length s) (fun i -> b_of_char s.[i])
let implode l = let b = Buffer.create 64 in List.iter (fun x -> Buffer.add_char b (char_of_b x)) l; Buffer.contents b
let rec pos_of_int n = if n = 1 then XH else if n land 1 = 0 then XO (pos_of_int (n lsr 1)) else XI (pos_of_int (n lsr 1))
let z_of_int n = if n = 0 then Z0 else if n > 0 then Zpos (pos_of_int n) else Zneg (pos_of_int (-n))
let split_tab s = String.split_on_char '\t' s
let stype = function "login" -> Login | "login-ipr" -> LoginIpr | "dronecheck" -> Drone | _ -> Combined
let opt s = if s = "-" then None else Some (explode s)
let () =
  let ic = open_in Sys.argv.(1) in
  let rec cases () =
    match input_line ic with
    | exception End_of_file -> ()
    | hdr ->
      (* CASE <timeout 0/1> ; then S lines, R lines, E lines, END *)
      let tm = (List.nth (String.split_on_char ' ' hdr) 1) = "1" in
      let svcs = ref [] and rules = ref [] and evs = ref [] in
      let rec body () =
        let l = input_line ic in
        if l = "END" then () else begin
          (match split_tab l with
           | "S" :: n :: t :: [] -> svcs := (explode n, stype t) :: !svcs
           | "R" :: n :: k :: g :: tr :: [] -> rules := { r_name = explode n; r_class = opt k; r_acct = opt g; r_trust = (tr = "1") } :: !rules
           | "L" :: hx :: [] -> evs := (List.init (String.length hx / 2) (fun i -> b_of_char (Char.chr (int_of_string ("0x" ^ String.sub hx (2*i) 2))))) :: !evs
           | "L" :: [] -> evs := [] :: !evs
           | _ -> failwith ("bad line " ^ l));
          body () end in
      body ();
      let c = { svcs = List.rev !svcs; rules = List.rev !rules; has_timeout = tm } in
      let outs = run_lines c (List.rev !evs) in
      List.iter (fun o -> List.iter (fun l -> print_endline (implode l)) o; print_endline "--") outs;
      print_endline "==";
      cases () in
  cases ()
