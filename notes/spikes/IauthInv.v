(* Spike: the hold-accounting invariant on the full executable model (Iauth.v), every reachable table entry. *)
From Coq Require Import List NArith ZArith Bool Strings.Byte Strings.String Lia.
Import ListNotations.
Require Import Iauth.
Local Open Scope string_scope.
Local Open Scope list_scope.
Local Open Scope Z_scope.

Definition Inv (r : req) : Prop :=
  holds r = (if ho r && negb (nonempty (acct r)) then 1 else 0) /\
  (f_tout r = false -> soft r = (if (refm r =? 0)%N then 0 else 1)).

Lemma setbit_nz a i : N.setbit a i <> 0%N.
Proof. intro H. assert (N.testbit (N.setbit a i) i = true) as T by apply N.setbit_eq. rewrite H, N.bits_0 in T. discriminate. Qed.

Ltac nz := repeat match goal with
  | |- context [(N.setbit ?a ?i =? 0)%N] => rewrite (proj2 (N.eqb_neq (N.setbit a i) 0%N) (setbit_nz a i))
  | H : context [(N.setbit ?a ?i =? 0)%N] |- _ => rewrite (proj2 (N.eqb_neq (N.setbit a i) 0%N) (setbit_nz a i)) in H
  end.

Lemma qpass_inv ss : forall slot ispw r outs, Inv r -> Inv (fst (qpass ss slot ispw r outs)).
Proof.
  induction ss as [|[name t] rest IH]; intros slot ispw r outs HI; cbn [qpass]; [exact HI|].
  match goal with |- context [if ?c then _ else _] => destruct c end; [apply IH; exact HI|].
  apply IH. destruct HI as [H1 H2]. split; cbn [holds ho acct soft refm f_tout]; [exact H1|].
  intros Ht. specialize (H2 Ht). nz. destruct (refm r =? 0)%N; lia.
Qed.

Lemma cont_inv ss : forall slot t r outs, Inv r -> Inv (fst (cont ss slot t r outs)).
Proof.
  induction ss as [|[name ty] rest IH]; intros slot t r outs HI; cbn [cont]; [exact HI|].
  destruct (N.testbit (more r) slot); [|apply IH; exact HI].
  apply IH. destruct HI as [H1 H2]. split; cbn [holds ho acct soft refm f_tout]; [exact H1|].
  intros Ht. specialize (H2 Ht). nz. destruct (refm r =? 0)%N; lia.
Qed.

Lemma gate_inv c r : Inv r -> match fst (gate c r) with Some r' => Inv r' | None => True end.
Proof.
  intros HI. unfold gate.
  destruct ((holds r =? 0) && f_host r && f_ident r && f_nick r && f_user r); [|exact HI].
  destruct ((soft r =? 0) || f_tout r).
  - destruct (classify (rules c) r). exact I.
  - destruct (negb (f_sdone r)); [|exact HI]. exact HI.
Qed.

Lemma find_slot_bit ss : forall slot name mask s t, find_slot ss slot name mask = Some (s, t) -> N.testbit mask s = true.
Proof.
  induction ss as [|[n ty] rest IH]; intros slot name mask s t H; cbn [find_slot] in H; [discriminate|].
  destruct (N.testbit mask slot && seq_eq n name) eqn:E.
  - inversion H; subst. apply andb_true_iff in E. tauto.
  - eapply IH; eauto.
Qed.

(* release of an awaited slot, optionally vouching an account *)
Lemma release_inv r slot mr na h :
  N.testbit (refm r) slot = true -> Inv r ->
  (match na with
   | None => h = holds r
   | Some a => nonempty a = true /\ h = (if ho r && negb (nonempty (acct r)) then holds r - 1 else holds r)
   end) ->
  Inv (release r slot mr na h).
Proof.
  intros Hb [H1 H2] Hh. unfold release, Inv; cbn [holds ho acct soft refm f_tout].
  assert ((refm r =? 0)%N = false) as E.
  { apply N.eqb_neq. intro Z. rewrite Z, N.bits_0 in Hb. discriminate. }
  split.
  - destruct na as [a|]; [destruct Hh as [Ha Hh]; rewrite Ha; subst h; rewrite andb_false_r; destruct (ho r && negb (nonempty (acct r))); lia | subst h; exact H1].
  - intros Ht. specialize (H2 Ht). rewrite E in H2. destruct (N.clearbit (refm r) slot =? 0)%N; lia.
Qed.

Lemma nonempty_firstn64 a : nonempty a = true -> nonempty (firstn 64 a) = true.
Proof. destruct a; [discriminate|reflexivity]. Qed.

Lemma reply_inv c r svc tx : Inv r -> match fst (reply c r svc tx) with Some r' => Inv r' | None => True end.
Proof.
  intros HI. unfold reply.
  destruct (find_slot (svcs c) 0 svc (refm r)) as [[slot t]|] eqn:Ef; [|exact HI].
  pose proof (find_slot_bit _ _ _ _ _ _ Ef) as Hb.
  assert (forall mr, Inv (release r slot mr None (holds r))) as R0 by (intros; apply release_inv; auto).
  destruct tx as [tx|].
  - destruct (seq_eq tx (S_ "OK")); [apply gate_inv, R0|].
    destruct (prefix (S_ "OK ") tx).
    + destruct (negb (nonempty (upto sp (skipn 3 tx))) || is_drone t) eqn:Ea; [apply gate_inv, R0|].
      apply orb_false_iff in Ea as [Ea _]. apply negb_false_iff in Ea.
      match goal with |- context [gate c ?x] => pose proof (gate_inv c x) as G; destruct (gate c x) as [r' g] end.
      cbn [fst] in *. apply G. apply release_inv; auto. split; [apply nonempty_firstn64; exact Ea|reflexivity].
    + destruct (prefix (S_ "NO ") tx); [exact I|].
      destruct (prefix (S_ "AGAIN ") tx).
      { match goal with |- context [gate c ?x] => pose proof (gate_inv c x) as G; destruct (gate c x) as [r' g] end. cbn [fst] in *. apply G, R0. }
      destruct (prefix (S_ "MORE ") tx); [|exact HI].
      match goal with |- context [gate c ?x] => pose proof (gate_inv c x) as G; destruct (gate c x) as [r' g] end. cbn [fst] in *. apply G, R0.
  - match goal with |- context [gate c ?x] => pose proof (gate_inv c x) as G; destruct (gate c x) as [r' g] end. cbn [fst] in *. apply G, R0.
Qed.

Lemma password_inv c r t : Inv r -> Inv (fst (password c r t)).
Proof.
  intros HI. unfold password.
  destruct ((more r =? 0)%N || negb (nonempty (pw r))); [|apply cont_inv; exact HI].
  destruct (negb (starts t x2b || starts t x2d)); [exact HI|].
  destruct (modes _ _ _ _ _ _ _) as [[[[[rest0 sx] cx] sb] cb]|]; [|exact HI].
  destruct (negb (has sp (skipsp rest0))); [exact HI|].
  apply qpass_inv. destruct HI as [H1 H2]. unfold with_pw, Inv; cbn [holds ho acct soft refm f_tout]. split; [|exact H2].
  destruct sb, cb, (ho r), (nonempty (acct r)); simpl in *; lia.
Qed.
Print Assumptions reply_inv.
Print Assumptions password_inv.

(* ---------- table level ---------- *)
Definition TInv (s : st) : Prop := Forall Inv (reqs s).

Lemma remove_inv id l : Forall Inv l -> Forall Inv (remove id l).
Proof. induction 1 as [|r t Hr Ht IH]; simpl; [constructor|]. destruct (cid r =? id); [exact Ht|constructor; assumption]. Qed.
Lemma put_inv r l : Inv r -> Forall Inv l -> Forall Inv (put r l).
Proof. intros. unfold put. constructor; [assumption|apply remove_inv; assumption]. Qed.
Lemma lookup_inv id l r : Forall Inv l -> lookup id l = Some r -> Inv r.
Proof. induction 1 as [|x t Hx Ht IH]; simpl; [discriminate|]. destruct (cid x =? id); [intros E; inversion E; subst; exact Hx|exact IH]. Qed.

Lemma finish_inv s id res : TInv s -> match fst res with Some r' => Inv r' | None => True end -> TInv (fst (finish s id res)).
Proof.
  intros HT Hr. unfold finish, TInv in *. destruct (fst res) as [r'|]; cbn [fst reqs].
  - apply put_inv; assumption.
  - apply remove_inv; assumption.
Qed.

Lemma after_inv c r ispw : Inv r -> match fst (after c r ispw) with Some r' => Inv r' | None => True end.
Proof.
  intros HI. unfold after.
  pose proof (qpass_inv (svcs c) 0%N ispw r [] HI) as Q. destruct (qpass (svcs c) 0%N ispw r []) as [r1 o]. cbn [fst] in Q.
  pose proof (gate_inv c r1 Q) as G. destruct (gate c r1) as [r2 g]. exact G.
Qed.

Lemma set_flags_inv r a b c d e : Inv r -> Inv (set_flags r a b c d e).
Proof. intros H; exact H. Qed.
Lemma with_fields_inv r h cu au ni re em : Inv r -> Inv (with_fields r h cu au ni re em).
Proof. intros H; exact H. Qed.
Lemma fresh_inv id sn a p tm : Inv (fresh id sn a p tm).
Proof. split; reflexivity. Qed.

Theorem step_inv c s id argv : TInv s -> TInv (fst (step c s id argv)).
Proof.
  intros HT. unfold step.
  destruct (beq (cmdchar argv) x43).
  { destruct (arg 1 argv), (arg 2 argv), (arg 3 argv), (arg 4 argv); try exact HT.
    unfold TInv; cbn [fst reqs]. apply put_inv; [apply fresh_inv|exact HT]. }
  destruct (beq (cmdchar argv) x58 || beq (cmdchar argv) x78).
  { destruct (arg 1 argv) as [svc|]; [|exact HT]. destruct (arg 2 argv) as [tg|]; [|exact HT]. destruct (arg 3 argv) as [tx|]; [|exact HT].
    destruct (parse_tag tg) as [[tid tser]|]; [|exact HT].
    destruct (lookup tid (reqs s)) as [r|] eqn:El; [|exact HT].
    destruct (ser r =? tser)%N; [|exact HT].
    apply finish_inv; [exact HT|]. apply reply_inv. eapply lookup_inv; eauto. }
  destruct (lookup id (reqs s)) as [r|] eqn:El; [|exact HT].
  pose proof (lookup_inv _ _ _ HT El) as HI.
  destruct (beq (cmdchar argv) x44 || beq (cmdchar argv) x54).
  { unfold TInv; cbn [fst reqs]. apply remove_inv; exact HT. }
  destruct (beq (cmdchar argv) x21).
  { match goal with |- context [if ?b then _ else _] => destruct b end; [|exact HT]. apply finish_inv; [exact HT|]. apply gate_inv.
    destruct HI as [H1 H2]. split; cbn [holds ho acct soft refm f_tout]; [exact H1|discriminate]. }
  destruct (beq (cmdchar argv) x4e).
  { destruct (arg 1 argv); [|exact HT]. destruct (nonempty (host r)); [exact HT|].
    apply finish_inv; [exact HT|]. apply after_inv, set_flags_inv, with_fields_inv, HI. }
  destruct (beq (cmdchar argv) x64).
  { apply finish_inv; [exact HT|]. apply after_inv, set_flags_inv, HI. }
  destruct (beq (cmdchar argv) x75).
  { destruct (arg 1 argv).
    - apply finish_inv; [exact HT|]. apply after_inv, set_flags_inv, with_fields_inv, HI.
    - destruct (nonempty (cliu r)); apply finish_inv; try exact HT; apply after_inv; [apply set_flags_inv|apply with_fields_inv]; exact HI. }
  destruct (beq (cmdchar argv) x6e).
  { destruct (arg 1 argv); [|exact HT]. apply finish_inv; [exact HT|]. apply after_inv, set_flags_inv, with_fields_inv, HI. }
  destruct (beq (cmdchar argv) x55).
  { destruct (arg 1 argv); [|exact HT]. destruct (arg 2 argv); [|exact HT].
    apply finish_inv; [exact HT|]. apply after_inv, set_flags_inv, with_fields_inv, HI. }
  destruct (beq (cmdchar argv) x48).
  { apply finish_inv; [exact HT|]. apply after_inv, set_flags_inv, HI. }
  destruct (beq (cmdchar argv) x50); [|exact HT].
  destruct (arg 1 argv) as [t|]; [|exact HT].
  pose proof (password_inv c (set_flags r (f_host r) (f_ident r) (f_nick r) (f_user r) true) t (set_flags_inv _ _ _ _ _ _ HI)) as P.
  destruct (password c _ t) as [r1 o]. cbn [fst] in P.
  pose proof (gate_inv c r1 P) as G. destruct (gate c r1) as [r2 g].
  apply finish_inv; [exact HT|exact G].
Qed.

Theorem run_inv c evs :
  TInv (fst (fold_left (fun acc e => let '(s, outs) := acc in let '(s', o) := step c s (fst e) (snd e) in (s', outs ++ [o]))
                       evs ({| reqs := []; next := 0%N |}, []))).
Proof.
  assert (forall acc, TInv (fst acc) ->
    TInv (fst (fold_left (fun acc e => let '(s, outs) := acc in let '(s', o) := step c s (fst e) (snd e) in (s', outs ++ [o])) evs acc))) as G.
  { induction evs as [|e evs IH]; intros [s outs] Hs; cbn [fold_left]; [exact Hs|].
    apply IH. pose proof (step_inv c s (fst e) (snd e) Hs) as P. destruct (step c s (fst e) (snd e)). exact P. }
  apply G. constructor.
Qed.
Print Assumptions run_inv.

(* ---------- the gate against the spec's notion of readiness (C02 / C03 on the full model) ---------- *)
Definition ready (r : req) : bool :=
  f_host r && f_ident r && f_nick r && f_user r && negb (ho r && negb (nonempty (acct r))) && ((refm r =? 0)%N || f_tout r).

Lemma gate_sound c r : Inv r -> fst (gate c r) = None -> ready r = true.
Proof.
  intros [H1 H2]. unfold gate, ready.
  destruct (f_host r), (f_ident r), (f_nick r), (f_user r); rewrite ?andb_false_r; cbn [andb]; try discriminate.
  destruct (holds r =? 0) eqn:Eh; cbn [andb]; [|discriminate].
  apply Z.eqb_eq in Eh.
  destruct (ho r && negb (nonempty (acct r))) eqn:Ehard; [lia|]. cbn [negb andb].
  destruct (f_tout r) eqn:Et; [intros _; apply orb_true_r|].
  specialize (H2 eq_refl). rewrite orb_false_r.
  destruct (soft r =? 0) eqn:Es.
  - intros _. apply Z.eqb_eq in Es. destruct (refm r =? 0)%N; [reflexivity|lia].
  - cbn [orb]. destruct (negb (f_sdone r)); discriminate.
Qed.

Lemma gate_not_stuck c r : Inv r -> match fst (gate c r) with Some r' => ready r' = false | None => True end.
Proof.
  intros [H1 H2]. unfold gate.
  destruct ((holds r =? 0) && f_host r && f_ident r && f_nick r && f_user r) eqn:Eg.
  - destruct ((soft r =? 0) || f_tout r) eqn:Es.
    + destruct (classify (rules c) r). exact I.
    + apply orb_false_iff in Es as [Es Et]. specialize (H2 Et). apply Z.eqb_neq in Es.
      assert ((refm r =? 0)%N = false) as Er by (destruct (refm r =? 0)%N; [lia|reflexivity]).
      destruct (negb (f_sdone r)); cbn [fst]; unfold ready, upd_hold; cbn [f_host f_ident f_nick f_user ho acct refm f_tout]; rewrite Er, Et; rewrite ?andb_false_r; reflexivity.
  - cbn [fst]. unfold ready.
    destruct (f_host r), (f_ident r), (f_nick r), (f_user r); rewrite ?andb_false_r in *; cbn [andb] in *; try reflexivity.
    destruct (holds r =? 0) eqn:Eh; [discriminate|]. apply Z.eqb_neq in Eh.
    destruct (ho r && negb (nonempty (acct r))); [reflexivity|lia].
Qed.
Print Assumptions gate_sound.
Print Assumptions gate_not_stuck.
