open Set_model
let rec int_of_pos = function XH -> 1 | XO p -> 2 * int_of_pos p | XI p -> 2 * int_of_pos p + 1
let int_of_z = function Z0 -> 0 | Zpos p -> int_of_pos p | Zneg p -> - (int_of_pos p)
let int_of_n = function N0 -> 0 | Npos p -> int_of_pos p
let rec pos_of_int n = if n = 1 then XH else if n land 1 = 0 then XO (pos_of_int (n lsr 1)) else XI (pos_of_int (n lsr 1))
let z_of_int n = if n = 0 then Z0 else if n > 0 then Zpos (pos_of_int n) else Zneg (pos_of_int (-n))
let rec int_of_nat = function O -> 0 | S n -> 1 + int_of_nat n
let el (k, t) = Printf.sprintf "%d#%d" (int_of_z k) (int_of_n t)
let rec shape = function Leaf -> "." | Node (l, k, r) -> "(" ^ shape l ^ el k ^ shape r ^ ")"
let () =
  let ops = ref [] in
  (try while true do
    let l = input_line stdin in
    match String.split_on_char ' ' l with
    | ["ins"; k] -> ops := OIns (z_of_int (int_of_string k)) :: !ops
    | ["find"; k] -> ops := OFind (z_of_int (int_of_string k)) :: !ops
    | ["lower"; k] -> ops := OLower (z_of_int (int_of_string k)) :: !ops
    | ["rem"; k; nd] -> ops := ORem (z_of_int (int_of_string k), nd = "1") :: !ops
    | ["clear"; nd] -> ops := OClear (nd = "1") :: !ops
    | _ -> ()
  done with End_of_file -> ());
  let (outs, left) = run (List.rev !ops) in
  List.iter (function
    | XIns -> print_endline "ins"
    | XFind None -> print_endline "find none" | XFind (Some e) -> print_endline ("find " ^ el e)
    | XLower None -> print_endline "lower none" | XLower (Some e) -> print_endline ("lower " ^ el e)
    | XRem b -> print_endline (if b then "rem 1" else "rem 0")
    | XClear -> print_endline "clear"
    | XDispose e -> print_endline ("dispose " ^ el e)
    | XShow (t, c, n) -> print_endline ("shape " ^ shape t);
        print_endline ("chain " ^ String.concat "" (List.map (fun e -> el e ^ " ") c) ^ Printf.sprintf "| count=%d walk=%d" (int_of_nat n) (List.length c))) outs;
  List.iter (fun e -> print_endline ("dispose " ^ el e)) left
