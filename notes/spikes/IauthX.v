Require Import Iauth.
Require Extraction. Require Import ExtrOcamlBasic.
Extraction "iauth_model.ml" run Build_cfg Build_rule Login LoginIpr Drone Combined.
