open Conf_model
let b_of_char (c : char) : byte = Obj.magic (Char.code c)
let char_of_b (b : byte) : char = Char.chr (Obj.magic b : int)
let explode s = List.init (String.length s) (fun i -> b_of_char s.[i])
let implode l = let b = Buffer.create 64 in List.iter (fun x -> Buffer.add_char b (char_of_b x)) l; Buffer.contents b
let read_file f = let ic = open_in_bin f in let n = in_channel_length ic in let s = really_input_string ic n in close_in ic; s
let () =
  for i = 1 to Array.length Sys.argv - 1 do
    List.iter (fun l -> print_endline (implode l)) (load_dump (explode (read_file Sys.argv.(i))));
    print_endline "=="
  done
