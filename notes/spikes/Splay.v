From Coq Require Import List ZArith Lia Bool.
Import ListNotations.
Local Open Scope Z_scope.

Section S.
Variable K : Type.
Variable cmp : K -> K -> Z.   (* cmp datum elem *)

Inductive tree := Leaf | Node (l : tree) (k : K) (r : tree).

Fixpoint inorder (t : tree) : list K :=
  match t with Leaf => [] | Node l k r => inorder l ++ k :: inorder r end.

(* Left assembly: frames (l_i, k_i) hung on the right spine, outermost first.
   asmL [(l1,k1);(l2,k2)] x = Node l1 k1 (Node l2 k2 x) *)
Fixpoint asmL (fs : list (tree * K)) (x : tree) : tree :=
  match fs with [] => x | (l, k) :: fs' => Node l k (asmL fs' x) end.
(* Right assembly: frames (k_i, r_i) hung on the left spine, outermost first *)
Fixpoint asmR (fs : list (K * tree)) (x : tree) : tree :=
  match fs with [] => x | (k, r) :: fs' => Node (asmR fs' x) k r end.

(* frames are accumulated innermost-first (cons at each link), so reverse when assembling *)
Definition finish (L : list (tree * K)) (R : list (K * tree)) (l : tree) (k : K) (r : tree) : tree :=
  Node (asmL (rev L) l) k (asmR (rev R) r).

(* One pass of the C loop; returns final tree and last comparison result. *)
Fixpoint splay_loop (fuel : nat) (d : K) (l : tree) (k : K) (r : tree)
         (L : list (tree * K)) (R : list (K * tree)) : tree * Z :=
  match fuel with
  | O => (finish L R l k r, cmp d k)
  | S f =>
    let res := cmp d k in
    if res =? 0 then (finish L R l k r, res)
    else if res <? 0 then
      match l with
      | Leaf => (finish L R l k r, res)
      | Node ll lk lr =>
        let res2 := cmp d lk in
        if res2 <? 0 then
          (* rotate right: node = y = (ll, lk, Node lr k r) *)
          match ll with
          | Leaf => (finish L R Leaf lk (Node lr k r), res2)
          | Node a b c => (* link right, descend into ll *)
            splay_loop f d a b c L ((lk, Node lr k r) :: R)
          end
        else (* link right current node, descend into l *)
          splay_loop f d ll lk lr L ((k, r) :: R)
      end
    else
      match r with
      | Leaf => (finish L R l k r, res)
      | Node rl rk rr =>
        let res2 := cmp d rk in
        if res2 >? 0 then
          match rr with
          | Leaf => (finish L R (Node l k rl) rk Leaf, res2)
          | Node a b c => splay_loop f d a b c ((Node l k rl, rk) :: L) R
          end
        else
          splay_loop f d rl rk rr ((l, k) :: L) R
      end
  end.

Fixpoint height (t : tree) : nat := match t with Leaf => 0 | Node l _ r => S (Nat.max (height l) (height r)) end.

Definition splay (d : K) (t : tree) : tree * Z :=
  match t with Leaf => (Leaf, 0) | Node l k r => splay_loop (height t) d l k r [] [] end.

Definition inL (fs : list (tree * K)) : list K := flat_map (fun f => inorder (fst f) ++ [snd f]) fs.
Definition inR (fs : list (K * tree)) : list K := flat_map (fun f => fst f :: inorder (snd f)) fs.

Lemma inorder_asmL fs x : inorder (asmL fs x) = inL fs ++ inorder x.
Proof. induction fs as [|[l k] fs IH]; simpl; auto. rewrite IH. rewrite <- ?app_assoc. reflexivity. Qed.

Lemma inorder_asmR fs x : inorder (asmR fs x) = inorder x ++ inR (rev fs).
Proof.
  induction fs as [|[k r] fs IH]; simpl. now rewrite app_nil_r.
  rewrite IH. unfold inR. rewrite flat_map_app. simpl. rewrite app_nil_r, <- app_assoc. reflexivity.
Qed.

Lemma inorder_finish L R l k r :
  inorder (finish L R l k r) = inL (rev L) ++ inorder l ++ k :: inorder r ++ inR R.
Proof.
  unfold finish. simpl. rewrite inorder_asmL, inorder_asmR, rev_involutive.
  rewrite <- ?app_assoc. reflexivity.
Qed.

Lemma inL_snoc fs l k : inL (fs ++ [(l, k)]) = inL fs ++ inorder l ++ [k].
Proof. unfold inL. rewrite flat_map_app. simpl. now rewrite app_nil_r. Qed.

Theorem splay_loop_inorder fuel d : forall l k r L R,
  inorder (fst (splay_loop fuel d l k r L R)) = inL (rev L) ++ inorder l ++ k :: inorder r ++ inR R.
Proof.
  induction fuel as [|f IH]; intros l k r L R; cbn [splay_loop].
  - apply inorder_finish.
  - destruct (cmp d k =? 0). { apply inorder_finish. }
    destruct (cmp d k <? 0).
    + destruct l as [|ll lk lr]. { apply inorder_finish. }
      destruct (cmp d lk <? 0).
      * destruct ll as [|a b c].
        -- cbn [fst]. rewrite inorder_finish. simpl. rewrite <- ?app_assoc. reflexivity.
        -- rewrite IH. simpl. unfold inR at 1. simpl. fold (inR R). rewrite <- ?app_assoc. simpl. rewrite <- ?app_assoc. reflexivity.
      * rewrite IH. simpl. rewrite <- ?app_assoc. simpl. reflexivity.
    + destruct r as [|rl rk rr]. { apply inorder_finish. }
      destruct (cmp d rk >? 0).
      * destruct rr as [|a b c].
        -- cbn [fst]. rewrite inorder_finish. simpl. rewrite <- ?app_assoc. simpl. rewrite <- ?app_assoc. reflexivity.
        -- rewrite IH. simpl. rewrite inL_snoc. simpl. rewrite <- ?app_assoc. simpl. rewrite <- ?app_assoc. reflexivity.
      * rewrite IH. simpl. rewrite inL_snoc. rewrite <- ?app_assoc. simpl. reflexivity.
Qed.

Theorem splay_inorder d t : inorder (fst (splay d t)) = inorder t.
Proof.
  destruct t as [|l k r]; [reflexivity|].
  unfold splay. rewrite splay_loop_inorder. cbn [rev inL inR flat_map app inorder]. now rewrite app_nil_r.
Qed.
End S.
Print Assumptions splay_inorder.
