Require Import Conf.
Require Extraction. Require Import ExtrOcamlBasic.
Extraction "conf_model.ml" load_dump.
