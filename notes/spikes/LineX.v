Require Import Iauth Line.
Require Extraction. Require Import ExtrOcamlBasic.
Extraction "line_model.ml" run_lines Build_cfg Build_rule Login LoginIpr Drone Combined.
