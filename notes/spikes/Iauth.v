(* Spike: executable model of iauth_core + iauth_xquery + iauth_class (repaired behaviour), pre-tokenized input,
   static configuration, address text taken as given.  Transcribed from notes/proto_iauth.py. *)
From Coq Require Import List NArith ZArith Bool Strings.Byte Strings.String Lia.
Import ListNotations.
Local Open Scope string_scope.
Local Open Scope list_scope.
Local Open Scope N_scope.

Definition str := list byte.

(* ---------- byte/string helpers (no constructor matching on bytes) ---------- *)
Definition beq (a b : byte) : bool := Byte.eqb a b.
Fixpoint seq_eq (a b : str) : bool :=
  match a, b with [], [] => true | x :: a', y :: b' => beq x y && seq_eq a' b' | _, _ => false end.
Definition sp := x20.
Definition S_ (s : String.string) : str := String.list_byte_of_string s.
Fixpoint prefix (p s : str) : bool :=
  match p, s with [] , _ => true | x :: p', y :: s' => beq x y && prefix p' s' | _ :: _, [] => false end.
Definition starts (s : str) (b : byte) : bool := match s with c :: _ => beq c b | [] => false end.
Fixpoint upto (b : byte) (s : str) : str := match s with [] => [] | c :: r => if beq c b then [] else c :: upto b r end.
Fixpoint has (b : byte) (s : str) : bool := match s with [] => false | c :: r => beq c b || has b r end.
Fixpoint join (sep : str) (l : list str) : str :=
  match l with [] => [] | [a] => a | a :: r => a ++ sep ++ join sep r end.

(* ---------- numbers ---------- *)
Definition digit (n : N) : byte := match Byte.of_N (48 + n) with Some b => b | None => x30 end.
Definition hexdigit (n : N) : byte := match Byte.of_N (if n <? 10 then 48 + n else 87 + n) with Some b => b | None => x30 end.
Fixpoint digits (fuel : nat) (base : N) (dg : N -> byte) (n : N) (acc : str) : str :=
  match fuel with O => acc | S f => let acc' := dg (n mod base) :: acc in if n / base =? 0 then acc' else digits f base dg (n / base) acc' end.
Definition dec (n : N) : str := digits 40 10 digit n [].
Definition hex (n : N) : str := digits 40 16 hexdigit n [].
Definition decZ (z : Z) : str := match z with Z0 => dec 0 | Zpos p => dec (Npos p) | Zneg p => x2d :: dec (Npos p) end.
(* "%x" of a C int: two's complement on 32 bits *)
Definition hexZ32 (z : Z) : str := hex (Z.to_N (z mod 4294967296)%Z).

(* ---------- configuration ---------- *)
Inductive stype := Login | LoginIpr | Drone | Combined.
Record rule := { r_name : str; r_class : option str; r_acct : option str; r_trust : bool }.
Record cfg := { svcs : list (str * stype); rules : list rule; has_timeout : bool }.

(* ---------- request ---------- *)
Record req := {
  cid : Z; ser : N; addr : str; port : N;
  f_host : bool; f_ident : bool; f_nick : bool; f_user : bool; f_pass : bool; f_empty : bool; f_tout : bool; f_sdone : bool;
  holds : Z; soft : Z;
  host : str; cliu : str; authu : str; nick : str; real : str; acct : str;
  hh : bool; ho : bool; sent : N; refm : N; more : N; pw : str; timer : bool }.

Definition set_flags r a b c d e := {| cid := cid r; ser := ser r; addr := addr r; port := port r;
  f_host := a; f_ident := b; f_nick := c; f_user := d; f_pass := e; f_empty := f_empty r; f_tout := f_tout r; f_sdone := f_sdone r;
  holds := holds r; soft := soft r; host := host r; cliu := cliu r; authu := authu r; nick := nick r; real := real r; acct := acct r;
  hh := hh r; ho := ho r; sent := sent r; refm := refm r; more := more r; pw := pw r; timer := timer r |}.

Definition pfx (r : req) : str := decZ (cid r) ++ [sp] ++ addr r ++ [sp] ++ dec (port r).
Definition tag (r : req) : str := hexZ32 (cid r) ++ [x5f] ++ hex (ser r).

(* structured output lines; `render` gives the bytes written to the server channel *)
Inductive out :=
| OX (name : str) (id : Z) (sr : N) (payload : str)          (* query carrying a routing tag *)
| OC (k : byte) (id : Z) (a : str) (p : N) (rest : str)      (* client-addressed message: k id addr port rest *)
| ORaw (s : str).
Definition render (o : out) : str :=
  match o with
  | OX n id sr pl => S_ "X " ++ n ++ [sp] ++ hexZ32 id ++ [x5f] ++ hex sr ++ S_ " :" ++ pl
  | OC k id a p rest => [k; sp] ++ decZ id ++ [sp] ++ a ++ [sp] ++ dec p ++ rest
  | ORaw t => t
  end.
Definition oc (k : byte) (r : req) (rest : str) : out := OC k (cid r) (addr r) (port r) rest.

(* ---------- query pass (iauth_xquery_check) ---------- *)
Definition username (r : req) : str :=
  firstn 10 (match authu r with _ :: _ => authu r | [] =>
              if starts (cliu r) x7e then cliu r else match cliu r with _ :: _ => x7e :: cliu r | [] => [] end end).

Definition prereq_ok (t : stype) (r : req) : bool :=
  match t with
  | Login => f_pass r
  | LoginIpr => f_host r && f_ident r && f_pass r
  | Drone | Combined => f_host r && f_ident r && f_nick r && f_user r
  end.
Definition is_drone t := match t with Drone => true | _ => false end.
Definition is_loginish t := match t with Login | LoginIpr => true | _ => false end.
Definition nonempty (s : str) : bool := match s with [] => false | _ => true end.

Definition xline (name : str) (r : req) (payload : str) : out := OX name (cid r) (ser r) payload.

Fixpoint qpass (ss : list (str * stype)) (slot : N) (is_pw : bool) (r : req) (outs : list out) : req * list out :=
  match ss with
  | [] => (r, outs)
  | (name, t) :: rest =>
    if (N.testbit (sent r) slot && (negb is_pw || is_drone t))
       || (is_loginish t && negb (nonempty (pw r)))
       || negb (prereq_ok t r)
    then qpass rest (slot + 1) is_pw r outs
    else
      let hostn := match host r with [] => addr r | _ => host r end in
      let o1 := match t with
                | Drone | Combined => [xline name r (S_ "CHECK " ++ nick r ++ [sp] ++ username r ++ [sp] ++ addr r ++ [sp] ++ hostn ++ S_ " :" ++ real r)]
                | _ => [] end in
      let o2 := if nonempty (pw r) then
                  match t with
                  | Login | Combined => [xline name r (S_ "LOGIN " ++ pw r)]
                  | LoginIpr => [xline name r (S_ "LOGIN2 " ++ addr r ++ [sp] ++ hostn ++ [sp] ++ username r ++ [sp] ++ pw r)]
                  | Drone => [] end
                else [] in
      let r' := {| cid := cid r; ser := ser r; addr := addr r; port := port r;
        f_host := f_host r; f_ident := f_ident r; f_nick := f_nick r; f_user := f_user r; f_pass := f_pass r; f_empty := f_empty r; f_tout := f_tout r; f_sdone := f_sdone r;
        holds := holds r; soft := if refm r =? 0 then (soft r + 1)%Z else soft r;
        host := host r; cliu := cliu r; authu := authu r; nick := nick r; real := real r; acct := acct r;
        hh := hh r; ho := ho r; sent := N.setbit (sent r) slot; refm := N.setbit (refm r) slot; more := more r; pw := pw r; timer := timer r |} in
      qpass rest (slot + 1) is_pw r' (outs ++ o1 ++ o2)
  end.

(* ---------- class rules ---------- *)
Fixpoint glob (fuel : nat) (p s : str) : bool :=
  match fuel with O => false | S f =>
  match p with
  | [] => match s with [] => true | _ => false end
  | c :: p' =>
    if beq c x2a then glob f p' s || match s with [] => false | _ :: s' => glob f p s' end
    else match s with [] => false | d :: s' => (beq c x3f || beq c d) && glob f p' s' end
  end end.
Definition fnm (p s : str) : bool := glob (2 * (List.length p + List.length s) + 2) p s.

Fixpoint classify (rs : list rule) (r : req) : list out * str :=     (* extra lines, class *)
  match rs with
  | [] => ([], [])
  | ru :: rest =>
    if match r_acct ru with Some g => fnm g (upto x3a (acct r)) | None => true end then
      let u := if starts (cliu r) x7e then tl (cliu r) else cliu r in
      let extra := if r_trust ru && starts (authu r) x7e && nonempty u then [oc x55 r (sp :: u)] else [] in
      (extra, firstn 62 (match r_class ru with Some c => c | None => r_name ru end))
    else classify rest r
  end.

(* ---------- the gate ---------- *)
Definition upd_hold (r : req) (h s : Z) (sd : bool) : req := {| cid := cid r; ser := ser r; addr := addr r; port := port r;
  f_host := f_host r; f_ident := f_ident r; f_nick := f_nick r; f_user := f_user r; f_pass := f_pass r; f_empty := f_empty r; f_tout := f_tout r; f_sdone := sd;
  holds := h; soft := s; host := host r; cliu := cliu r; authu := authu r; nick := nick r; real := real r; acct := acct r;
  hh := hh r; ho := ho r; sent := sent r; refm := refm r; more := more r; pw := pw r; timer := timer r |}.

(* returns (Some r' if still live | None if decided, lines) *)
Definition gate (c : cfg) (r : req) : option req * list out :=
  if (holds r =? 0)%Z && f_host r && f_ident r && f_nick r && f_user r then
    if (soft r =? 0)%Z || f_tout r then
      let '(extra, k) := classify (rules c) r in
      let kl := match k with [] => [] | _ => sp :: k end in
      let line := match acct r with [] => oc x44 r kl | _ => oc x52 r (sp :: acct r ++ kl) end in
      (None, extra ++ [line])
    else if negb (f_sdone r) then (Some (upd_hold r (holds r) (soft r) true), [oc x64 r []])
    else (Some r, [])
  else (Some r, []).

(* ---------- passwords ---------- *)
Fixpoint modes (fuel : nat) (t : str) (st : bool) (sx cx sb cb : bool) : option (str * bool * bool * bool * bool) :=
  match fuel with O => None | S f =>
  match t with
  | [] => None
  | c :: r =>
    if beq c sp then Some (t, sx, cx, sb, cb)
    else if beq c x2b then modes f r true sx cx sb cb
    else if beq c x2d then modes f r false sx cx sb cb
    else if beq c x78 then (if st then modes f r st true false sb cb else modes f r st false true sb cb)
    else if beq c x21 then (if st then modes f r st sx cx true false else modes f r st sx cx false true)
    else modes f r st sx cx sb cb
  end end.
Fixpoint skipsp (t : str) : str := match t with c :: r => if beq c sp then skipsp r else t | [] => [] end.

Definition with_pw (r : req) (hh' ho' : bool) (h : Z) (p : str) : req := {| cid := cid r; ser := ser r; addr := addr r; port := port r;
  f_host := f_host r; f_ident := f_ident r; f_nick := f_nick r; f_user := f_user r; f_pass := f_pass r; f_empty := f_empty r; f_tout := f_tout r; f_sdone := f_sdone r;
  holds := h; soft := soft r; host := host r; cliu := cliu r; authu := authu r; nick := nick r; real := real r; acct := acct r;
  hh := hh'; ho := ho'; sent := sent r; refm := refm r; more := more r; pw := p; timer := timer r |}.

Fixpoint cont (ss : list (str * stype)) (slot : N) (t : str) (r : req) (outs : list out) : req * list out :=
  match ss with
  | [] => (r, outs)
  | (name, _) :: rest =>
    if N.testbit (more r) slot then
      let r' := {| cid := cid r; ser := ser r; addr := addr r; port := port r;
        f_host := f_host r; f_ident := f_ident r; f_nick := f_nick r; f_user := f_user r; f_pass := f_pass r; f_empty := f_empty r; f_tout := f_tout r; f_sdone := f_sdone r;
        holds := holds r; soft := if refm r =? 0 then (soft r + 1)%Z else soft r;
        host := host r; cliu := cliu r; authu := authu r; nick := nick r; real := real r; acct := acct r;
        hh := hh r; ho := ho r; sent := sent r; refm := N.setbit (refm r) slot; more := N.clearbit (more r) slot; pw := pw r; timer := timer r |} in
      cont rest (slot + 1) t r' (outs ++ [xline name r (S_ "MORE " ++ t)])
    else cont rest (slot + 1) t r outs
  end.

Definition password (c : cfg) (r : req) (t : str) : req * list out :=
  if (more r =? 0) || negb (nonempty (pw r)) then
    if negb (starts t x2b || starts t x2d) then (r, []) else
    match modes (S (List.length t)) t false false false false false with
    | None => (r, [])
    | Some (rest0, sx, cx, sb, cb) =>
      let rest := skipsp rest0 in
      if negb (has sp rest) then (r, []) else
      let hh' := if sx then true else if cx then false else hh r in
      let ho' := if sb then true else if cb then false else ho r in
      let noacct := negb (nonempty (acct r)) in
      let h := if ho' && negb (ho r) && noacct then (holds r + 1)%Z
               else if negb ho' && ho r && noacct then (holds r - 1)%Z else holds r in
      qpass (svcs c) 0 true (with_pw r hh' ho' h (firstn 511 rest)) []
    end
  else cont (svcs c) 0 t r [].

(* ---------- replies ---------- *)
Fixpoint find_slot (ss : list (str * stype)) (slot : N) (name : str) (mask : N) : option (N * stype) :=
  match ss with
  | [] => None
  | (n, t) :: rest => if N.testbit mask slot && seq_eq n name then Some (slot, t) else find_slot rest (slot + 1) name mask
  end.

Definition release (r : req) (slot : N) (mr : bool) (newacct : option str) (h : Z) : req :=
  let rm := N.clearbit (refm r) slot in
  {| cid := cid r; ser := ser r; addr := addr r; port := port r;
     f_host := f_host r; f_ident := f_ident r; f_nick := f_nick r; f_user := f_user r; f_pass := f_pass r; f_empty := f_empty r; f_tout := f_tout r; f_sdone := f_sdone r;
     holds := h; soft := if rm =? 0 then (soft r - 1)%Z else soft r;
     host := host r; cliu := cliu r; authu := authu r; nick := nick r; real := real r;
     acct := match newacct with Some a => a | None => acct r end;
     hh := hh r; ho := ho r; sent := sent r; refm := rm; more := if mr then N.setbit (more r) slot else more r; pw := pw r; timer := timer r |}.

Definition unlinked_text := S_ "The login server is currently disconnected.  Please excuse the inconvenience.".

(* text = None for unlinked *)
Definition reply (c : cfg) (r : req) (svc : str) (text : option str) : option req * list out :=
  match find_slot (svcs c) 0 svc (refm r) with
  | None => (Some r, [])
  | Some (slot, t) =>
    match text with
    | None => let o := if is_drone t then [] else [oc x43 r (S_ " :" ++ unlinked_text)] in
              let '(r', g) := gate c (release r slot false None (holds r)) in (r', o ++ g)
    | Some tx =>
      if seq_eq tx (S_ "OK") then gate c (release r slot false None (holds r))
      else if prefix (S_ "OK ") tx then
        let a := upto sp (skipn 3 tx) in
        if negb (nonempty a) || is_drone t then gate c (release r slot false None (holds r))
        else
          let h := if ho r && negb (nonempty (acct r)) then (holds r - 1)%Z else holds r in
          let o := if hh r || ho r then [oc x4d r (S_ " :+x")] else [] in
          let '(r', g) := gate c (release r slot false (Some (firstn 64 a)) h) in (r', o ++ g)
      else if prefix (S_ "NO ") tx then (None, [oc x6b r (S_ " :" ++ skipn 3 tx)])
      else if prefix (S_ "AGAIN ") tx then
        let '(r', g) := gate c (release r slot false None (holds r)) in (r', [oc x43 r (S_ " :" ++ skipn 6 tx)] ++ g)
      else if prefix (S_ "MORE ") tx then
        let '(r', g) := gate c (release r slot true None (holds r)) in (r', [oc x43 r (S_ " :" ++ skipn 5 tx)] ++ g)
      else (Some r, [])
    end
  end.

(* ---------- table and dispatch ---------- *)
Record st := { reqs : list req; next : N }.
Fixpoint lookup (id : Z) (l : list req) : option req :=
  match l with [] => None | r :: t => if (cid r =? id)%Z then Some r else lookup id t end.
Fixpoint remove (id : Z) (l : list req) : list req :=
  match l with [] => [] | r :: t => if (cid r =? id)%Z then t else r :: remove id t end.
Definition put (r : req) (l : list req) : list req := r :: remove (cid r) l.

Definition fresh (id : Z) (s : N) (a : str) (p : N) (tm : bool) : req :=
  {| cid := id; ser := s; addr := a; port := p;
     f_host := false; f_ident := false; f_nick := false; f_user := false; f_pass := false; f_empty := false; f_tout := false; f_sdone := false;
     holds := 0%Z; soft := 0%Z; host := []; cliu := []; authu := []; nick := []; real := []; acct := [];
     hh := false; ho := false; sent := 0; refm := 0; more := 0; pw := []; timer := tm |}.

Definition with_fields (r : req) (h cu au ni re : str) (em : bool) : req := {| cid := cid r; ser := ser r; addr := addr r; port := port r;
  f_host := f_host r; f_ident := f_ident r; f_nick := f_nick r; f_user := f_user r; f_pass := f_pass r; f_empty := em; f_tout := f_tout r; f_sdone := f_sdone r;
  holds := holds r; soft := soft r; host := h; cliu := cu; authu := au; nick := ni; real := re; acct := acct r;
  hh := hh r; ho := ho r; sent := sent r; refm := refm r; more := more r; pw := pw r; timer := timer r |}.

Definition finish (s : st) (id : Z) (res : option req * list out) : st * list out :=
  match fst res with
  | Some r' => ({| reqs := put r' (reqs s); next := next s |}, snd res)
  | None => ({| reqs := remove id (reqs s); next := next s |}, snd res)
  end.

Definition after (c : cfg) (r : req) (is_pw : bool) : option req * list out :=
  let '(r1, o) := qpass (svcs c) 0 is_pw r [] in
  let '(r2, g) := gate c r1 in (r2, o ++ g).

(* parse "%x_%x" strictly: both parts non-empty hex (lenient C spellings are not modelled in the spike) *)
Definition hv (b : byte) : option N :=
  let n := Byte.to_N b in
  if (48 <=? n) && (n <=? 57) then Some (n - 48) else if (97 <=? n) && (n <=? 102) then Some (n - 87)
  else if (65 <=? n) && (n <=? 70) then Some (n - 55) else None.
Fixpoint hexnum (s : str) (acc : N) : option N :=
  match s with [] => Some acc | c :: r => match hv c with Some v => hexnum r (acc * 16 + v) | None => None end end.
Definition parse_tag (t : str) : option (Z * N) :=
  let a := upto x5f t in
  let b := skipn (S (List.length a)) t in
  if negb (has x5f t) || negb (nonempty a) || negb (nonempty b) then None else
  match hexnum a 0, hexnum b 0 with Some x, Some y => Some (Z.of_N x, y) | _, _ => None end.

Definition arg (n : nat) (argv : list str) : option str := nth_error argv n.
Definition cmdchar (argv : list str) : byte := match argv with (c :: _) :: _ => c | _ => x00 end.
Definition decnum (s : str) : N := fold_left (fun a c => let n := Byte.to_N c in if (48 <=? n) && (n <=? 57) then a * 10 + (n - 48) else a) s 0.

Definition step (c : cfg) (s : st) (id : Z) (argv : list str) : st * list out :=
  let ch := cmdchar argv in
  if beq ch x43 (* C *) then
    match arg 1 argv, arg 2 argv, arg 3 argv, arg 4 argv with
    | Some a, Some p, Some _, Some _ =>
        let sn := next s + 1 in
        ({| reqs := put (fresh id sn a (decnum p) (has_timeout c)) (reqs s); next := sn |}, [])
    | _, _, _, _ => (s, [])
    end
  else if beq ch x58 || beq ch x78 (* X x *) then
    match arg 1 argv, arg 2 argv, arg 3 argv with
    | Some svc, Some tg, Some tx =>
      match parse_tag tg with
      | None => (s, [])
      | Some (tid, tser) =>
        match lookup tid (reqs s) with
        | Some r => if ser r =? tser then finish s tid (reply c r svc (if beq ch x58 then Some tx else None)) else (s, [])
        | None => (s, [])
        end
      end
    | _, _, _ => (s, [])
    end
  else
  match lookup id (reqs s) with
  | None => (s, [])
  | Some r =>
    if beq ch x44 || beq ch x54 then ({| reqs := remove id (reqs s); next := next s |}, [])
    else if beq ch x21 (* ! timeout *) then
      if timer r && match arg 1 argv with Some a => seq_eq a (S_ "timeout") | None => false end then
        let r' := {| cid := cid r; ser := ser r; addr := addr r; port := port r;
          f_host := f_host r; f_ident := f_ident r; f_nick := f_nick r; f_user := f_user r; f_pass := f_pass r; f_empty := f_empty r; f_tout := true; f_sdone := f_sdone r;
          holds := holds r; soft := 0%Z; host := host r; cliu := cliu r; authu := authu r; nick := nick r; real := real r; acct := acct r;
          hh := hh r; ho := ho r; sent := sent r; refm := refm r; more := more r; pw := pw r; timer := false |} in
        finish s id (gate c r')
      else (s, [])
    else if beq ch x4e (* N *) then
      match arg 1 argv with
      | Some h => if nonempty (host r) then (s, []) else
                  finish s id (after c (set_flags (with_fields r (firstn 63 h) (cliu r) (authu r) (nick r) (real r) (f_empty r)) true (f_ident r) (f_nick r) (f_user r) (f_pass r)) false)
      | None => (s, [])
      end
    else if beq ch x64 (* d *) then finish s id (after c (set_flags r true (f_ident r) (f_nick r) (f_user r) (f_pass r)) false)
    else if beq ch x75 (* u *) then
      match arg 1 argv with
      | Some u => finish s id (after c (set_flags (with_fields r (host r) (cliu r) (firstn 10 u) (nick r) (real r) (f_empty r)) (f_host r) true (f_nick r) (f_user r) (f_pass r)) false)
      | None => if nonempty (cliu r) then finish s id (after c (set_flags r (f_host r) true (f_nick r) (f_user r) (f_pass r)) false)
                else finish s id (after c (with_fields r (host r) (cliu r) (authu r) (nick r) (real r) true) false)
      end
    else if beq ch x6e (* n *) then
      match arg 1 argv with
      | Some n => finish s id (after c (set_flags (with_fields r (host r) (cliu r) (authu r) (firstn 30 n) (real r) (f_empty r)) (f_host r) (f_ident r) true (f_user r) (f_pass r)) false)
      | None => (s, [])
      end
    else if beq ch x55 (* U *) then
      match arg 1 argv, arg 2 argv with
      | Some u, Some re =>
        let r1 := with_fields r (host r) (firstn 10 u) (authu r) (nick r) (firstn 50 re) (f_empty r) in
        finish s id (after c (set_flags r1 (f_host r) (f_ident r || f_empty r) (f_nick r) true (f_pass r)) false)
      | _, _ => (s, [ORaw (S_ "> :ircd sent garbage: <id> U without realname")])
      end
    else if beq ch x48 (* H *) then finish s id (after c (set_flags r true true true true (f_pass r)) false)
    else if beq ch x50 (* P *) then
      match arg 1 argv with
      | Some t => let '(r1, o) := password c (set_flags r (f_host r) (f_ident r) (f_nick r) (f_user r) true) t in
                  let '(r2, g) := gate c r1 in finish s id (r2, o ++ g)
      | None => (s, [])
      end
    else (s, [])
  end.

Definition run_out (c : cfg) (evs : list (Z * list str)) : list (list out) :=
  snd (fold_left (fun acc e => let '(s, outs) := acc in let '(s', o) := step c s (fst e) (snd e) in (s', outs ++ [o]))
                 evs ({| reqs := []; next := 0 |}, [])).

(* ---------- smoke test against lines the real daemon printed in the design phase ---------- *)
Definition run (c : cfg) (evs : list (Z * list str)) : list (list str) := map (map render) (run_out c evs).

Definition cfg1 := {| svcs := [(S_ "login.svc", Login); (S_ "login2.svc", Login)];
                      rules := [{| r_name := S_ "r500"; r_class := Some (S_ "dflt"); r_acct := None; r_trust := false |}];
                      has_timeout := false |}.
Definition show (l : list (list str)) := map (map String.string_of_list_byte) l.
Eval vm_compute in show (run cfg1
  [ (5%Z, [S_ "C"; S_ "1.2.3.4"; S_ "1234"; S_ "10.0.0.1"; S_ "6667"]);
    (5%Z, [S_ "P"; S_ "+! acct pass"]);
    ((-1)%Z, [S_ "X"; S_ "login.svc"; S_ "5_1"; S_ "OK acct:1"]);
    ((-1)%Z, [S_ "X"; S_ "login2.svc"; S_ "5_1"; S_ "OK acct:1"]);
    (5%Z, [S_ "H"]) ]).
