Require Import Conf ConfMerge.
Require Extraction. Require Import ExtrOcamlBasic.
Extraction "confm_model.ml" script.
