#!/usr/bin/env python3
"""Throw-away prototype: model of modules/iauth_misc.c (ntop as repaired by D2/D20) vs the real code."""
import itertools, random, subprocess, sys, socket

SPACE = set(b" \t\n\v\f\r")
HEXV = {c: int(chr(c), 16) for c in b"0123456789abcdefABCDEF"}
DIG = set(b"0123456789")
UNSPEC = object()

def ntop(g):   # g: list of 8 ints
    if g[0] == g[1] == g[2] == g[3] == g[4] == 0 and g[6] != 0 and g[5] in (0, 65535):
        ip = (g[6] << 16) | g[7]
        return "%u.%u.%u.%u" % (ip >> 24, (ip >> 16) & 255, (ip >> 8) & 255, ip & 255)
    ms = mz = cz = 0
    for i in range(8):
        if g[i] == 0: cz += 1
        else:
            if cz > mz: ms, mz = i - cz, cz
            cz = 0
    if cz > mz: ms, mz = 8 - cz, cz
    out = ""; i = 0
    while i < 8:
        if mz > 1 and i == ms:
            if i == 0: out += "0:"
            out += ":"; i += mz; continue
        out += "%x" % g[i]
        if i < 7: out += ":"
        i += 1
    return out

def pton_ip4(s, i0, usebits, trailing):
    """returns (len, ip, bits) or None; ip may be UNSPEC"""
    dots = 0; pos = 0; part = 0; ip = 0; bits = 32; unspec = False
    def ch(k): return s[i0 + k] if i0 + k < len(s) else 0
    def shl(p, d):
        nonlocal unspec
        sh = 24 - 8 * d
        if sh < 0: unspec = True; return 0
        return (p << sh) & 0xffffffff
    if ch(0) == 46: return None
    while True:
        c = ch(pos)
        if c == 46:
            pos += 1
            if ch(pos) == 46: return None
            ip |= shl(part, dots); dots += 1; part = 0
            if ch(pos) == 42:
                pos += 1
                while ch(pos) == 42: pos += 1
                if ch(pos) != 0: return None
                return (pos, UNSPEC if unspec else ip, dots * 8 if usebits else None)
        elif c == 47:
            if not usebits and trailing: pass
            elif not usebits or ch(pos + 1) not in DIG: return None
            else:
                bits = 0; pos += 1
                while ch(pos) in DIG: bits = (bits * 10 + ch(pos) - 48) & 0xffffffff; pos += 1
                if bits > 32: return None
            ip |= shl(part, dots); dots += 1
            return (pos, UNSPEC if unspec else ip, bits if usebits else None)
        elif c in DIG:
            part = part * 10 + c - 48; pos += 1
            if part > 255: return None
        else:
            if dots < 3: return None
            ip |= shl(part, dots); dots += 1
            return (pos, UNSPEC if unspec else ip, bits if usebits else None)

def pton(s, usebits, trailing):
    """s: bytes (no NUL). returns (ret, bits or None(unchanged), groups or UNSPEC)"""
    def ch(k): return s[k] if k < len(s) else 0
    g = [0] * 8; bits = None
    pos = 0
    while ch(pos) in SPACE and ch(pos) != 0: pos += 1
    colon = s.find(b":"); dot = s.find(b".")
    if colon >= 0 and (dot < 0 or dot > colon):
        part = 0; ii = 0; cpos = 8; ps = None
        if ch(pos) == 58:
            if ch(pos + 1) != 58 or ch(pos + 2) == 58: return (0, bits, g)
            cpos = 0; pos += 2; ps = pos
        fin = False
        while ii < 8:
            c = ch(pos)
            if c in HEXV:
                part = (part << 4) | HEXV[c]; pos += 1
                if part > 0xffff: return (0, bits, g)
            elif c == 58:
                pos += 1; ps = pos
                if ch(pos) == 46: return (0, bits, g)
                g[ii] = part; ii += 1; part = 0
                if ch(pos) == 58:
                    if cpos < 8: return (0, bits, g)
                    cpos = ii
            elif c == 46:
                r = pton_ip4(s, ps, usebits, trailing)
                if r is None or ii > 6: return (0, bits if r is None else (r[2] if r[2] is not None else bits), g)
                ln, ip, b4 = r
                if ip is UNSPEC: return (UNSPEC, None, UNSPEC)
                g[ii] = ip >> 16; g[ii + 1] = ip & 0xffff
                if usebits: bits = b4 + 96
                ii += 2; pos = ps + ln; fin = True; break
            elif c == 47:
                g[ii] = part; ii += 1
                if not usebits or ch(pos + 1) not in DIG:
                    if trailing: fin = True; break
                    return (0, bits, g)
                part = 0; pos += 1
                while ch(pos) in DIG: part = (part * 10 + ch(pos) - 48) & 0xffffffff; pos += 1
                if part > 128: return (0, bits, g)
                bits = part; fin = True; break
            elif c == 42:
                pos += 1
                while ch(pos) == 42: pos += 1
                if ch(pos) != 0 or cpos < 8: return (0, bits, g)
                if usebits: bits = ii * 16
                return (pos, bits, g)
            else:
                g[ii] = part; ii += 1
                if cpos == 8 and ii < 8: return (0, bits, g)
                if usebits: bits = 128
                fin = True; break
        if cpos < 8:
            n = ii - cpos
            for j in range(n): g[7 - j] = g[ii - j - 1]
            for j in range(8 - ii): g[cpos + j] = 0
    elif dot >= 0:
        r = pton_ip4(s, pos, usebits, trailing)
        if r is None and pos > 0: return (UNSPEC, None, UNSPEC)   # uninitialised ip4 is used
        if r is not None:
            ln, ip, b4 = r
            if ip is UNSPEC: return (UNSPEC, None, UNSPEC)
            pos += ln
        if r is not None and pos:
            g[5] = 65535; g[6] = ip >> 16; g[7] = ip & 0xffff
            if usebits: bits = b4 + 96
        elif r is not None and usebits:
            bits = b4        # *pbits written by helper, +96 skipped (pos == 0 cannot happen when r is not None, kept for fidelity)
    elif ch(pos) == 42:
        pos += 1
        while ch(pos) == 42: pos += 1
        if usebits: bits = 0
    if ch(pos) != 0 and not trailing: return (0, bits, g)
    return (pos, bits, g)

def check_mask(a, m, bits):
    ii = 0
    while ii < 8 and bits > 16:
        if a[ii] != m[ii]: return 0
        bits -= 16; ii += 1
    if ii < 8 and bits > 0 and ((a[ii] ^ m[ii]) >> (16 - bits)): return 0
    return 1

def hexg(g): return "".join("%04x" % x for x in g)

def main():
    seed = int(sys.argv[1]) if len(sys.argv) > 1 else 1
    rng = random.Random(seed)
    cmds = []; exp = []
    # --- ntop over the zero/short/long abstraction
    vals = [0, 1, 0x10, 0xabc, 0xffff]
    pats = list(itertools.product([0, 1, 2], repeat=8))
    for p in pats:
        g = [0 if x == 0 else (rng.choice([1, 0xf, 0x10, 0xff]) if x == 1 else rng.choice([0x100, 0xabc, 0x1000, 0xffff])) for x in p]
        t = ntop(g); cmds.append("ntop " + hexg(g)); exp.append(("ntop", g, t))
    for _ in range(3000):
        g = [rng.choice([0, 0, 0, 65535, rng.randrange(65536)]) for _ in range(8)]
        t = ntop(g); cmds.append("ntop " + hexg(g)); exp.append(("ntop", g, t))
    # --- pton strings
    alpha = b"019af:./* "
    strs = []
    for n in range(0, 5):
        for tup in itertools.product(alpha, repeat=n): strs.append(bytes(tup))
    for _ in range(60000):
        n = rng.randrange(5, 24)
        strs.append(bytes(rng.choice(b"0123456789abcdefABCDEF::::....//** g-") for _ in range(n)))
    for _ in range(20000):   # grammar-ish
        k = rng.random()
        if k < 0.3:
            s = ".".join(str(rng.choice([0, 1, 25, 255, 256, 99])) for _ in range(rng.choice([2, 3, 4, 4, 4, 5])))
        else:
            parts = ["%x" % rng.choice([0, 1, 0xabcd, 0xffff, 0x10000]) for _ in range(rng.randrange(0, 9))]
            if parts and rng.random() < 0.5: parts[rng.randrange(len(parts))] = ""
            s = ":".join(parts)
            if rng.random() < 0.2: s += ":1.2.3.4"
        if rng.random() < 0.4: s += rng.choice(["/0", "/8", "/32", "/33", "/64", "/128", "/129", "/a", "/", ".*", ":*", "*", "/08"])
        strs.append(s.encode())
    for s in strs:
        if b"\0" in s or b"\n" in s: continue
        for ub, tr in ((0, 0), (1, 0), (1, 1), (0, 1)):
            r = pton(s, ub, tr)
            cmds.append("pton %d %d %s" % (ub, tr, s.hex())); exp.append(("pton", s, ub, tr, r))
    # --- mask
    for _ in range(20000):
        a = [rng.randrange(65536) for _ in range(8)]
        m = list(a)
        for _ in range(rng.choice([0, 1, 1, 2])):
            i = rng.randrange(8); m[i] ^= 1 << rng.randrange(16)
        bits = rng.randrange(0, 129)
        cmds.append("mask %s %s %d" % (hexg(a), hexg(m), bits)); exp.append(("mask", a, m, bits, check_mask(a, m, bits)))
    p = subprocess.run(["/tmp/r/b/h_addr"], input=("\n".join(cmds) + "\n").encode(), stdout=subprocess.PIPE, stderr=subprocess.PIPE)
    got = p.stdout.decode().split("\n")[:-1]
    print("rc", p.returncode, "cmds", len(cmds), "got", len(got)); print(p.stderr.decode()[-1500:])
    bad = 0; rt_bad = 0; unspec = 0; accepted = 0
    for e, gl in zip(exp, got):
        f = gl.split(" ")
        if e[0] == "ntop":
            if f[2] != e[2] or int(f[1]) != len(e[2]):
                bad += 1; print("NTOP", e[1], "exp", e[2], "got", gl)
            # round trip through own parser model and libc
            r = pton(e[2].encode(), 0, 0)
            canon = list(e[1])
            if canon[0] == canon[1] == canon[2] == canon[3] == canon[4] == 0 and canon[6] != 0 and canon[5] in (0, 65535): canon[5] = 65535
            if r[0] != len(e[2]) or r[2] != canon or f[3] == "std=0" or f[4] != hexg(canon) or e[2].startswith(":") or len(e[2]) > 39:
                rt_bad += 1
                if rt_bad < 5: print("ROUNDTRIP", e[1], e[2], r, gl)
        elif e[0] == "pton":
            r = e[4]
            if r[0] is UNSPEC: unspec += 1; continue
            gb = int(f[2]); ga = f[3]
            eb = 777 if r[1] is None else r[1]
            if r[0]: accepted += 1
            if int(f[1]) != r[0] or gb != eb or ga != hexg(r[2]):
                bad += 1
                if bad < 10: print("PTON", e[1], e[2], e[3], "exp", r[0], eb, hexg(r[2]), "got", gl)
        else:
            if int(f[1]) != e[4]:
                bad += 1; print("MASK", e, gl)
    print("bad", bad, "roundtrip_bad", rt_bad, "unspec", unspec, "pton accepted", accepted)
main()
