/* throw-away harness for modules/iauth_misc.c */
#include "modules/iauth.h"
#include <arpa/inet.h>
struct event_base *ev_base; struct evdns_base *ev_dns; int clean_exit;
static int unhex(const char *h, unsigned char *out, int max) {
    int n = 0; unsigned v;
    while (h[0] && h[1] && n < max) { sscanf(h, "%2x", &v); out[n++] = v; h += 2; }
    return n;
}
static void put_addr(const irc_inaddr *a) { int i; for (i = 0; i < 16; i++) printf("%02x", a->in6_8[i]); }
int main(void) {
    char line[8192];
    ctype_init();
    while (fgets(line, sizeof line, stdin)) {
        char cmd[16], a1[4200], a2[64]; unsigned n1, n2;
        line[strcspn(line, "\n")] = 0;
        if (sscanf(line, "%15s", cmd) != 1) continue;
        if (!strcmp(cmd, "ntop")) {
            irc_inaddr a; char text[IRC_NTOP_MAX]; unsigned r; unsigned char b4[16]; int ok;
            sscanf(line, "%*s %4199s", a1); unhex(a1, a.in6_8, 16);
            r = irc_ntop(text, sizeof text, &a);
            ok = inet_pton(AF_INET6, text, b4);
            if (!ok) { unsigned char v4[4]; if (inet_pton(AF_INET, text, v4)) { memset(b4, 0, 10); b4[10] = b4[11] = 0xff; memcpy(b4 + 12, v4, 4); ok = 2; } }
            printf("ntop %u %s std=%d ", r, text, ok);
            if (ok) { int i; for (i = 0; i < 16; i++) printf("%02x", b4[i]); }
            putchar('\n');
        } else if (!strcmp(cmd, "pton")) {
            /* pton <usebits> <allow_trailing> <hex of string> */
            irc_inaddr a; unsigned bits = 777, r; unsigned char s[2100]; int len;
            a1[0] = 0;
            sscanf(line, "%*s %u %u %4199s", &n1, &n2, a1);
            len = unhex(a1, s, 2048); s[len] = 0;
            /* guard bytes to catch overruns cheaply in addition to ASan */
            r = irc_pton(&a, n1 ? &bits : NULL, (char*)s, n2);
            printf("pton %u %u ", r, bits); put_addr(&a); putchar('\n');
        } else if (!strcmp(cmd, "mask")) {
            irc_inaddr a, m; sscanf(line, "%*s %4199s %63s %u", a1, a2, &n1);
            unhex(a1, a.in6_8, 16); unhex(a2, m.in6_8, 16);
            printf("mask %u\n", irc_check_mask(&a, &m, n1));
        }
    }
    return 0;
}
