#!/usr/bin/env python3
"""Spike: extracted Coq parser (notes/spikes/Conf.v) vs src/config.c (first load into an empty tree)."""
import random, subprocess, sys, os
src = open('/tmp/r/b/proto_conf.py').read().replace("\nmain()\n", "\n")
ns = {}; exec(compile(src, 'proto_conf', 'exec'), ns)
gtree, render, corrupt = ns['gtree'], ns['render'], ns['corrupt']
rng = random.Random(int(sys.argv[1]) if len(sys.argv) > 1 else 1); n = int(sys.argv[2]) if len(sys.argv) > 2 else 300
os.makedirs('/tmp/r/b/cf', exist_ok=True)
files = []
for i in range(n):
    data = render(rng, gtree(rng, 0))
    if rng.random() < 0.3: data = corrupt(rng, data)
    fn = '/tmp/r/b/cf/f%d.conf' % i; open(fn, 'wb').write(data); files.append((fn, data))
p = subprocess.run(['/tmp/spike/drvc'] + [f for f, _ in files], stdout=subprocess.PIPE, stderr=subprocess.PIPE, timeout=300)
model = [c.split("\n")[:-1] for c in p.stdout.decode('latin1').split("==\n")[:-1]]
bad = ok = 0
for i, (fn, data) in enumerate(files):
    q = subprocess.run(['/tmp/r/b/h_conf'], input=("load %s\ndump\n" % fn).encode(), stdout=subprocess.PIPE, stderr=subprocess.PIPE, env={"ASAN_OPTIONS": "detect_leaks=0"}, timeout=30)
    got = q.stdout.decode('latin1').split("\n")[:-1]
    # drop the registered `logs` object (3 lines) and the END marker
    out = []; skip = 0
    for l in got:
        if l.startswith('"logs" k3 s1'): skip = 2; continue
        if skip: skip -= 1; continue
        if l == 'END': continue
        out.append(l)
    exp = model[i]
    if exp == ['LOAD ERR']: out = out[:1]
    else: ok += 1
    if q.returncode != 0 or out != exp:
        bad += 1; print("=== file", repr(data)); print(" coq ", exp[:6]); print(" impl", out[:6]); print(q.stderr.decode()[-300:])
        if bad > 3: break
print("files", n, "parsed ok", ok, "bad", bad, p.stderr.decode()[-200:])
