#!/usr/bin/env python3
"""Throw-away: C08 smoke fuzz of the repaired daemon: grammar-derived + mutated byte streams, ASan/UBSan/LSan, exit status."""
import random, subprocess, sys, re
rng = random.Random(int(sys.argv[1]) if len(sys.argv) > 1 else 1)
N = int(sys.argv[2]) if len(sys.argv) > 2 else 300
conf = '/tmp/r/b/fz.conf'
open(conf, 'w').write('core {\n library_path ( "/tmp/r/b/mods" )\n modules ( iauth_class, iauth_xquery )\n}\niauth { timeout 30 }\niauth_xquery {\n a.x login\n b.x dronecheck\n c.x combined\n d.x login-ipr\n}\niauth_class {\n "r1" { class c1; trust_username true; hostname "*.one" }\n "r2" { class c2 }\n}\n')
CMDS = "CDNdPUunHTEMXx?!"
def tok():
    k = rng.random()
    if k < 0.3: return rng.choice(["1.2.3.4", "0::1", "host.one", "nick", "~user", "1234", "a.x", "b.x", "c.x", "d.x", "5_1", "0_1", "1_2", "config", "stats", "stats2", "timeout", "OK", "+x", "-1"])
    if k < 0.5: return ":" + rng.choice(["OK acct", "OK", "NO bye", "MORE x", "AGAIN y", "+x! a b", "+! a b", "-! a b", "", " ", "OK ", "real name"])
    if k < 0.6: return "x" * rng.choice([1, 10, 11, 63, 64, 70, 511, 600, 1100, 5000])
    return bytes(rng.randrange(1, 256) for _ in range(rng.randrange(0, 8))).decode('latin1').replace("\n", "")
def line():
    k = rng.random()
    if k < 0.6:
        l = "%s %s" % (rng.choice(["0", "1", "5", "-1", "-1", "2147483647", "-2147483648", "99999999999999999999", "", "x", "0x5", " 3"]), rng.choice(CMDS + "QZ9 "))
        l += "".join(" " + tok() for _ in range(rng.randrange(0, 20 if rng.random() < 0.1 else 6)))
        return l
    if k < 0.8: return rng.choice(["%d C 1.2.3.4 %d 10.0.0.1 6667", "%d N h.one", "%d u ~id", "%d n nick", "%d U user :real", "%d H", "%d P :+x a b", "%d D", "%d T", "%d ! timeout"]) .replace("%d", str(rng.randrange(0, 3)), 1).replace("%d", "77")
    if k < 0.9: return "-1 X %s %x_%x :%s" % (rng.choice(["a.x", "b.x", "c.x", "d.x"]), rng.randrange(0, 3), rng.randrange(1, 9), rng.choice(["OK", "OK acc", "NO no", "MORE m", "AGAIN a", "zz"]))
    return bytes(rng.randrange(256) for _ in range(rng.randrange(0, 40))).decode('latin1')
bad = 0
for case in range(N):
    data = ("\n".join(line() for _ in range(rng.randrange(1, 60))) + "\n").encode('latin1')
    if rng.random() < 0.3: data = data[:rng.randrange(0, len(data) + 1)]
    if rng.random() < 0.2: data = data.replace(b"\n", b"\r\n")
    try:
        p = subprocess.run(['/tmp/r/b/iauthd-c', '-n', '-f', conf], input=data, stdout=subprocess.PIPE, stderr=subprocess.PIPE, timeout=30)
    except subprocess.TimeoutExpired:
        bad += 1; print("HANG case", case); open('/tmp/r/b/hang%d.bin' % case, 'wb').write(data); continue
    out = p.stdout.decode('latin1').split("\n")[:-1]
    # C09 line grammar (after the banner)
    wf = re.compile(r'^(V :.*|a|s|A \S+ :.*|S \S+ :.*|O \S+|> :.*|X \S+ [0-9a-f]+_[0-9a-f]+ :.*|[dD] -?\d+ \S+ \d+( \S+)?|R -?\d+ \S+ \d+ \S+( \S+)?|[kC] -?\d+ \S+ \d+ :.*|M -?\d+ \S+ \d+ :\+x|U -?\d+ \S+ \d+ \S+)$')
    illf = [l for l in out if not wf.match(l)]
    if p.returncode != 0 or b"ERROR" in p.stderr or illf:
        bad += 1; print("=== case", case, "rc", p.returncode, "ill-formed", illf[:3]); print(p.stderr.decode('latin1')[-600:])
        open('/tmp/r/b/crash%d.bin' % case, 'wb').write(data)
        if bad > 4: break
print("cases", N, "bad", bad)
